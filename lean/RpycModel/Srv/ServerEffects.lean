import RpycModel.Srv.ServerLemmas
/-
Part 2 (C16): what any server step may do — one relation `Eff s t T` ("from `s` to `t`, touching only the clients in
`T`") proved once for every function of the automaton, over the whole alphabet (hostile frames, stalled and failing
authentication, server close) and all four kinds.  From it: the configuration and, except for a one-shot server, the
listener / accept-loop flags never change; credentials never change; a client's phase never goes back to "waiting";
service instances and lent objects are allocated from counters (hence distinct); clients outside `T` keep their whole
record (containment).
-/
set_option linter.unusedSimpArgs false
set_option linter.unusedVariables false
set_option linter.unnecessarySimpa false
namespace Rpyc.Srv

def Live (p : Phase) : Prop :=
  p = .authing ∨ p = .idle ∨ p = .queued ∨ p = .blocked ∨ p = .done ∨ p = .closing

/-- how the record of one client may change (`c` in state `s`, `d` in state `t`) -/
structure CRel (s t : St) (c d : Cli) : Prop where
  /-- credentials are fixed, except that a client that connected without any may send them later -/
  cred : d.cred = c.cred ∨ c.cred = .silent
  phase : d.phase = c.phase ∨ Live d.phase
  inst : d.inst = c.inst ∨ ∃ a, d.inst = some a ∧ s.nextInst ≤ a ∧ a < t.nextInst
  table : ∀ o ∈ d.table, o ∈ c.table ∨ (s.nextObj ≤ o ∧ o < t.nextObj)

/-- the same record, up to membership of `Server.clients` being cleared (`clients.clear()` of the pool touches every
record and means nothing for a client that was not in the set) -/
def Same (c d : Cli) : Prop := d = c ∨ d = { c with tracked := false }

theorem Same.refl (c : Cli) : Same c c := Or.inl rfl
theorem Same.trans {c d e : Cli} (h1 : Same c d) (h2 : Same d e) : Same c e := by
  rcases h1 with rfl | rfl <;> rcases h2 with rfl | rfl
  · exact Or.inl rfl
  · exact Or.inr rfl
  · exact Or.inr rfl
  · exact Or.inr rfl

theorem Same.phase {c d : Cli} (h : Same c d) : d.phase = c.phase := by rcases h with rfl | rfl <;> rfl
theorem Same.inst {c d : Cli} (h : Same c d) : d.inst = c.inst := by rcases h with rfl | rfl <;> rfl

/-- everything allocated so far is below the counters -/
def Bound (s : St) : Prop :=
  (∀ j a, (s.cli j).inst = some a → a < s.nextInst) ∧ (∀ j o, o ∈ (s.cli j).table → o < s.nextObj)

structure Eff (s t : St) (T : Nat → Prop) : Prop where
  cfg : t.cfg = s.cfg
  flags : s.cfg.kind ≠ .oneshot → s.closedFlag = false →
    t.listening = s.listening ∧ t.active = s.active ∧ t.acceptAlive = s.acceptAlive ∧ t.closedFlag = s.closedFlag ∧
    t.poolUp = s.poolUp
  busy : (s.cfg.kind = .threaded ∨ s.cfg.kind = .forking ∨ ∀ j, (s.cli j).cred ≠ .silent) → s.closedFlag = false →
    s.acceptBusy = none → s.cfg.kind ≠ .oneshot → t.acceptBusy = none
  nI : s.nextInst ≤ t.nextInst
  nO : s.nextObj ≤ t.nextObj
  cli : ∀ j, CRel s t (s.cli j) (t.cli j)
  /-- containment: a client outside `T` that is not waiting in the pool's queue keeps its record -/
  frame : ∀ j, ¬ T j → j ∉ s.queue → Same (s.cli j) (t.cli j)
  queue : ∀ j ∈ t.queue, j ∈ s.queue ∨ T j
  /-- ... exactly, unless the server is a pool (whose `clients.clear()` rewrites every record) -/
  exact : s.cfg.kind ≠ .pool → ∀ j, ¬ T j → j ∉ s.queue → t.cli j = s.cli j
  /-- two clients share a service instance / an object id afterwards only if they did before -/
  uniqI : Bound s → ∀ i j a, (t.cli i).inst = some a → (t.cli j).inst = some a →
    i = j ∨ ((s.cli i).inst = some a ∧ (s.cli j).inst = some a)
  uniqO : Bound s → ∀ i j o, o ∈ (t.cli i).table → o ∈ (t.cli j).table →
    i = j ∨ (o ∈ (s.cli i).table ∧ o ∈ (s.cli j).table)

theorem CRel.refl (s t : St) (c : Cli) : CRel s t c c :=
  ⟨Or.inl rfl, Or.inl rfl, Or.inl rfl, fun _ h => Or.inl h⟩

theorem Eff.refl (s : St) (T : Nat → Prop) : Eff s s T :=
  ⟨rfl, fun _ _ => ⟨rfl, rfl, rfl, rfl, rfl⟩, fun _ _ h _ => h, Nat.le_refl _, Nat.le_refl _,
    fun j => CRel.refl s s _, fun _ _ _ => Same.refl _, fun _ h => Or.inl h, fun _ _ _ _ => rfl,
    fun _ i j a hi hj => Or.inr ⟨hi, hj⟩, fun _ i j o hi hj => Or.inr ⟨hi, hj⟩⟩

theorem Eff.bound {s t : St} {T : Nat → Prop} (e : Eff s t T) (b : Bound s) : Bound t := by
  refine ⟨?_, ?_⟩
  · intro j a h
    rcases (e.cli j).inst with h1 | ⟨a', h1, _, h3⟩
    · have := b.1 j a (by rw [← h1]; exact h); have := e.nI; omega
    · rw [h1] at h; cases h; exact h3
  · intro j o h
    rcases (e.cli j).table o h with h1 | ⟨_, h2⟩
    · have := b.2 j o h1; have := e.nO; omega
    · exact h2

theorem Eff.mono' {s t : St} {T T' : Nat → Prop} (e : Eff s t T) (h : ∀ j, T j → T' j ∨ j ∈ s.queue) : Eff s t T' :=
  { e with
    frame := fun j hj hq => e.frame j (fun hT => (h j hT).elim hj hq) hq
    queue := fun j hj => (e.queue j hj).elim Or.inl (fun hT => (h j hT).elim Or.inr Or.inl)
    exact := fun hk j hj hq => e.exact hk j (fun hT => (h j hT).elim hj hq) hq }

theorem Eff.mono {s t : St} {T T' : Nat → Prop} (e : Eff s t T) (h : ∀ j, T j → T' j) : Eff s t T' :=
  e.mono' (fun j hT => Or.inl (h j hT))

theorem CRel.trans {s t u : St} {c d e' : Cli} (h1 : CRel s t c d) (h2 : CRel t u d e') (hI : s.nextInst ≤ t.nextInst)
    (hI' : t.nextInst ≤ u.nextInst) (hO : s.nextObj ≤ t.nextObj) (hO' : t.nextObj ≤ u.nextObj) : CRel s u c e' := by
  refine ⟨?_, ?_, ?_, ?_⟩
  · rcases h1.cred with h | h
    · rcases h2.cred with h' | h'
      · exact Or.inl (h'.trans h)
      · exact Or.inr (h ▸ h')
    · exact Or.inr h
  · rcases h2.phase with h | h
    · rcases h1.phase with h' | h'
      · exact Or.inl (h.trans h')
      · exact Or.inr (h ▸ h')
    · exact Or.inr h
  · rcases h2.inst with h | ⟨a, ha, hl, hu⟩
    · rcases h1.inst with h' | ⟨a, ha, hl, hu⟩
      · exact Or.inl (h.trans h')
      · exact Or.inr ⟨a, h.trans ha, hl, by omega⟩
    · exact Or.inr ⟨a, ha, by omega, hu⟩
  · intro o ho
    rcases h2.table o ho with h | ⟨hl, hu⟩
    · rcases h1.table o h with h' | ⟨hl, hu⟩
      · exact Or.inl h'
      · exact Or.inr ⟨hl, by omega⟩
    · exact Or.inr ⟨by omega, hu⟩

theorem Eff.trans {s t u : St} {T T' : Nat → Prop} (e1 : Eff s t T) (e2 : Eff t u T') :
    Eff s u (fun j => T j ∨ T' j) := by
  have hk : t.cfg = s.cfg := e1.cfg
  refine ⟨e2.cfg.trans e1.cfg, ?_, ?_, Nat.le_trans e1.nI e2.nI, Nat.le_trans e1.nO e2.nO, ?_, ?_, ?_, ?_, ?_, ?_⟩
  · intro h1 h2
    obtain ⟨a1, a2, a3, a4, a5⟩ := e1.flags h1 h2
    obtain ⟨b1, b2, b3, b4, b5⟩ := e2.flags (by rw [hk]; exact h1) (by rw [a4]; exact h2)
    exact ⟨b1.trans a1, b2.trans a2, b3.trans a3, b4.trans a4, b5.trans a5⟩
  · intro h1 h2 h3 h4
    have hb := e1.busy h1 h2 h3 h4
    have hc := (e1.flags h4 h2).2.2.2.1
    refine e2.busy ?_ (by rw [hc]; exact h2) hb (by rw [hk]; exact h4)
    rcases h1 with h1 | h1 | h1
    · exact Or.inl (by rw [hk]; exact h1)
    · exact Or.inr (Or.inl (by rw [hk]; exact h1))
    · refine Or.inr (Or.inr (fun j => ?_))
      rcases (e1.cli j).cred with h | h
      · rw [h]; exact h1 j
      · exact absurd h (h1 j)
  · intro j; exact (e1.cli j).trans (e2.cli j) e1.nI e2.nI e1.nO e2.nO
  · intro j hj hq
    refine (e1.frame j (fun h => hj (Or.inl h)) hq).trans (e2.frame j (fun h => hj (Or.inr h)) ?_)
    intro hq'
    rcases e1.queue j hq' with h | h
    · exact hq h
    · exact hj (Or.inl h)
  · intro j hj
    rcases e2.queue j hj with h | h
    · rcases e1.queue j h with h' | h'
      · exact Or.inl h'
      · exact Or.inr (Or.inl h')
    · exact Or.inr (Or.inr h)
  · intro hkind j hj hq
    rw [e2.exact (by rw [hk]; exact hkind) j (fun h => hj (Or.inr h)) ?_, e1.exact hkind j (fun h => hj (Or.inl h)) hq]
    intro hq'
    rcases e1.queue j hq' with h | h
    · exact hq h
    · exact hj (Or.inl h)
  · intro b i j a hi hj
    rcases e2.uniqI (e1.bound b) i j a hi hj with h | ⟨h1, h2⟩
    · exact Or.inl h
    · exact e1.uniqI b i j a h1 h2
  · intro b i j o hi hj
    rcases e2.uniqO (e1.bound b) i j o hi hj with h | ⟨h1, h2⟩
    · exact Or.inl h
    · exact e1.uniqO b i j o h1 h2


/-- the client / allocation part of `Eff` alone (what `Server.close` also respects) -/
structure EffC (s t : St) (T : Nat → Prop) : Prop where
  cfg : t.cfg = s.cfg
  nI : s.nextInst ≤ t.nextInst
  nO : s.nextObj ≤ t.nextObj
  cli : ∀ j, CRel s t (s.cli j) (t.cli j)
  frame : ∀ j, ¬ T j → Same (s.cli j) (t.cli j)
  uniqI : Bound s → ∀ i j a, (t.cli i).inst = some a → (t.cli j).inst = some a →
    i = j ∨ ((s.cli i).inst = some a ∧ (s.cli j).inst = some a)
  uniqO : Bound s → ∀ i j o, o ∈ (t.cli i).table → o ∈ (t.cli j).table →
    i = j ∨ (o ∈ (s.cli i).table ∧ o ∈ (s.cli j).table)

theorem Eff.toC {s t : St} {T : Nat → Prop} (e : Eff s t T) : EffC s t (fun _ => True) :=
  ⟨e.cfg, e.nI, e.nO, e.cli, fun _ h => absurd trivial h, e.uniqI, e.uniqO⟩

theorem EffC.bound {s t : St} {T : Nat → Prop} (e : EffC s t T) (b : Bound s) : Bound t := by
  refine ⟨?_, ?_⟩
  · intro j a h
    rcases (e.cli j).inst with h1 | ⟨a', h1, _, h3⟩
    · have := b.1 j a (by rw [← h1]; exact h); have := e.nI; omega
    · rw [h1] at h; cases h; exact h3
  · intro j o h
    rcases (e.cli j).table o h with h1 | ⟨_, h2⟩
    · have := b.2 j o h1; have := e.nO; omega
    · exact h2

/-- for a one-shot server the flag clauses of `Eff` say nothing -/
theorem EffC.toEff_oneshot {s t : St} {T : Nat → Prop} (e : EffC s t T) (h : s.cfg.kind = .oneshot)
    (hq : ∀ j ∈ t.queue, j ∈ s.queue ∨ T j) (hall : ∀ j, T j) : Eff s t T :=
  ⟨e.cfg, fun h1 => absurd h h1, fun _ _ _ h4 => absurd h h4, e.nI, e.nO, e.cli, fun j hj _ => e.frame j hj, hq,
    fun _ j hj _ => absurd (hall j) hj, e.uniqI, e.uniqO⟩

/-- a map over all records that keeps credentials and instances, only finishes clients, and only shrinks tables -/
theorem EffC.map (s t : St) (f : Cli → Cli) (hc : ∀ c, (f c).cred = c.cred)
    (hp : ∀ c, (f c).phase = c.phase ∨ Live (f c).phase) (hi : ∀ c, (f c).inst = c.inst)
    (ht : ∀ c o, o ∈ (f c).table → o ∈ c.table) (e1 : t.cfg = s.cfg) (e2 : t.nextInst = s.nextInst)
    (e3 : t.nextObj = s.nextObj) (e4 : t.cli = (s.mapCli f).cli) : EffC s t (fun _ => True) := by
  have hcli : ∀ j, t.cli j = f (s.cli j) := fun j => by rw [e4]; rfl
  refine ⟨e1, by omega, by omega, ?_, fun j hj => absurd trivial hj, ?_, ?_⟩
  · intro j; rw [hcli]
    exact ⟨Or.inl (hc _), hp _, Or.inl (hi _), fun o ho => Or.inl (ht _ o ho)⟩
  · intro _ i j a h1 h2
    rw [hcli, hi] at h1 h2; exact Or.inr ⟨h1, h2⟩
  · intro _ i j o h1 h2
    rw [hcli] at h1 h2; exact Or.inr ⟨ht _ o h1, ht _ o h2⟩

/-- one record rewritten: same credentials and instance, phase kept or moved forward, table not grown -/
theorem Eff.set1' (s t : St) (k : Nat) (c' : Cli) (hcred : c'.cred = (s.cli k).cred ∨ (s.cli k).cred = .silent)
    (hph : c'.phase = (s.cli k).phase ∨ Live c'.phase) (hinst : c'.inst = (s.cli k).inst)
    (htab : ∀ o ∈ c'.table, o ∈ (s.cli k).table)
    (e1 : t.cfg = s.cfg) (e2 : t.listening = s.listening) (e3 : t.active = s.active)
    (e4 : t.acceptAlive = s.acceptAlive) (e5 : t.closedFlag = s.closedFlag) (e6 : t.poolUp = s.poolUp)
    (e7 : t.acceptBusy = s.acceptBusy) (e8 : t.nextInst = s.nextInst) (e9 : t.nextObj = s.nextObj)
    (e10 : t.cli = (s.set k c').cli) (e11 : t.queue = s.queue) : Eff s t (· = k) := by
  have hcli : ∀ j, j ≠ k → t.cli j = s.cli j := fun j hj => by rw [e10]; exact set_cli_ne _ _ _ _ hj
  have hk : t.cli k = c' := by rw [e10]; simp
  have hinst' : ∀ j, (t.cli j).inst = (s.cli j).inst := by
    intro j; by_cases hj : j = k
    · subst hj; rw [hk, hinst]
    · rw [hcli j hj]
  have htab' : ∀ j o, o ∈ (t.cli j).table → o ∈ (s.cli j).table := by
    intro j o ho; by_cases hj : j = k
    · subst hj; rw [hk] at ho; exact htab o ho
    · rw [hcli j hj] at ho; exact ho
  refine ⟨e1, fun _ _ => ⟨e2, e3, e4, e5, e6⟩, fun _ _ h _ => by rw [e7]; exact h, by omega, by omega, ?_,
    fun j hj _ => Or.inl (hcli j hj), fun j hj => Or.inl (e11 ▸ hj), fun _ j hj _ => hcli j hj, ?_, ?_⟩
  · intro j; by_cases hj : j = k
    · subst hj; rw [hk]; exact ⟨hcred, hph, Or.inl hinst, fun o ho => Or.inl (htab o ho)⟩
    · rw [hcli j hj]; exact CRel.refl _ _ _
  · intro _ i j a h1 h2; rw [hinst'] at h1 h2; exact Or.inr ⟨h1, h2⟩
  · intro _ i j o h1 h2; exact Or.inr ⟨htab' i o h1, htab' j o h2⟩


theorem Eff.set1 (s t : St) (k : Nat) (c' : Cli) (hcred : c'.cred = (s.cli k).cred)
    (hph : c'.phase = (s.cli k).phase ∨ Live c'.phase) (hinst : c'.inst = (s.cli k).inst)
    (htab : ∀ o ∈ c'.table, o ∈ (s.cli k).table)
    (e1 : t.cfg = s.cfg) (e2 : t.listening = s.listening) (e3 : t.active = s.active)
    (e4 : t.acceptAlive = s.acceptAlive) (e5 : t.closedFlag = s.closedFlag) (e6 : t.poolUp = s.poolUp)
    (e7 : t.acceptBusy = s.acceptBusy) (e8 : t.nextInst = s.nextInst) (e9 : t.nextObj = s.nextObj)
    (e10 : t.cli = (s.set k c').cli) (e11 : t.queue = s.queue) : Eff s t (· = k) :=
  Eff.set1' s t k c' (Or.inl hcred) hph hinst htab e1 e2 e3 e4 e5 e6 e7 e8 e9 e10 e11

/-- the same, with the accept thread possibly becoming occupied (`hb` = why the busy clause still holds) -/
theorem Eff.set1B (s t : St) (k : Nat) (c' : Cli) (hcred : c'.cred = (s.cli k).cred)
    (hph : c'.phase = (s.cli k).phase ∨ Live c'.phase) (hinst : c'.inst = (s.cli k).inst)
    (htab : ∀ o ∈ c'.table, o ∈ (s.cli k).table)
    (e1 : t.cfg = s.cfg) (e2 : t.listening = s.listening) (e3 : t.active = s.active)
    (e4 : t.acceptAlive = s.acceptAlive) (e5 : t.closedFlag = s.closedFlag) (e6 : t.poolUp = s.poolUp)
    (hb : (s.cfg.kind = .threaded ∨ s.cfg.kind = .forking ∨ ∀ j, (s.cli j).cred ≠ .silent) → t.acceptBusy = none)
    (e8 : t.nextInst = s.nextInst) (e9 : t.nextObj = s.nextObj)
    (e10 : t.cli = (s.set k c').cli) (e11 : t.queue = s.queue) : Eff s t (· = k) := by
  have e := Eff.set1 s { t with acceptBusy := s.acceptBusy } k c' hcred hph hinst htab e1 e2 e3 e4 e5 e6 rfl e8 e9 e10
    e11
  exact ⟨e1, fun _ _ => ⟨e2, e3, e4, e5, e6⟩, fun h1 _ _ _ => hb h1, by omega, by omega,
    fun j => ⟨(e.cli j).cred, (e.cli j).phase, (e.cli j).inst, (e.cli j).table⟩, e.frame, e.queue, e.exact, e.uniqI,
    e.uniqO⟩

/-- the record of `k` replaced by what serving its inbox made of it: objects come from the counter -/
theorem Eff.setServe (s t : St) (k : Nat) (c' : Cli) (n' : Nat) (hcred : c'.cred = (s.cli k).cred)
    (hph : c'.phase = (s.cli k).phase ∨ Live c'.phase) (hinst : c'.inst = (s.cli k).inst) (hn : s.nextObj ≤ n')
    (htab : ∀ o ∈ c'.table, o ∈ (s.cli k).table ∨ (s.nextObj ≤ o ∧ o < n'))
    (e1 : t.cfg = s.cfg) (e2 : t.listening = s.listening) (e3 : t.active = s.active)
    (e4 : t.acceptAlive = s.acceptAlive) (e5 : t.closedFlag = s.closedFlag) (e6 : t.poolUp = s.poolUp)
    (e7 : t.acceptBusy = s.acceptBusy) (e8 : t.nextInst = s.nextInst) (e9 : t.nextObj = n')
    (e10 : t.cli = (s.set k c').cli) (e11 : t.queue = s.queue) : Eff s t (· = k) := by
  have hcli : ∀ j, j ≠ k → t.cli j = s.cli j := fun j hj => by rw [e10]; exact set_cli_ne _ _ _ _ hj
  have hk : t.cli k = c' := by rw [e10]; simp
  have hinst' : ∀ j, (t.cli j).inst = (s.cli j).inst := by
    intro j; by_cases hj : j = k
    · subst hj; rw [hk, hinst]
    · rw [hcli j hj]
  refine ⟨e1, fun _ _ => ⟨e2, e3, e4, e5, e6⟩, fun _ _ h _ => by rw [e7]; exact h, by omega, by omega, ?_,
    fun j hj _ => Or.inl (hcli j hj), fun j hj => Or.inl (e11 ▸ hj), fun _ j hj _ => hcli j hj, ?_, ?_⟩
  · intro j; by_cases hj : j = k
    · subst hj; rw [hk]
      exact ⟨Or.inl hcred, hph, Or.inl hinst, fun o ho => by rw [e9]; exact htab o ho⟩
    · rw [hcli j hj]; exact CRel.refl _ _ _
  · intro _ i j a h1 h2; rw [hinst'] at h1 h2; exact Or.inr ⟨h1, h2⟩
  · intro b i j o h1 h2
    by_cases hi : i = k <;> by_cases hj : j = k
    · left; rw [hi, hj]
    · right; subst hi; rw [hcli j hj] at h2; rw [hk] at h1
      rcases htab o h1 with h | ⟨h, _⟩
      · exact ⟨h, h2⟩
      · have := b.2 j o h2; omega
    · right; subst hj; rw [hcli i hi] at h1; rw [hk] at h2
      rcases htab o h2 with h | ⟨h, _⟩
      · exact ⟨h1, h⟩
      · have := b.2 i o h1; omega
    · right; rw [hcli i hi] at h1; rw [hcli j hj] at h2; exact ⟨h1, h2⟩

/-- `built`: a fresh service instance from the counter -/
theorem built_eff (s : St) (k : Nat) : Eff s (built s k) (· = k) := by
  have hcli : ∀ j, j ≠ k → (built s k).cli j = s.cli j := fun j hj => by simp [built, set_cli_ne _ _ _ _ hj]
  have hk : ((built s k).cli k).inst = some s.nextInst := by simp [built]
  refine ⟨rfl, fun _ _ => ⟨rfl, rfl, rfl, rfl, rfl⟩, fun _ _ h _ => h, by simp [built], by simp [built], ?_,
    fun j hj _ => Or.inl (hcli j hj), fun j hj => Or.inl hj, fun _ j hj _ => hcli j hj, ?_, ?_⟩
  · intro j; by_cases hj : j = k
    · subst hj
      refine ⟨Or.inl (by simp [built]), Or.inr (by simp [built, Live]), Or.inr ⟨s.nextInst, hk, Nat.le_refl _, by simp [built]⟩, ?_⟩
      intro o ho; left; simpa [built] using ho
    · rw [hcli j hj]; exact CRel.refl _ _ _
  · intro b i j a h1 h2
    by_cases hi : i = k <;> by_cases hj : j = k
    · left; rw [hi, hj]
    · subst hi; rw [hk] at h1; cases h1; rw [hcli j hj] at h2
      have := b.1 j _ h2; omega
    · subst hj; rw [hk] at h2; cases h2; rw [hcli i hi] at h1
      have := b.1 i _ h1; omega
    · right; rw [hcli i hi] at h1; rw [hcli j hj] at h2; exact ⟨h1, h2⟩
  · intro _ i j o h1 h2
    have ht : ∀ j, ((built s k).cli j).table = (s.cli j).table := by
      intro j; by_cases hj : j = k
      · subst hj; simp [built]
      · rw [hcli j hj]
    rw [ht] at h1 h2; exact Or.inr ⟨h1, h2⟩

/-! ### serving an inbox -/

theorem endServe_cred (c : Cli) : (endServe c).cred = c.cred := by
  unfold endServe release closeConn; split <;> rfl
theorem endServe_table (c : Cli) (o : Nat) (h : o ∈ (endServe c).table) : o ∈ c.table := by
  unfold endServe release closeConn at h; split at h <;> simp_all
theorem endServeD_cred (c : Cli) : (endServeD c).cred = c.cred := by
  unfold endServeD endServe release closeConn; split <;> split <;> rfl
theorem endServeD_table (c : Cli) (o : Nat) (h : o ∈ (endServeD c).table) : o ∈ c.table := by
  unfold endServeD endServe release closeConn at h; split at h <;> split at h <;> simp_all
theorem endServeD_live (c : Cli) : Live (endServeD c).phase := by
  unfold endServeD endServe release; split <;> simp [Live]
theorem release_table (c : Cli) : (release c).table = c.table := rfl
theorem release_cred (c : Cli) : (release c).cred = c.cred := rfl
theorem release_inst (c : Cli) : (release c).inst = c.inst := rfl

/-- what serving does to a record -/
structure Served1 (c : Cli) (n : Nat) (r : Cli × Nat) : Prop where
  cred : r.1.cred = c.cred
  live : Live r.1.phase
  inst : r.1.inst = c.inst
  le : n ≤ r.2
  table : ∀ o ∈ r.1.table, o ∈ c.table ∨ (n ≤ o ∧ o < r.2)

theorem answer_served (c : Cli) (seq : Nat) (r : ReqKind) (n : Nat) :
    (answer c seq r n).1.cred = c.cred ∧ (answer c seq r n).1.inst = c.inst ∧ n ≤ (answer c seq r n).2 ∧
    ∀ o ∈ (answer c seq r n).1.table, o ∈ c.table ∨ (n ≤ o ∧ o < (answer c seq r n).2) := by
  cases r with
  | ping => exact ⟨rfl, rfl, Nat.le_refl _, fun o ho => Or.inl ho⟩
  | probe oid => exact ⟨rfl, rfl, Nat.le_refl _, fun o ho => Or.inl ho⟩
  | drop oid => exact ⟨rfl, rfl, Nat.le_refl _, fun o ho => Or.inl (List.mem_filter.mp ho).1⟩
  | arm => exact ⟨rfl, rfl, Nat.le_refl _, fun o ho => Or.inl ho⟩
  | lend =>
    refine ⟨rfl, rfl, Nat.le_succ _, ?_⟩
    intro o ho
    simp only [answer, List.mem_cons] at ho
    rcases ho with h | h
    · right; subst h; exact ⟨Nat.le_refl _, Nat.lt_succ_self _⟩
    · exact Or.inl h

theorem consume_served (l : List Item) (c : Cli) (n : Nat) : Served1 c n (consume l c n) := by
  induction l generalizing c n with
  | nil => exact ⟨rfl, by simp [consume, Live], rfl, Nat.le_refl _, fun o ho => Or.inl (by simpa [consume] using ho)⟩
  | cons it l ih =>
    cases it with
    | req seq r =>
      simp only [consume]
      obtain ⟨a1, a2, a3, a4⟩ := answer_served c seq r n
      have h := ih (answer c seq r n).1 (answer c seq r n).2
      refine ⟨h.cred.trans a1, h.live, h.inst.trans a2, Nat.le_trans a3 h.le, ?_⟩
      intro o ho
      rcases h.table o ho with h1 | ⟨h1, h2⟩
      · rcases a4 o h1 with h3 | ⟨h3, h4⟩
        · exact Or.inl h3
        · exact Or.inr ⟨h3, Nat.lt_of_lt_of_le h4 h.le⟩
      · exact Or.inr ⟨Nat.le_trans a3 h1, h2⟩
    | handled => simpa [consume] using ih c n
    | empty => simpa [consume] using ih c n
    | bad => exact ⟨endServeD_cred c, endServeD_live c, endServeD_inst' c, Nat.le_refl _,
        fun o ho => Or.inl (endServeD_table c o (by simpa [consume] using ho))⟩
    | bye => exact ⟨endServeD_cred c, endServeD_live c, endServeD_inst' c, Nat.le_refl _,
        fun o ho => Or.inl (endServeD_table c o (by simpa [consume] using ho))⟩
    | fin => exact ⟨endServeD_cred c, endServeD_live c, endServeD_inst' c, Nat.le_refl _,
        fun o ho => Or.inl (endServeD_table c o (by simpa [consume] using ho))⟩
    | part =>
      simp only [consume]
      split
      · exact ⟨rfl, by simp [Live], rfl, Nat.le_refl _, fun o ho => Or.inl ho⟩
      · exact ⟨endServeD_cred c, endServeD_live c, endServeD_inst' c, Nat.le_refl _,
          fun o ho => Or.inl (endServeD_table c o ho)⟩

theorem poolConsume_served (l : List Item) (c : Cli) (n : Nat) : Served1 c n (poolConsume l c n) := by
  induction l generalizing c n with
  | nil => exact ⟨rfl, by simp [poolConsume, Live], rfl, Nat.le_refl _,
      fun o ho => Or.inl (by simpa [poolConsume] using ho)⟩
  | cons it l ih =>
    cases it with
    | req seq r =>
      simp only [poolConsume]
      obtain ⟨a1, a2, a3, a4⟩ := answer_served c seq r n
      have h := ih (answer c seq r n).1 (answer c seq r n).2
      refine ⟨h.cred.trans a1, h.live, h.inst.trans a2, Nat.le_trans a3 h.le, ?_⟩
      intro o ho
      rcases h.table o ho with h1 | ⟨h1, h2⟩
      · rcases a4 o h1 with h3 | ⟨h3, h4⟩
        · exact Or.inl h3
        · exact Or.inr ⟨h3, Nat.lt_of_lt_of_le h4 h.le⟩
      · exact Or.inr ⟨Nat.le_trans a3 h1, h2⟩
    | handled => simpa [poolConsume] using ih c n
    | empty => simpa [poolConsume] using ih c n
    | bad => simpa [poolConsume] using ih c n
    | bye => exact ⟨endServe_cred c, by simp [poolConsume, Live], by simp [poolConsume], Nat.le_refl _,
        fun o ho => Or.inl (endServe_table c o (by simpa [poolConsume] using ho))⟩
    | fin => exact ⟨endServe_cred c, by simp [poolConsume, Live], by simp [poolConsume], Nat.le_refl _,
        fun o ho => Or.inl (endServe_table c o (by simpa [poolConsume] using ho))⟩
    | part =>
      simp only [poolConsume]
      split
      · exact ⟨rfl, by simp [Live], rfl, Nat.le_refl _, fun o ho => Or.inl ho⟩
      · exact ⟨endServe_cred c, by simp [Live], by simp, Nat.le_refl _, fun o ho => Or.inl (endServe_table c o ho)⟩


/-! ### every function of the automaton -/

theorem EffC.refl (s : St) (T : Nat → Prop) : EffC s s T :=
  ⟨rfl, Nat.le_refl _, Nat.le_refl _, fun j => CRel.refl s s _, fun _ _ => Same.refl _,
    fun _ i j a hi hj => Or.inr ⟨hi, hj⟩, fun _ i j o hi hj => Or.inr ⟨hi, hj⟩⟩

theorem EffC.trans {s t u : St} {T T' : Nat → Prop} (e1 : EffC s t T) (e2 : EffC t u T') :
    EffC s u (fun j => T j ∨ T' j) := by
  refine ⟨e2.cfg.trans e1.cfg, Nat.le_trans e1.nI e2.nI, Nat.le_trans e1.nO e2.nO, ?_, ?_, ?_, ?_⟩
  · intro j; exact (e1.cli j).trans (e2.cli j) e1.nI e2.nI e1.nO e2.nO
  · intro j hj
    exact (e1.frame j (fun h => hj (Or.inl h))).trans (e2.frame j (fun h => hj (Or.inr h)))
  · intro b i j a hi hj
    rcases e2.uniqI (e1.bound b) i j a hi hj with h | ⟨h1, h2⟩
    · exact Or.inl h
    · exact e1.uniqI b i j a h1 h2
  · intro b i j o hi hj
    rcases e2.uniqO (e1.bound b) i j o hi hj with h | ⟨h1, h2⟩
    · exact Or.inl h
    · exact e1.uniqO b i j o h1 h2

theorem EffC.mono {s t : St} {T T' : Nat → Prop} (e : EffC s t T) (h : ∀ j, T j → T' j) : EffC s t T' :=
  { e with frame := fun j hj => e.frame j (fun hT => hj (h j hT)) }

/-- nothing the relation reads has changed -/
theorem Eff.same (s t : St) (T : Nat → Prop) (e1 : t.cfg = s.cfg) (e2 : t.listening = s.listening)
    (e3 : t.active = s.active) (e4 : t.acceptAlive = s.acceptAlive) (e5 : t.closedFlag = s.closedFlag)
    (e6 : t.poolUp = s.poolUp) (e7 : t.acceptBusy = s.acceptBusy) (e8 : t.nextInst = s.nextInst)
    (e9 : t.nextObj = s.nextObj) (e10 : t.cli = s.cli) (e11 : ∀ j ∈ t.queue, j ∈ s.queue ∨ T j) : Eff s t T := by
  refine ⟨e1, fun _ _ => ⟨e2, e3, e4, e5, e6⟩, fun _ _ h _ => by rw [e7]; exact h, by omega, by omega, ?_, ?_, e11,
    fun _ j _ _ => by rw [e10], ?_, ?_⟩
  · intro j; rw [e10]; exact CRel.refl _ _ _
  · intro j _ _; rw [e10]; exact Same.refl _
  · intro _ i j a h1 h2; rw [e10] at h1 h2; exact Or.inr ⟨h1, h2⟩
  · intro _ i j o h1 h2; rw [e10] at h1 h2; exact Or.inr ⟨h1, h2⟩

/-- a map over all records that changes nothing but membership of `Server.clients` -/
theorem Eff.mapSame (s t : St) (f : Cli → Cli) (hs : ∀ c, Same c (f c)) (hk : s.cfg.kind = .pool)
    (e1 : t.cfg = s.cfg) (e2 : t.listening = s.listening) (e3 : t.active = s.active)
    (e4 : t.acceptAlive = s.acceptAlive) (e5 : t.closedFlag = s.closedFlag) (e6 : t.poolUp = s.poolUp)
    (e7 : t.acceptBusy = none ∨ t.acceptBusy = s.acceptBusy) (e8 : t.nextInst = s.nextInst) (e9 : t.nextObj = s.nextObj)
    (e10 : t.cli = (s.mapCli f).cli) (e11 : t.queue = s.queue) : Eff s t (fun _ => False) := by
  have hcli : ∀ j, t.cli j = f (s.cli j) := fun j => by rw [e10]; rfl
  have hi : ∀ c, (f c).inst = c.inst := fun c => (hs c).inst
  have ht : ∀ c, (f c).table = c.table := fun c => by rcases hs c with h | h <;> rw [h]
  refine ⟨e1, fun _ _ => ⟨e2, e3, e4, e5, e6⟩, ?_, by omega, by omega, ?_, ?_, fun j hj => Or.inl (e11 ▸ hj),
    fun h => absurd hk h, ?_, ?_⟩
  · intro _ _ h _
    rcases e7 with e7 | e7
    · exact e7
    · rw [e7]; exact h
  · intro j; rw [hcli]
    refine ⟨?_, Or.inl (hs _).phase, Or.inl (hi _), fun o ho => Or.inl (by rw [← ht]; exact ho)⟩
    rcases hs (s.cli j) with h | h <;> rw [h] <;> exact Or.inl rfl
  · intro j _ _; rw [hcli]; exact hs _
  · intro _ i j a h1 h2
    rw [hcli, hi] at h1 h2; exact Or.inr ⟨h1, h2⟩
  · intro _ i j o h1 h2
    rw [hcli, ht] at h1 h2; exact Or.inr ⟨h1, h2⟩

/-- the clients a per-client function may touch besides those waiting in the pool's queue: its own, and for a one-shot
server (whose accept thread closes the server when its client ends) any -/
def Tk (s : St) (k : Nat) (j : Nat) : Prop := j = k ∨ s.cfg.kind = .oneshot

theorem closeEffect_cred (c : Cli) : (closeEffect c).cred = c.cred := by
  unfold closeEffect shutOne
  split
  · cases c.phase <;> simp [endServeD_cred, release_cred]
  · split <;> rfl

theorem closeEffect_phase (c : Cli) : (closeEffect c).phase = c.phase ∨ Live (closeEffect c).phase := by
  unfold closeEffect shutOne
  split
  · cases h : c.phase <;> first | exact Or.inr (endServeD_live c) | simp [Live, h]
  · split <;> simp [Live]

theorem closeEffect_table (c : Cli) (o : Nat) (h : o ∈ (closeEffect c).table) : o ∈ c.table := by
  unfold closeEffect shutOne at h
  split at h
  · cases hp : c.phase <;> simp [hp] at h <;> first | exact h | exact endServeD_table c o h
  · split at h <;> exact h

theorem dropEffect_cred (c : Cli) : (dropEffect c).cred = c.cred := by
  unfold dropEffect; split <;> simp [endServe_cred]
theorem dropEffect_phase (c : Cli) : (dropEffect c).phase = c.phase ∨ Live (dropEffect c).phase := by
  unfold dropEffect; split <;> simp [Live]
theorem dropEffect_table (c : Cli) (o : Nat) (h : o ∈ (dropEffect c).table) : o ∈ c.table := by
  unfold dropEffect at h; split at h
  · exact endServe_table c o h
  · exact h

@[simp] theorem baseClose_queue (s : St) : (baseClose s).queue = s.queue := by
  unfold baseClose; split <;> rfl

theorem baseClose_effC (s : St) : EffC s (baseClose s) (fun _ => True) := by
  unfold baseClose
  split
  · exact EffC.refl s _
  · exact EffC.map s _ closeEffect closeEffect_cred closeEffect_phase closeEffect_inst closeEffect_table rfl rfl rfl rfl

theorem poolClose_effC (s t : St) (h : poolClose s = some t) : EffC s t (fun _ => True) := by
  unfold poolClose at h
  split at h
  · cases h
  · simp only [Option.some.injEq] at h
    subst h
    refine ((baseClose_effC s).trans (EffC.map (baseClose s) { ((baseClose s).mapCli dropEffect) with poolUp := false, blocked := [] }
      dropEffect dropEffect_cred dropEffect_phase dropEffect_inst dropEffect_table rfl rfl rfl rfl)).mono
      (fun _ _ => trivial)

theorem EffC.set1 (s t : St) (k : Nat) (c' : Cli) (hcred : c'.cred = (s.cli k).cred)
    (hph : c'.phase = (s.cli k).phase ∨ Live c'.phase) (hinst : c'.inst = (s.cli k).inst)
    (htab : ∀ o ∈ c'.table, o ∈ (s.cli k).table)
    (e1 : t.cfg = s.cfg) (e8 : t.nextInst = s.nextInst) (e9 : t.nextObj = s.nextObj)
    (e10 : t.cli = (s.set k c').cli) : EffC s t (· = k) := by
  have hcli : ∀ j, j ≠ k → t.cli j = s.cli j := fun j hj => by rw [e10]; exact set_cli_ne _ _ _ _ hj
  have hk : t.cli k = c' := by rw [e10]; simp
  have hinst' : ∀ j, (t.cli j).inst = (s.cli j).inst := by
    intro j; by_cases hj : j = k
    · subst hj; rw [hk, hinst]
    · rw [hcli j hj]
  have htab' : ∀ j o, o ∈ (t.cli j).table → o ∈ (s.cli j).table := by
    intro j o ho; by_cases hj : j = k
    · subst hj; rw [hk] at ho; exact htab o ho
    · rw [hcli j hj] at ho; exact ho
  refine ⟨e1, by omega, by omega, ?_, fun j hj => Or.inl (hcli j hj), ?_, ?_⟩
  · intro j; by_cases hj : j = k
    · subst hj; rw [hk]; exact ⟨Or.inl hcred, hph, Or.inl hinst, fun o ho => Or.inl (htab o ho)⟩
    · rw [hcli j hj]; exact CRel.refl _ _ _
  · intro _ i j a h1 h2; rw [hinst'] at h1 h2; exact Or.inr ⟨h1, h2⟩
  · intro _ i j o h1 h2; exact Or.inr ⟨htab' i o h1, htab' j o h2⟩

theorem afterEnd_eff (s : St) (k : Nat) : Eff s (afterEnd s k) (Tk s k) := by
  unfold afterEnd
  split
  · rename_i hk
    have e1 : EffC s { (s.set k { s.cli k with tracked := false }) with acceptBusy := none, acceptAlive := false }
        (· = k) :=
      EffC.set1 s _ k { s.cli k with tracked := false } rfl (Or.inl rfl) rfl (fun _ h => h) rfl rfl rfl rfl
    exact EffC.toEff_oneshot ((e1.trans (baseClose_effC _)).mono (fun j _ => Or.inr hk)) hk
      (fun j hj => Or.inl (by simpa using hj)) (fun j => Or.inr hk)
  · exact (Eff.set1 s (s.set k { s.cli k with tracked := false }) k { s.cli k with tracked := false } rfl (Or.inl rfl) rfl
      (fun _ h => h) rfl rfl rfl rfl rfl rfl rfl rfl rfl rfl rfl).mono (fun j hj => Or.inl hj)

theorem Tk_or {s : St} {k : Nat} {t : St} (h : t.cfg = s.cfg) (j : Nat) (hj : j = k ∨ Tk t k j) : Tk s k j := by
  rcases hj with hj | hj | hj
  · exact Or.inl hj
  · exact Or.inl hj
  · exact Or.inr (h ▸ hj)

theorem applyConsumed_eff (s : St) (k : Nat) (r : Cli × Nat) (h : Served1 (s.cli k) s.nextObj r) :
    Eff s (applyConsumed s k r) (Tk s k) := by
  have e1 : Eff s { (s.set k r.1) with nextObj := r.2 } (· = k) :=
    Eff.setServe s _ k r.1 r.2 h.cred (Or.inr h.live) h.inst h.le h.table rfl rfl rfl rfl rfl rfl rfl rfl rfl rfl rfl
  unfold applyConsumed
  split
  · exact (e1.trans (afterEnd_eff _ k)).mono (Tk_or rfl)
  · exact e1.mono (fun j hj => Or.inl hj)

theorem runDedicated_eff (s : St) (k : Nat) : Eff s (runDedicated s k) (Tk s k) := by
  unfold runDedicated
  have e0 : Eff s { s with frames := s.frames + dedFrames (s.cli k).inbox } (· = k) :=
    Eff.same s _ _ rfl rfl rfl rfl rfl rfl rfl rfl rfl rfl (fun j hj => Or.inl hj)
  exact (e0.trans (applyConsumed_eff _ k _ (consume_served _ _ _))).mono (Tk_or rfl)

theorem serveClient_eff (s : St) (k : Nat) : Eff s (serveClient s k) (Tk s k) := by
  unfold serveClient
  exact ((built_eff s k).trans (runDedicated_eff _ k)).mono (Tk_or rfl)

theorem release_eff (s : St) (k : Nat) : Eff s (s.set k (release (s.cli k))) (· = k) :=
  Eff.set1 s _ k (release (s.cli k)) rfl (Or.inr (by simp [Live])) rfl (fun _ h => h)
    rfl rfl rfl rfl rfl rfl rfl rfl rfl rfl rfl

theorem authServe_eff (s : St) (k : Nat) : Eff s (authServe s k) (Tk s k) := by
  unfold authServe
  split
  · exact ((release_eff s k).trans (afterEnd_eff _ k)).mono (Tk_or rfl)
  split
  · split
    · exact serveClient_eff s k
    · exact ((release_eff s k).trans (afterEnd_eff _ k)).mono (Tk_or rfl)
    · split
      · exact ((release_eff s k).trans (afterEnd_eff _ k)).mono (Tk_or rfl)
      · exact (Eff.set1 s (s.set k { s.cli k with phase := .authing }) k { s.cli k with phase := .authing } rfl
          (Or.inr (by simp [Live])) rfl (fun _ h => h) rfl rfl rfl rfl rfl rfl rfl rfl rfl rfl rfl).mono
          (fun j hj => Or.inl hj)
    · exact ((release_eff s k).trans (afterEnd_eff _ k)).mono (Tk_or rfl)
  · exact serveClient_eff s k

/-! #### pool -/

theorem poolPlace_eff (s : St) (k : Nat) (r : Cli × Nat) (h : Served1 (s.cli k) s.nextObj r) :
    Eff s (poolPlace s k r) (· = k) := by
  unfold poolPlace
  split
  · split
    · exact Eff.setServe s _ k { r.1 with phase := .closing } r.2 h.cred (Or.inr (by simp [Live])) h.inst h.le
        h.table rfl rfl rfl rfl rfl rfl rfl rfl rfl rfl rfl
    · exact Eff.setServe s _ k { r.1 with inFd := false } r.2 h.cred (Or.inr h.live) h.inst h.le
        h.table rfl rfl rfl rfl rfl rfl rfl rfl rfl rfl rfl
  · exact Eff.setServe s _ k r.1 r.2 h.cred (Or.inr h.live) h.inst h.le h.table
      rfl rfl rfl rfl rfl rfl rfl rfl rfl rfl rfl
  · exact Eff.setServe s _ k { r.1 with polled := true } r.2 h.cred (Or.inr h.live) h.inst h.le
      h.table rfl rfl rfl rfl rfl rfl rfl rfl rfl rfl rfl

theorem poolServeOne_eff (s : St) (k : Nat) : Eff s (poolServeOne s k) (· = k) := by
  unfold poolServeOne
  have e0 : Eff s { s with frames := s.frames + poolFrames (s.cli k).inbox } (· = k) :=
    Eff.same s _ _ rfl rfl rfl rfl rfl rfl rfl rfl rfl rfl (fun j hj => Or.inl hj)
  exact (e0.trans (poolPlace_eff _ k _ (poolConsume_served _ _ _))).mono (fun j hj => hj.elim id id)

/-- free workers serve only connections that were waiting in the queue handed to them -/
theorem drain_eff (l : List Nat) (s : St) : Eff s (drain l s) (· ∈ l) := by
  induction l generalizing s with
  | nil => exact Eff.same s _ _ rfl rfl rfl rfl rfl rfl rfl rfl rfl rfl (fun j hj => by simp [drain] at hj)
  | cons a l ih =>
    unfold drain
    split
    · exact Eff.same s _ _ rfl rfl rfl rfl rfl rfl rfl rfl rfl rfl (fun j hj => Or.inr hj)
    · refine ((poolServeOne_eff s a).trans (ih _)).mono ?_
      intro j hj; rcases hj with hj | hj
      · rw [hj]; simp
      · simp [hj]

theorem poolWake_eff (s : St) (k : Nat) : Eff s (poolWake s k) (· = k) := by
  unfold poolWake
  split
  · exact Eff.refl s _
  · refine ((Eff.set1 s (s.set k { s.cli k with phase := .queued, polled := false }) k
      { s.cli k with phase := .queued, polled := false } rfl (Or.inr (by simp [Live])) rfl (fun _ h => h)
      rfl rfl rfl rfl rfl rfl rfl rfl rfl rfl rfl).trans (drain_eff _ _)).mono' ?_
    intro j hj
    rcases hj with hj | hj
    · exact Or.inl hj
    · simp at hj; rcases hj with hj | hj
      · exact Or.inr hj
      · exact Or.inl hj

theorem poolUnblock_eff (s : St) (k : Nat) : Eff s (poolUnblock s k) (· = k) := by
  unfold poolUnblock
  split
  · exact Eff.set1 s _ k { endServe (s.cli k) with phase := .closing } (endServe_cred _) (Or.inr (by simp [Live]))
      (endServe_inst _) (fun o h => endServe_table _ o h) rfl rfl rfl rfl rfl rfl rfl rfl rfl rfl rfl
  refine ((Eff.set1 s { (s.set k { endServe (s.cli k) with inFd := false }) with blocked := rm k s.blocked } k
    { endServe (s.cli k) with inFd := false } (endServe_cred _) (Or.inr (by simp [Live])) (endServe_inst _)
    (fun o h => endServe_table _ o h) rfl rfl rfl rfl rfl rfl rfl rfl rfl rfl rfl).trans (drain_eff _ _)).mono' ?_
  intro j hj
  rcases hj with hj | hj
  · exact Or.inl hj
  · exact Or.inr hj

theorem untrackAll_eff (s : St) (hk : s.cfg.kind = .pool) : Eff s (untrackAll s) (fun _ => False) :=
  Eff.mapSame s _ (fun c => { c with tracked := false }) (fun _ => Or.inr rfl) hk
    rfl rfl rfl rfl rfl rfl (Or.inr rfl) rfl rfl rfl rfl

theorem poolBuild_eff (s : St) (k : Nat) (hk : s.cfg.kind = .pool) : Eff s (poolBuild s k) (· = k) := by
  unfold poolBuild
  have e2 : Eff (built s k) ((built s k).set k { (built s k).cli k with inFd := true, polled := true }) (· = k) :=
    Eff.set1 (built s k) _ k { (built s k).cli k with inFd := true, polled := true } rfl (Or.inl rfl) rfl
      (fun _ h => h) rfl rfl rfl rfl rfl rfl rfl rfl rfl rfl rfl
  refine ((((built_eff s k).trans e2).trans (untrackAll_eff _ hk)).trans (poolWake_eff _ k)).mono ?_
  intro j hj
  rcases hj with ((hj | hj) | hj) | hj
  · exact hj
  · exact hj
  · exact absurd hj id
  · exact hj

theorem poolAccept_eff (s : St) (k : Nat) (hk : s.cfg.kind = .pool) : Eff s (poolAccept s k) (· = k) := by
  unfold poolAccept
  split
  · exact ((release_eff s k).trans (untrackAll_eff _ hk)).mono (fun j hj => hj.elim id (fun h => absurd h id))
  split
  · split
    · exact poolBuild_eff s k hk
    · exact ((release_eff s k).trans (untrackAll_eff _ hk)).mono (fun j hj => hj.elim id (fun h => absurd h id))
    · rename_i hsil
      split
      · exact ((release_eff s k).trans (untrackAll_eff _ hk)).mono (fun j hj => hj.elim id (fun h => absurd h id))
      · -- the stall: only a client that sends no credentials can occupy the accept thread
        refine Eff.set1B s _ k { s.cli k with phase := .authing } rfl
          (Or.inr (by simp [Live])) rfl (fun _ h => h) rfl rfl rfl rfl rfl rfl ?_ rfl rfl rfl rfl
        intro h1
        rcases h1 with h1 | h1 | h1
        · rw [hk] at h1; cases h1
        · rw [hk] at h1; cases h1
        · exact absurd hsil (h1 k)
    · exact ((release_eff s k).trans (untrackAll_eff _ hk)).mono (fun j hj => hj.elim id (fun h => absurd h id))
  · exact poolBuild_eff s k hk

/-! #### the accept loop and the client actions -/

theorem acceptOne_eff (s : St) (k : Nat) : Eff s (acceptOne s k) (Tk s k) := by
  unfold acceptOne
  split
  · have e1 : Eff s { (s.set k { s.cli k with srvFd := true, tracked := true, phase := .idle }) with
        accepted := s.accepted + 1 } (· = k) :=
      Eff.set1 s _ k { s.cli k with srvFd := true, tracked := true, phase := .idle } rfl (Or.inr (by simp [Live])) rfl
        (fun _ h => h) rfl rfl rfl rfl rfl rfl rfl rfl rfl rfl rfl
    exact (e1.trans (authServe_eff _ k)).mono (Tk_or rfl)
  · have e1 : Eff s { (s.set k { s.cli k with child := true, phase := .idle }) with accepted := s.accepted + 1 }
        (· = k) :=
      Eff.set1 s _ k { s.cli k with child := true, phase := .idle } rfl (Or.inr (by simp [Live])) rfl
        (fun _ h => h) rfl rfl rfl rfl rfl rfl rfl rfl rfl rfl rfl
    exact (e1.trans (authServe_eff _ k)).mono (Tk_or rfl)
  · rename_i hk
    have e1 : EffC s { (s.set k { s.cli k with srvFd := true, tracked := true, phase := .idle }) with
        accepted := s.accepted + 1, acceptBusy := some k } (· = k) :=
      EffC.set1 s _ k { s.cli k with srvFd := true, tracked := true, phase := .idle } rfl (Or.inr (by simp [Live])) rfl
        (fun _ h => h) rfl rfl rfl rfl
    have e2 := authServe_eff { (s.set k { s.cli k with srvFd := true, tracked := true, phase := .idle }) with
        accepted := s.accepted + 1, acceptBusy := some k } k
    refine EffC.toEff_oneshot ((e1.trans e2.toC).mono (fun j _ => Or.inr hk)) hk ?_ (fun j => Or.inr hk)
    intro j hj
    rcases e2.queue j hj with h | h
    · exact Or.inl h
    · exact Or.inr (Or.inr hk)
  · rename_i hk
    have e1 : Eff s { (s.set k { s.cli k with srvFd := true, tracked := true, phase := .idle }) with
        accepted := s.accepted + 1 } (· = k) :=
      Eff.set1 s _ k { s.cli k with srvFd := true, tracked := true, phase := .idle } rfl (Or.inr (by simp [Live])) rfl
        (fun _ h => h) rfl rfl rfl rfl rfl rfl rfl rfl rfl rfl rfl
    exact (e1.trans (poolAccept_eff _ k hk)).mono (fun j hj => Or.inl (hj.elim id id))

/-- the accept loop touches only clients that were waiting in the listen queue (or in the pool's queue) -/
theorem acceptAll_eff (l : List Nat) (s : St) :
    Eff s (acceptAll l s) (fun j => (s.cli j).phase = .backlog ∨ s.cfg.kind = .oneshot) := by
  induction l generalizing s with
  | nil => exact Eff.refl s _
  | cons a l ih =>
    unfold acceptAll
    split
    · rename_i hacc
      have hb : (s.cli a).phase = .backlog := by simp at hacc; exact hacc.2
      have e1 := acceptOne_eff s a
      refine (e1.trans (ih _)).mono' ?_
      intro j hj
      rcases hj with hj | hj
      · rcases hj with hj | hj
        · left; left; rw [hj]; exact hb
        · exact Or.inl (Or.inr hj)
      · rcases hj with hj | hj
        · by_cases hT : Tk s a j
          · rcases hT with hT | hT
            · left; left; rw [hT]; exact hb
            · exact Or.inl (Or.inr hT)
          · by_cases hq : j ∈ s.queue
            · exact Or.inr hq
            · left; left; rw [← (e1.frame j hT hq).phase]; exact hj
        · left; right; rw [← e1.cfg]; exact hj
    · exact ih s

/-- whom the arrival of something from client `k` may concern -/
def Tw (s : St) (k : Nat) (j : Nat) : Prop := j = k ∨ (s.cli j).phase = .backlog ∨ s.cfg.kind = .oneshot

theorem poolAuthGone_eff (s : St) (k : Nat) (hk : s.cfg.kind = .pool) : Eff s (poolAuthGone s k) (Tw s k) := by
  unfold poolAuthGone
  have e1 := (release_eff s k).trans (untrackAll_eff _ hk)
  have e2 : Eff (untrackAll (s.set k (release (s.cli k))))
      { (untrackAll (s.set k (release (s.cli k)))) with acceptBusy := none } (fun _ => False) :=
    Eff.mapSame _ _ id (fun _ => Or.inl rfl) hk rfl rfl rfl rfl rfl rfl (Or.inl rfl) rfl rfl rfl rfl
  have e12 := e1.trans e2
  refine (e12.trans (acceptAll_eff _ _)).mono' ?_
  intro j hj
  rcases hj with ((hj | hj) | hj) | hj
  · exact Or.inl (Or.inl hj)
  · exact absurd hj id
  · exact absurd hj id
  · rcases hj with hj | hj
    · by_cases hjk : j = k
      · exact Or.inl (Or.inl hjk)
      · by_cases hq : j ∈ s.queue
        · exact Or.inr hq
        · left; right; left
          have := (e12.frame j (by intro h; rcases h with (h | h) | h <;> first | exact hjk h | exact h) hq).phase
          rw [← this]; exact hj
    · left; right; right; rw [← e12.cfg]; exact hj

theorem wake_eff (s : St) (k : Nat) : Eff s (wake s k) (Tw s k) := by
  unfold wake
  split
  · split
    · exact (poolWake_eff s k).mono (fun j hj => Or.inl hj)
    · exact (runDedicated_eff s k).mono (fun j hj => hj.elim Or.inl (fun h => Or.inr (Or.inr h)))
  · split
    · split
      · exact (poolUnblock_eff s k).mono (fun j hj => Or.inl hj)
      · split
        · exact (Eff.set1 s (s.set k (endServeD (s.cli k))) k (endServeD (s.cli k)) (endServeD_cred _)
            (Or.inr (endServeD_live _)) (endServeD_inst' _) (fun o h => endServeD_table _ o h)
            rfl rfl rfl rfl rfl rfl rfl rfl rfl rfl rfl).mono (fun j hj => Or.inl hj)
        · refine ((Eff.set1 s (s.set k (endServe (s.cli k))) k (endServe (s.cli k)) (endServe_cred _)
            (Or.inr (by simp [Live])) (endServe_inst _) (fun o h => endServe_table _ o h)
            rfl rfl rfl rfl rfl rfl rfl rfl rfl rfl rfl).trans (afterEnd_eff _ k)).mono ?_
          intro j hj
          exact (Tk_or (s := s) rfl j hj).elim Or.inl (fun h => Or.inr (Or.inr h))
    · exact Eff.refl s _
  · split
    · split
      · rename_i hk; exact poolAuthGone_eff s k hk
      · refine ((release_eff s k).trans (afterEnd_eff _ k)).mono ?_
        intro j hj
        exact (Tk_or (s := s) rfl j hj).elim Or.inl (fun h => Or.inr (Or.inr h))
    · exact Eff.refl s _
  · exact Eff.refl s _

/-- the thread of a threaded / one-shot / forking server's client comes back from the blocking `on_disconnect` -/
theorem dedRelease_eff (s : St) (k : Nat) : Eff s (dedRelease s k) (Tk s k) := by
  unfold dedRelease
  refine ((Eff.set1 s (s.set k { s.cli k with phase := .done, child := false, slowHook := false }) k
    { s.cli k with phase := .done, child := false, slowHook := false } rfl (Or.inr (by simp [Live])) rfl
    (fun o h => h) rfl rfl rfl rfl rfl rfl rfl rfl rfl rfl rfl).trans (afterEnd_eff _ k)).mono ?_
  intro j hj
  exact Tk_or (s := s) rfl j hj

/-- bytes written by a client change nothing the relation reads until the server reads them -/
theorem inbox_eff (s : St) (k : Nat) (c' : Cli) (h1 : c'.cred = (s.cli k).cred) (h2 : c'.phase = (s.cli k).phase)
    (h3 : c'.inst = (s.cli k).inst) (h4 : c'.table = (s.cli k).table) : Eff s (s.set k c') (· = k) :=
  Eff.set1 s _ k c' h1 (Or.inl h2) h3 (fun o h => by rw [← h4]; exact h) rfl rfl rfl rfl rfl rfl rfl rfl rfl rfl rfl

theorem Tw_or {s t : St} {k : Nat} (e : Eff s t (· = k)) (j : Nat) (hj : j = k ∨ Tw t k j) : Tw s k j ∨ j ∈ s.queue := by
  rcases hj with hj | hj | hj | hj
  · exact Or.inl (Or.inl hj)
  · exact Or.inl (Or.inl hj)
  · by_cases hjk : j = k
    · exact Or.inl (Or.inl hjk)
    · by_cases hq : j ∈ s.queue
      · exact Or.inr hq
      · left; right; left; rw [← (e.frame j hjk hq).phase]; exact hj
  · left; right; right; rw [← e.cfg]; exact hj

theorem send_eff (s : St) (k : Nat) (l : List Item) : Eff s (send s k l) (Tw s k) := by
  unfold send
  split
  · exact Eff.refl s _
  · have e1 := inbox_eff s k { s.cli k with inbox := (s.cli k).inbox ++ l } rfl rfl rfl rfl
    exact (e1.trans (wake_eff _ k)).mono' (Tw_or e1)

/-- late credentials: the record of a client that had sent none -/
theorem cred_eff (s : St) (k : Nat) (c : Cred) (h : (s.cli k).cred = .silent) :
    Eff s (s.set k { s.cli k with cred := c }) (· = k) :=
  Eff.set1' s _ k { s.cli k with cred := c } (Or.inr h) (Or.inl rfl) rfl (fun _ h => h)
    rfl rfl rfl rfl rfl rfl rfl rfl rfl rfl rfl

theorem poolAuthDone_eff (s : St) (k : Nat) (hk : s.cfg.kind = .pool) : Eff s (poolAuthDone s k) (Tw s k) := by
  unfold poolAuthDone
  have e1 := poolBuild_eff s k hk
  have e2 : Eff (poolBuild s k) { (poolBuild s k) with acceptBusy := none } (fun _ => False) :=
    Eff.mapSame _ _ id (fun _ => Or.inl rfl) (by rw [e1.cfg]; exact hk) rfl rfl rfl rfl rfl rfl (Or.inl rfl) rfl rfl
      rfl rfl
  have e12 := e1.trans e2
  refine (e12.trans (acceptAll_eff _ _)).mono' ?_
  intro j hj
  rcases hj with (hj | hj) | hj
  · exact Or.inl (Or.inl hj)
  · exact absurd hj id
  · rcases hj with hj | hj
    · by_cases hjk : j = k
      · exact Or.inl (Or.inl hjk)
      · by_cases hq : j ∈ s.queue
        · exact Or.inr hq
        · left; right; left
          have := (e12.frame j (by intro h; rcases h with h | h <;> first | exact hjk h | exact h) hq).phase
          rw [← this]; exact hj
    · left; right; right; rw [← e12.cfg]; exact hj

theorem supply_eff (s : St) (k : Nat) (c : Cred) (h : (s.cli k).cred = .silent) : Eff s (supply s k c) (Tw s k) := by
  have ec := cred_eff s k c h
  have lift : ∀ {u : St}, Eff (s.set k { s.cli k with cred := c }) u (Tw (s.set k { s.cli k with cred := c }) k) →
      Eff s u (Tw s k) := fun e => (ec.trans e).mono' (Tw_or ec)
  unfold supply
  split
  · exact ec.mono (fun j hj => Or.inl hj)
  · split
    · split
      · rename_i hk
        split
        · exact lift (poolAuthDone_eff _ k (by simpa using hk))
        · exact lift (poolAuthGone_eff _ k (by simpa using hk))
      · split
        · exact lift ((serveClient_eff _ k).mono (fun j hj => hj.elim Or.inl (fun h => Or.inr (Or.inr h))))
        · refine ((Eff.set1' s (s.set k (release { s.cli k with cred := c })) k (release { s.cli k with cred := c })
            (Or.inr h) (Or.inr (by simp [Live])) rfl (fun _ h => h) rfl rfl rfl rfl rfl rfl rfl rfl rfl rfl rfl).trans
            (afterEnd_eff _ k)).mono ?_
          intro j hj
          exact (Tk_or (s := s) rfl j hj).elim Or.inl (fun h => Or.inr (Or.inr h))
    · exact ec.mono (fun j hj => Or.inl hj)

theorem dropVictim_cred (c : Cli) : (dropVictim c).cred = c.cred := by simp [dropVictim, endServe_cred]
theorem dropVictim_inst (c : Cli) : (dropVictim c).inst = c.inst := by simp [dropVictim]
theorem dropVictim_table (c : Cli) (o : Nat) (h : o ∈ (dropVictim c).table) : o ∈ c.table :=
  endServe_table c o (by simpa [dropVictim] using h)

/-- the worker leaves the blocking `on_disconnect` of `k` and drops "its" descriptor: with the repaired code only `k`'s own
record changes; with the pinned code possibly the connection of whoever holds that number now -/
theorem poolRelease_eff (s : St) (k : Nat) : Eff s (poolRelease s k) (fun i => i = k ∨ s.cfg.spare = false) := by
  unfold poolRelease
  have own : ∀ (u : St) (b : List Nat), u.cfg = s.cfg → Eff u
      { (u.set k { u.cli k with phase := .done, inFd := false, slowHook := false }) with blocked := b } (· = k) :=
    fun u b _ => Eff.set1 u _ k { u.cli k with phase := .done, inFd := false, slowHook := false } rfl
      (Or.inr (by simp [Live])) rfl (fun _ h => h) rfl rfl rfl rfl rfl rfl rfl rfl rfl rfl rfl
  split
  · rename_i hsp
    refine ((own s _ rfl).trans (drain_eff _ _)).mono' ?_
    intro j hj; rcases hj with hj | hj
    · exact Or.inl (Or.inl hj)
    · exact Or.inr hj
  · rename_i hsp
    have hsp' : s.cfg.spare = false := by simpa using hsp
    split
    · rename_i v _
      split
      · refine ((own s _ rfl).trans (drain_eff _ _)).mono' ?_
        intro j hj; rcases hj with hj | hj
        · exact Or.inl (Or.inl hj)
        · exact Or.inr hj
      · have e1 : Eff s (s.set v (dropVictim (s.cli v))) (· = v) :=
          Eff.set1 s _ v (dropVictim (s.cli v)) (dropVictim_cred _) (Or.inr (by simp [dropVictim, Live]))
            (dropVictim_inst _) (fun o h => dropVictim_table _ o h) rfl rfl rfl rfl rfl rfl rfl rfl rfl rfl rfl
        rename_i hvk
        have hkv : k ≠ v := fun h => hvk h.symm
        have hck : (s.set v (dropVictim (s.cli v))).cli k = s.cli k := set_cli_ne _ _ _ _ hkv
        have e2 : Eff (s.set v (dropVictim (s.cli v)))
            { ((s.set v (dropVictim (s.cli v))).set k { s.cli k with phase := .done, inFd := false, slowHook := false }) with
              blocked := rm k s.blocked } (· = k) :=
          Eff.set1 _ _ k { s.cli k with phase := .done, inFd := false, slowHook := false } (by rw [hck])
            (Or.inr (by simp [Live])) (by rw [hck]) (fun o h => by rw [hck]; exact h)
            rfl rfl rfl rfl rfl rfl rfl rfl rfl rfl rfl
        refine ((e1.trans e2).trans (drain_eff _ _)).mono' ?_
        intro j hj
        rcases hj with (hj | hj) | hj
        · exact Or.inl (Or.inr hsp')
        · exact Or.inl (Or.inl hj)
        · exact Or.inr hj
    · refine ((own s _ rfl).trans (drain_eff _ _)).mono' ?_
      intro j hj; rcases hj with hj | hj
      · exact Or.inl (Or.inl hj)
      · exact Or.inr hj

/-- who an action is about -/
def Op.client : Op → Option Nat
  | .connect k _ => some k
  | .call k _ => some k
  | .raw k _ => some k
  | .gracefulClose k => some k
  | .abruptClose k => some k
  | .serverClose => none
  | .creds k _ => some k
  | .connectReuse k _ => some k
  | .releaseHook k => some k
  | .acceptFault => none
  | .connectNoSpawn k => some k

/-- the state right after a new connection has joined the listen queue, before the accept loop looks -/
def joined (s : St) (k : Nat) (cred : Cred) : St :=
  { (s.set k { cred := cred, phase := .backlog, clientOpen := cred != .reset,
               inbox := if cred = .reset then [.fin] else [] }) with ids := s.ids ++ [k] }

theorem step_connect {s t : St} {o : Obs} {k : Nat} {cred : Cred} (h : step s (.connect k cred) = .ok (t, o)) :
    (t = s ∧ o = .refused ∧ s.listening = false) ∨
    (t = acceptAll (s.ids ++ [k]) (joined s k cred) ∧ o = .ok ∧ (s.cli k).phase = .absent ∧ s.listening = true ∧
      (cred = .bad → s.cfg.auth = true)) := by
  simp only [step] at h
  split at h
  · cases h
  · rename_i hg
    have habs : (s.cli k).phase = .absent := by
      cases hp : (s.cli k).phase <;> simp [hp] at hg ⊢
    have hbad : cred = .bad → s.cfg.auth = true := by
      intro hc; subst hc; cases ha : s.cfg.auth <;> simp [habs, ha] at hg ⊢
    split at h
    · rename_i hl
      simp only [Except.ok.injEq, Prod.mk.injEq] at h
      exact Or.inl ⟨h.1.symm, h.2.symm, by simpa using hl⟩
    · rename_i hl
      simp only [Except.ok.injEq, Prod.mk.injEq] at h
      exact Or.inr ⟨h.1.symm, h.2.symm, habs, by simpa using hl, hbad⟩

/-- every action of a connected client: containment -/
theorem step_eff {s t : St} {o : Obs} (op : Op) (hop : op ≠ .serverClose) (hcon : ∀ k c, op ≠ .connect k c)
    (hcon2 : ∀ k j, op ≠ .connectReuse k j) (hnf : op ≠ .acceptFault) (hns : ∀ k, op ≠ .connectNoSpawn k)
    (h : step s op = .ok (t, o)) :
    Eff s t (fun j => some j = op.client ∨ (s.cli j).phase = .backlog ∨ s.cfg.kind = .oneshot ∨
      ((∃ k, op = .releaseHook k) ∧ s.cfg.spare = false ∧ s.cfg.kind = .pool)) := by
  have key : ∀ (k : Nat) (c' : Cli) (l : List Item), c'.cred = (s.cli k).cred → c'.phase = (s.cli k).phase →
      c'.inst = (s.cli k).inst → c'.table = (s.cli k).table →
      ∀ x : Prop, Eff s (send (s.set k c') k l)
        (fun j => some j = some k ∨ (s.cli j).phase = .backlog ∨ s.cfg.kind = .oneshot ∨ x) := by
    intro k c' l h1 h2 h3 h4 x
    have e1 := inbox_eff s k c' h1 h2 h3 h4
    refine (e1.trans (send_eff _ k l)).mono' ?_
    intro j hj
    rcases Tw_or e1 j hj with h | h
    · rcases h with h | h | h
      · exact Or.inl (Or.inl (by rw [h]))
      · exact Or.inl (Or.inr (Or.inl h))
      · exact Or.inl (Or.inr (Or.inr (Or.inl h)))
    · exact Or.inr h
  cases op with
  | serverClose => exact absurd rfl hop
  | connect k cred => exact absurd rfl (hcon k cred)
  | call k r =>
    simp only [step] at h
    split at h
    · cases h
    · simp only [Except.ok.injEq, Prod.mk.injEq] at h
      obtain ⟨rfl, _⟩ := h
      refine key k _ _ ?_ ?_ ?_ ?_ _ <;> rfl
  | raw k items =>
    simp only [step] at h
    split at h
    · cases h
    · simp only [Except.ok.injEq, Prod.mk.injEq] at h
      obtain ⟨rfl, _⟩ := h
      refine key k _ _ ?_ ?_ ?_ ?_ _ <;> rfl
  | gracefulClose k =>
    simp only [step] at h
    split at h
    · cases h
    · simp only [Except.ok.injEq, Prod.mk.injEq] at h
      obtain ⟨rfl, _⟩ := h
      refine key k _ _ ?_ ?_ ?_ ?_ _ <;> rfl
  | abruptClose k =>
    simp only [step] at h
    split at h
    · cases h
    · simp only [Except.ok.injEq, Prod.mk.injEq] at h
      obtain ⟨rfl, _⟩ := h
      refine key k _ _ ?_ ?_ ?_ ?_ _ <;> rfl
  | creds k c =>
    simp only [step] at h
    split at h
    · cases h
    · rename_i hg
      simp only [Except.ok.injEq, Prod.mk.injEq] at h
      obtain ⟨rfl, _⟩ := h
      have hsil : (s.cli k).cred = .silent := by
        cases hc : (s.cli k).cred <;> simp [hc] at hg ⊢
      refine (supply_eff s k c hsil).mono ?_
      intro j hj
      rcases hj with hj | hj | hj
      · exact Or.inl (by rw [hj]; rfl)
      · exact Or.inr (Or.inl hj)
      · exact Or.inr (Or.inr (Or.inl hj))
  | connectReuse k j => exact absurd rfl (hcon2 k j)
  | acceptFault => exact absurd rfl hnf
  | connectNoSpawn k => exact absurd rfl (hns k)
  | releaseHook k =>
    simp only [step] at h
    split at h
    · cases h
    · split at h
      · rename_i hpool
        simp only [Except.ok.injEq, Prod.mk.injEq] at h
        obtain ⟨rfl, _⟩ := h
        refine (poolRelease_eff s k).mono ?_
        intro j hj
        rcases hj with hj | hj
        · exact Or.inl (by rw [hj]; rfl)
        · exact Or.inr (Or.inr (Or.inr ⟨⟨k, rfl⟩, hj, hpool⟩))
      · simp only [Except.ok.injEq, Prod.mk.injEq] at h
        obtain ⟨rfl, _⟩ := h
        refine (dedRelease_eff s k).mono ?_
        intro j hj
        rcases hj with hj | hj
        · exact Or.inl (by rw [hj]; rfl)
        · exact Or.inr (Or.inr (Or.inl hj))

/-- the state in which a new connection that was given the descriptor number of `j`'s closed socket has joined the listen
queue: whatever `fd_to_conn` held under that number is replaced by it -/
def joinedReuse (s : St) (k j : Nat) : St :=
  { ((s.set j { s.cli j with inFd := false, usurper := some k }).set k
      { cred := .good, phase := .backlog, clientOpen := true }) with ids := s.ids ++ [k] }

theorem step_connectReuse {s t : St} {o : Obs} {k j : Nat} (h : step s (.connectReuse k j) = .ok (t, o)) :
    t = acceptAll (s.ids ++ [k]) (joinedReuse s k j) ∧ o = .ok ∧ (s.cli k).phase = .absent ∧ k ≠ j ∧
      ((s.cli j).phase = .closing ∨ (s.cli j).phase = .done) ∧ canAccept s = true := by
  simp only [step] at h
  split at h
  · cases h
  · rename_i hg
    simp only [Except.ok.injEq, Prod.mk.injEq] at h
    refine ⟨h.1.symm, h.2.symm, ?_, ?_, ?_, ?_⟩
    · cases hp : (s.cli k).phase <;> simp [hp] at hg ⊢
    · intro hkj; subst hkj; simp at hg
    · cases hp : (s.cli j).phase <;> simp [hp] at hg ⊢
    · cases hc : canAccept s <;> simp [hc] at hg ⊢

end Rpyc.Srv
