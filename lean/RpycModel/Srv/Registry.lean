import RpycModel.Gen.Registry
import RpycModel.Brine.Model
/-
L9 — rpyc/utils/registry.py: `RegistryServer` (`_add_service`, `_remove_service`, `cmd_query`,
`cmd_register`, `cmd_unregister`, one iteration of `_work`) and the UDP / TCP front ends.

`services` is a Python dict of dicts.  Both levels are modelled as insertion-ordered association
lists, because the order is observable: `sorted(..., key=t)` is stable, so servers with equal refresh
times are answered in the inner dict's order, and `cmd_unregister` notifies in the outer dict's order.
Dict keys are compared with Python's `==` (`True == 1 == 1.0 == (1+0j)`, frozensets as sets, ...);
`keyCode` maps a value to a code such that equal codes = equal keys.  Assigning to an existing key
keeps the key object that is already there, so an entry answers with the spelling it was first
registered under.

Environment facts the model cannot compute are parameters (`Env`): `str.upper`/`str.lower` of
non-ASCII text and the order in which CPython iterates a frozenset.  Times are integers (milliseconds).

The interpreter's recursion limit enters as two more `Env` facts (`loadOverflows`, `dumpOverflows`).

Not modelled (the driver reports such a case as `not-modelled` and the harness skips it): a NaN inside
a port (NaN keys are equal by object identity only), `TAG_SLICE` applied to a frozenset (from brine).
-/
namespace Rpyc.Registry
open Rpyc Rpyc.Brine

/-- facts about the interpreter supplied from outside; the theorems hold for every `Env` -/
structure Env where
  upper : List Nat → List Nat
  lower : List Nat → List Nat
  fsetIter : List Val → List Val
  /-- does `brine.load(data)` hit the interpreter's recursion limit (at the stack depth `_work` runs at) -/
  loadOverflows : Bytes → Bool := fun _ => false
  /-- does `brine.dump(reply)` hit it: a reply nests a stored port as deep as the request that registered it did,
  and dumping the innermost value can take a frame more than loading it took -/
  dumpOverflows : Val → Bool := fun _ => false

/-! ### text -/

def asciiUpper (c : Nat) : Nat := if 97 ≤ c ∧ c ≤ 122 then c - 32 else c
def asciiLower (c : Nat) : Nat := if 65 ≤ c ∧ c ≤ 90 then c + 32 else c
def isAscii (s : List Nat) : Bool := s.all (· < 128)

/-- `str.upper()`: computed here for ASCII text, asked of the interpreter otherwise -/
def strUpper (env : Env) (s : List Nat) : List Nat := if isAscii s then s.map asciiUpper else env.upper s
/-- `str.lower()` -/
def strLower (env : Env) (s : List Nat) : List Nat := if isAscii s then s.map asciiLower else env.lower s

/-- `name.upper()` on a decoded value: text and byte strings have the method, nothing else does -/
def pyUpper (env : Env) : Val → Except Err Val
  | .str s => .ok (.str (strUpper env s))
  | .bytes b => .ok (.bytes (b.map asciiUpper))
  | _ => .error .attributeError

/-! ### Python iteration and unpacking of a decoded value -/

/-- `iter(v)` as a list (`*args`, `for name in names`, `", ".join(names)`) -/
def iterate' (env : Env) : Val → Except Err (List Val)
  | .tuple xs => .ok xs
  | .fset xs => .ok (env.fsetIter xs)
  | .bytes b => .ok (b.map (fun x => .int (x : Nat)))
  | .str s => .ok (s.map (fun c => .str [c]))
  | _ => .error .typeError

def three : List Val → Except Err (Val × Val × Val)
  | [a, b, c] => .ok (a, b, c)
  | _ => .error .valueError

/-- `magic, cmd, args = v` -/
def unpack3' (env : Env) (v : Val) : Except Err (Val × Val × Val) :=
  match iterate' env v with
  | .error e => .error e
  | .ok xs => three xs

/-! ### dict keys: a code per equality class of Python's `==` -/

/-- strip factors of two from a non-zero mantissa -/
def stripTwos : Nat → Nat → Int → Nat × Int
  | 0, m, x => (m, x)
  | f+1, m, x => if m ≠ 0 ∧ m % 2 = 0 then stripTwos f (m / 2) (x + 1) else (m, x)

/-- code of the real number `(-1)^neg * m * 2^x` -/
def realCode (neg : Bool) (m : Nat) (x : Int) : List Nat :=
  if m = 0 then [0, 0, 0, 0, 0]
  else [0, if neg then 1 else 0, (stripTwos m m x).1, if (stripTwos m m x).2 < 0 then 1 else 0, (stripTwos m m x).2.natAbs]

def intCode (i : Int) : List Nat := realCode (decide (i < 0)) i.natAbs 0

/-- code of an IEEE-754 double given by its 64 bits: finite values as exact reals (so `1.0` and `1` agree),
infinities by sign, NaNs by payload (not faithful: see the header) -/
def floatCode (bits : Nat) : List Nat :=
  if bits / 2 ^ 52 % 2048 = 2047 then
    if bits % 2 ^ 52 = 0 then [1, bits / 2 ^ 63 % 2, 0, 0, 0] else [2, bits, 0, 0, 0]
  else if bits / 2 ^ 52 % 2048 = 0 then realCode (bits / 2 ^ 63 % 2 == 1) (bits % 2 ^ 52) (-1074)
  else realCode (bits / 2 ^ 63 % 2 == 1) (bits % 2 ^ 52 + 2 ^ 52) ((bits / 2 ^ 52 % 2048 : Nat) - 1075)

def isNaNBits (bits : Nat) : Bool := bits / 2 ^ 52 % 2048 == 2047 && bits % 2 ^ 52 != 0

def lexLt : List Nat → List Nat → Bool
  | [], [] => false
  | [], _ :: _ => true
  | _ :: _, [] => false
  | a :: as, b :: bs => a < b || (a == b && lexLt as bs)

def insertCode (c : List Nat) : List (List Nat) → List (List Nat)
  | [] => [c]
  | d :: ds => if c = d then d :: ds else if lexLt c d then c :: d :: ds else d :: insertCode c ds

/-- sorted, duplicate-free: the code of a set of codes -/
def sortCodes (cs : List (List Nat)) : List (List Nat) := cs.foldr insertCode []

mutual
/-- equal codes = equal (and equally hashed) dict keys -/
def keyCode : Val → List Nat
  | .none => [10]
  | .notImpl => [11]
  | .ellipsis => [12]
  | .bool b => 13 :: (intCode (if b then 1 else 0) ++ intCode 0)
  | .int i => 13 :: (intCode i ++ intCode 0)
  | .float b => 13 :: (floatCode b ++ intCode 0)
  | .complex r i => 13 :: (floatCode r ++ floatCode i)
  | .bytes b => 14 :: b.length :: b
  | .str s => 15 :: s.length :: s
  | .tuple xs => 16 :: xs.length :: (keyCodes xs).flatten
  | .fset xs => 17 :: (sortCodes (keyCodes xs)).length :: (sortCodes (keyCodes xs)).flatten
  | .slice a b c => 18 :: (keyCode a ++ (keyCode b ++ keyCode c))
  | .other k => [19, k]
def keyCodes : List Val → List (List Nat)
  | [] => []
  | x :: xs => keyCode x :: keyCodes xs
end

mutual
/-- does the value contain a NaN (float or complex part) -/
def hasNaN : Val → Bool
  | .float b => isNaNBits b
  | .complex r i => isNaNBits r || isNaNBits i
  | .tuple xs => hasNaNL xs
  | .fset xs => hasNaNL xs
  | .slice a b c => hasNaN a || hasNaN b || hasNaN c
  | _ => false
def hasNaNL : List Val → Bool
  | [] => false
  | x :: xs => hasNaN x || hasNaNL xs
end

mutual
/-- can the value be a dict key on the interpreter the check runs under (`Gen.hash*`, measured): a `slice` is
hashable from Python 3.12 on only; a tuple / slice hashes its members; `other` (never decoded) stands for the
transport's own objects -/
def hashable : Val → Bool
  | .none => Gen.hashNone
  | .notImpl => Gen.hashNotImpl
  | .ellipsis => Gen.hashEllipsis
  | .bool _ => Gen.hashBool
  | .int _ => Gen.hashInt
  | .float _ => Gen.hashFloat
  | .complex _ _ => Gen.hashComplex
  | .bytes _ => Gen.hashBytes
  | .str _ => Gen.hashStr
  | .tuple xs => Gen.hashTuple && hashableL xs
  | .fset _ => Gen.hashFset
  | .slice a b c => Gen.hashSlice && hashable a && hashable b && hashable c
  | .other _ => true
def hashableL : List Val → Bool
  | [] => true
  | x :: xs => hashable x && hashableL xs
end

/-! ### insertion-ordered association lists (a Python dict), looked up by code -/

section AL
variable {κ β : Type}

/-- `d.get(k)` -/
def alFind (code : κ → List Nat) : List (κ × β) → List Nat → Option β
  | [], _ => none
  | (k, v) :: rest, c => if code k = c then some v else alFind code rest c

/-- `d[k] = v`: an existing key keeps its place and its key object, a new one goes last -/
def alSet (code : κ → List Nat) : List (κ × β) → κ → β → List (κ × β)
  | [], k, v => [(k, v)]
  | (k', v') :: rest, k, v =>
    if code k' = code k then (k', v) :: rest else (k', v') :: alSet code rest k v

/-- `d.pop(k, None)` / `del d[k]` -/
def alErase (code : κ → List Nat) : List (κ × β) → List Nat → List (κ × β)
  | [], _ => []
  | (k', v') :: rest, c => if code k' = c then rest else (k', v') :: alErase code rest c

end AL

/-! ### registry state -/

/-- `(host, port)` -/
abbrev Addr := Val × Val
def addrVal (a : Addr) : Val := .tuple [a.1, a.2]
def addrCode (a : Addr) : List Nat := keyCode (addrVal a)

/-- `services[name]`: address ↦ time of the last refresh -/
abbrev Inner := List (Addr × Int)
/-- `services` -/
abbrev Services := List (Val × Inner)

/-- a call of `on_service_added` / `on_service_removed` with the objects it was given -/
inductive Note where
  | added (name : Val) (a : Addr)
  | removed (name : Val) (a : Addr)

/-- `self.services[name]` after `if name not in self.services: self.services[name] = {}` -/
def innerOf (sv : Services) (name : Val) : Inner :=
  match alFind keyCode sv (keyCode name) with
  | none => []
  | some inner => inner

/-- `_add_service(name, addrinfo)` at time `now` -/
def addService (sv : Services) (name : Val) (a : Addr) (now : Int) : Services × List Note :=
  (alSet keyCode sv name (alSet addrCode (innerOf sv name) a now),
   if (alFind addrCode (innerOf sv name) (addrCode a)).isNone then [.added name a] else [])

/-- state, notifications and the exception (if any) that ended a sequence of removals -/
structure Res where
  sv : Services
  notes : List Note
  err : Option Err

def Res.prepend (ns : List Note) (r : Res) : Res := ⟨r.sv, ns ++ r.notes, r.err⟩

/-- `if not self.services[name]: del self.services[name]` after the pop -/
def afterPop (sv : Services) (name : Val) (inner' : Inner) : Services :=
  if inner'.isEmpty then alErase keyCode sv (keyCode name) else alSet keyCode sv name inner'

/-- `_remove_service(name, addrinfo)`: `self.services[name]` raises `KeyError` for an absent name; the
notification fires only when the entry existed -/
def removeService (sv : Services) (name : Val) (a : Addr) : Res :=
  match alFind keyCode sv (keyCode name) with
  | none => ⟨sv, [], some .keyError⟩
  | some inner =>
    ⟨afterPop sv name (alErase addrCode inner (addrCode a)),
     if (alFind addrCode inner (addrCode a)).isSome then [.removed name a] else [], none⟩

/-! ### `sorted(self.services[name].items(), key=lambda x: x[1])` — stable -/

def insertByTime (x : Addr × Int) : List (Addr × Int) → List (Addr × Int)
  | [] => [x]
  | y :: ys => if x.2 ≤ y.2 then x :: y :: ys else y :: insertByTime x ys

def sortByTime : List (Addr × Int) → List (Addr × Int)
  | [] => []
  | x :: xs => insertByTime x (sortByTime xs)

/-! ### the three commands -/

/-- what a command did and what it returned or raised -/
structure CmdRes where
  sv : Services
  notes : List Note
  out : Except Err Val

/-- the loop of `cmd_query` over the sorted snapshot: stale entries are removed, the rest collected -/
def queryLoop (name : Val) (oldest : Int) : List (Addr × Int) → Services → Res × List Addr
  | [], sv => (⟨sv, [], none⟩, [])
  | (a, t) :: rest, sv =>
    if t < oldest then
      match (removeService sv name a).err with
      | some _ => (removeService sv name a, [])
      | none =>
        (Res.prepend (removeService sv name a).notes (queryLoop name oldest rest (removeService sv name a).sv).1,
         (queryLoop name oldest rest (removeService sv name a).sv).2)
    else ((queryLoop name oldest rest sv).1, a :: (queryLoop name oldest rest sv).2)

def queryFinish (r : Res × List Addr) : CmdRes :=
  match r.1.err with
  | some e => ⟨r.1.sv, r.1.notes, .error e⟩
  | none => ⟨r.1.sv, r.1.notes, .ok (.tuple (r.2.map addrVal))⟩

def queryUpper (pruning : Int) (sv : Services) (NAME : Val) (now : Int) : CmdRes :=
  match alFind keyCode sv (keyCode NAME) with
  | none => ⟨sv, [], .ok (.tuple [])⟩
  | some inner => queryFinish (queryLoop NAME (now - pruning) (sortByTime inner) sv)

/-- `cmd_query(host, name)` at time `now` -/
def cmdQuery (env : Env) (pruning : Int) (sv : Services) (name : Val) (now : Int) : CmdRes :=
  match pyUpper env name with
  | .error e => ⟨sv, [], .error e⟩
  | .ok NAME => queryUpper pruning sv NAME now

/-- `", ".join(names)` accepts text items only -/
def allStr : List Val → Option (List (List Nat))
  | [] => some []
  | .str s :: rest => match allStr rest with
    | none => none
    | some ss => some (s :: ss)
  | _ :: _ => none

/-- `for name in names: self._add_service(name.upper(), (host, port))` -/
def regLoop (env : Env) (a : Addr) (now : Int) : List (List Nat) → Services → Services × List Note
  | [], sv => (sv, [])
  | s :: ss, sv =>
    ((regLoop env a now ss (addService sv (.str (strUpper env s)) a now).1).1,
     (addService sv (.str (strUpper env s)) a now).2 ++ (regLoop env a now ss (addService sv (.str (strUpper env s)) a now).1).2)

def ack : Val := .str Gen.ackReply

/-- `cmd_register` when `(host, port)` cannot be a dict key (a `slice` port before Python 3.12): the first
`_add_service` has already created `services[NAME] = {}` when `addrinfo not in ...` raises `TypeError` — the
command is refused, yet an empty inner dict is left behind -/
def registerUnhashable (env : Env) (sv : Services) : List (List Nat) → CmdRes
  | [] => ⟨sv, [], .ok ack⟩
  | s :: _ => ⟨alSet keyCode sv (.str (strUpper env s)) (innerOf sv (.str (strUpper env s))), [], .error .typeError⟩

/-- `brine.dump(((host, port),))` at the head of `cmd_register`, where the code has it (`Gen.registerChecksSendable`,
observed): an address that cannot be dumped (`RecursionError` for a port nested near the recursion limit) is refused
before anything is stored, because no reply to a query could carry it -/
def registerRefuses (env : Env) (a : Addr) : Bool :=
  Gen.registerChecksSendable &&
    (env.dumpOverflows (.tuple [addrVal a]) || (match dump (.tuple [addrVal a]) with | .ok _ => false | .error _ => true))

/-- `cmd_register(host, names, port)`: the debug line joins the names before anything is stored, so a
`names` that is not an iterable of text raises `TypeError` with the table untouched -/
def cmdRegister (env : Env) (sv : Services) (host names port : Val) (now : Int) : CmdRes :=
  match iterate' env names with
  | .error e => ⟨sv, [], .error e⟩
  | .ok xs => match allStr xs with
    | none => ⟨sv, [], .error .typeError⟩
    | some ss =>
      if registerRefuses env (host, port) then ⟨sv, [], .error .recursionError⟩
      else if hashable (addrVal (host, port)) then
        ⟨(regLoop env (host, port) now ss sv).1, (regLoop env (host, port) now ss sv).2, .ok ack⟩
      else registerUnhashable env sv ss

/-- `for name in list(self.services.keys()): self._remove_service(name, (host, port))` -/
def unregLoop (a : Addr) : List Val → Services → Res
  | [], sv => ⟨sv, [], none⟩
  | n :: ns, sv =>
    match (removeService sv n a).err with
    | some _ => removeService sv n a
    | none => Res.prepend (removeService sv n a).notes (unregLoop a ns (removeService sv n a).sv)

def unregFinish (r : Res) : CmdRes :=
  match r.err with
  | some e => ⟨r.sv, r.notes, .error e⟩
  | none => ⟨r.sv, r.notes, .ok ack⟩

/-- `cmd_unregister(host, port)`; with an unhashable `(host, port)` the first `pop` raises `TypeError` (nothing
changed), unless there is no name to visit -/
def cmdUnregister (sv : Services) (host port : Val) : CmdRes :=
  if hashable (addrVal (host, port)) then unregFinish (unregLoop (host, port) (sv.map Prod.fst) sv)
  else if sv.isEmpty then ⟨sv, [], .ok ack⟩ else ⟨sv, [], .error .typeError⟩

/-! ### one iteration of `_work` -/

inductive CmdName where
  | query | register | unregister
  deriving DecidableEq, Repr

def nmQuery : List Nat := [113, 117, 101, 114, 121]
def nmRegister : List Nat := [114, 101, 103, 105, 115, 116, 101, 114]
def nmUnregister : List Nat := [117, 110, 114, 101, 103, 105, 115, 116, 101, 114]

def cmdOfName (s : List Nat) : Option CmdName :=
  if s = nmQuery then some .query
  else if s = nmRegister then some .register
  else if s = nmUnregister then some .unregister
  else none

def findCmd (lowered : List Nat) : List (List Nat × Nat) → Option (CmdName × Nat)
  | [] => none
  | e :: rest => if e.1 = lowered then (match cmdOfName e.1 with
      | none => none
      | some c => some (c, e.2)) else findCmd lowered rest

/-- `isinstance(cmd, str) and getattr(self, "cmd_%s" % (cmd.lower(),), None)`: the method and the number
of arguments it takes after `host` -/
def lookupCmd (env : Env) : Val → Option (CmdName × Nat)
  | .str s => findCmd (strLower env s) Gen.cmdTable
  | _ => none

def isMagic : Val → Bool
  | .str s => s == Gen.magic
  | _ => false

/-- `cmdfunc(host, *args)` once the number of arguments is right -/
def callCmd (env : Env) (pruning : Int) (sv : Services) (host : Val) (now : Int) : CmdName → List Val → CmdRes
  | .query, [name] => cmdQuery env pruning sv name now
  | .register, [names, port] => cmdRegister env sv host names port now
  | .unregister, [port] => cmdUnregister sv host port
  | _, _ => ⟨sv, [], .error .typeError⟩

/-- what one iteration of `_work` did: new table, notifications fired, the reply handed to `_send`
(as a value; `_send` gets `brine.dump` of it), and whether the loop goes on -/
structure Step where
  sv : Services
  notes : List Note
  reply : Option Val
  alive : Bool

/-- `continue` -/
def idle (sv : Services) : Step := ⟨sv, [], none, true⟩

/-- `self.logger.warn(...); continue` — the call sits outside every `try`: the loop goes on iff the logger's
`warn` works (`Gen.realLoggerSurvivesWarn`, observed with a real `logging.Logger`; `Logger.warn` is gone from
Python 3.13 on) -/
def warnStep (sv : Services) : Step := ⟨sv, [], none, Gen.realLoggerSurvivesWarn⟩

/-- `except Exception: log` / `else: self._send(brine.dump(reply), addrinfo)`.  `brine.dump(reply)` can raise:
`RecursionError` for a deeply nested stored port (`env.dumpOverflows`), in principle an encoding error.  `guarded`
says whether that statement sits inside a `try` of its own (then: log, no reply, the loop goes on) or bare in the
`else:` clause (then the exception leaves `_work`). -/
def finishG (guarded : Bool) (env : Env) (r : CmdRes) : Step :=
  match r.out with
  | .error _ => ⟨r.sv, r.notes, none, true⟩
  | .ok reply =>
    if env.dumpOverflows reply then ⟨r.sv, r.notes, none, guarded⟩
    else match dump reply with
      | .ok _ => ⟨r.sv, r.notes, some reply, true⟩
      | .error _ => ⟨r.sv, r.notes, none, guarded⟩

/-- as the code under test does it (`Gen.replyDumpGuarded`, observed on the live `_work`) -/
def finish (env : Env) (r : CmdRes) : Step := finishG Gen.replyDumpGuarded env r

/-- `reply = cmdfunc(addrinfo[0], *args)` inside `try` -/
def execute (env : Env) (pruning : Int) (sv : Services) (host : Val) (now : Int) (c : CmdName × Nat) (args : Val) : Step :=
  match iterate' env args with
  | .error _ => idle sv
  | .ok xs => if xs.length = c.2 then finish env (callCmd env pruning sv host now c.1 xs) else idle sv

def dispatch3 (env : Env) (pruning : Int) (sv : Services) (host : Val) (now : Int) (m : Val × Val × Val) : Step :=
  if isMagic m.1 then
    match lookupCmd env m.2.1 with
    | none => warnStep sv
    | some c => execute env pruning sv host now c m.2.2
  else warnStep sv

def dispatch (env : Env) (pruning : Int) (sv : Services) (host : Val) (now : Int) (v : Val) : Step :=
  match unpack3' env v with
  | .error _ => idle sv
  | .ok m => dispatch3 env pruning sv host now m

/-- one iteration of `_work` on the datagram `_recv` returned, from `host`, at time `now` -/
def workStep (env : Env) (pruning : Int) (sv : Services) (host : Val) (dgram : Bytes) (now : Int) : Step :=
  if env.loadOverflows dgram then idle sv      -- `RecursionError` inside the first `try`
  else match load dgram with
    | .error _ => idle sv
    | .ok v => dispatch env pruning sv host now v

/-- `UDPRegistryServer._recv`: `recvfrom(MAX_DGRAM_SIZE)` hands over at most that many bytes -/
def udpRecv (d : Bytes) : Bytes := d.take Gen.maxDgramSize

/-! ### histories -/

/-- table and the log of every notification so far (oldest first) -/
structure St where
  sv : Services
  log : List Note

def St.init : St := ⟨[], []⟩

/-- a datagram from `host` arriving at time `now` -/
structure Event where
  now : Int
  host : Val
  dgram : Bytes

def St.after (st : St) (s : Step) : St := ⟨s.sv, st.log ++ s.notes⟩

def stepEvent (env : Env) (pruning : Int) (st : St) (e : Event) : Step :=
  workStep env pruning st.sv e.host e.dgram e.now

/-- the loop of `_work` over a history of datagrams, for as long as it keeps running -/
def run (env : Env) (pruning : Int) : St → List Event → St
  | st, [] => st
  | st, e :: es => run env pruning (st.after (stepEvent env pruning st e)) es

/-- did every iteration leave the loop running -/
def allAlive (env : Env) (pruning : Int) : St → List Event → Bool
  | _, [] => true
  | st, e :: es => (stepEvent env pruning st e).alive && allAlive env pruning (st.after (stepEvent env pruning st e)) es

/-! ### the TCP front end (`TCPRegistryServer._recv` / `_send`) -/

/-- a client connects from `peer` (its `getpeername()`, here a number; `host` is its first component) and
either sends `payload` at once (what the first `recv` returns; possibly partial or empty) or sends nothing -/
inductive TcpEv where
  | client (peer : Nat) (host : Val) (payload : Bytes)
  | silent (peer : Nat)

structure TcpSt where
  sv : Services
  /-- keys of `_connected_sockets`: accepted sockets that are still open -/
  conn : List Nat
  /-- milliseconds -/
  clock : Int

structure TcpOut where
  /-- did `accept` succeed (it fails with EMFILE when the process has no descriptor left) -/
  accepted : Bool
  step : Step
  elapsed : Nat

/-- what `_recv` does, before it accepts, about sockets that are still tracked (requests that got no reply) -/
def tcpStale (conn : List Nat) : List Nat := if Gen.tcpRecvClosesUnreplied then [] else conn

/-- `self._connected_sockets[addrinfo] = sock2` -/
def tcpTrack (conn : List Nat) (peer : Nat) : List Nat := if conn.contains peer then conn else conn ++ [peer]

/-- `_send` pops and closes the socket -/
def tcpAfter (conn : List Nat) (peer : Nat) (s : Step) : List Nat :=
  if s.reply.isSome then conn.erase peer else conn

/-- One iteration of `_work` of the TCP registry, from one wait in `accept` to the next (so `conn` is what is
tracked while the registry waits: the next `_recv` has already dealt with leftovers).  `fdLimit` = how many
accepted sockets the process can hold open at once; with that many open, `accept` fails (EMFILE). -/
def tcpStep (env : Env) (pruning : Int) (fdLimit : Nat) (ts : TcpSt) : TcpEv → TcpSt × TcpOut
  | .silent _ =>
    if ts.conn.length < fdLimit then
      -- `sock2.settimeout(TIMEOUT)`, `recv` raises `socket.timeout`, the loop continues; the socket is dropped
      (⟨ts.sv, tcpStale ts.conn, ts.clock + Gen.tcpServerTimeoutMs⟩, ⟨true, idle ts.sv, Gen.tcpServerTimeoutMs⟩)
    else (⟨ts.sv, tcpStale ts.conn, ts.clock⟩, ⟨false, idle ts.sv, 0⟩)
  | .client peer host payload =>
    if ts.conn.length < fdLimit then
      (⟨(workStep env pruning ts.sv host (payload.take Gen.maxDgramSize) ts.clock).sv,
        tcpStale (tcpAfter (tcpTrack ts.conn peer) peer (workStep env pruning ts.sv host (payload.take Gen.maxDgramSize) ts.clock)),
        ts.clock⟩,
       ⟨true, workStep env pruning ts.sv host (payload.take Gen.maxDgramSize) ts.clock, 0⟩)
    else (⟨ts.sv, tcpStale ts.conn, ts.clock⟩, ⟨false, idle ts.sv, 0⟩)

def tcpRun (env : Env) (pruning : Int) (fdLimit : Nat) : TcpSt → List TcpEv → TcpSt × List TcpOut
  | ts, [] => (ts, [])
  | ts, e :: es =>
    ((tcpRun env pruning fdLimit (tcpStep env pruning fdLimit ts e).1 es).1,
     (tcpStep env pruning fdLimit ts e).2 :: (tcpRun env pruning fdLimit (tcpStep env pruning fdLimit ts e).1 es).2)

end Rpyc.Registry
