import RpycModel.Brine.Model
import RpycModel.Gen.Wire
import RpycModel.Gen.Server
/-
L9 `Server` — bookkeeping automata of the four server kinds of `rpyc/utils/server.py`
(`ThreadedServer`, `ThreadPoolServer`, `ForkingServer`, `OneShotServer`), used by C16 and C17.

What is modelled (function names of the source in the doc comments): the accept loop
(`Server.start/accept`), the per-client try/finally of `_authenticate_and_serve_client`, `_serve_client`
(one service instance and one connection object with its own table per accepted client),
`Connection.serve_all/serve/_dispatch/close/_cleanup` as far as the server's bookkeeping sees them,
the pool's `fd_to_conn`, poll registrations, active queue, workers (`_serve_requests/_serve_clients`) and
poller (`_handle_poll_result`), `Server.close`, `ThreadPoolServer.close`, `ForkingServer._accept_method`,
`OneShotServer._accept_method`.

What is NOT modelled: threads, sockets and fork themselves.  The automaton describes the *quiescent*
state reached after each client action (every thread blocked in accept/poll/read/queue.get again);
the correspondence runs the real servers and waits for that state.  A client is a natural number; a
descriptor is identified with the client it belongs to (descriptor reuse by the OS is not modelled).
-/
namespace Rpyc.Srv
open Rpyc

inductive Kind where
  | threaded | pool | forking | oneshot
  deriving DecidableEq, Repr, Inhabited

/-- what a client sends when the server's authenticator reads its credentials: good, wrong, nothing yet (`silent`:
the authenticator blocks; the credentials may follow, `Op.creds`), or the connection was reset by the client before
the server looked at it (`reset`: SO_LINGER 0 and close right after the handshake) -/
inductive Cred where
  | good | bad | silent | reset
  deriving DecidableEq, Repr, Inhabited

/-- requests of well-behaved clients: `ping` (any exposed call), `lend` (a call returning a fresh
server-side object by reference), `probe oid` (use an object id on this connection) -/
inductive ReqKind where
  | ping | lend | probe (oid : Nat)
  /-- the client lets go of an object it was lent (`HANDLE_DEL`) -/
  | drop (oid : Nat)
  /-- a call after which the service instance's `on_disconnect` will not return until released (`Op.releaseHook`) -/
  | arm
  deriving DecidableEq, Repr, Inhabited

inductive Reply where
  | pong | ref (oid : Nat) | resolved | keyError | done
  deriving DecidableEq, Repr, Inhabited

/-- what a client has written that the server has not consumed yet, frame by frame -/
inductive Item where
  /-- a well-formed request of a well-behaved client -/
  | req (seq : Nat) (r : ReqKind)
  /-- a complete frame `_dispatch` gets through: a decodable request (answered with a reply or an
  exception by the guarded `_dispatch_request`) or a reply nobody waits for (dropped) -/
  | handled
  /-- a complete frame whose (decompressed) payload is empty: `serve()` takes `not data` for "nothing arrived" and
  returns False — no dispatch, no exception -/
  | empty
  /-- a complete frame that raises out of `serve()`: payload `brine.load` rejects, not a 3-sequence,
  invalid message type, corrupt compressed data (`zlib.error` in `Channel.recv`) -/
  | bad
  /-- an incomplete frame (truncated, or a length field larger than what follows): the reader blocks in
  `stream.read` -/
  | part
  /-- `HANDLE_CLOSE` followed by end-of-stream (`Connection.close()` of the client) -/
  | bye
  /-- end-of-stream only (socket closed without the protocol's goodbye) -/
  | fin
  deriving DecidableEq, Repr, Inhabited

inductive Phase where
  /-- never connected -/
  | absent
  /-- connected at kernel level, waiting in the listen queue -/
  | backlog
  /-- the authenticator is blocked reading this client's credentials -/
  | authing
  /-- served; nobody is reading: its thread waits in `poll` (threaded / forking / one-shot) or its
  descriptor is registered with the poller (pool) -/
  | idle
  /-- pool: descriptor in the active queue, no worker has taken it -/
  | queued
  /-- a thread is blocked in `stream.read` on an incomplete frame of this client -/
  | blocked
  /-- the thread that served this client has closed the connection (socket closed: the descriptor NUMBER is free again) and
  is still inside the service's `on_disconnect`.  Pool: a worker; `_drop_connection(fd)` has not run yet, the `fd_to_conn`
  entry is still there.  Other kinds: the client's own thread / child; the closed socket object is still in `clients` -/
  | closing
  /-- the server has finished with this client -/
  | done
  deriving DecidableEq, Repr, Inhabited

/-- everything the model knows about one client: the server side's record of it and the client's view -/
structure Cli where
  cred : Cred := .good
  phase : Phase := .absent
  inbox : List Item := []
  /-- service instance created by `Service._connect` for this connection -/
  inst : Option Nat := none
  /-- the server-side `Connection` exists and is not closed -/
  connOpen : Bool := false
  connHooks : Nat := 0
  discHooks : Nat := 0
  /-- the server process (the parent, for the forking server) holds a descriptor of this client's socket -/
  srvFd : Bool := false
  /-- every server-side copy of the socket is shut down or closed: the client observes end-of-stream -/
  shut : Bool := false
  /-- forking: the child process serving this client is alive -/
  child : Bool := false
  /-- ids of the objects lent on this connection (`Connection._local_objects`) -/
  table : List Nat := []
  replies : List (Nat × Reply) := []
  nextSeq : Nat := 0
  /-- the client has not closed its socket -/
  clientOpen : Bool := false
  /-- the client's last bytes were an incomplete frame (it can only disconnect now) -/
  partSent : Bool := false
  /-- its socket is a member of `Server.clients` -/
  tracked : Bool := false
  /-- pool: its descriptor is a key of `fd_to_conn` -/
  inFd : Bool := false
  /-- pool: its descriptor is registered with `poll_object` -/
  polled : Bool := false
  /-- its service's `on_disconnect` blocks until released -/
  slowHook : Bool := false
  /-- the client whose accepted socket was given this one's descriptor number after this one's socket was closed -/
  usurper : Option Nat := none
  deriving Repr, Inhabited

structure Cfg where
  kind : Kind
  /-- the server was given an authenticator -/
  auth : Bool
  /-- pool: `nbThreads` -/
  nb : Nat
  /-- pool: does the end-of-stream path (`_serve_requests` → `_drop_connection`) remove only the connection it was serving
  (the repaired code: by identity), or whatever `fd_to_conn` holds under that descriptor number by then (`false`) -/
  spare : Bool := true
  /-- pool: does `close()` end the connections' streams (socket shutdown) BEFORE it joins the workers (the repaired code) -
  so that a worker blocked in a read comes back - or only afterwards (`false`) -/
  closeUnblocks : Bool := true
  /-- does the accept loop survive an error from `accept()` other than EINTR / EAGAIN - out of descriptors or buffers
  (EMFILE, ENFILE, ENOBUFS, ENOMEM), an error of one incoming connection (ECONNABORTED, EPROTO, ...) -: logged and retried
  (the repaired code), or taken for the end of the server (`false`: `accept` raises EOFError, `start` closes the server) -/
  acceptTough : Bool := true
  deriving DecidableEq, Repr, Inhabited

structure St where
  cfg : Cfg
  /-- listener socket open -/
  listening : Bool := true
  active : Bool := true
  closedFlag : Bool := false
  /-- the thread running `start()` is still in its loop -/
  acceptAlive : Bool := true
  /-- the accept thread is occupied by this client (one-shot: serving it; pool: authenticating it) -/
  acceptBusy : Option Nat := none
  /-- pool: `_active_connection_queue` (FIFO) -/
  queue : List Nat := []
  /-- pool: clients on which a worker is blocked in `stream.read` -/
  blocked : List Nat := []
  /-- pool: poller and workers running -/
  poolUp : Bool := false
  /-- clients in connection order -/
  ids : List Nat := []
  cli : Nat → Cli := fun _ => {}
  nextInst : Nat := 0
  nextObj : Nat := 0
  /-- connections taken from the listener -/
  accepted : Nat := 0
  /-- connections for which `_serve_client` / the pool's connection building ran -/
  served : Nat := 0
  /-- ghost: complete frames the server's `Connection.serve` calls have consumed (a progress counter the
  correspondence can observe) -/
  frames : Nat := 0

def init (cfg : Cfg) : St := { cfg := cfg, poolUp := cfg.kind == .pool }

inductive Obs where
  | none | ok | refused | reply (r : Reply) | eof | timeout
  deriving DecidableEq, Repr, Inhabited

/-! ### small helpers -/

def rm (k : Nat) (l : List Nat) : List Nat := l.filter (· != k)

def St.set (s : St) (k : Nat) (c : Cli) : St := { s with cli := fun j => if j = k then c else s.cli j }

/-- `Connection.close()` / `_cleanup` on the server side: idempotent through `_closed`; runs the
service's `on_disconnect` once and clears the connection's tables -/
def closeConn (c : Cli) : Cli :=
  if c.connOpen then { c with connOpen := false, discHooks := c.discHooks + 1, table := [] } else c

/-- the server side lets go of the socket: shut down, last reference dropped (descriptor closed), the
serving thread / child process ends -/
def release (c : Cli) : Cli :=
  { c with srvFd := false, shut := true, child := false, phase := .done, inbox := [] }

def endServe (c : Cli) : Cli := release (closeConn c)

/-- the end of a connection served by a thread / child of its own (threaded, one-shot, forking): `Connection.close` →
`_cleanup` closes the channel (the descriptor is free, the client sees end-of-stream) and calls the service's
`on_disconnect`; with a hook that blocks the thread is still in there: the `finally` of
`_authenticate_and_serve_client` (`self.clients.discard(sock)`) has not run, the socket object — closed — is still
tracked, a forked child is still alive -/
def endServeD (c : Cli) : Cli :=
  if c.slowHook then { closeConn c with srvFd := false, shut := true, phase := .closing, inbox := [] } else endServe c

/-- a request of a well-behaved client is executed on its own connection -/
def answer (c : Cli) (seq : Nat) (r : ReqKind) (nextObj : Nat) : Cli × Nat :=
  match r with
  | .ping => ({ c with replies := (seq, .pong) :: c.replies }, nextObj)
  | .lend => ({ c with replies := (seq, .ref nextObj) :: c.replies, table := nextObj :: c.table }, nextObj + 1)
  | .probe oid =>
    ({ c with replies := (seq, if c.table.contains oid then .resolved else .keyError) :: c.replies }, nextObj)
  | .drop oid => ({ c with replies := (seq, .done) :: c.replies, table := c.table.filter (· != oid) }, nextObj)
  | .arm => ({ c with replies := (seq, .done) :: c.replies, slowHook := true }, nextObj)

/-- `Connection.serve_all` run by the client's own thread (threaded, one-shot) or child process
(forking), on what the client has sent: returns the client record (phase `idle`, `blocked` or `done`)
and the object counter -/
def consume : List Item → Cli → Nat → Cli × Nat
  | [], c, n => ({ c with inbox := [], phase := .idle }, n)
  | .req seq r :: rest, c, n => consume rest (answer c seq r n).1 (answer c seq r n).2
  | .handled :: rest, c, n => consume rest c n
  | .empty :: rest, c, n => consume rest c n
  -- exception out of `serve_all` (its `finally` closes the connection), out of `_serve_client`, logged and
  -- re-raised by `_authenticate_and_serve_client` whose `finally` shuts the socket down and untracks it
  | .bad :: _, c, n => (endServeD c, n)
  -- `_handle_close` → `_cleanup`; the reply hits the closed channel: EOFError, swallowed by `serve_all`
  | .bye :: _, c, n => (endServeD c, n)
  -- `stream.read` → EOFError → `serve` closes and re-raises, swallowed by `serve_all`
  | .fin :: _, c, n => (endServeD c, n)
  -- blocked in `stream.read`; whatever follows an incomplete frame can only be the end of the stream
  | .part :: rest, c, n =>
    if rest.isEmpty then ({ c with inbox := [], phase := .blocked }, n) else (endServeD c, n)

/-- `ThreadPoolServer._serve_requests` by a worker that took this client's descriptor from the queue
(batches are re-queued and taken again: at quiescence the same) -/
def poolConsume : List Item → Cli → Nat → Cli × Nat
  | [], c, n => ({ c with inbox := [], phase := .idle }, n)
  | .req seq r :: rest, c, n => poolConsume rest (answer c seq r n).1 (answer c seq r n).2
  | .handled :: rest, c, n => poolConsume rest c n
  -- `conn.poll()` returns False: the descriptor goes back to the poller, which reports it again if more is waiting
  | .empty :: rest, c, n => poolConsume rest c n
  -- `except Exception: queue.put(fd); raise` → the worker's catch-all logs, sleeps and goes on: the
  -- connection stays
  | .bad :: rest, c, n => poolConsume rest c n
  -- `except EOFError: self._drop_connection(fd)`
  | .bye :: _, c, n => (endServe c, n)
  | .fin :: _, c, n => (endServe c, n)
  | .part :: rest, c, n =>
    if rest.isEmpty then ({ c with inbox := [], phase := .blocked }, n) else (endServe c, n)

/-- complete frames that get through `serve()` before the client's own thread stops reading -/
def dedFrames : List Item → Nat
  | [] => 0
  | .req _ _ :: r => 1 + dedFrames r
  | .handled :: r => 1 + dedFrames r
  | .empty :: r => dedFrames r
  | .bad :: _ => 1
  | _ => 0

/-- the same for a pool worker, which survives an undecodable frame -/
def poolFrames : List Item → Nat
  | [] => 0
  | .req _ _ :: r => 1 + poolFrames r
  | .handled :: r => 1 + poolFrames r
  | .empty :: r => poolFrames r
  | .bad :: r => 1 + poolFrames r
  | _ => 0

/-! ### `Server.close` -/

def St.mapCli (s : St) (f : Cli → Cli) : St := { s with cli := fun j => f (s.cli j) }

/-- what `c.shutdown(SHUT_RDWR); c.close()` on a tracked socket does to the thread using it -/
def shutOne (c : Cli) : Cli :=
  match c.phase with
  -- its thread reads end-of-stream and closes the connection (and may stay inside a blocking `on_disconnect`)
  | .idle => endServeD c
  | .blocked => endServeD c
  | .queued => endServeD c
  -- the authenticator reads end-of-stream: AuthenticationError, connection rejected
  | .authing => release c
  | _ => c

/-- `Server.close()` as one client meets it: `for c in set(self.clients): c.shutdown(..); c.close()`, then
`self.clients.clear()`; a connection still in the listen queue is reset by the kernel when the listener closes -/
def closeEffect (c : Cli) : Cli :=
  if c.tracked then { shutOne c with tracked := false }
  else if c.phase = .backlog then { c with shut := true, phase := .done, inbox := [] }
  else c

/-- `Server.close()` -/
def baseClose (s : St) : St :=
  if s.closedFlag then s
  else { (s.mapCli closeEffect) with
         closedFlag := true, active := false, listening := false, acceptAlive := false, acceptBusy := none }

/-- `ThreadPoolServer._drop_connection`: `del fd_to_conn[fd]`, `conn.close()` (the poll registration is not touched) -/
def dropEffect (c : Cli) : Cli := if c.inFd then { endServe c with inFd := false } else c

/-- would `ThreadPoolServer.close()` have to wait for application code: a worker that sits in a service's blocking
`on_disconnect` (it is joined), or a connection still open whose `on_disconnect` will block (it is called by `close()`
itself, from the final loop) -/
def hookHolds (c : Cli) : Bool := c.phase == .closing || (c.inFd && c.slowHook && c.connOpen)

/-- `ThreadPoolServer.close()` does not return (yet): it waits for application code (`hookHolds`), or - the code that joins
the workers BEFORE it touches the connections (`closeUnblocks = false`) - for a worker that is blocked in `stream.read` on
a client that stays connected -/
def closeWaits (s : St) : Bool :=
  s.poolUp && (s.ids.any (fun k => hookHolds (s.cli k)) || (!s.cfg.closeUnblocks && !s.blocked.isEmpty))

/-- `ThreadPoolServer.close()`: `Server.close`; the sockets of the connections in `fd_to_conn` are shut down (every client
sees end-of-stream; a worker blocked in `stream.read` gets EOFError and drops its connection through its usual path);
the poller and the workers are joined; every connection left in `fd_to_conn` is dropped (closed, `on_disconnect` run).
`none` = it does not return in this state (`closeWaits`) -/
def poolClose (s : St) : Option St :=
  if closeWaits s then none
  else some { ((baseClose s).mapCli dropEffect) with poolUp := false, blocked := [] }

/-! ### per-client serving -/

/-- the per-client `finally` of `_authenticate_and_serve_client` (`self.clients.discard(sock)`), then
`OneShotServer._accept_method`'s `finally: self.close()` -/
def afterEnd (s : St) (k : Nat) : St :=
  if s.cfg.kind = .oneshot
  then baseClose { (s.set k { s.cli k with tracked := false }) with acceptBusy := none, acceptAlive := false }
  else s.set k { s.cli k with tracked := false }

def applyConsumed (s : St) (k : Nat) (r : Cli × Nat) : St :=
  if r.1.phase = .done then afterEnd { (s.set k r.1) with nextObj := r.2 } k
  else { (s.set k r.1) with nextObj := r.2 }

/-- the client's own thread / child serves what has arrived -/
def runDedicated (s : St) (k : Nat) : St :=
  applyConsumed { s with frames := s.frames + dedFrames (s.cli k).inbox } k
    (consume (s.cli k).inbox (s.cli k) s.nextObj)

/-- `_serve_client`: `service._connect` creates the service instance (a class is registered) and the
connection with its own tables, `on_connect` runs -/
def built (s : St) (k : Nat) : St :=
  { (s.set k { s.cli k with inst := some s.nextInst, connOpen := true,
                            connHooks := (s.cli k).connHooks + 1, phase := .idle }) with
    nextInst := s.nextInst + 1, served := s.served + 1 }

/-- ... then `serve_all` -/
def serveClient (s : St) (k : Nat) : St := runDedicated (built s k) k

/-- `_authenticate_and_serve_client` -/
def authServe (s : St) (k : Nat) : St :=
  -- a connection the client has already reset: `sock.getpeername()` raises ENOTCONN (in `_serve_client`, or before the
  -- authenticator is called); the exception leaves through the `finally`
  if (s.cli k).cred = .reset then afterEnd (s.set k (release (s.cli k))) k
  else if s.cfg.auth then
    match (s.cli k).cred with
    | .good => serveClient s k
    -- AuthenticationError: logged, `return`; the `finally` shuts down and untracks
    | .bad => afterEnd (s.set k (release (s.cli k))) k
    -- the authenticator blocks in `recv` (or reads end-of-stream at once if the client is already gone)
    | .silent =>
      if (s.cli k).inbox.contains .fin then afterEnd (s.set k (release (s.cli k))) k
      else s.set k { s.cli k with phase := .authing }
    | .reset => afterEnd (s.set k (release (s.cli k))) k
  else serveClient s k

/-! ### pool internals -/

def freeWorkers (s : St) : Nat := s.cfg.nb - s.blocked.length

/-- where a worker leaves the connection it served: dropped (`except EOFError: _drop_connection`), still
blocked on it, or back with the poller (`_add_inactive_connection`) -/
def poolPlace (s : St) (k : Nat) (r : Cli × Nat) : St :=
  match r.1.phase with
  | .done =>
    -- `conn.poll()` raised EOFError: inside it the connection was closed (socket closed, then `on_disconnect`); with a
    -- hook that blocks, the worker is still in there and `_drop_connection(fd)` has not run
    if r.1.slowHook then { (s.set k { r.1 with phase := .closing }) with nextObj := r.2, blocked := k :: s.blocked }
    else { (s.set k { r.1 with inFd := false }) with nextObj := r.2 }
  | .blocked => { (s.set k r.1) with nextObj := r.2, blocked := k :: s.blocked }
  | _ => { (s.set k { r.1 with polled := true }) with nextObj := r.2 }

/-- a worker took `k` from the active queue -/
def poolServeOne (s : St) (k : Nat) : St :=
  poolPlace { s with frames := s.frames + poolFrames (s.cli k).inbox } k
    (poolConsume (s.cli k).inbox (s.cli k) s.nextObj)

/-- free workers take descriptors from the queue in FIFO order -/
def drain : List Nat → St → St
  | [], s => { s with queue := [] }
  | k :: q, s => if freeWorkers s = 0 then { s with queue := k :: q } else drain q (poolServeOne s k)

/-- the poller sees `k` readable: unregister, queue -/
def poolWake (s : St) (k : Nat) : St :=
  if !s.poolUp || (s.cli k).inbox.isEmpty then s
  else drain (s.queue ++ [k]) (s.set k { s.cli k with phase := .queued, polled := false })

/-- the client a worker is blocked on goes away: EOFError, `_drop_connection`, the worker is free again -/
def poolUnblock (s : St) (k : Nat) : St :=
  if (s.cli k).slowHook then s.set k { endServe (s.cli k) with phase := .closing }
  else drain s.queue { (s.set k { endServe (s.cli k) with inFd := false }) with blocked := rm k s.blocked }

/-- who holds the `fd_to_conn` entry under the descriptor number client `k` was given: `k` itself, or the client whose
socket got the number after `k`'s was closed, and so on -/
def holder : Nat → St → Nat → Option Nat
  | 0, _, _ => none
  | f + 1, s, k =>
    if (s.cli k).inFd then some k
    else match (s.cli k).usurper with
      | some u => holder f s u
      | none => none

/-- `_drop_connection` as it hits a connection it was not called for: popped from the table and closed; the poller then
finds its descriptor invalid and unregisters it -/
def dropVictim (c : Cli) : Cli := { endServe c with inFd := false, polled := false }

/-- the worker comes back from the blocking `on_disconnect` of client `k` and drops "its" descriptor -/
def poolRelease (s : St) (k : Nat) : St :=
  drain s.queue
    { (if s.cfg.spare then s.set k { s.cli k with phase := .done, inFd := false, slowHook := false }
       else match holder (s.ids.length + 1) s k with
         | some v =>
           if v = k then s.set k { s.cli k with phase := .done, inFd := false, slowHook := false }
           else (s.set v (dropVictim (s.cli v))).set k { s.cli k with phase := .done, inFd := false, slowHook := false }
         | none => s.set k { s.cli k with phase := .done, inFd := false, slowHook := false }) with
      blocked := rm k s.blocked }

/-- threaded / one-shot / forking: the blocking `on_disconnect` of client `k` returns; its thread runs the `finally`
clauses it had not reached (untrack; one-shot: `self.close()`), a forked child exits -/
def dedRelease (s : St) (k : Nat) : St :=
  afterEnd (s.set k { s.cli k with phase := .done, child := false, slowHook := false }) k

/-- `self.clients.clear()` -/
def untrackAll (s : St) : St := s.mapCli (fun c => { c with tracked := false })

/-- `ThreadPoolServer._accept_method` succeeded: `fd_to_conn[fd] = conn`, registered, `clients.clear()` -/
def poolBuild (s : St) (k : Nat) : St :=
  poolWake (untrackAll ((built s k).set k { (built s k).cli k with inFd := true, polled := true })) k

/-- `ThreadPoolServer._accept_method`: the authenticator runs in the accept thread -/
def poolAccept (s : St) (k : Nat) : St :=
  -- reset connection: `getpeername()` / the authenticator's `recv` raise OSError: the `except Exception` branch
  if (s.cli k).cred = .reset then untrackAll (s.set k (release (s.cli k)))
  else if s.cfg.auth then
    match (s.cli k).cred with
    | .good => poolBuild s k
    -- `except Exception: ... sock.close(); self.clients.clear()`
    | .bad => untrackAll (s.set k (release (s.cli k)))
    | .silent =>
      if (s.cli k).inbox.contains .fin then untrackAll (s.set k (release (s.cli k)))
      else { (s.set k { s.cli k with phase := .authing }) with acceptBusy := some k }
    | .reset => untrackAll (s.set k (release (s.cli k)))
  else poolBuild s k

/-! ### the accept loop -/

def canAccept (s : St) : Bool := s.listening && s.active && s.acceptAlive && s.acceptBusy.isNone

/-- `Server.accept` returned client `k`: `self.clients.add(sock)`, then `_accept_method` -/
def acceptOne (s : St) (k : Nat) : St :=
  match s.cfg.kind with
  | .threaded =>
    authServe { (s.set k { s.cli k with srvFd := true, tracked := true, phase := .idle }) with
                accepted := s.accepted + 1 } k
  | .forking =>
    -- the child serves with its own copy; the parent closes its copy and untracks at once
    authServe { (s.set k { s.cli k with child := true, phase := .idle }) with accepted := s.accepted + 1 } k
  | .oneshot =>
    authServe { (s.set k { s.cli k with srvFd := true, tracked := true, phase := .idle }) with
                accepted := s.accepted + 1, acceptBusy := some k } k
  | .pool =>
    poolAccept { (s.set k { s.cli k with srvFd := true, tracked := true, phase := .idle }) with
                 accepted := s.accepted + 1 } k

/-- the accept loop takes waiting connections in order for as long as it is free -/
def acceptAll : List Nat → St → St
  | [], s => s
  | k :: ks, s =>
    if canAccept s && (s.cli k).phase = .backlog then acceptAll ks (acceptOne s k) else acceptAll ks s

/-! ### client actions -/

/-- the pool's authenticator (accept thread) reads end-of-stream from the stalled client: the `except`
branch of `_accept_method`, then the accept loop goes on -/
def poolAuthGone (s : St) (k : Nat) : St :=
  acceptAll s.ids { (untrackAll (s.set k (release (s.cli k)))) with acceptBusy := none }

/-- something arrived for client `k` -/
def wake (s : St) (k : Nat) : St :=
  match (s.cli k).phase with
  | .idle => if s.cfg.kind = .pool then poolWake s k else runDedicated s k
  | .blocked =>
    if (s.cli k).inbox.contains .fin then
      (if s.cfg.kind = .pool then poolUnblock s k
       else if (s.cli k).slowHook then s.set k (endServeD (s.cli k))
       else afterEnd (s.set k (endServe (s.cli k))) k)
    else s
  | .authing =>
    if (s.cli k).inbox.contains .fin then
      (if s.cfg.kind = .pool then poolAuthGone s k else afterEnd (s.set k (release (s.cli k))) k)
    else s
  | _ => s

/-- the pool's authenticator (accept thread) got good credentials from the client it was waiting for: the connection
is built and the accept loop goes on -/
def poolAuthDone (s : St) (k : Nat) : St :=
  acceptAll s.ids { (poolBuild s k) with acceptBusy := none }

/-- a client that had connected without credentials sends them now (`c` = good or bad) -/
def supply (s : St) (k : Nat) (c : Cred) : St :=
  if (s.cli k).shut then s.set k { s.cli k with cred := c }
  else match (s.cli k).phase with
    | .authing =>
      -- the authenticator's read returns
      if s.cfg.kind = .pool then
        (if c = .good then poolAuthDone (s.set k { s.cli k with cred := c }) k
         else poolAuthGone (s.set k { s.cli k with cred := c }) k)
      else
        (if c = .good then serveClient (s.set k { s.cli k with cred := c }) k
         else afterEnd (s.set k (release { s.cli k with cred := c })) k)
    -- still in the listen queue: the bytes wait in the socket
    | _ => s.set k { s.cli k with cred := c }

/-- client `k` writes `items` (nothing arrives once the server side is gone) -/
def send (s : St) (k : Nat) (items : List Item) : St :=
  if (s.cli k).shut then s
  else wake (s.set k { s.cli k with inbox := (s.cli k).inbox ++ items }) k

def lastIsPart : List Item → Bool
  | [] => false
  | [x] => x == .part
  | _ :: xs => lastIsPart xs

/-- the record of a client that was accepted and turned away at once: its socket closed (end-of-stream for the client),
discarded from `clients`, nothing else ever created for it -/
def turnedAway : Cli := { cred := .good, phase := .done, clientOpen := true, shut := true }

/-- `Server.accept`: `clients.add(sock)`, `_accept_method(sock)` raises, the `except` clause logs, discards and closes -/
def rejectNew (s : St) (k : Nat) : St :=
  { (s.set k turnedAway) with ids := s.ids ++ [k], accepted := s.accepted + 1 }

inductive Op where
  | connect (k : Nat) (cred : Cred)
  | call (k : Nat) (r : ReqKind)
  /-- hostile bytes, already cut into frames (`classify`) -/
  | raw (k : Nat) (items : List Item)
  | gracefulClose (k : Nat)
  | abruptClose (k : Nat)
  | serverClose
  /-- late credentials of a client that connected with `Cred.silent` -/
  | creds (k : Nat) (c : Cred)
  /-- a new well-behaved client whose accepted socket is given the descriptor number that client `j`'s socket, closed by
  now, had (the kernel hands out the lowest free number) -/
  | connectReuse (k j : Nat)
  /-- the blocking `on_disconnect` of client `k` returns -/
  | releaseHook (k : Nat)
  /-- an event of the environment: the accept loop's `listener.accept()` fails once with an error that is not EINTR / EAGAIN
  and not the listener being gone -/
  | acceptFault
  /-- a well-behaved client connects and the server cannot start a thread / child process for it (`spawn()`: "can't start
  new thread", `os.fork()`: EAGAIN, ENOMEM - an event of the environment; threaded and forking servers) -/
  | connectNoSpawn (k : Nat)
  deriving Repr, Inhabited

/-- may the client still speak the protocol -/
def usable (s : St) (k : Nat) : Bool :=
  (s.cli k).phase != .absent && (s.cli k).clientOpen && !(s.cli k).partSent && (s.cli k).cred != .silent

def callObs (c : Cli) (seq : Nat) : Obs :=
  match c.replies.lookup seq with
  | some r => .reply r
  | none => if c.shut then .eof else .timeout

/-- one client or administrator action, run to quiescence; `Err.valueError` = not an action of the
alphabet in this state (unknown / reused client id, a client that already left, speaking after an
incomplete frame); `Err.notModelled` = `ThreadPoolServer.close()` in a state in which it does not return (`closeWaits`) -/
def step (s : St) : Op → Except Err (St × Obs)
  | .connect k cred =>
    if (s.cli k).phase != .absent || (cred == .bad && !s.cfg.auth) then .error .valueError
    else if !s.listening then .ok (s, .refused)
    else .ok (acceptAll (s.ids ++ [k])
                { (s.set k { cred := cred, phase := .backlog, clientOpen := cred != .reset,
                             inbox := if cred = .reset then [.fin] else [] }) with ids := s.ids ++ [k] }, .ok)
  | .call k r =>
    if !usable s k then .error .valueError
    else .ok (send (s.set k { s.cli k with nextSeq := (s.cli k).nextSeq + 1 }) k [.req (s.cli k).nextSeq r],
              callObs ((send (s.set k { s.cli k with nextSeq := (s.cli k).nextSeq + 1 }) k
                          [.req (s.cli k).nextSeq r]).cli k) (s.cli k).nextSeq)
  | .raw k items =>
    if !usable s k || items.isEmpty then .error .valueError
    else .ok (send (s.set k { s.cli k with partSent := lastIsPart items }) k items, .none)
  | .gracefulClose k =>
    if !usable s k then .error .valueError
    else .ok (send (s.set k { s.cli k with clientOpen := false }) k [.bye], .none)
  | .abruptClose k =>
    if (s.cli k).phase == .absent || !(s.cli k).clientOpen then .error .valueError
    else .ok (send (s.set k { s.cli k with clientOpen := false }) k [.fin], .none)
  | .creds k c =>
    if (s.cli k).phase == .absent || !(s.cli k).clientOpen || (s.cli k).cred != .silent || !s.cfg.auth ||
       !(c == .good || c == .bad) then .error .valueError
    else .ok (supply s k c, .none)
  | .connectReuse k j =>
    -- (defined only while the accept loop is free: the number is assigned by `accept()`)
    if (s.cli k).phase != .absent || k == j || !((s.cli j).phase == .closing || (s.cli j).phase == .done) ||
       (s.cli j).srvFd || (s.cli j).usurper.isSome || !canAccept s then .error .valueError
    else
      -- `fd_to_conn[fd] = conn` of the newcomer replaces whatever entry was left under that number
      .ok (acceptAll (s.ids ++ [k])
            { ((s.set j { s.cli j with inFd := false, usurper := some k }).set k
                { cred := .good, phase := .backlog, clientOpen := true }) with ids := s.ids ++ [k] }, .ok)
  | .releaseHook k =>
    if (s.cli k).phase != .closing then .error .valueError
    else if s.cfg.kind = .pool then .ok (poolRelease s k, .none)
    else .ok (dedRelease s k, .none)
  | .serverClose =>
    if s.cfg.kind = .pool then
      (match poolClose s with
       | some s' => .ok (s', .none)
       | none => .error .notModelled)
    else .ok (baseClose s, .none)
  | .connectNoSpawn k =>
    if (s.cli k).phase != .absent || !(s.cfg.kind == .threaded || s.cfg.kind == .forking) then .error .valueError
    else if !s.listening then .ok (s, .refused)
    else if !canAccept s then .error .valueError
    else .ok (rejectNew s k, .ok)
  | .acceptFault =>
    -- (an event only while the accept thread is in `accept()`)
    if !canAccept s then .error .valueError
    -- logged, a moment's pause, the loop goes on
    else if s.cfg.acceptTough then .ok (s, .none)
    -- `raise EOFError()` out of `accept`, swallowed by `start`, whose `finally` closes the server
    else if s.cfg.kind = .pool then
      (match poolClose s with
       | some s' => .ok (s', .none)
       | none => .error .notModelled)
    else .ok (baseClose s, .none)

/-- run a list of actions; actions outside the alphabet are skipped (they change nothing) -/
def run (s : St) : List Op → St
  | [] => s
  | op :: ops =>
    match step s op with
    | .ok (s', _) => run s' ops
    | .error _ => run s ops

/-- the observations, in order (`none` for a skipped action) -/
def runObs (s : St) : List Op → List (Option Obs)
  | [] => []
  | op :: ops =>
    match step s op with
    | .ok (s', o) => some o :: runObs s' ops
    | .error _ => none :: runObs s ops

/-! ### hostile bytes → frames (`Channel.recv`, `Connection._dispatch`) -/

/-- facts about the environment the model does not compute -/
structure Env where
  /-- `zlib.decompress` (`none` = `zlib.error`) -/
  zlib : Bytes → Option Bytes
  /-- for a decodable payload the model does not classify itself (a reply message carrying by-reference packages, whose
  unboxing talks to the sender; a 3-element frozenset, whose order is the interpreter's; a payload outside the brine
  model): does dispatching it raise out of `_dispatch` -/
  raises : Bytes → Bool

/-- bit patterns of the doubles 0.0 … 3.0 -/
def smallFloat : Nat → Option Nat
  | 0 => some 0 | 1 => some 0x3FF0000000000000 | 2 => some 0x4000000000000000 | 3 => some 0x4008000000000000
  | _ => none

/-- Python `v == n` for a loaded value and a small message-type number -/
def numEq (v : Val) (n : Nat) : Bool :=
  match v with
  | .int i => i == (n : Int)
  | .bool b => (if b then 1 else 0) == n
  | .float bits => smallFloat n == some bits
  | .complex re im => smallFloat n == some re && (im == 0 || im == 0x8000000000000000)
  | _ => false

inductive Unpacked where
  | three (m seq args : Val) | notThree | unordered

/-- `msg, seq, args = brine.load(data)` -/
def unpack3 : Val → Unpacked
  | .tuple [a, b, c] => .three a b c
  | .bytes [a, b, c] => .three (.int a) (.int b) (.int c)
  | .str [a, b, c] => .three (.str [a]) (.str [b]) (.str [c])
  | .fset [_, _, _] => .unordered
  | _ => .notThree

def viaEnv (env : Env) (data : Bytes) : Item := if env.raises data then .bad else .handled

mutual
/-- does a value contain a by-reference package - a pair whose label is `LABEL_REMOTE_REF` - anywhere (over-approximated:
`_unbox` only looks through `LABEL_TUPLE` packages): unboxing it makes the receiver ask its peer about the object's class -/
def hasRemoteRef : Val → Bool
  | .tuple xs => (match xs with
                  | [l, _] => numEq l Gen.Srv.labelRemoteRef
                  | _ => false) || hasRemoteRefL xs
  | .fset xs => hasRemoteRefL xs
  | _ => false
def hasRemoteRefL : List Val → Bool
  | [] => false
  | x :: xs => hasRemoteRef x || hasRemoteRefL xs
end

/-- `*args` of an empty iterable: no arguments -/
def emptyIter : Val → Bool
  | .tuple [] => true | .str [] => true | .bytes [] => true | .fset [] => true
  | _ => false

/-- the arguments of a request that really runs `_handle_close` (and so `_cleanup`): `handler, args = raw_args`, the
handler number `HANDLE_CLOSE`, and `args` unboxing to nothing (`(LABEL_VALUE, <empty>)` or `(LABEL_TUPLE, ())`); with
any argument `_handle_close(self, *args)` is a TypeError, answered like every other failing request -/
def isCloseRequest : Val → Bool
  | .tuple [h, .tuple [l, v]] =>
    numEq h Gen.Srv.handleClose &&
      ((numEq l Gen.Srv.labelValue && emptyIter v) ||
       (numEq l Gen.Srv.labelTuple && (match v with | .tuple [] => true | _ => false)))
  | _ => false

/-- one complete, decompressed payload through `_dispatch` -/
def classifyPayload (env : Env) (data : Bytes) : Item :=
  match Brine.load data with
  | .error .notModelled => viaEnv env data
  | .error _ => .bad
  | .ok v =>
    match unpack3 v with
    | .notThree => .bad
    | .unordered => viaEnv env data
    | .three m _ args =>
      -- a request: answered by the guarded `_dispatch_request` - unless it is the protocol's own goodbye
      -- (one whose arguments carry a by-reference object makes the server ask the sender about it and wait for the answer
      -- for up to sync_request_timeout: not modelled)
      if numEq m Gen.Srv.msgRequest then
        (if isCloseRequest args then .bye else if hasRemoteRef args then viaEnv env data else .handled)
      -- a response nobody waits for: `_deliver_response` keeps decode failures to itself, `_seq_request_callback` finds no
      -- callback; an exception message is rebuilt by `vinegar.load` (no round trip), a reply is unboxed - which asks the
      -- sender about every by-reference object in it: not modelled
      else if numEq m Gen.Srv.msgException then .handled
      else if numEq m Gen.Srv.msgReply then (if hasRemoteRef args then viaEnv env data else .handled)
      else .bad

def needsEnvPayload (data : Bytes) : Bool :=
  match Brine.load data with
  | .error .notModelled => true
  | .error _ => false
  | .ok v =>
    match unpack3 v with
    | .notThree => false
    | .unordered => true
    | .three m _ args =>
      (numEq m Gen.Srv.msgRequest && !isCloseRequest args && hasRemoteRef args) ||
      (!numEq m Gen.Srv.msgRequest && !numEq m Gen.Srv.msgException && numEq m Gen.Srv.msgReply && hasRemoteRef args)

def classifyFrame (env : Env) (flag : Nat) (data : Bytes) : Item :=
  if flag = 0 then (if data.isEmpty then .empty else classifyPayload env data)
  else match env.zlib data with
    | none => .bad
    | some d => if d.isEmpty then .empty else classifyPayload env d

/-- `Channel.recv` repeatedly over the bytes a client wrote: header (`FRAME_HEADER`), `length + len(FLUSHER)`
bytes, the trailing byte dropped unchecked; what is left over is an incomplete frame -/
def splitFrames (env : Env) : Nat → Bytes → List Item
  | 0, _ => []
  | fuel + 1, bs =>
    if bs.isEmpty then []
    else if bs.length < Gen.frameHeaderSize then [.part]
    else if (bs.drop Gen.frameHeaderSize).length <
            unbe (bs.take Gen.frameLenWidth) + Gen.flusher.length then [.part]
    else classifyFrame env (unbe ((bs.take Gen.frameHeaderSize).drop Gen.frameLenWidth))
           ((bs.drop Gen.frameHeaderSize).take (unbe (bs.take Gen.frameLenWidth)))
         :: splitFrames env fuel
              ((bs.drop Gen.frameHeaderSize).drop (unbe (bs.take Gen.frameLenWidth) + Gen.flusher.length))

/-- every byte string a client can write, as frames -/
def classify (env : Env) (bs : Bytes) : List Item := splitFrames env (bs.length + 1) bs

/-- hostile bytes as an action -/
def Op.ofBytes (k : Nat) (env : Env) (bs : Bytes) : Op := .raw k (classify env bs)

end Rpyc.Srv
