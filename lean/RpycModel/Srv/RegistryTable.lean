import RpycModel.Srv.Registry
/-
Lemmas about the registry's tables: the insertion-ordered association lists, the abstract view
`(name code, address code) ↦ last refresh`, the representation invariant, and what `_add_service` /
`_remove_service` do to them.
-/
namespace Rpyc.Registry
open Rpyc

/-! ### association lists -/
section AL
variable {κ β : Type} (code : κ → List Nat)

def alKeys (l : List (κ × β)) : List (List Nat) := l.map (fun e => code e.1)

@[simp] theorem alKeys_nil : alKeys code ([] : List (κ × β)) = [] := rfl
@[simp] theorem alKeys_cons (e : κ × β) (l : List (κ × β)) : alKeys code (e :: l) = code e.1 :: alKeys code l := rfl

theorem alFind_none_of_not_mem (l : List (κ × β)) (c : List Nat) (h : c ∉ alKeys code l) : alFind code l c = none := by
  induction l with
  | nil => rfl
  | cons e l ih =>
    obtain ⟨k, v⟩ := e
    simp only [alKeys_cons, List.mem_cons, not_or] at h
    simp only [alFind]
    rw [if_neg (fun hh => h.1 hh.symm)]
    exact ih h.2

theorem alFind_isSome_of_mem (l : List (κ × β)) (c : List Nat) (h : c ∈ alKeys code l) : (alFind code l c).isSome = true := by
  induction l with
  | nil => simp at h
  | cons e l ih =>
    obtain ⟨k, w⟩ := e
    simp only [alKeys_cons, List.mem_cons] at h
    simp only [alFind]
    by_cases hk : code k = c
    · simp [hk]
    · rw [if_neg hk]
      exact ih (h.resolve_left (fun hh => hk hh.symm))

theorem map_fst_keys (l : List (κ × β)) : (l.map Prod.fst).map code = alKeys code l := by
  simp [alKeys, List.map_map, Function.comp_def]

theorem mem_keys_of_alFind (l : List (κ × β)) (c : List Nat) (v : β) (h : alFind code l c = some v) : c ∈ alKeys code l := by
  induction l with
  | nil => simp [alFind] at h
  | cons e l ih =>
    obtain ⟨k, w⟩ := e
    simp only [alFind] at h
    by_cases hk : code k = c
    · simp [hk]
    · rw [if_neg hk] at h
      simp [ih h]

theorem mem_of_alFind (l : List (κ × β)) (c : List Nat) (v : β) (h : alFind code l c = some v) :
    ∃ k, (k, v) ∈ l ∧ code k = c := by
  induction l with
  | nil => simp [alFind] at h
  | cons e l ih =>
    obtain ⟨k, w⟩ := e
    simp only [alFind] at h
    by_cases hk : code k = c
    · rw [if_pos hk] at h
      cases h
      exact ⟨k, by simp, hk⟩
    · rw [if_neg hk] at h
      obtain ⟨k', hm, hc⟩ := ih h
      exact ⟨k', by simp [hm], hc⟩

theorem alFind_of_mem (l : List (κ × β)) (k : κ) (v : β) (hnd : (alKeys code l).Nodup) (h : (k, v) ∈ l) :
    alFind code l (code k) = some v := by
  induction l with
  | nil => simp at h
  | cons e l ih =>
    obtain ⟨k', w⟩ := e
    simp only [alKeys_cons, List.nodup_cons] at hnd
    simp only [List.mem_cons, Prod.mk.injEq] at h
    simp only [alFind]
    rcases h with ⟨rfl, rfl⟩ | h
    · simp
    · have : code k ∈ alKeys code l := List.mem_map.mpr ⟨(k, v), h, rfl⟩
      rw [if_neg (fun (hh : code k' = code k) => hnd.1 (hh ▸ this))]
      exact ih hnd.2 h

theorem alFind_alSet_same (l : List (κ × β)) (k : κ) (v : β) : alFind code (alSet code l k v) (code k) = some v := by
  induction l with
  | nil => simp [alSet, alFind]
  | cons e l ih =>
    obtain ⟨k', w⟩ := e
    simp only [alSet]
    by_cases hk : code k' = code k
    · simp [hk, alFind]
    · simp [hk, alFind, ih]

theorem alFind_alSet_other (l : List (κ × β)) (k : κ) (v : β) (c : List Nat) (h : c ≠ code k) :
    alFind code (alSet code l k v) c = alFind code l c := by
  induction l with
  | nil => simp [alSet, alFind, Ne.symm h]
  | cons e l ih =>
    obtain ⟨k', w⟩ := e
    simp only [alSet]
    by_cases hk : code k' = code k
    · rw [if_pos hk]
      simp only [alFind]
      rw [if_neg (fun (hh : code k' = c) => h (hh.symm.trans hk)), if_neg (fun (hh : code k' = c) => h (hh.symm.trans hk))]
    · rw [if_neg hk]
      simp only [alFind, ih]

theorem alFind_alErase_other (l : List (κ × β)) (c c' : List Nat) (h : c' ≠ c) :
    alFind code (alErase code l c) c' = alFind code l c' := by
  induction l with
  | nil => rfl
  | cons e l ih =>
    obtain ⟨k', w⟩ := e
    simp only [alErase]
    by_cases hk : code k' = c
    · rw [if_pos hk]
      simp only [alFind]
      rw [if_neg (fun (hh : code k' = c') => h (hh.symm.trans hk))]
    · rw [if_neg hk]
      simp only [alFind, ih]

theorem alKeys_alErase_sublist (l : List (κ × β)) (c : List Nat) : (alKeys code (alErase code l c)).Sublist (alKeys code l) := by
  induction l with
  | nil => simp [alErase]
  | cons e l ih =>
    obtain ⟨k', w⟩ := e
    simp only [alErase]
    by_cases hk : code k' = c
    · rw [if_pos hk]; exact List.sublist_cons_self _ _
    · rw [if_neg hk]; exact ih.cons_cons _

theorem alErase_sublist (l : List (κ × β)) (c : List Nat) : (alErase code l c).Sublist l := by
  induction l with
  | nil => simp [alErase]
  | cons e l ih =>
    obtain ⟨k', w⟩ := e
    simp only [alErase]
    by_cases hk : code k' = c
    · rw [if_pos hk]; exact List.sublist_cons_self _ _
    · rw [if_neg hk]; exact ih.cons_cons _

theorem alFind_alErase_same (l : List (κ × β)) (c : List Nat) (hnd : (alKeys code l).Nodup) :
    alFind code (alErase code l c) c = none := by
  induction l with
  | nil => rfl
  | cons e l ih =>
    obtain ⟨k', w⟩ := e
    simp only [alKeys_cons, List.nodup_cons] at hnd
    simp only [alErase]
    by_cases hk : code k' = c
    · rw [if_pos hk]
      exact alFind_none_of_not_mem code l c (hk ▸ hnd.1)
    · rw [if_neg hk]
      simp only [alFind, if_neg hk]
      exact ih hnd.2

theorem nodup_alErase (l : List (κ × β)) (c : List Nat) (hnd : (alKeys code l).Nodup) :
    (alKeys code (alErase code l c)).Nodup := (alKeys_alErase_sublist code l c).nodup hnd

theorem alKeys_alSet (l : List (κ × β)) (k : κ) (v : β) :
    alKeys code (alSet code l k v) = if code k ∈ alKeys code l then alKeys code l else alKeys code l ++ [code k] := by
  induction l with
  | nil => simp [alSet]
  | cons e l ih =>
    obtain ⟨k', w⟩ := e
    simp only [alSet]
    by_cases hk : code k' = code k
    · simp [hk]
    · rw [if_neg hk]
      simp only [alKeys_cons, ih, List.mem_cons]
      by_cases hm : code k ∈ alKeys code l
      · simp [hm]
      · simp [hm, Ne.symm hk]

theorem nodup_alSet (l : List (κ × β)) (k : κ) (v : β) (hnd : (alKeys code l).Nodup) :
    (alKeys code (alSet code l k v)).Nodup := by
  rw [alKeys_alSet]
  split
  · exact hnd
  · rename_i h
    exact List.nodup_append.mpr ⟨hnd, by simp, by
      intro a ha b hb
      simp at hb
      subst hb
      exact fun hab => h (hab ▸ ha)⟩

theorem mem_alSet (l : List (κ × β)) (k : κ) (v : β) (e : κ × β) (h : e ∈ alSet code l k v) : e ∈ l ∨ e.2 = v := by
  induction l with
  | nil => simp [alSet] at h; right; simp [h]
  | cons e' l ih =>
    obtain ⟨k', w⟩ := e'
    simp only [alSet] at h
    by_cases hk : code k' = code k
    · rw [if_pos hk] at h
      simp only [List.mem_cons] at h
      rcases h with h | h
      · right; simp [h]
      · left; simp [h]
    · rw [if_neg hk] at h
      simp only [List.mem_cons] at h
      rcases h with h | h
      · left; simp [h]
      · rcases ih h with h' | h'
        · left; simp [h']
        · right; exact h'

theorem alSet_ne_nil (l : List (κ × β)) (k : κ) (v : β) : alSet code l k v ≠ [] := by
  cases l with
  | nil => simp [alSet]
  | cons e l => obtain ⟨k', w⟩ := e; simp only [alSet]; split <;> simp

theorem alFind_of_alErase_nil (l : List (κ × β)) (c c' : List Nat) (h : alErase code l c = []) (hc : c' ≠ c) :
    alFind code l c' = none := by
  have := alFind_alErase_other code l c c' hc
  rw [h] at this
  simpa [alFind] using this.symm

end AL
end Rpyc.Registry
