import RpycModel.Srv.RegistryCmds
/-
The abstract specification of the registry (a map `(NAME, address) ↦ last refresh`), what a datagram
*means* (`intent`), and the refinement: every iteration of `_work`, on every datagram, moves the
abstract view of the concrete table exactly as the datagram's meaning says.
-/
namespace Rpyc.Registry
open Rpyc Rpyc.Brine

/-! ### the stable sort -/

theorem insertByTime_perm (x : Addr × Int) : ∀ l, (insertByTime x l).Perm (x :: l)
  | [] => List.Perm.refl _
  | y :: ys => by
    simp only [insertByTime]
    split
    · exact List.Perm.refl _
    · exact ((insertByTime_perm x ys).cons y).trans (List.Perm.swap x y ys)

theorem sortByTime_perm : ∀ l, (sortByTime l).Perm l
  | [] => List.Perm.refl _
  | x :: xs => (insertByTime_perm x (sortByTime xs)).trans ((sortByTime_perm xs).cons x)

theorem insertByTime_sorted (x : Addr × Int) : ∀ l, l.Pairwise (fun a b => a.2 ≤ b.2) →
    (insertByTime x l).Pairwise (fun a b => a.2 ≤ b.2)
  | [], _ => by simp [insertByTime]
  | y :: ys, h => by
    simp only [insertByTime]
    rw [List.pairwise_cons] at h
    split
    · rename_i hxy
      refine List.pairwise_cons.mpr ⟨?_, List.pairwise_cons.mpr h⟩
      intro z hz
      simp only [List.mem_cons] at hz
      rcases hz with rfl | hz
      · exact hxy
      · exact Int.le_trans hxy (h.1 z hz)
    · rename_i hxy
      refine List.pairwise_cons.mpr ⟨?_, insertByTime_sorted x ys h.2⟩
      intro z hz
      have := (insertByTime_perm x ys).mem_iff.mp hz
      simp only [List.mem_cons] at this
      rcases this with rfl | hz'
      · omega
      · exact h.1 z hz'

/-- the snapshot `cmd_query` walks is in non-decreasing order of refresh time -/
theorem sortByTime_sorted : ∀ l, (sortByTime l).Pairwise (fun a b => a.2 ≤ b.2)
  | [] => List.Pairwise.nil
  | x :: xs => insertByTime_sorted x _ (sortByTime_sorted xs)

theorem insertByTime_filter_eq (x : Addr × Int) (k : Int) : ∀ l,
    (insertByTime x l).filter (fun e => e.2 == k) = (x :: l).filter (fun e => e.2 == k)
  | [] => rfl
  | y :: ys => by
    simp only [insertByTime]
    split
    · rfl
    · rename_i hxy
      have ih := insertByTime_filter_eq x k ys
      by_cases hx : x.2 = k
      · have hy : ¬ y.2 = k := by omega
        simp [hx, hy] at ih ⊢
        exact ih
      · by_cases hy : y.2 = k
        · simp [hx, hy] at ih ⊢
          exact ih
        · simp [hx, hy] at ih ⊢
          exact ih

/-- stability: entries with the same refresh time keep the order they have in the inner dict -/
theorem sortByTime_stable (k : Int) : ∀ l, (sortByTime l).filter (fun e => e.2 == k) = l.filter (fun e => e.2 == k)
  | [] => rfl
  | x :: xs => by
    simp only [sortByTime]
    rw [insertByTime_filter_eq, List.filter_cons, List.filter_cons, sortByTime_stable k xs]

/-! ### the abstract registry and what a datagram means -/

/-- what a datagram asks for, in terms of the abstract map; `none` = not a well-formed command -/
inductive Intent where
  | none
  | query (name : List Nat)
  | register (names : List (List Nat)) (a : List Nat)
  | unregister (a : List Nat)

def staleOpt (oldest : Int) : Option Int → Bool
  | some t => decide (t < oldest)
  | none => false

/-- the abstract registry's transition -/
def absApply (pruning now : Int) (m : AbsMap) : Intent → AbsMap
  | .none => m
  | .query name => fun n x => if n = name ∧ staleOpt (now - pruning) (m n x) = true then none else m n x
  | .register names a => fun n x => if n ∈ names ∧ x = a then some now else m n x
  | .unregister a => fun n x => if x = a then none else m n x

def intentCall (env : Env) (host : Val) : CmdName → List Val → Intent
  | .query, [name] => match pyUpper env name with
    | .ok NAME => .query (keyCode NAME)
    | .error _ => .none
  | .register, [names, port] => match iterate' env names with
    | .error _ => .none
    | .ok xs => match allStr xs with
      | none => .none
      | some ss => if registerRefuses env (host, port) then .none else .register (upperCodes env ss) (addrCode (host, port))
  | .unregister, [port] => .unregister (addrCode (host, port))
  | _, _ => .none

def intentExec (env : Env) (host : Val) (c : CmdName × Nat) (args : Val) : Intent :=
  match iterate' env args with
  | .error _ => .none
  | .ok xs => if xs.length = c.2 then intentCall env host c.1 xs else .none

def intent3 (env : Env) (host : Val) (m : Val × Val × Val) : Intent :=
  if isMagic m.1 then
    match lookupCmd env m.2.1 with
    | none => .none
    | some c => intentExec env host c m.2.2
  else .none

def intentVal (env : Env) (host : Val) (v : Val) : Intent :=
  match unpack3' env v with
  | .error _ => .none
  | .ok m => intent3 env host m

/-- the meaning of a datagram from `host` -/
def intent (env : Env) (host : Val) (dgram : Bytes) : Intent :=
  if env.loadOverflows dgram then .none
  else match load dgram with
    | .error _ => .none
    | .ok v => intentVal env host v

/-- everything the proofs need of one step: representation invariant kept, notifications exact,
abstract view moved as the intent says -/
structure Good (pruning now : Int) (sv : Services) (sv' : Services) (notes : List Note) (i : Intent) : Prop where
  inv : Inv sv'
  exact : Exact sv notes sv'
  refines : ∀ n x, view sv' n x = absApply pruning now (view sv) i n x

theorem good_idle (pruning now : Int) (sv : Services) (h : Inv sv) : Good pruning now sv sv [] .none :=
  ⟨h, exact_refl sv, fun _ _ => rfl⟩

/-! ### the commands -/

theorem staleIn_iff (sv : Services) (NAME : Val) (inner : Inner) (oldest : Int) (h : Inv sv)
    (hf : alFind keyCode sv (keyCode NAME) = some inner) (x : List Nat) :
    staleIn oldest (sortByTime inner) x = staleOpt oldest (view sv (keyCode NAME) x) := by
  have hnd : (alKeys addrCode inner).Nodup := by
    obtain ⟨k, hm, _⟩ := mem_of_alFind keyCode sv _ inner hf
    exact (h.2 _ hm).1
  have hv : view sv (keyCode NAME) x = alFind addrCode inner x := by simp [view, hf, viewInner]
  rw [hv]
  cases hfx : alFind addrCode inner x with
  | none =>
    simp only [staleOpt]
    rw [Bool.eq_false_iff]
    intro hs
    simp only [staleIn, List.any_eq_true, Bool.and_eq_true, decide_eq_true_eq, beq_iff_eq] at hs
    obtain ⟨e, hm, _, hc⟩ := hs
    have hm' := (sortByTime_perm inner).mem_iff.mp hm
    have := alFind_of_mem addrCode inner e.1 e.2 hnd hm'
    rw [hc, hfx] at this
    cases this
  | some t =>
    simp only [staleOpt]
    obtain ⟨k, hm, hc⟩ := mem_of_alFind addrCode inner x t hfx
    by_cases ht : t < oldest
    · simp only [ht, decide_true]
      simp only [staleIn, List.any_eq_true, Bool.and_eq_true, decide_eq_true_eq, beq_iff_eq]
      exact ⟨(k, t), (sortByTime_perm inner).mem_iff.mpr hm, ht, hc⟩
    · simp only [ht, decide_false]
      rw [Bool.eq_false_iff]
      intro hs
      simp only [staleIn, List.any_eq_true, Bool.and_eq_true, decide_eq_true_eq, beq_iff_eq] at hs
      obtain ⟨e, hm2, ht2, hc2⟩ := hs
      have hm2' := (sortByTime_perm inner).mem_iff.mp hm2
      have := alFind_of_mem addrCode inner e.1 e.2 hnd hm2'
      rw [hc2, hfx] at this
      cases this
      exact ht ht2

/-- the servers a query for `NAME` at `now` answers with: the stored entries in the order of
`sorted(..., key=time)`, without the stale ones -/
def answer (pruning : Int) (sv : Services) (NAME : Val) (now : Int) : List Addr :=
  ((sortByTime (innerOf sv NAME)).filter (fun e => !decide (e.2 < now - pruning))).map Prod.fst

theorem queryUpper_good (pruning : Int) (sv : Services) (NAME : Val) (now : Int) (h : Inv sv) :
    Good pruning now sv (queryUpper pruning sv NAME now).sv (queryUpper pruning sv NAME now).notes (.query (keyCode NAME))
    ∧ (queryUpper pruning sv NAME now).out = .ok (.tuple ((answer pruning sv NAME now).map addrVal)) := by
  unfold queryUpper
  cases hf : alFind keyCode sv (keyCode NAME) with
  | none =>
    refine ⟨⟨h, exact_refl sv, ?_⟩, ?_⟩
    · intro n x
      simp only [absApply]
      by_cases hn : n = keyCode NAME
      · subst hn
        simp [view_none_of_absent sv _ hf x, staleOpt]
      · simp [hn]
    · simp [answer, innerOf, hf, sortByTime]
  | some inner =>
    have hnd : (alKeys addrCode inner).Nodup := by
      obtain ⟨k, hm, _⟩ := mem_of_alFind keyCode sv _ inner hf
      exact (h.2 _ hm).1
    have hnd' : (alKeys addrCode (sortByTime inner)).Nodup := by
      unfold alKeys at hnd ⊢
      exact (((sortByTime_perm inner).map (fun (e : Addr × Int) => addrCode e.1)).nodup_iff).mpr hnd
    have hp : ∀ e ∈ sortByTime inner, (view sv (keyCode NAME) (addrCode e.1)).isSome = true := by
      intro e hm
      have hm' := (sortByTime_perm inner).mem_iff.mp hm
      have := alFind_of_mem addrCode inner e.1 e.2 hnd hm'
      simp [view, hf, viewInner, this]
    obtain ⟨i1, s1, e1⟩ := queryLoop_spec NAME (now - pruning) (sortByTime inner) sv h
    obtain ⟨er, fr, vr⟩ := queryLoop_ok NAME (now - pruning) (sortByTime inner) sv h hnd' hp
    simp only [queryFinish, er]
    refine ⟨⟨i1, e1, ?_⟩, ?_⟩
    · intro n x
      rw [vr]
      simp only [absApply]
      by_cases hn : n = keyCode NAME
      · subst hn
        rw [staleIn_iff sv NAME inner _ h hf]
      · simp [hn]
    · rw [fr]
      simp [answer, innerOf, hf]

theorem cmdQuery_good (env : Env) (pruning : Int) (sv : Services) (host name : Val) (now : Int) (h : Inv sv) :
    Good pruning now sv (cmdQuery env pruning sv name now).sv (cmdQuery env pruning sv name now).notes
      (intentCall env host .query [name]) := by
  unfold cmdQuery
  simp only [intentCall]
  cases hu : pyUpper env name with
  | error e => exact good_idle pruning now sv h
  | ok NAME => exact (queryUpper_good pruning sv NAME now h).1

theorem cmdRegister_good (env : Env) (pruning : Int) (sv : Services) (host names port : Val) (now : Int) (h : Inv sv) :
    Good pruning now sv (cmdRegister env sv host names port now).sv (cmdRegister env sv host names port now).notes
      (intentCall env host .register [names, port]) := by
  unfold cmdRegister
  simp only [intentCall]
  cases hi : iterate' env names with
  | error e => exact good_idle pruning now sv h
  | ok xs =>
    dsimp only
    cases hs : allStr xs with
    | none => exact good_idle pruning now sv h
    | some ss =>
      dsimp only
      by_cases hr : registerRefuses env (host, port) = true
      · rw [if_pos hr, if_pos hr]; exact good_idle pruning now sv h
      rw [if_neg hr, if_neg hr, if_pos (hashable_true _)]
      obtain ⟨i1, _, e1, v1⟩ := regLoop_spec env (host, port) now ss sv h
      exact ⟨i1, e1, fun n x => by rw [v1]; rfl⟩

theorem cmdUnregister_good (env : Env) (pruning : Int) (sv : Services) (host port : Val) (now : Int) (h : Inv sv) :
    Good pruning now sv (cmdUnregister sv host port).sv (cmdUnregister sv host port).notes
      (intentCall env host .unregister [port])
    ∧ (cmdUnregister sv host port).out = .ok ack := by
  unfold cmdUnregister
  rw [if_pos (hashable_true _)]
  have hnd : ((sv.map Prod.fst).map keyCode).Nodup := by
    rw [map_fst_keys]; exact h.1
  have hp : ∀ m ∈ sv.map Prod.fst, (alFind keyCode sv (keyCode m)).isSome = true := by
    intro m hm
    apply alFind_isSome_of_mem
    rw [← map_fst_keys]
    exact List.mem_map.mpr ⟨m, hm, rfl⟩
  obtain ⟨i1, _, e1⟩ := unregLoop_spec (host, port) (sv.map Prod.fst) sv h
  obtain ⟨er, vr⟩ := unregLoop_ok (host, port) (sv.map Prod.fst) sv h hnd hp
  simp only [unregFinish, er, intentCall]
  refine ⟨⟨i1, e1, ?_⟩, trivial⟩
  intro n x
  rw [vr]
  simp only [absApply]
  by_cases hx : x = addrCode (host, port)
  · by_cases hn : n ∈ (sv.map Prod.fst).map keyCode
    · rw [if_pos ⟨hn, hx⟩, if_pos hx]
    · have : alFind keyCode sv n = none :=
        alFind_none_of_not_mem keyCode sv n (by rw [← map_fst_keys]; exact hn)
      rw [if_neg (fun hh => hn hh.1), if_pos hx, view_none_of_absent sv n this]
  · rw [if_neg (fun hh => hx hh.2), if_neg hx]

end Rpyc.Registry
