import RpycModel.Brine.Closed
/-
What the registry needs of brine beyond C04: whatever `brine.load` returns for a genuine byte string can be
dumped again (`InDomain`), because every length in it is bounded by the length of the input and every integer
was read from at most that many digit characters.  (`dumpable` of the result is C04's `dec_dumpable`.)
-/
namespace Rpyc.Registry
open Rpyc Rpyc.Brine

/-! ### integers -/

theorem natDigits_length_le : ∀ (k n : Nat), 1 ≤ k → n < 10 ^ k → (natDigits n).length ≤ k := by
  intro k
  induction k with
  | zero => intro n h; omega
  | succ k ih =>
    intro n _ hn
    unfold natDigits
    split
    · simp
    · rename_i h10
      have hk : 1 ≤ k := by
        cases k with
        | zero => simp at hn; omega
        | succ k => omega
      have : n / 10 < 10 ^ k := by
        rw [Nat.pow_succ] at hn
        exact Nat.div_lt_of_lt_mul (by rwa [Nat.mul_comm] at hn)
      have := ih (n / 10) hk this
      simp
      omega

def intFits (B : Nat) (i : Int) : Bool :=
  (Gen.immLo ≤ i && i < Gen.immHi) ||
  ((Gen.intMaxStrDigits == 0 || (natDigits i.natAbs).length ≤ Gen.intMaxStrDigits) && decide ((intRepr i).length ≤ B + 3))

theorem intFits_mono (B B' : Nat) (h : B ≤ B') (i : Int) (hf : intFits B i = true) : intFits B' i = true := by
  simp only [intFits, Bool.or_eq_true, Bool.and_eq_true, decide_eq_true_eq] at hf ⊢
  rcases hf with hf | ⟨h1, h2⟩
  · exact Or.inl hf
  · exact Or.inr ⟨h1, by omega⟩

theorem intFits_ok (B : Nat) (hB : B + 3 < 2 ^ 32) (i : Int) (hf : intFits B i = true) : intOk i = true := by
  simp only [intFits, Bool.or_eq_true, Bool.and_eq_true, decide_eq_true_eq] at hf
  simp only [intOk, Bool.or_eq_true, Bool.and_eq_true, decide_eq_true_eq]
  rcases hf with hf | ⟨h1, h2⟩
  · exact Or.inl hf
  · exact Or.inr ⟨h1, by omega⟩

theorem limit_allows_3 : (Gen.intMaxStrDigits == 0 || decide (3 ≤ Gen.intMaxStrDigits)) = true := by decide

theorem byte_int_fits (B x : Nat) (hx : x < 256) : intFits B ((x : Nat) : Int) = true := by
  have hd : (natDigits x).length ≤ 3 := natDigits_length_le 3 x (by omega) (by omega)
  have hl := limit_allows_3
  simp only [Bool.or_eq_true, beq_iff_eq, decide_eq_true_eq] at hl
  simp only [intFits, Bool.or_eq_true, Bool.and_eq_true, decide_eq_true_eq, beq_iff_eq, Int.natAbs_natCast]
  right
  refine ⟨?_, ?_⟩
  · rcases hl with hl | hl
    · exact Or.inl hl
    · exact Or.inr (by omega)
  · have : intRepr ((x : Nat) : Int) = natDigits x := by
      simp [intRepr]
    rw [this]; omega

theorem parseDigitsGo_bound : ∀ (bs : Bytes) (acc nd : Nat) (pu : Bool) (v nd' : Nat),
    parseDigitsGo acc nd pu bs = some (v, nd') → acc < 10 ^ nd →
    v < 10 ^ nd' ∧ nd' ≤ nd + bs.length ∧ nd' ≠ 0 := by
  intro bs
  induction bs with
  | nil =>
    intro acc nd pu v nd' h hacc
    simp only [parseDigitsGo] at h
    split at h
    · cases h
    · rename_i hc
      injection h with h
      injection h with h1 h2
      subst h1; subst h2
      simp only [Bool.or_eq_true, beq_iff_eq, not_or] at hc
      exact ⟨hacc, by simp, hc.2⟩
  | cons b rest ih =>
    intro acc nd pu v nd' h hacc
    simp only [parseDigitsGo] at h
    split at h
    · rename_i hd
      have hb : b - 48 ≤ 9 := by simp [isDigit] at hd; omega
      have hacc' : acc * 10 + (b - 48) < 10 ^ (nd + 1) := by rw [Nat.pow_succ]; omega
      obtain ⟨a1, a2, a3⟩ := ih _ _ _ _ _ h hacc'
      exact ⟨a1, by simp only [List.length_cons]; omega, a3⟩
    · split at h
      · obtain ⟨a1, a2, a3⟩ := ih _ _ _ _ _ h hacc
        exact ⟨a1, by simp only [List.length_cons]; omega, a3⟩
      · split at h
        · rename_i hc
          injection h with h
          injection h with h1 h2
          subst h1; subst h2
          simp only [Bool.and_eq_true, bne_iff_ne, ne_eq] at hc
          exact ⟨hacc, by omega, hc.1.2⟩
        · cases h

theorem splitSign_length (s : Bytes) : (splitSign s).2.length ≤ s.length := by
  unfold splitSign
  split <;> simp

theorem dropWhile_length {α} (p : α → Bool) (l : List α) : (l.dropWhile p).length ≤ l.length := by
  induction l with
  | nil => simp
  | cons x xs ih => simp only [List.dropWhile]; split <;> simp <;> omega

theorem parseInt_fits (raw : Bytes) (i : Int) (h : parseInt Gen.intMaxStrDigits raw = some i) :
    intFits raw.length i = true := by
  unfold parseInt at h
  cases hp : parseDigitsGo 0 0 false (splitSign (raw.dropWhile isSpace)).2 with
  | none => simp [hp, finishInt] at h
  | some p =>
    obtain ⟨v, nd⟩ := p
    obtain ⟨a1, a2, a3⟩ := parseDigitsGo_bound _ 0 0 false v nd hp (by simp)
    have hlen : nd ≤ raw.length := by
      have := splitSign_length (raw.dropWhile isSpace)
      have := dropWhile_length isSpace raw
      omega
    have hd : (natDigits v).length ≤ nd := natDigits_length_le nd v (by omega) a1
    rw [hp] at h
    simp only [finishInt] at h
    split at h
    · cases h
    · rename_i hlim
      injection h with h
      simp only [Bool.and_eq_true, bne_iff_ne, ne_eq, decide_eq_true_eq, not_and, Nat.not_lt] at hlim
      have habs : i.natAbs = v := by
        subst h; split <;> simp
      have hrep : (intRepr i).length ≤ (natDigits v).length + 1 := by
        unfold intRepr
        rw [habs]
        split <;> simp
      simp only [intFits, Bool.or_eq_true, Bool.and_eq_true, decide_eq_true_eq, beq_iff_eq, habs]
      right
      refine ⟨?_, by omega⟩
      by_cases h0 : Gen.intMaxStrDigits = 0
      · exact Or.inl h0
      · exact Or.inr (by have := hlim h0; omega)

/-! ### values whose every length is at most `B` -/

mutual
def fits (B : Nat) : Val → Bool
  | .int i => intFits B i
  | .bytes b => decide (b.length ≤ B) && b.all (· < 256)
  | .str s => decide (s.length ≤ B)
  | .tuple xs => decide (xs.length ≤ B) && fitsL B xs
  | .fset xs => decide (xs.length ≤ B) && fitsL B xs
  | .slice a b c => fits B a && fits B b && fits B c
  | _ => true
def fitsL (B : Nat) : List Val → Bool
  | [] => true
  | x :: xs => fits B x && fitsL B xs
end

mutual
theorem fits_mono (B B' : Nat) (h : B ≤ B') : ∀ v, fits B v = true → fits B' v = true
  | .int i, hf => by simp only [fits] at hf ⊢; exact intFits_mono B B' h i hf
  | .bytes b, hf => by
    simp only [fits, Bool.and_eq_true, decide_eq_true_eq] at hf ⊢
    exact ⟨by omega, hf.2⟩
  | .str s, hf => by simp only [fits, decide_eq_true_eq] at hf ⊢; omega
  | .tuple xs, hf => by
    simp only [fits, Bool.and_eq_true, decide_eq_true_eq] at hf ⊢
    exact ⟨by omega, fitsL_mono B B' h xs hf.2⟩
  | .fset xs, hf => by
    simp only [fits, Bool.and_eq_true, decide_eq_true_eq] at hf ⊢
    exact ⟨by omega, fitsL_mono B B' h xs hf.2⟩
  | .slice a b c, hf => by
    simp only [fits, Bool.and_eq_true] at hf ⊢
    exact ⟨⟨fits_mono B B' h a hf.1.1, fits_mono B B' h b hf.1.2⟩, fits_mono B B' h c hf.2⟩
  | .none, _ => rfl
  | .notImpl, _ => rfl
  | .ellipsis, _ => rfl
  | .bool _, _ => rfl
  | .float _, _ => rfl
  | .complex _ _, _ => rfl
  | .other _, _ => rfl
theorem fitsL_mono (B B' : Nat) (h : B ≤ B') : ∀ xs, fitsL B xs = true → fitsL B' xs = true
  | [], _ => rfl
  | x :: xs, hf => by
    simp only [fitsL, Bool.and_eq_true] at hf ⊢
    exact ⟨fits_mono B B' h x hf.1, fitsL_mono B B' h xs hf.2⟩
end

theorem utf8EncCp_length_le (c : Nat) : (utf8EncCp c).length ≤ 4 := by
  unfold utf8EncCp; split <;> (try split) <;> (try split) <;> simp

theorem flatMap_utf8_length (s : List Nat) : (s.flatMap utf8EncCp).length ≤ 4 * s.length := by
  induction s with
  | nil => simp
  | cons c cs ih =>
    have := utf8EncCp_length_le c
    simp only [List.flatMap_cons, List.length_append, List.length_cons]
    omega

mutual
theorem fits_inDomain (B : Nat) (hB : 4 * B + 4 < 2 ^ 32) : ∀ v, fits B v = true → InDomain v = true
  | .int i, hf => by simp only [fits] at hf; simp only [InDomain]; exact intFits_ok B (by omega) i hf
  | .bytes b, hf => by
    simp only [fits, Bool.and_eq_true, decide_eq_true_eq] at hf
    simp only [InDomain, decide_eq_true_eq]; omega
  | .str s, hf => by
    simp only [fits, decide_eq_true_eq] at hf
    have := flatMap_utf8_length s
    simp only [InDomain, decide_eq_true_eq]; omega
  | .tuple xs, hf => by
    simp only [fits, Bool.and_eq_true, decide_eq_true_eq] at hf
    simp only [InDomain, Bool.and_eq_true, decide_eq_true_eq]
    exact ⟨by omega, fitsL_inDomain B hB xs hf.2⟩
  | .fset xs, hf => by
    simp only [fits, Bool.and_eq_true, decide_eq_true_eq] at hf
    simp only [InDomain, Bool.and_eq_true, decide_eq_true_eq]
    exact ⟨by omega, fitsL_inDomain B hB xs hf.2⟩
  | .slice a b c, hf => by
    simp only [fits, Bool.and_eq_true] at hf
    simp only [InDomain, Bool.and_eq_true]
    exact ⟨⟨fits_inDomain B hB a hf.1.1, fits_inDomain B hB b hf.1.2⟩, fits_inDomain B hB c hf.2⟩
  | .none, _ => rfl
  | .notImpl, _ => rfl
  | .ellipsis, _ => rfl
  | .bool _, _ => rfl
  | .float _, _ => rfl
  | .complex _ _, _ => rfl
  | .other _, _ => rfl
theorem fitsL_inDomain (B : Nat) (hB : 4 * B + 4 < 2 ^ 32) : ∀ xs, fitsL B xs = true → InDomainL xs = true
  | [], _ => rfl
  | x :: xs, hf => by
    simp only [fitsL, Bool.and_eq_true] at hf
    simp only [InDomainL, Bool.and_eq_true]
    exact ⟨fits_inDomain B hB x hf.1, fitsL_inDomain B hB xs hf.2⟩
end

theorem fitsL_mem (B : Nat) : ∀ (xs : List Val) (x : Val), fitsL B xs = true → x ∈ xs → fits B x = true
  | [], _, _, hm => by simp at hm
  | y :: ys, x, hf, hm => by
    simp only [fitsL, Bool.and_eq_true] at hf
    simp only [List.mem_cons] at hm
    rcases hm with rfl | hm
    · exact hf.1
    · exact fitsL_mem B ys x hf.2 hm

theorem fitsL_of_forall (B : Nat) : ∀ (xs : List Val), (∀ x ∈ xs, fits B x = true) → fitsL B xs = true
  | [], _ => rfl
  | y :: ys, h => by
    simp only [fitsL, Bool.and_eq_true]
    exact ⟨h y (by simp), fitsL_of_forall B ys (fun x hx => h x (by simp [hx]))⟩

end Rpyc.Registry
