import RpycModel.Srv.RegistryNotes
/-
The loops of the three commands: invariant, notifications, and effect on the abstract view.
-/
namespace Rpyc.Registry
open Rpyc

@[simp] theorem prepend_sv (ns : List Note) (r : Res) : (Res.prepend ns r).sv = r.sv := rfl
@[simp] theorem prepend_notes (ns : List Note) (r : Res) : (Res.prepend ns r).notes = ns ++ r.notes := rfl
@[simp] theorem prepend_err (ns : List Note) (r : Res) : (Res.prepend ns r).err = r.err := rfl

/-! ### `cmd_register`'s loop -/

def upperCodes (env : Env) (ss : List (List Nat)) : List (List Nat) :=
  ss.map (fun s => keyCode (.str (strUpper env s)))

theorem regLoop_spec (env : Env) (a : Addr) (now : Int) : ∀ (ss : List (List Nat)) (sv : Services), Inv sv →
    Inv (regLoop env a now ss sv).1 ∧ Grow sv (regLoop env a now ss sv).1
    ∧ Exact sv (regLoop env a now ss sv).2 (regLoop env a now ss sv).1
    ∧ ∀ n x, view (regLoop env a now ss sv).1 n x
        = if n ∈ upperCodes env ss ∧ x = addrCode a then some now else view sv n x
  | [], sv, h => ⟨h, grow_refl sv, exact_refl sv, by simp [regLoop, upperCodes]⟩
  | s :: ss, sv, h => by
    have h1 := inv_addService sv (.str (strUpper env s)) a now h
    obtain ⟨i2, g2, e2, v2⟩ := regLoop_spec env a now ss _ h1
    simp only [regLoop]
    refine ⟨i2, grow_trans (grow_addService _ _ _ _) g2,
      exact_trans_grow (exact_addService _ _ _ _) e2 (grow_addService _ _ _ _) g2, ?_⟩
    intro n x
    rw [v2, view_addService]
    simp only [upperCodes, List.map_cons, List.mem_cons]
    by_cases hx : x = addrCode a
    · by_cases hn1 : n ∈ List.map (fun s => keyCode (.str (strUpper env s))) ss
      · simp [hn1, hx]
      · by_cases hn2 : n = keyCode (.str (strUpper env s)) <;> simp [hn1, hn2, hx]
    · simp [hx]

/-! ### `cmd_unregister`'s loop -/

theorem alFind_removeService_other (sv : Services) (name : Val) (a : Addr) (c : List Nat) (hc : c ≠ keyCode name) :
    alFind keyCode (removeService sv name a).sv c = alFind keyCode sv c := by
  unfold removeService
  cases hf : alFind keyCode sv (keyCode name) with
  | none => rfl
  | some inner =>
    simp only [afterPop]
    split
    · exact alFind_alErase_other _ _ _ _ hc
    · exact alFind_alSet_other _ _ _ _ _ hc

theorem unregLoop_spec (a : Addr) : ∀ (names : List Val) (sv : Services), Inv sv →
    Inv (unregLoop a names sv).sv ∧ Shrink sv (unregLoop a names sv).sv
    ∧ Exact sv (unregLoop a names sv).notes (unregLoop a names sv).sv
  | [], sv, h => ⟨h, shrink_refl sv, exact_refl sv⟩
  | m :: ms, sv, h => by
    have h1 := inv_removeService sv m a h
    simp only [unregLoop]
    cases he : (removeService sv m a).err with
    | some e => exact ⟨h1, shrink_removeService sv m a h, exact_removeService sv m a h⟩
    | none =>
      obtain ⟨i2, s2, e2⟩ := unregLoop_spec a ms _ h1
      exact ⟨i2, shrink_trans (shrink_removeService sv m a h) s2,
        exact_trans_shrink (exact_removeService sv m a h) e2 (shrink_removeService sv m a h) s2⟩

theorem unregLoop_ok (a : Addr) : ∀ (names : List Val) (sv : Services), Inv sv → (names.map keyCode).Nodup →
    (∀ m ∈ names, (alFind keyCode sv (keyCode m)).isSome = true) →
    (unregLoop a names sv).err = none
    ∧ ∀ n x, view (unregLoop a names sv).sv n x
        = if n ∈ names.map keyCode ∧ x = addrCode a then none else view sv n x
  | [], sv, _, _, _ => ⟨rfl, by simp [unregLoop]⟩
  | m :: ms, sv, h, hnd, hp => by
    have h1 := inv_removeService sv m a h
    simp only [List.map_cons, List.nodup_cons] at hnd
    have he : (removeService sv m a).err = none := by
      rw [err_removeService, hp m (by simp)]; rfl
    have hp' : ∀ m' ∈ ms, (alFind keyCode (removeService sv m a).sv (keyCode m')).isSome = true := by
      intro m' hm'
      have hne : keyCode m' ≠ keyCode m := fun hh => hnd.1 (hh ▸ List.mem_map.mpr ⟨m', hm', rfl⟩)
      rw [alFind_removeService_other _ _ _ _ hne]
      exact hp m' (by simp [hm'])
    obtain ⟨e2, v2⟩ := unregLoop_ok a ms _ h1 hnd.2 hp'
    simp only [unregLoop, he, prepend_err, prepend_sv]
    refine ⟨e2, ?_⟩
    intro n x
    rw [v2, view_removeService sv m a h]
    simp only [List.map_cons, List.mem_cons]
    by_cases hx : x = addrCode a
    · by_cases hn1 : n ∈ List.map keyCode ms
      · simp [hn1, hx]
      · by_cases hn2 : n = keyCode m <;> simp [hn1, hn2, hx]
    · simp [hx]

/-! ### `cmd_query`'s loop -/

/-- is `x` the address code of an entry of `work` older than `oldest` -/
def staleIn (oldest : Int) (work : List (Addr × Int)) (x : List Nat) : Bool :=
  work.any (fun e => decide (e.2 < oldest) && (addrCode e.1 == x))

theorem queryLoop_spec (name : Val) (oldest : Int) : ∀ (work : List (Addr × Int)) (sv : Services), Inv sv →
    Inv (queryLoop name oldest work sv).1.sv ∧ Shrink sv (queryLoop name oldest work sv).1.sv
    ∧ Exact sv (queryLoop name oldest work sv).1.notes (queryLoop name oldest work sv).1.sv
  | [], sv, h => ⟨h, shrink_refl sv, exact_refl sv⟩
  | (a, t) :: rest, sv, h => by
    simp only [queryLoop]
    by_cases ht : t < oldest
    · rw [if_pos ht]
      have h1 := inv_removeService sv name a h
      cases he : (removeService sv name a).err with
      | some e => exact ⟨h1, shrink_removeService sv name a h, exact_removeService sv name a h⟩
      | none =>
        obtain ⟨i2, s2, e2⟩ := queryLoop_spec name oldest rest _ h1
        exact ⟨i2, shrink_trans (shrink_removeService sv name a h) s2,
          exact_trans_shrink (exact_removeService sv name a h) e2 (shrink_removeService sv name a h) s2⟩
    · rw [if_neg ht]
      exact queryLoop_spec name oldest rest sv h

theorem queryLoop_ok (name : Val) (oldest : Int) : ∀ (work : List (Addr × Int)) (sv : Services), Inv sv →
    (alKeys addrCode work).Nodup →
    (∀ e ∈ work, (view sv (keyCode name) (addrCode e.1)).isSome = true) →
    (queryLoop name oldest work sv).1.err = none
    ∧ (queryLoop name oldest work sv).2 = (work.filter (fun e => !decide (e.2 < oldest))).map Prod.fst
    ∧ ∀ n x, view (queryLoop name oldest work sv).1.sv n x
        = if n = keyCode name ∧ staleIn oldest work x = true then none else view sv n x
  | [], sv, _, _, _ => ⟨rfl, rfl, by simp [queryLoop, staleIn]⟩
  | (a, t) :: rest, sv, h, hnd, hp => by
    simp only [alKeys_cons, List.nodup_cons] at hnd
    simp only [queryLoop]
    by_cases ht : t < oldest
    · rw [if_pos ht]
      have h1 := inv_removeService sv name a h
      have hpres : (alFind keyCode sv (keyCode name)).isSome = true := by
        have := hp (a, t) (by simp)
        cases hv : view sv (keyCode name) (addrCode a) with
        | none => simp [hv] at this
        | some t' => exact present_of_view sv _ _ t' hv
      have he : (removeService sv name a).err = none := by rw [err_removeService, hpres]; rfl
      have hp' : ∀ e ∈ rest, (view (removeService sv name a).sv (keyCode name) (addrCode e.1)).isSome = true := by
        intro e hm
        have hne : addrCode e.1 ≠ addrCode a := fun hh => hnd.1 (hh ▸ List.mem_map.mpr ⟨e, hm, rfl⟩)
        rw [view_removeService sv name a h]
        simp only [hne, and_false, if_false]
        exact hp e (by simp [hm])
      obtain ⟨e2, f2, v2⟩ := queryLoop_ok name oldest rest _ h1 hnd.2 hp'
      simp only [he, prepend_err, prepend_sv]
      refine ⟨e2, ?_, ?_⟩
      · rw [f2]; simp [List.filter, ht]
      · intro n x
        rw [v2, view_removeService sv name a h]
        have hst : staleIn oldest ((a, t) :: rest) x = ((addrCode a == x) || staleIn oldest rest x) := by
          simp [staleIn, ht]
        rw [hst]
        by_cases hn : n = keyCode name
        · by_cases hx : addrCode a = x
          · simp [hn, hx]
          · have hx' : ¬ x = addrCode a := fun hh => hx hh.symm
            cases hs : staleIn oldest rest x <;> simp [hn, hx, hx', hs]
        · simp [hn]
    · rw [if_neg ht]
      have hp' : ∀ e ∈ rest, (view sv (keyCode name) (addrCode e.1)).isSome = true := fun e hm => hp e (by simp [hm])
      obtain ⟨e2, f2, v2⟩ := queryLoop_ok name oldest rest sv h hnd.2 hp'
      refine ⟨e2, ?_, ?_⟩
      · simp only []
        rw [f2]; simp [List.filter, ht]
      · intro n x
        rw [v2]
        have hst : staleIn oldest ((a, t) :: rest) x = staleIn oldest rest x := by
          simp [staleIn, ht]
        rw [hst]

end Rpyc.Registry
