import RpycModel.Gen.Box
import RpycModel.Base.Py
/-
L3 — boxing and the reference counts behind it.

  rpyc/lib/colls.py      `RefCountingColl.add / decref / __getitem__ / clear`
  rpyc/core/protocol.py  `Connection._box / _unbox / _handle_del / _dispatch_request / _cleanup`
  rpyc/core/netref.py    `BaseNetref.__init__` (count 1), `BaseNetref.__del__` (sends the whole count)

Part 1 (C10) is the machine of one connection seen from the objects one side (the *owner*) lends to the
other (the *peer*): the owner's table, the peer's live proxies, and the two FIFO message queues.  By the
symmetry of `Connection` the other direction is the same machine with the roles exchanged.

Keys: `get_id_pack` is abstracted to a stable injective key (`Id`) of a live object.
-/
namespace Rpyc.Box
open Rpyc

abbrev Id := Nat

/-- `RefCountingColl._dict` as key ↦ stored count, and (at the peer) key ↦ `____refcount__` of the live proxy -/
abbrev Tbl := Id → Option Nat

def Tbl.empty : Tbl := fun _ => none

def Tbl.set (t : Tbl) (k : Id) (v : Option Nat) : Tbl := fun j => if j = k then v else t j

/-- the slot after `RefCountingColl.add`: first add stores 0, later adds increment -/
def bump : Option Nat → Option Nat
  | none => some 0
  | some n => some (n + 1)

/-- `RefCountingColl.add` -/
def Tbl.add (t : Tbl) (k : Id) : Tbl := t.set k (bump (t k))

/-- the slot after `decref(key, n)` on a present key: `if slot[1] < count: del ... else: slot[1] -= count` -/
def dropBy (m n : Nat) : Option Nat := if m < n then none else some (m - n)

/-- `RefCountingColl.decref`; `self._dict[key]` raises KeyError for an absent key -/
def Tbl.decref (t : Tbl) (k : Id) (n : Nat) : Except Err Tbl :=
  match t k with
  | none => .error .keyError
  | some m => .ok (t.set k (dropBy m n))

/-- the proxy slot after `_unbox` met `REMOTE_REF k`: cache hit `____refcount__ += 1`, miss: a new proxy
(`BaseNetref.__init__`: count 1) -/
def hit : Option Nat → Option Nat
  | none => some 1
  | some c => some (c + 1)

/-- `_unbox` of one `REMOTE_REF` -/
def Tbl.recv (p : Tbl) (k : Id) : Tbl := p.set k (hit (p k))

/-- `_box` of the by-reference objects of one message, in boxing order -/
def addAll (t : Tbl) (ks : List Id) : Tbl := ks.foldl Tbl.add t

/-- `_unbox` of the `REMOTE_REF`s of one message, in order -/
def recvAll (p : Tbl) (ks : List Id) : Tbl := ks.foldl Tbl.recv p

/-- messages owner → peer -/
inductive MsgO where
  /-- `MSG_REQUEST` whose arguments carry these objects by reference (`REMOTE_REF`, in boxing order) -/
  | req (ids : List Id)
  /-- `MSG_REPLY` whose value carries these objects by reference; `kept`: the peer's application still has the
  `AsyncResult` this reply completes -/
  | reply (ids : List Id) (kept : Bool)
  /-- `MSG_EXCEPTION` -/
  | exc
  deriving DecidableEq, Repr

/-- messages peer → owner -/
inductive MsgP where
  /-- `HANDLE_DEL (proxy, n)` sent by `BaseNetref.__del__`: the proxy travels as `LOCAL_REF k` -/
  | del (k : Id) (n : Nat)
  /-- a request that hands the proxy of `k` back as an argument (`LOCAL_REF k`); `echo`: the handler returns it -/
  | back (k : Id) (echo : Bool)
  /-- a request whose result is the objects `ks` (the owner boxes them into the reply) -/
  | fetch (ks : List Id)
  /-- `MSG_REPLY` to a request of the owner (carries a plain value) -/
  | reply
  deriving DecidableEq, Repr

structure St where
  /-- owner: `_local_objects` -/
  tbl : Tbl
  /-- peer: live proxies of `_proxy_cache` with their counts -/
  px : Tbl
  /-- in flight owner → peer, oldest first -/
  o2p : List MsgO
  /-- in flight peer → owner, oldest first -/
  p2o : List MsgP
  closed : Bool

def St.init : St := { tbl := Tbl.empty, px := Tbl.empty, o2p := [], p2o := [], closed := false }

inductive Op where
  /-- the owner sends a request carrying `ks` by reference -/
  | send (ks : List Id)
  /-- the peer sends a request whose reply will carry `ks` -/
  | fetch (ks : List Id)
  /-- the peer passes its live proxy of `k` back to the owner -/
  | back (k : Id) (echo : Bool)
  /-- the proxy of `k` is finalized (`BaseNetref.__del__` runs) -/
  | finalize (k : Id)
  /-- the peer serves the next message -/
  | deliverO2P
  /-- the owner serves the next message -/
  | deliverP2O
  /-- the connection is closed and both ends have run `_cleanup` -/
  | close
  deriving DecidableEq, Repr

inductive Out where
  | ok
  /-- nothing to deliver -/
  | empty
  /-- a `LOCAL_REF` did not resolve / `decref` of an absent key: the request is answered with `MSG_EXCEPTION` -/
  | keyError
  /-- the operation needs a live proxy that does not exist: nothing happens -/
  | disabled
  | closed
  deriving DecidableEq, Repr

/-- the owner dispatches one request / reply (`_dispatch`) -/
def handleP (s : St) : MsgP → Out × St
  | .del k n =>
    -- `_unbox (LOCAL_REF k)` is `_local_objects[k]`, then `_handle_del` → `decref`
    match s.tbl.decref k n with
    | .error _ => (.keyError, { s with o2p := s.o2p ++ [.exc] })
    | .ok t => (.ok, { s with tbl := t, o2p := s.o2p ++ [.reply [] false] })
  | .back k echo =>
    match s.tbl k with
    | none => (.keyError, { s with o2p := s.o2p ++ [.exc] })
    | some _ =>
      if echo then (.ok, { s with tbl := s.tbl.add k, o2p := s.o2p ++ [.reply [k] true] })
      else (.ok, { s with o2p := s.o2p ++ [.reply [] false] })
  | .fetch ks => (.ok, { s with tbl := addAll s.tbl ks, o2p := s.o2p ++ [.reply ks true] })
  | .reply => (.ok, s)

/-- the peer dispatches one request / reply -/
def handleO (s : St) : MsgO → Out × St
  | .req ids => (.ok, { s with px := recvAll s.px ids, p2o := s.p2o ++ [.reply] })
  | .reply ids _ => (.ok, { s with px := recvAll s.px ids })
  | .exc => (.ok, s)

def deliverP2O (s : St) : Out × St :=
  match s.p2o with
  | [] => (.empty, s)
  | m :: rest => handleP { s with p2o := rest } m

def deliverO2P (s : St) : Out × St :=
  match s.o2p with
  | [] => (.empty, s)
  | m :: rest => handleO { s with o2p := rest } m

/-- `BaseNetref.__del__`: `asyncreq(self, HANDLE_DEL, self.____refcount__)`; the weak cache entry goes with it -/
def finalize (s : St) (k : Id) : Out × St :=
  match s.px k with
  | none => (.disabled, s)
  | some c => (.ok, { s with px := s.px.set k none, p2o := s.p2o ++ [.del k c] })

def passBack (s : St) (k : Id) (echo : Bool) : Out × St :=
  match s.px k with
  | none => (.disabled, s)
  | some _ => (.ok, { s with p2o := s.p2o ++ [.back k echo] })

/-- `_cleanup` on both ends: `_local_objects.clear()`, `_proxy_cache.clear()`, channel closed -/
def closeAll (_s : St) : St := { tbl := Tbl.empty, px := Tbl.empty, o2p := [], p2o := [], closed := true }

def step (s : St) (op : Op) : Out × St :=
  if s.closed then (.closed, s) else
  match op with
  | .send ks => (.ok, { s with tbl := addAll s.tbl ks, o2p := s.o2p ++ [.req ks] })
  | .fetch ks => (.ok, { s with p2o := s.p2o ++ [.fetch ks] })
  | .back k echo => passBack s k echo
  | .finalize k => finalize s k
  | .deliverO2P => deliverO2P s
  | .deliverP2O => deliverP2O s
  | .close => (.ok, closeAll s)

/-- a finite history -/
def run (s : St) : List Op → St
  | [] => s
  | op :: ops => run (step s op).2 ops

/-! ### what the invariant counts -/

/-- boxes outstanding for a slot: `stored + 1`, or 0 when absent -/
def val : Option Nat → Nat
  | none => 0
  | some n => n + 1

/-- the count a live proxy will release -/
def cnt : Option Nat → Nat
  | none => 0
  | some c => c

def MsgO.refs (k : Id) : MsgO → Nat
  | .req ids => ids.count k
  | .reply ids _ => ids.count k
  | .exc => 0

/-- references to `k` in flight to the peer -/
def refsO (k : Id) : List MsgO → Nat
  | [] => 0
  | m :: q => m.refs k + refsO k q

def MsgP.dels (k : Id) : MsgP → Nat
  | .del j n => if j = k then n else 0
  | _ => 0

/-- releases of `k` in flight to the owner -/
def delSum (k : Id) : List MsgP → Nat
  | [] => 0
  | m :: q => m.dels k + delSum k q

/-- every proxy handed back that is still in flight will resolve when it arrives: behind it in the queue
or still alive at the peer there is at least one unreleased reference -/
def backOk (px : Tbl) : List MsgP → Prop
  | [] => True
  | .back k _ :: rest => 1 ≤ cnt (px k) + delSum k rest ∧ backOk px rest
  | _ :: rest => backOk px rest

/-- every release notice in flight releases at least one reference -/
def delPos : List MsgP → Prop
  | [] => True
  | .del _ n :: rest => 1 ≤ n ∧ delPos rest
  | _ :: rest => delPos rest

structure Inv (s : St) : Prop where
  count : ∀ k, val (s.tbl k) = refsO k s.o2p + cnt (s.px k) + delSum k s.p2o
  pxPos : ∀ k, s.px k ≠ some 0
  dels : delPos s.p2o
  backs : backOk s.px s.p2o

/-! ### the peer's application on top: who holds which proxy

The machine above lets a finalizer run at any time a proxy exists.  CPython runs it when the last holder lets
go; the holders in the correspondence runs are the application's own table (`held`) and the values of ready
`AsyncResult`s it has not collected yet (`results`). -/

structure App where
  s : St
  /-- ids whose proxy the peer's application holds -/
  held : List Id
  /-- ready, uncollected results: the ids their values reference -/
  results : List (List Id)

def App.init : App := { s := St.init, held := [], results := [] }

inductive AOp where
  | send (ks : List Id)
  | fetch (ks : List Id)
  | back (k : Id) (echo : Bool)
  /-- the application lets go of its proxy of `k` -/
  | drop (k : Id)
  /-- the application takes the value of the oldest ready result and keeps its proxies -/
  | collect
  | deliverO2P
  | deliverP2O
  | close
  deriving DecidableEq, Repr

inductive AOut where
  | base (o : Out)
  /-- the application does not hold that proxy -/
  | notHeld
  /-- a reply carrying references nobody keeps: outside what the application layer models -/
  | notModelled
  deriving DecidableEq, Repr

def holdAll (held : List Id) (ks : List Id) : List Id := ks.foldl (fun h k => if h.contains k then h else h ++ [k]) held

/-- run one operation of the machine below and set the application's own bookkeeping -/
def lift (a : App) (op : Op) (held : List Id) (results : List (List Id)) : AOut × App :=
  (.base (step a.s op).1, { s := (step a.s op).2, held := held, results := results })

def appStep (a : App) : AOp → AOut × App
  | .send ks => lift a (.send ks) a.held a.results
  | .fetch ks => lift a (.fetch ks) a.held a.results
  | .back k echo =>
    if a.s.closed then (.base .closed, a)
    else if a.held.contains k then lift a (.back k echo) a.held a.results
    else (.notHeld, a)
  | .drop k =>
    if a.s.closed then (.base .closed, a)
    else if a.held.contains k then
      if a.results.any (·.contains k) then (.base .ok, { a with held := a.held.erase k })
      else lift a (.finalize k) (a.held.erase k) a.results
    else (.notHeld, a)
  | .collect =>
    if a.s.closed then (.base .closed, a) else
    match a.results with
    | [] => (.base .empty, a)
    | r :: rest => (.base .ok, { a with held := holdAll a.held r, results := rest })
  | .deliverO2P =>
    if a.s.closed then (.base .closed, a) else
    match a.s.o2p with
    | [] => (.base .empty, a)
    | .req ids :: _ => lift a .deliverO2P (holdAll a.held ids) a.results
    | .reply ids true :: _ => lift a .deliverO2P a.held (a.results ++ [ids])
    | .reply [] false :: _ => lift a .deliverO2P a.held a.results
    | .reply (_ :: _) false :: _ => (.notModelled, a)
    | .exc :: _ => lift a .deliverO2P a.held a.results
  | .deliverP2O => lift a .deliverP2O a.held a.results
  | .close => lift a .close [] []

def appRun (a : App) : List AOp → App
  | [] => a
  | op :: ops => appRun (appStep a op).2 ops

end Rpyc.Box
