import RpycModel.Gen.Box
import RpycModel.Base.Py
/-
L3 — boxing and the reference counts behind it.

  rpyc/lib/colls.py      `RefCountingColl.add / decref / __getitem__ / clear`
  rpyc/core/protocol.py  `Connection._box / _unbox / _handle_del / _dispatch_request / _cleanup`
  rpyc/core/netref.py    `BaseNetref.__init__` (count 1), `BaseNetref.__del__` (sends the whole count)

Part 1 (C10) is the machine of one connection seen from the objects one side (the *owner*) lends to the
other (the *peer*): the owner's table, the peer's live proxies, and the two FIFO message queues.  By the
symmetry of `Connection` the other direction is the same machine with the roles exchanged.

Keys: `get_id_pack` is abstracted to a stable injective key (`Id`) of a live object.
-/
namespace Rpyc.Box
open Rpyc

abbrev Id := Nat

/-- `RefCountingColl._dict` as key ↦ stored count, and (at the peer) key ↦ `____refcount__` of the live proxy.
(A structure around the lookup function so that compiled updates evaluate the new slot once.) -/
structure Tbl where
  get : Id → Option Nat

instance : CoeFun Tbl (fun _ => Id → Option Nat) := ⟨Tbl.get⟩

def Tbl.empty : Tbl := ⟨fun _ => none⟩

def Tbl.set (t : Tbl) (k : Id) (v : Option Nat) : Tbl := ⟨fun j => if j = k then v else t j⟩

/-- the slot after `RefCountingColl.add`: first add stores 0, later adds increment -/
def bump : Option Nat → Option Nat
  | none => some 0
  | some n => some (n + 1)

/-- `RefCountingColl.add` -/
def Tbl.add (t : Tbl) (k : Id) : Tbl := t.set k (bump (t k))

/-- the slot after `decref(key, n)` on a present key: `if slot[1] < count: del ... else: slot[1] -= count` -/
def dropBy (m n : Nat) : Option Nat := if m < n then none else some (m - n)

/-- `RefCountingColl.decref`; `self._dict[key]` raises KeyError for an absent key -/
def Tbl.decref (t : Tbl) (k : Id) (n : Nat) : Except Err Tbl :=
  match t k with
  | none => .error .keyError
  | some m => .ok (t.set k (dropBy m n))

/-- the proxy slot after `_unbox` met `REMOTE_REF k`: cache hit `____refcount__ += 1`, miss: a new proxy
(`BaseNetref.__init__`: count 1) -/
def hit : Option Nat → Option Nat
  | none => some 1
  | some c => some (c + 1)

/-- `_unbox` of one `REMOTE_REF` -/
def Tbl.recv (p : Tbl) (k : Id) : Tbl := p.set k (hit (p k))

/-- `_box` of the by-reference objects of one message, in boxing order -/
def addAll (t : Tbl) (ks : List Id) : Tbl := ks.foldl Tbl.add t

/-- the slot after `decref(key, 1)` used to take one registration back (`Connection._unregister`); an absent key is ignored -/
def unbump : Option Nat → Option Nat
  | none => none
  | some m => dropBy m 1

def Tbl.unadd (t : Tbl) (k : Id) : Tbl := t.set k (unbump (t k))

def unaddAll (t : Tbl) (ks : List Id) : Tbl := ks.foldl Tbl.unadd t

/-- what `_box` followed by a `brine.dump` that refuses the message leaves in the table: `released` (the generated
constant `failedSendReleases`) says whether the code takes the registrations back -/
def failedBox (released : Bool) (t : Tbl) (ks : List Id) : Tbl :=
  if released then unaddAll (addAll t ks) ks else addAll t ks

/-- `_unbox` of the `REMOTE_REF`s of one message, in order -/
def recvAll (p : Tbl) (ks : List Id) : Tbl := ks.foldl Tbl.recv p

/-- messages owner → peer -/
inductive MsgO where
  /-- `MSG_REQUEST` whose arguments carry these objects by reference (`REMOTE_REF`, in boxing order) -/
  | req (ids : List Id)
  /-- `MSG_REPLY` whose value carries these objects by reference; `kept`: the peer's application still has the
  `AsyncResult` this reply completes -/
  | reply (ids : List Id) (kept : Bool)
  /-- `MSG_EXCEPTION`; `kept` as for a reply -/
  | exc (kept : Bool)
  /-- the front part of a message whose `_unbox` fails further on: these references were taken over by proxies -/
  | recvd (ids : List Id)
  /-- the rest of that message: references the receiver never got to (the failing one included); `isReq`: the message
  was a request, so an exception reply follows; `kept` as for a reply -/
  | unrecvd (ids : List Id) (isReq : Bool) (kept : Bool)
  deriving DecidableEq, Repr

/-- messages peer → owner -/
inductive MsgP where
  /-- `HANDLE_DEL (proxy, n)` sent by `BaseNetref.__del__`: the proxy travels as `LOCAL_REF k` -/
  | del (k : Id) (n : Nat)
  /-- a request that hands the proxy of `k` back as an argument (`LOCAL_REF k`); `echo`: the handler returns it -/
  | back (k : Id) (echo : Bool)
  /-- a request whose result is the objects `ks` (the owner boxes them into the reply) -/
  | fetch (ks : List Id)
  /-- `MSG_REPLY` to a request of the owner (carries a plain value) -/
  | reply
  /-- a request whose result is the objects `ks` together with a plain value brine cannot serialize (an int beyond
  the str() digit limit, a tuple nested too deep): the owner boxes the result and then cannot send it -/
  | fetchBad (ks : List Id)
  deriving DecidableEq, Repr

structure St where
  /-- owner: `_local_objects` -/
  tbl : Tbl
  /-- peer: live proxies of `_proxy_cache` with their counts -/
  px : Tbl
  /-- in flight owner → peer, oldest first -/
  o2p : List MsgO
  /-- in flight peer → owner, oldest first -/
  p2o : List MsgP
  closed : Bool

def St.init : St := { tbl := Tbl.empty, px := Tbl.empty, o2p := [], p2o := [], closed := false }

inductive Op where
  /-- the owner sends a request carrying `ks` by reference -/
  | send (ks : List Id)
  /-- the peer sends a request whose reply will carry `ks` -/
  | fetch (ks : List Id)
  /-- the owner tries to send a request carrying `ks` and a plain value brine cannot serialize: boxed, never sent -/
  | sendFail (ks : List Id)
  /-- the peer sends a request whose result (`ks` and such a value) the owner will not be able to send -/
  | fetchBad (ks : List Id)
  /-- the peer passes its live proxy of `k` back to the owner -/
  | back (k : Id) (echo : Bool)
  /-- the proxy of `k` is finalized (`BaseNetref.__del__` runs) -/
  | finalize (k : Id)
  /-- the peer's `_unbox` of the next message is going to fail after `j` of its references (the class of the next one
  cannot be inspected, the round trip times out, ...): split the message into what will be received and what will not -/
  | splitHead (j : Nat)
  /-- the peer serves the next message -/
  | deliverO2P
  /-- the owner serves the next message -/
  | deliverP2O
  /-- the connection is closed and both ends have run `_cleanup` -/
  | close
  deriving DecidableEq, Repr

inductive Out where
  | ok
  /-- nothing to deliver -/
  | empty
  /-- a `LOCAL_REF` did not resolve / `decref` of an absent key: the request is answered with `MSG_EXCEPTION` -/
  | keyError
  /-- the operation needs a live proxy that does not exist: nothing happens -/
  | disabled
  | closed
  /-- the message could not be serialized: the sender gets the exception, a requester an exception reply -/
  | unsendable
  /-- the receiver could not unbox the message: a requester gets an exception reply, a waiter the exception -/
  | unreceived
  deriving DecidableEq, Repr

/-- the owner dispatches one request / reply (`_dispatch`) -/
def handleP (s : St) : MsgP → Out × St
  | .del k n =>
    -- `_unbox (LOCAL_REF k)` is `_local_objects[k]`, then `_handle_del` → `decref`
    match s.tbl.decref k n with
    | .error _ => (.keyError, { s with o2p := s.o2p ++ [.exc false] })
    | .ok t => (.ok, { s with tbl := t, o2p := s.o2p ++ [.reply [] false] })
  | .back k echo =>
    match s.tbl k with
    | none => (.keyError, { s with o2p := s.o2p ++ [.exc echo] })
    | some _ =>
      if echo then (.ok, { s with tbl := s.tbl.add k, o2p := s.o2p ++ [.reply [k] true] })
      else (.ok, { s with o2p := s.o2p ++ [.reply [] false] })
  | .fetch ks => (.ok, { s with tbl := addAll s.tbl ks, o2p := s.o2p ++ [.reply ks true] })
  | .reply => (.ok, s)
  | .fetchBad ks =>
    -- `_box(res)` registered `ks`, `_send` raised, `_send_exception` answers instead
    (.unsendable, { s with tbl := failedBox Gen.Box.failedSendReleases s.tbl ks, o2p := s.o2p ++ [.exc true] })

/-- one release notice of 1 for every reference the receiver never took over (`Connection._release_unreceived`: a bare
netref that dies at once) -/
def releasesFor (ks : List Id) : List MsgP := ks.map (fun k => .del k 1)

/-- what the receiver sends for the unreceived part of a message: `released` (generated constant `failedUnboxReleases`) -/
def unreceivedTail (released : Bool) (ks : List Id) (isReq : Bool) : List MsgP :=
  (if released then releasesFor ks else []) ++ (if isReq then [.reply] else [])

/-- the peer dispatches one request / reply -/
def handleO (s : St) : MsgO → Out × St
  | .req ids => (.ok, { s with px := recvAll s.px ids, p2o := s.p2o ++ [.reply] })
  | .reply ids _ => (.ok, { s with px := recvAll s.px ids })
  | .exc _ => (.ok, s)
  | .recvd ids => (.ok, { s with px := recvAll s.px ids })
  | .unrecvd ids isReq _ =>
    (.unreceived, { s with p2o := s.p2o ++ unreceivedTail Gen.Box.failedUnboxReleases ids isReq })

/-- `_unbox` of the next message will fail after `j` references -/
def splitHead (s : St) (j : Nat) : Out × St :=
  match s.o2p with
  | .req ids :: rest =>
    if j < ids.length then (.ok, { s with o2p := .recvd (ids.take j) :: .unrecvd (ids.drop j) true false :: rest })
    else (.disabled, s)
  | .reply ids kept :: rest =>
    if j < ids.length then (.ok, { s with o2p := .recvd (ids.take j) :: .unrecvd (ids.drop j) false kept :: rest })
    else (.disabled, s)
  | _ => (.disabled, s)

def deliverP2O (s : St) : Out × St :=
  match s.p2o with
  | [] => (.empty, s)
  | m :: rest => handleP { s with p2o := rest } m

def deliverO2P (s : St) : Out × St :=
  match s.o2p with
  | [] => (.empty, s)
  | m :: rest => handleO { s with o2p := rest } m

/-- `BaseNetref.__del__`: `asyncreq(self, HANDLE_DEL, self.____refcount__)`; the weak cache entry goes with it -/
def finalize (s : St) (k : Id) : Out × St :=
  match s.px k with
  | none => (.disabled, s)
  | some c => (.ok, { s with px := s.px.set k none, p2o := s.p2o ++ [.del k c] })

def passBack (s : St) (k : Id) (echo : Bool) : Out × St :=
  match s.px k with
  | none => (.disabled, s)
  | some _ => (.ok, { s with p2o := s.p2o ++ [.back k echo] })

/-- `_cleanup` on both ends: `_local_objects.clear()`, `_proxy_cache.clear()`, channel closed -/
def closeAll (_s : St) : St := { tbl := Tbl.empty, px := Tbl.empty, o2p := [], p2o := [], closed := true }

def step (s : St) (op : Op) : Out × St :=
  if s.closed then (.closed, s) else
  match op with
  | .send ks => (.ok, { s with tbl := addAll s.tbl ks, o2p := s.o2p ++ [.req ks] })
  | .fetch ks => (.ok, { s with p2o := s.p2o ++ [.fetch ks] })
  | .sendFail ks => (.unsendable, { s with tbl := failedBox Gen.Box.failedSendReleases s.tbl ks })
  | .fetchBad ks => (.ok, { s with p2o := s.p2o ++ [.fetchBad ks] })
  | .back k echo => passBack s k echo
  | .finalize k => finalize s k
  | .splitHead j => splitHead s j
  | .deliverO2P => deliverO2P s
  | .deliverP2O => deliverP2O s
  | .close => (.ok, closeAll s)

/-- a finite history -/
def run (s : St) : List Op → St
  | [] => s
  | op :: ops => run (step s op).2 ops

/-! ### dispatch that is not atomic

Creating the proxy of an object whose class the receiver has not seen yet performs a synchronous `HANDLE_INSPECT`
request from inside `_unbox`; its nested `serve()` dispatches whatever arrives before the answer — among it release
notices that travel right behind the message being unboxed.  `deliverNested` is the owner's dispatch of a hand-back
`back k echo` whose package also carries such a fresh reference of the peer's: `mid` is everything that happens
during the nested serve (ANY operations of the machine: a superset of what a nested serve can do).

`resolveFirst = true`: `_resolve_local_refs` looks `k` up before any proxy is created (commit e881f31);
`resolveFirst = false`: the one-pass order with the fresh reference in front — the lookup comes after the nested serve. -/
def deliverNested (resolveFirst : Bool) (mid : List Op) (s : St) : Out × St :=
  if s.closed then (.closed, s) else
  match s.p2o with
  | .back k echo :: rest =>
    if resolveFirst then
      match s.tbl k with
      | none => (.keyError, { s with p2o := rest, o2p := s.o2p ++ [.exc echo] })
      | some _ =>
        -- the package now holds the object itself; then the nested serve; then the handler runs
        if (run { s with p2o := rest } mid).closed then (.closed, run { s with p2o := rest } mid)
        else if echo then (.ok, { run { s with p2o := rest } mid with
                                   tbl := (run { s with p2o := rest } mid).tbl.add k,
                                   o2p := (run { s with p2o := rest } mid).o2p ++ [.reply [k] true] })
        else (.ok, { run { s with p2o := rest } mid with o2p := (run { s with p2o := rest } mid).o2p ++ [.reply [] false] })
    else
      -- nested serve first, then the ordinary dispatch of the hand-back in whatever state it left
      if (run { s with p2o := rest } mid).closed then (.closed, run { s with p2o := rest } mid)
      else handleP (run { s with p2o := rest } mid) (.back k echo)
  | _ => (.disabled, s)

/-! ### what the invariant counts -/

/-- boxes outstanding for a slot: `stored + 1`, or 0 when absent -/
def val : Option Nat → Nat
  | none => 0
  | some n => n + 1

/-- the count a live proxy will release -/
def cnt : Option Nat → Nat
  | none => 0
  | some c => c

def MsgO.refs (k : Id) : MsgO → Nat
  | .req ids => ids.count k
  | .reply ids _ => ids.count k
  | .exc _ => 0
  | .recvd ids => ids.count k
  | .unrecvd ids _ _ => ids.count k

/-- references to `k` in flight to the peer -/
def refsO (k : Id) : List MsgO → Nat
  | [] => 0
  | m :: q => m.refs k + refsO k q

def MsgP.dels (k : Id) : MsgP → Nat
  | .del j n => if j = k then n else 0
  | _ => 0

/-- releases of `k` in flight to the owner -/
def delSum (k : Id) : List MsgP → Nat
  | [] => 0
  | m :: q => m.dels k + delSum k q

/-- every proxy handed back that is still in flight will resolve when it arrives: behind it in the queue
or still alive at the peer there is at least one unreleased reference -/
def backOk (px : Tbl) : List MsgP → Prop
  | [] => True
  | .back k _ :: rest => 1 ≤ cnt (px k) + delSum k rest ∧ backOk px rest
  | _ :: rest => backOk px rest

/-- every release notice in flight releases at least one reference -/
def delPos : List MsgP → Prop
  | [] => True
  | .del _ n :: rest => 1 ≤ n ∧ delPos rest
  | _ :: rest => delPos rest

structure Inv (s : St) : Prop where
  count : ∀ k, val (s.tbl k) = refsO k s.o2p + cnt (s.px k) + delSum k s.p2o
  pxPos : ∀ k, s.px k ≠ some 0
  dels : delPos s.p2o
  backs : backOk s.px s.p2o

/-! ### the peer's application on top: who holds which proxy

The machine above lets a finalizer run at any time a proxy exists.  CPython runs it when the last holder lets
go; the holders in the correspondence runs are the application's own table (`held`) and the values of ready
`AsyncResult`s it has not collected yet (`results`). -/

structure App where
  s : St
  /-- ids whose proxy the peer's application holds -/
  held : List Id
  /-- ready, uncollected results: the ids their values reference -/
  results : List (List Id)
  /-- the peer's outstanding requests whose result it wants (`AsyncResult`s), oldest first: has it expired? -/
  waiters : List Bool

def App.init : App := { s := St.init, held := [], results := [], waiters := [] }

inductive AOp where
  | send (ks : List Id)
  | fetch (ks : List Id)
  | back (k : Id) (echo : Bool)
  | sendFail (ks : List Id)
  | fetchFail (ks : List Id)
  /-- the application lets go of its proxy of `k` -/
  | drop (k : Id)
  /-- the application takes the value of the oldest ready result and keeps its proxies -/
  | collect
  /-- the `j`-th outstanding `AsyncResult` expires before its reply is delivered (`set_expiry`, `timed`, a timeout) -/
  | expire (j : Nat)
  | deliverO2P
  /-- the peer's `_unbox` of the next message fails after `j` of its references -/
  | deliverFail (j : Nat)
  | deliverP2O
  | close
  deriving DecidableEq, Repr

inductive AOut where
  | base (o : Out)
  /-- the application does not hold that proxy -/
  | notHeld
  /-- outside what the application layer models -/
  | notModelled
  deriving DecidableEq, Repr

def holdAll (held : List Id) (ks : List Id) : List Id := ks.foldl (fun h k => if h.contains k then h else h ++ [k]) held

/-- run one operation of the machine below and set the application's own bookkeeping -/
def lift (a : App) (op : Op) (held : List Id) (results : List (List Id)) (waiters : List Bool) : AOut × App :=
  (.base (step a.s op).1, { s := (step a.s op).2, held := held, results := results, waiters := waiters })

/-- mark the `j`-th outstanding waiter expired (none: no such waiter, or expired already) -/
def expireAt : List Bool → Nat → Option (List Bool)
  | [], _ => none
  | w :: ws, 0 => if w then none else some (true :: ws)
  | w :: ws, j + 1 => (expireAt ws j).map (w :: ·)

/-- the proxies a value takes with it when it is thrown away: those nobody else holds; CPython releases the items of a
tuple from the last to the first, so a proxy goes when the reference at its FIRST occurrence goes -/
def dying (ids held : List Id) (results : List (List Id)) : List Id :=
  (holdAll [] ids).reverse.filter (fun k => !held.contains k && !results.any (·.contains k))

/-- a reply arrives for a waiter that has expired: `_dispatch` unboxes it all the same (the references are counted,
proxies are created), `AsyncResult.__call__` drops the value, and the proxies nobody else holds are finalized at once -/
def discard (a : App) (ids : List Id) (waiters : List Bool) : AOut × App :=
  (.base (step a.s .deliverO2P).1,
   { s := run (step a.s .deliverO2P).2 ((dying ids a.held a.results).map .finalize),
     held := a.held, results := a.results, waiters := waiters })

/-- the operations of the machine a failed `_unbox` of the next message amounts to: split it, receive the front part,
the proxies it created that nobody else holds die as the partial result is thrown away, then the releases for the part
never received (and the exception reply) -/
def failOps (taken dying : List Id) (j : Nat) : List Op :=
  [.splitHead j, .deliverO2P] ++ dying.map .finalize ++ [.deliverO2P]

def failDelivery (a : App) (taken : List Id) (results : List (List Id)) (waiters : List Bool) : AOut × App :=
  (.base .unreceived,
   { s := run a.s (failOps taken (dying taken a.held a.results) taken.length),
     held := a.held, results := results, waiters := waiters })

def appStep (a : App) : AOp → AOut × App
  | .send ks => lift a (.send ks) a.held a.results a.waiters
  | .fetch ks =>
    if a.s.closed then (.base .closed, a)
    else lift a (.fetch ks) a.held a.results (a.waiters ++ [false])
  | .sendFail ks => lift a (.sendFail ks) a.held a.results a.waiters
  | .fetchFail ks =>
    if a.s.closed then (.base .closed, a)
    else lift a (.fetchBad ks) a.held a.results (a.waiters ++ [false])
  | .back k echo =>
    if a.s.closed then (.base .closed, a)
    else if a.held.contains k then lift a (.back k echo) a.held a.results (if echo then a.waiters ++ [false] else a.waiters)
    else (.notHeld, a)
  | .drop k =>
    if a.s.closed then (.base .closed, a)
    else if a.held.contains k then
      if a.results.any (·.contains k) then (.base .ok, { a with held := a.held.erase k })
      else lift a (.finalize k) (a.held.erase k) a.results a.waiters
    else (.notHeld, a)
  | .collect =>
    if a.s.closed then (.base .closed, a) else
    match a.results with
    | [] => (.base .empty, a)
    | r :: rest => (.base .ok, { a with held := holdAll a.held r, results := rest })
  | .expire j =>
    if a.s.closed then (.base .closed, a) else
    match expireAt a.waiters j with
    | none => (.base .disabled, a)
    | some ws => (.base .ok, { a with waiters := ws })
  | .deliverO2P =>
    if a.s.closed then (.base .closed, a) else
    match a.s.o2p with
    | [] => (.base .empty, a)
    | .req ids :: _ => lift a .deliverO2P (holdAll a.held ids) a.results a.waiters
    | .reply ids true :: _ =>
      match a.waiters with
      | true :: ws => discard a ids ws
      | false :: ws => lift a .deliverO2P a.held (a.results ++ [ids]) ws
      | [] => (.notModelled, a)
    | .reply [] false :: _ => lift a .deliverO2P a.held a.results a.waiters
    | .reply (_ :: _) false :: _ => (.notModelled, a)
    | .exc true :: _ =>
      match a.waiters with
      | true :: ws => lift a .deliverO2P a.held a.results ws
      | false :: ws => lift a .deliverO2P a.held (a.results ++ [[]]) ws
      | [] => (.notModelled, a)
    | .exc false :: _ => lift a .deliverO2P a.held a.results a.waiters
    -- the two halves of a message whose `_unbox` fails exist only inside `deliverFail`
    | .recvd _ :: _ => (.notModelled, a)
    | .unrecvd _ _ _ :: _ => (.notModelled, a)
  | .deliverFail j =>
    if a.s.closed then (.base .closed, a) else
    match a.s.o2p with
    | .req ids :: _ =>
      if j < ids.length then failDelivery a (ids.take j) a.results a.waiters else (.base .disabled, a)
    | .reply ids true :: _ =>
      if j < ids.length then
        match a.waiters with
        | true :: ws => failDelivery a (ids.take j) a.results ws
        | false :: ws => failDelivery a (ids.take j) (a.results ++ [[]]) ws
        | [] => (.notModelled, a)
      else (.base .disabled, a)
    | _ => (.base .disabled, a)
  | .deliverP2O => lift a .deliverP2O a.held a.results a.waiters
  | .close => lift a .close [] [] []

def appRun (a : App) : List AOp → App
  | [] => a
  | op :: ops => appRun (appStep a op).2 ops

/-! ## Part 2 (C03): what travels by value, what by reference, and identity

`_box` / `_unbox` on one connection with two symmetric ends.  Each end has its own table of lent objects, its live
proxies with their counts, and — so that "is the same proxy object" can be said — a serial number for every proxy
it ever created (`BaseNetref.__init__` ran). -/

/-- a Python value as one end of the connection sees it -/
inductive PyVal where
  /-- an instance of exactly one of the immutable plain types, built only from such values -/
  | imm (v : Val)
  /-- an exact `tuple` -/
  | tup (xs : List PyVal)
  /-- any other object living at this end, with its identity: list, dict, set, function, class, module, a frozenset or
  slice that holds such an object, a proxy that belongs to another connection -/
  | obj (id : Id)
  /-- an instance of a subclass of a plain type (enum member, namedtuple, `class MyInt(int)`, ...); `base` is the plain
  value it would compare equal to -/
  | sub (base : Val) (id : Id)
  /-- a proxy (netref) of this connection for the peer's object `id`; `pid`: which proxy object -/
  | proxy (id : Id) (pid : Nat)
  deriving Repr, Inhabited

/-- what `_box` returns / `_unbox` takes: `(label, value)` -/
inductive Label where
  | value (v : Val)
  | tuple (ls : List Label)
  | localRef (id : Id)
  | remoteRef (id : Id)
  /-- any label number `_unbox` does not know -/
  | other (tag : Nat)
  deriving Repr, Inhabited

mutual
/-- `brine.dumpable` on a value of this end: exact plain types only -/
def PyVal.dumpable : PyVal → Bool
  | .imm v => Rpyc.dumpable v
  | .tup xs => PyVal.dumpableL xs
  | .obj _ => false
  | .sub _ _ => false
  | .proxy _ _ => false
def PyVal.dumpableL : List PyVal → Bool
  | [] => true
  | x :: xs => x.dumpable && PyVal.dumpableL xs
end

mutual
/-- the brine value of a dumpable value -/
def PyVal.toVal : PyVal → Val
  | .imm v => v
  | .tup xs => .tuple (PyVal.toValL xs)
  | .obj _ => .other 0
  | .sub _ _ => .other 0
  | .proxy _ _ => .other 0
def PyVal.toValL : List PyVal → List Val
  | [] => []
  | x :: xs => x.toVal :: PyVal.toValL xs
end

mutual
/-- `Connection._box` against this end's table: dumpable → by value; exact tuple → item by item; a proxy of this
connection → `LOCAL_REF`; everything else → `REMOTE_REF` and one more box in the table -/
def box (t : Tbl) : PyVal → Except Err (Label × Tbl)
  | .imm v => if Rpyc.dumpable v then .ok (.value v, t) else .error .notModelled
  | .tup xs =>
    if PyVal.dumpableL xs then .ok (.value (.tuple (PyVal.toValL xs)), t)
    else match boxL t xs with
      | .error e => .error e
      | .ok (ls, t') => .ok (.tuple ls, t')
  | .proxy id _ => .ok (.localRef id, t)
  | .obj id => .ok (.remoteRef id, t.add id)
  | .sub _ id => .ok (.remoteRef id, t.add id)
def boxL (t : Tbl) : List PyVal → Except Err (List Label × Tbl)
  | [] => .ok ([], t)
  | x :: xs =>
    match box t x with
    | .error e => .error e
    | .ok (l, t1) => match boxL t1 xs with
      | .error e => .error e
      | .ok (ls, t2) => .ok (l :: ls, t2)
end

/-- one end of the connection -/
structure Side where
  /-- `_local_objects` -/
  tbl : Tbl
  /-- live proxies of `_proxy_cache` and their `____refcount__` -/
  px : Tbl
  /-- which proxy object is the live proxy of a key -/
  pid : Id → Nat
  /-- proxies created so far -/
  next : Nat

def Side.init : Side := { tbl := Tbl.empty, px := Tbl.empty, pid := fun _ => 0, next := 0 }

/-- `_unbox` of `REMOTE_REF id`: the cached proxy if it is alive (count + 1), else a new proxy object -/
def unboxRef (s : Side) (id : Id) : PyVal × Side :=
  match s.px id with
  | some _ => (.proxy id (s.pid id), { s with px := s.px.recv id })
  | none => (.proxy id s.next,
      { s with px := s.px.recv id, pid := fun j => if j = id then s.next else s.pid j, next := s.next + 1 })

mutual
/-- `Connection._unbox` as it was before commit e881f31: ONE pass, left to right — a `LOCAL_REF` is looked up when
the walk reaches it, after the proxies of the `REMOTE_REF`s in front of it were created.  Kept because (a) it succeeds
exactly when the two-pass function below succeeds, with the same result (`unbox_iff_onePass`), which is how the
theorems about successful transfers are proved, and (b) the C10 machine shows what the order costs when creating a
proxy runs a nested serve(). -/
def unboxOnePass (s : Side) : Label → Except Err (PyVal × Side)
  | .value v => .ok (.imm v, s)
  | .tuple ls =>
    match unboxOnePassL s ls with
    | .error e => .error e
    | .ok (xs, s') => .ok (.tup xs, s')
  | .localRef id =>
    match s.tbl id with
    | none => .error .keyError
    | some _ => .ok (.obj id, s)
  | .remoteRef id => .ok (unboxRef s id)
  | .other _ => .error .valueError
def unboxOnePassL (s : Side) : List Label → Except Err (List PyVal × Side)
  | [] => .ok ([], s)
  | l :: ls =>
    match unboxOnePass s l with
    | .error e => .error e
    | .ok (x, s1) => match unboxOnePassL s1 ls with
      | .error e => .error e
      | .ok (xs, s2) => .ok (x :: xs, s2)
end

/-- a package after `_resolve_local_refs`: every `LOCAL_REF` has been replaced by the object itself -/
inductive RLabel where
  | value (v : Val)
  | tuple (ls : List RLabel)
  /-- `(_RESOLVED, obj)`: the object stored under the key, now held by the package -/
  | resolved (id : Id)
  | remoteRef (id : Id)
  | other (tag : Nat)
  deriving Repr, Inhabited

mutual
/-- `Connection._resolve_local_refs`: first pass over the whole package, through nested tuples; only table lookups,
no proxy is created; an absent key raises KeyError here, whatever else the package holds -/
def resolve (t : Tbl) : Label → Except Err RLabel
  | .value v => .ok (.value v)
  | .tuple ls =>
    match resolveL t ls with
    | .error e => .error e
    | .ok rs => .ok (.tuple rs)
  | .localRef id =>
    match t id with
    | none => .error .keyError
    | some _ => .ok (.resolved id)
  | .remoteRef id => .ok (.remoteRef id)
  | .other tag => .ok (.other tag)
def resolveL (t : Tbl) : List Label → Except Err (List RLabel)
  | [] => .ok []
  | l :: ls =>
    match resolve t l with
    | .error e => .error e
    | .ok r => match resolveL t ls with
      | .error e => .error e
      | .ok rs => .ok (r :: rs)
end

mutual
/-- second pass of `_unbox` (`_resolved=True`): values, tuples, resolved objects, proxies for `REMOTE_REF`s (cache
hit or a new proxy), ValueError for an unknown label.  (When it raises, the proxies created so far are held by
nobody: they are finalized and their release notices undo their counts — the C10 machine's `finalize`.) -/
def create (s : Side) : RLabel → Except Err (PyVal × Side)
  | .value v => .ok (.imm v, s)
  | .tuple rs =>
    match createL s rs with
    | .error e => .error e
    | .ok (xs, s') => .ok (.tup xs, s')
  | .resolved id => .ok (.obj id, s)
  | .remoteRef id => .ok (unboxRef s id)
  | .other _ => .error .valueError
def createL (s : Side) : List RLabel → Except Err (List PyVal × Side)
  | [] => .ok ([], s)
  | r :: rs =>
    match create s r with
    | .error e => .error e
    | .ok (x, s1) => match createL s1 rs with
      | .error e => .error e
      | .ok (xs, s2) => .ok (x :: xs, s2)
end

/-- `Connection._unbox`: resolve every local reference of the package, then create the proxies -/
def unbox (s : Side) (l : Label) : Except Err (PyVal × Side) :=
  match resolve s.tbl l with
  | .error e => .error e
  | .ok r => create s r

mutual
/-- keys boxed by reference, in boxing order -/
def Label.remoteRefs : Label → List Id
  | .remoteRef id => [id]
  | .tuple ls => Label.remoteRefsL ls
  | _ => []
def Label.remoteRefsL : List Label → List Id
  | [] => []
  | l :: ls => l.remoteRefs ++ Label.remoteRefsL ls
end

mutual
/-- keys the package refers to in the receiver's own table (`LOCAL_REF`), anywhere in the tree -/
def Label.localRefs : Label → List Id
  | .localRef id => [id]
  | .tuple ls => Label.localRefsL ls
  | _ => []
def Label.localRefsL : List Label → List Id
  | [] => []
  | l :: ls => l.localRefs ++ Label.localRefsL ls
end

/-! ### the label tree as the brine value that goes on the wire -/

mutual
/-- `(label, value)` as brine sees it; `pack` is `get_id_pack` for a key -/
def Label.toVal (pack : Id → Val) : Label → Val
  | .value v => .tuple [.int Gen.Box.labelValue, v]
  | .tuple ls => .tuple [.int Gen.Box.labelTuple, .tuple (Label.toValL pack ls)]
  | .localRef id => .tuple [.int Gen.Box.labelLocalRef, pack id]
  | .remoteRef id => .tuple [.int Gen.Box.labelRemoteRef, pack id]
  | .other tag => .tuple [.int tag, .none]
def Label.toValL (pack : Id → Val) : List Label → List Val
  | [] => []
  | l :: ls => l.toVal pack :: Label.toValL pack ls
end

/-- which branch of `_unbox` a label number selects -/
inductive LabelKind where
  | value | tuple | localRef | remoteRef | unknown
  deriving DecidableEq, Repr

def labelKind (t : Int) : LabelKind :=
  if t = Gen.Box.labelValue then .value
  else if t = Gen.Box.labelTuple then .tuple
  else if t = Gen.Box.labelLocalRef then .localRef
  else if t = Gen.Box.labelRemoteRef then .remoteRef
  else .unknown

mutual
/-- read a received brine value as a label tree: `label, value = package`, then the comparisons of `_unbox`, in
its order; `unpack` reads an id pack.  Fuel = nesting depth. -/
def parseLabel (unpack : Val → Option Id) : Nat → Val → Except Err Label
  | 0, _ => .error .recursionError
  | fuel + 1, .tuple [.int t, payload] =>
    match labelKind t with
    | .value => .ok (.value payload)
    | .tuple =>
      match payload with
      | .tuple items => match parseLabelL unpack fuel items with
        | .error e => .error e
        | .ok ls => .ok (.tuple ls)
      | _ => .error .typeError
    | .localRef => match unpack payload with
      | some id => .ok (.localRef id)
      | none => .error .keyError
    | .remoteRef => match unpack payload with
      | some id => .ok (.remoteRef id)
      | none => .error .typeError
    | .unknown => .ok (.other t.toNat)
  | _ + 1, _ => .error .typeError
def parseLabelL (unpack : Val → Option Id) : Nat → List Val → Except Err (List Label)
  | _, [] => .ok []
  | 0, _ :: _ => .error .recursionError
  | fuel + 1, v :: vs =>
    match parseLabel unpack fuel v with
    | .error e => .error e
    | .ok l => match parseLabelL unpack (fuel + 1) vs with
      | .error e => .error e
      | .ok ls => .ok (l :: ls)
end

mutual
def Label.depth : Label → Nat
  | .tuple ls => 1 + Label.depthL ls
  | _ => 1
def Label.depthL : List Label → Nat
  | [] => 0
  | l :: ls => 1 + max l.depth (Label.depthL ls)
end

/-! ### a conversation between the two ends (what the C03 correspondence replays) -/

/-- finalize the proxy of `id` at `q` (its `__del__` runs) and let the owner `o` process the release -/
def release (o q : Side) (id : Id) : Side × Side :=
  match q.px id with
  | none => (o, q)
  | some c =>
    match o.tbl.decref id c with
    | .error _ => (o, { q with px := q.px.set id none })
    | .ok t => ({ o with tbl := t }, { q with px := q.px.set id none })

def releaseAll (o q : Side) (ids : List Id) : Side × Side :=
  ids.foldl (fun (p : Side × Side) id => release p.1 p.2 id) (o, q)

/-- the two ends and which of the other end's objects each application holds proxies of -/
structure Conv where
  a : Side
  b : Side
  /-- keys of `a`'s objects whose proxy `b`'s application keeps -/
  heldB : List Id
  /-- keys of `b`'s objects whose proxy `a`'s application keeps -/
  heldA : List Id

def Conv.init : Conv := { a := Side.init, b := Side.init, heldB := [], heldA := [] }

/-- what one step of a conversation shows: the label trees that travelled and the values that arrived -/
structure Seen where
  labels : List Label
  values : List (PyVal × Side)

/-- keys of a message in order of first appearance that the receiving application does not otherwise hold -/
def transient (l : Label) (held : List Id) : List Id :=
  (holdAll [] l.remoteRefs).filter (fun k => !held.contains k)

/-- one value travels: `_box` at the sender `o`, `_unbox` at the receiver `q` (label tree, arrived value, both ends after) -/
def xfer (o q : Side) (x : PyVal) : Except Err (Label × PyVal × Side × Side) :=
  match box o.tbl x with
  | .error e => .error e
  | .ok (l, t) =>
    match unbox q l with
    | .error e => .error e
    | .ok (y, q1) => .ok (l, y, { o with tbl := t }, q1)

/-- `a` calls a function of `b` with argument tuple `x`; `b` keeps the arguments or not -/
def Conv.send (c : Conv) (x : PyVal) (keep : Bool) : Except Err (Seen × Conv) :=
  match xfer c.a c.b x with
  | .error e => .error e
  | .ok (l, y, a1, b1) =>
    if keep then
      .ok ({ labels := [l], values := [(y, b1)] }, { c with a := a1, b := b1, heldB := holdAll c.heldB l.remoteRefs })
    else
      -- the arguments die when the handler returns: proxies nobody else holds are finalized
      .ok ({ labels := [l], values := [(y, b1)] },
           { c with a := (releaseAll a1 b1 (transient l c.heldB)).1, b := (releaseAll a1 b1 (transient l c.heldB)).2 })

/-- `a` calls `b`'s identity function: `x` travels there, the received value travels back; afterwards neither
application keeps the travelling values: first `b`'s proxies of `a`'s objects go, then `a`'s proxies of `b`'s -/
def Conv.echo (c : Conv) (x : PyVal) : Except Err (Seen × Conv) :=
  match xfer c.a c.b x with
  | .error e => .error e
  | .ok (l, y, a1, b1) =>
    match xfer b1 a1 y with
    | .error e => .error e
    | .ok (l2, z, b2, a2) =>
      .ok ({ labels := [l, l2], values := [(y, b1), (z, a2)] },
           { c with
             a := (releaseAll (releaseAll a2 b2 (transient l c.heldB)).2 (releaseAll a2 b2 (transient l c.heldB)).1
                    (transient l2 c.heldA)).2,
             b := (releaseAll (releaseAll a2 b2 (transient l c.heldB)).2 (releaseAll a2 b2 (transient l c.heldB)).1
                    (transient l2 c.heldA)).1 })

/-- `b` unboxes a package that did not come out of `a`'s `_box` (any label tree) and lets the result go at once -/
def Conv.raw (c : Conv) (l : Label) : Except Err (Seen × Conv) :=
  match unbox c.b l with
  | .error e => .error e
  | .ok (y, b1) =>
    let r := releaseAll c.a b1 (transient l c.heldB)
    .ok ({ labels := [l], values := [(y, b1)] }, { c with a := r.1, b := r.2 })

/-- `b` could not unbox a hand-made package: `_release_unreceived` sends one release notice for every `REMOTE_REF` no
proxy took over — all of them when the failure is in the first pass (a stale `LOCAL_REF`); `a` processes them (a key it
does not hold is answered with KeyError and changes nothing).  (A failure in the second pass behind a reference that was
already taken over is not among the hand-made packages of the correspondence.) -/
def Conv.rawFailed (c : Conv) (l : Label) : Conv :=
  { c with a := { c.a with tbl := unaddAll c.a.tbl l.remoteRefs } }

/-- `b` hands one of its own objects to `a`, whose application keeps the proxy -/
def Conv.make (c : Conv) (id : Id) : Except Err (Seen × Conv) :=
  match xfer c.b c.a (.obj id) with
  | .error e => .error e
  | .ok (l, y, b1, a1) =>
    .ok ({ labels := [l], values := [(y, a1)] }, { c with a := a1, b := b1, heldA := holdAll c.heldA [id] })

/-- `b`'s application lets go of everything it kept -/
def Conv.forget (c : Conv) : Conv :=
  { c with a := (releaseAll c.a c.b c.heldB).1, b := (releaseAll c.a c.b c.heldB).2, heldB := [] }

/-- the operations of a conversation between well-behaved ends (hand-made packages are not among them) -/
inductive ConvOp where
  | send (keep : Bool) (x : PyVal)
  | echo (x : PyVal)
  | make (id : Id)
  | forget

/-- one operation; an operation the code refuses (KeyError, an unmodelled value) changes nothing -/
def Conv.step (c : Conv) : ConvOp → Conv
  | .send keep x => match c.send x keep with
    | .ok (_, c') => c'
    | .error _ => c
  | .echo x => match c.echo x with
    | .ok (_, c') => c'
    | .error _ => c
  | .make id => match c.make id with
    | .ok (_, c') => c'
    | .error _ => c
  | .forget => c.forget

def Conv.run (c : Conv) : List ConvOp → Conv
  | [] => c
  | op :: ops => Conv.run (c.step op) ops

/-- `_unbox` of `REMOTE_REF id` when no proxy of `id` is cached and the round trip that fetches the proxy's class
(`HANDLE_INSPECT`) runs a nested dispatch which receives the SAME object.  First component: what the nested dispatch
got; second: what the outer `_unbox` returns.  `recheck = true`: the cache is consulted once the class is known, so
the outer call finds the nested call's proxy (one object, counted twice); `recheck = false`: it goes on with its stale
miss, creates a second proxy object and overwrites the cache entry. -/
def unboxRefAcrossInspect (recheck : Bool) (s : Side) (id : Id) : PyVal × PyVal × Side :=
  if recheck then
    ((unboxRef s id).1, (unboxRef (unboxRef s id).2 id).1, (unboxRef (unboxRef s id).2 id).2)
  else
    ((unboxRef s id).1, .proxy id (unboxRef s id).2.next,
     { (unboxRef s id).2 with
       px := (unboxRef s id).2.px.recv id,
       pid := fun j => if j = id then (unboxRef s id).2.next else (unboxRef s id).2.pid j,
       next := (unboxRef s id).2.next + 1 })

/-- a third way to write that window: the cache is consulted again once the class is known and the nested call's proxy
IS found — but returned without counting the reception.  One proxy object, standing for one reference, while the owner
registered two. -/
def unboxRefAcrossInspectUncounted (s : Side) (id : Id) : PyVal × PyVal × Side :=
  ((unboxRef s id).1, (unboxRef s id).1, (unboxRef s id).2)

end Rpyc.Box
