import RpycModel.Box.Model
/-
Helper lemmas for the reference-count machine (C10): how `add`/`decref`/`recv` move the counted
quantities, and preservation of `Inv` by every operation.
-/
namespace Rpyc.Box
open Rpyc

@[simp] theorem Tbl.set_same (t : Tbl) (k : Id) (v : Option Nat) : (t.set k v) k = v := by simp [Tbl.set]
theorem Tbl.set_other (t : Tbl) {j k : Id} (v : Option Nat) (h : j ≠ k) : (t.set k v) j = t j := by simp [Tbl.set, h]

@[simp] theorem val_bump (o : Option Nat) : val (bump o) = val o + 1 := by cases o <;> rfl
@[simp] theorem cnt_hit (o : Option Nat) : cnt (hit o) = cnt o + 1 := by cases o <;> rfl
theorem hit_ne_zero (o : Option Nat) : hit o ≠ some 0 := by cases o <;> simp [hit]

theorem val_eq_zero {o : Option Nat} : val o = 0 ↔ o = none := by cases o <;> simp [val]
theorem val_some {o : Option Nat} {n : Nat} (h : o = some n) : val o = n + 1 := by subst h; rfl

theorem val_add (t : Tbl) (k j : Id) : val ((t.add k) j) = val (t j) + (if k = j then 1 else 0) := by
  by_cases h : k = j
  · subst h; simp [Tbl.add]
  · have h' : j ≠ k := fun e => h e.symm
    simp [Tbl.add, Tbl.set_other _ _ h', h]

theorem cnt_recv (p : Tbl) (k j : Id) : cnt ((p.recv k) j) = cnt (p j) + (if k = j then 1 else 0) := by
  by_cases h : k = j
  · subst h; simp [Tbl.recv]
  · have h' : j ≠ k := fun e => h e.symm
    simp [Tbl.recv, Tbl.set_other _ _ h', h]

theorem count_cons_id (a k : Id) (ks : List Id) : (a :: ks).count k = (if a = k then 1 else 0) + ks.count k := by
  by_cases h : a = k
  · subst h; simp; omega
  · simp [h]

theorem val_addAll (ks : List Id) (t : Tbl) (j : Id) : val ((addAll t ks) j) = val (t j) + ks.count j := by
  induction ks generalizing t with
  | nil => simp [addAll]
  | cons a ks ih =>
    have := ih (t.add a)
    simp only [addAll, List.foldl_cons] at this ⊢
    rw [this, val_add, count_cons_id]; omega

theorem val_dropBy_one (m : Nat) : val (dropBy m 1) = m := by
  unfold dropBy; split
  · simp [val]; omega
  · simp [val]; omega

theorem val_unbump (o : Option Nat) : val (unbump o) = val o - 1 := by
  cases o with
  | none => rfl
  | some m =>
    show val (dropBy m 1) = val (some m) - 1
    rw [val_dropBy_one]; simp [val]

theorem val_unadd (t : Tbl) (k j : Id) : val ((t.unadd k) j) = val (t j) - (if k = j then 1 else 0) := by
  by_cases h : k = j
  · subst h; simp [Tbl.unadd, val_unbump]
  · have h' : j ≠ k := fun e => h e.symm
    simp [Tbl.unadd, Tbl.set_other _ _ h', h]

theorem val_unaddAll (ks : List Id) (t : Tbl) (j : Id) : val ((unaddAll t ks) j) = val (t j) - ks.count j := by
  induction ks generalizing t with
  | nil => simp [unaddAll]
  | cons a ks ih =>
    have := ih (t.unadd a)
    simp only [unaddAll, List.foldl_cons] at this ⊢
    rw [this, val_unadd, count_cons_id]; omega

/-- taking back what a failed send registered restores every slot's count -/
theorem val_failedBox_released (t : Tbl) (ks : List Id) (j : Id) : val ((failedBox true t ks) j) = val (t j) := by
  simp only [failedBox, if_true, val_unaddAll, val_addAll]; omega

theorem cnt_recvAll (ks : List Id) (p : Tbl) (j : Id) : cnt ((recvAll p ks) j) = cnt (p j) + ks.count j := by
  induction ks generalizing p with
  | nil => simp [recvAll]
  | cons a ks ih =>
    have := ih (p.recv a)
    simp only [recvAll, List.foldl_cons] at this ⊢
    rw [this, cnt_recv, count_cons_id]; omega

theorem recv_ne_zero (p : Tbl) (a : Id) (h : ∀ k, p k ≠ some 0) : ∀ k, (p.recv a) k ≠ some 0 := by
  intro k
  by_cases e : k = a
  · subst e; simp only [Tbl.recv, Tbl.set_same]; exact hit_ne_zero _
  · rw [Tbl.recv, Tbl.set_other _ _ e]; exact h k

theorem recvAll_ne_zero (ks : List Id) (p : Tbl) (h : ∀ k, p k ≠ some 0) : ∀ k, (recvAll p ks) k ≠ some 0 := by
  induction ks generalizing p with
  | nil => simpa [recvAll] using h
  | cons a ks ih =>
    simp only [recvAll, List.foldl_cons]
    exact ih (p.recv a) (recv_ne_zero p a h)

theorem cnt_pos_of_ne_zero {o : Option Nat} (h : o ≠ some 0) (hs : o ≠ none) : 1 ≤ cnt o := by
  cases o with
  | none => exact absurd rfl hs
  | some c => cases c with
    | zero => exact absurd rfl h
    | succ c => simp [cnt]

/-! ### queues -/

theorem refsO_append (k : Id) (q r : List MsgO) : refsO k (q ++ r) = refsO k q + refsO k r := by
  induction q with
  | nil => simp [refsO]
  | cons m q ih => simp [refsO, ih]; omega

theorem delSum_append (k : Id) (q r : List MsgP) : delSum k (q ++ r) = delSum k q + delSum k r := by
  induction q with
  | nil => simp [delSum]
  | cons m q ih => simp [delSum, ih]; omega

theorem delPos_append (q r : List MsgP) (hq : delPos q) (hr : delPos r) : delPos (q ++ r) := by
  induction q with
  | nil => simpa using hr
  | cons m q ih =>
    cases m with
    | del k n => exact ⟨hq.1, ih hq.2⟩
    | back k e => exact ih hq
    | fetch ks => exact ih hq
    | reply => exact ih hq
    | fetchBad ks => exact ih hq

/-- appending a message that is not a proxy handed back, while no live count goes down -/
theorem backOk_append (p p' : Tbl) (q : List MsgP) (m : MsgP) (hm : ∀ k e, m ≠ .back k e)
    (hle : ∀ k, cnt (p k) + delSum k q ≤ cnt (p' k) + delSum k (q ++ [m]))
    (hmono : ∀ k, cnt (p k) ≤ cnt (p' k) + m.dels k) (h : backOk p q) : backOk p' (q ++ [m]) := by
  induction q with
  | nil =>
    cases m with
    | back k e => exact absurd rfl (hm k e)
    | del k n => trivial
    | fetch ks => trivial
    | reply => trivial
    | fetchBad ks => trivial
  | cons x q ih =>
    have hle' : ∀ k, cnt (p k) + delSum k q ≤ cnt (p' k) + delSum k (q ++ [m]) := by
      intro k
      have := hmono k
      rw [delSum_append]; simp only [delSum]; omega
    rw [List.cons_append]
    cases x with
    | back k e =>
      refine ⟨?_, ih hle' h.2⟩
      have := hle' k
      have h1 := h.1
      omega
    | del k n => exact ih hle' h
    | fetch ks => exact ih hle' h
    | reply => exact ih hle' h
    | fetchBad ks => exact ih hle' h

/-- live counts only grow: handed-back proxies stay resolvable -/
theorem backOk_mono (p p' : Tbl) (q : List MsgP) (hle : ∀ k, cnt (p k) ≤ cnt (p' k)) (h : backOk p q) : backOk p' q := by
  induction q with
  | nil => trivial
  | cons x q ih =>
    cases x with
    | back k e => exact ⟨by have := hle k; have := h.1; omega, ih h.2⟩
    | del k n => exact ih h
    | fetch ks => exact ih h
    | reply => exact ih h
    | fetchBad ks => exact ih h

/-- handing a live proxy back -/
theorem backOk_push_back (p : Tbl) (q : List MsgP) (k : Id) (e : Bool) (hk : 1 ≤ cnt (p k)) (h : backOk p q) :
    backOk p (q ++ [.back k e]) := by
  induction q with
  | nil => exact ⟨by simp [delSum]; omega, trivial⟩
  | cons x q ih =>
    rw [List.cons_append]
    cases x with
    | back j e' =>
      refine ⟨?_, ih h.2⟩
      have := h.1
      rw [delSum_append]; omega
    | del j n => exact ih h
    | fetch ks => exact ih h
    | reply => exact ih h
    | fetchBad ks => exact ih h

/-! ### preservation -/

theorem inv_init : Inv St.init := by
  refine ⟨?_, ?_, ?_, ?_⟩
  · intro k; simp [St.init, Tbl.empty, val, refsO, cnt, delSum]
  · intro k; simp [St.init, Tbl.empty]
  · trivial
  · trivial

theorem inv_closeAll (s : St) : Inv (closeAll s) := by
  refine ⟨?_, ?_, ?_, ?_⟩
  · intro k; simp [closeAll, Tbl.empty, val, refsO, cnt, delSum]
  · intro k; simp [closeAll, Tbl.empty]
  · trivial
  · trivial

theorem inv_send (s : St) (ks : List Id) (h : Inv s) :
    Inv { s with tbl := addAll s.tbl ks, o2p := s.o2p ++ [.req ks] } := by
  refine ⟨?_, h.pxPos, h.dels, h.backs⟩
  intro k
  have := h.count k
  simp only [val_addAll, refsO_append, refsO, MsgO.refs]
  omega

theorem inv_fetch (s : St) (ks : List Id) (h : Inv s) : Inv { s with p2o := s.p2o ++ [.fetch ks] } := by
  refine ⟨?_, h.pxPos, delPos_append _ _ h.dels trivial, ?_⟩
  · intro k
    have := h.count k
    simp only [delSum_append, delSum, MsgP.dels]
    omega
  · exact backOk_append s.px s.px s.p2o _ (by intro k e; simp) (by intro k; simp [delSum_append, delSum, MsgP.dels])
      (by intro k; simp [MsgP.dels]) h.backs

theorem failedSend_released : Gen.Box.failedSendReleases = true := by decide

/-- a message that was boxed and then could not be sent leaves nothing behind (the code takes the registrations back) -/
theorem inv_sendFail (s : St) (ks : List Id) (h : Inv s) :
    Inv { s with tbl := failedBox Gen.Box.failedSendReleases s.tbl ks } := by
  rw [failedSend_released]
  refine ⟨?_, h.pxPos, h.dels, h.backs⟩
  intro k
  have := h.count k
  simp only [val_failedBox_released]
  omega

theorem inv_fetchBad (s : St) (ks : List Id) (h : Inv s) : Inv { s with p2o := s.p2o ++ [.fetchBad ks] } := by
  refine ⟨?_, h.pxPos, delPos_append _ _ h.dels trivial, ?_⟩
  · intro k
    have := h.count k
    simp only [delSum_append, delSum, MsgP.dels]
    omega
  · exact backOk_append s.px s.px s.p2o _ (by intro k e; simp) (by intro k; simp [delSum_append, delSum, MsgP.dels])
      (by intro k; simp [MsgP.dels]) h.backs

theorem inv_passBack (s : St) (k : Id) (e : Bool) (h : Inv s) : Inv (passBack s k e).2 := by
  unfold passBack
  cases hk : s.px k with
  | none => exact h
  | some c =>
    dsimp only
    refine ⟨?_, h.pxPos, delPos_append _ _ h.dels trivial, ?_⟩
    · intro j
      have := h.count j
      simp only [delSum_append, delSum, MsgP.dels]
      omega
    · exact backOk_push_back s.px s.p2o k e
        (cnt_pos_of_ne_zero (h.pxPos k) (by rw [hk]; simp)) h.backs

theorem inv_finalize (s : St) (k : Id) (h : Inv s) : Inv (finalize s k).2 := by
  unfold finalize
  cases hk : s.px k with
  | none => exact h
  | some c =>
    have hc : 1 ≤ c := by
      have := cnt_pos_of_ne_zero (h.pxPos k) (by rw [hk]; simp)
      simpa [hk, cnt] using this
    have hcnt : ∀ j, cnt ((s.px.set k none) j) + (MsgP.del k c).dels j = cnt (s.px j) := by
      intro j
      by_cases e : j = k
      · subst e; simp [MsgP.dels, hk, cnt]
      · have e' : ¬ k = j := fun x => e x.symm
        simp [Tbl.set_other _ _ e, MsgP.dels, e']
    dsimp only
    refine ⟨?_, ?_, delPos_append _ _ h.dels ⟨hc, trivial⟩, ?_⟩
    · intro j
      have := h.count j
      have := hcnt j
      dsimp only
      simp only [delSum_append, delSum]
      omega
    · intro j
      by_cases e : j = k
      · subst e; simp
      · simp only [Tbl.set_other _ _ e]; exact h.pxPos j
    · refine backOk_append s.px (s.px.set k none) s.p2o _ (by intro j e; simp) ?_ ?_ h.backs
      · intro j
        have := hcnt j
        simp only [delSum_append, delSum]; omega
      · intro j
        have := hcnt j
        omega

theorem failedUnbox_released : Gen.Box.failedUnboxReleases = true := by decide

theorem delSum_releasesFor (k : Id) (ks : List Id) : delSum k (releasesFor ks) = ks.count k := by
  induction ks with
  | nil => rfl
  | cons a ks ih =>
    simp only [releasesFor, List.map_cons, delSum, MsgP.dels] at ih ⊢
    rw [ih, count_cons_id]

theorem delSum_unreceivedTail (k : Id) (ks : List Id) (isReq : Bool) :
    delSum k (unreceivedTail true ks isReq) = ks.count k := by
  cases isReq <;> simp [unreceivedTail, delSum_append, delSum_releasesFor, delSum, MsgP.dels]

/-- appending the release notices (and the exception reply) keeps the queue's side conditions -/
theorem inv_unreceivedTail (p : Tbl) (q : List MsgP) (ks : List Id) (isReq : Bool) (hd : delPos q) (hb : backOk p q) :
    delPos (q ++ unreceivedTail true ks isReq) ∧ backOk p (q ++ unreceivedTail true ks isReq) := by
  have step : ∀ (ms : List MsgP), (∀ m ∈ ms, (∀ k e, m ≠ .back k e) ∧ delPos [m]) →
      ∀ q, delPos q → backOk p q → delPos (q ++ ms) ∧ backOk p (q ++ ms) := by
    intro ms
    induction ms with
    | nil => intro _ q hd hb; simpa using ⟨hd, hb⟩
    | cons m ms ih =>
      intro hm q hd hb
      have h1 := hm m (by simp)
      have hq : delPos (q ++ [m]) ∧ backOk p (q ++ [m]) :=
        ⟨delPos_append q [m] hd h1.2,
         backOk_append p p q m h1.1 (by intro k; rw [delSum_append]; omega) (by intro k; omega) hb⟩
      have := ih (fun x hx => hm x (by simp [hx])) (q ++ [m]) hq.1 hq.2
      simpa [List.append_assoc] using this
  apply step _ _ q hd hb
  intro m hm
  simp only [unreceivedTail, if_true, List.mem_append, releasesFor, List.mem_map] at hm
  rcases hm with ⟨k, _, rfl⟩ | hm
  · exact ⟨by intro k' e; simp, ⟨Nat.le_refl 1, trivial⟩⟩
  · cases isReq with
    | false => simp at hm
    | true =>
      simp at hm
      subst hm
      exact ⟨by intro k' e; simp, trivial⟩

theorem inv_splitHead (s : St) (j : Nat) (h : Inv s) : Inv (splitHead s j).2 := by
  unfold splitHead
  have hcnt : ∀ (ids : List Id) (k : Id), (ids.take j).count k + (ids.drop j).count k = ids.count k := by
    intro ids k
    rw [← List.count_append, List.take_append_drop]
  cases hq : s.o2p with
  | nil => exact h
  | cons m rest =>
    have hcount := h.count
    rw [hq] at hcount
    cases m with
    | req ids =>
      dsimp only
      split
      · refine ⟨?_, h.pxPos, h.dels, h.backs⟩
        intro k
        have := hcount k
        have := hcnt ids k
        simp only [refsO, MsgO.refs] at *
        omega
      · exact h
    | reply ids kept =>
      dsimp only
      split
      · refine ⟨?_, h.pxPos, h.dels, h.backs⟩
        intro k
        have := hcount k
        have := hcnt ids k
        simp only [refsO, MsgO.refs] at *
        omega
      · exact h
    | exc kept => exact h
    | recvd ids => exact h
    | unrecvd ids isReq kept => exact h

theorem inv_deliverO2P (s : St) (h : Inv s) : Inv (deliverO2P s).2 := by
  unfold deliverO2P
  cases hq : s.o2p with
  | nil => exact h
  | cons m rest =>
    have hcount := h.count
    rw [hq] at hcount
    cases m with
    | req ids =>
      simp only [handleO]
      refine ⟨?_, recvAll_ne_zero ids s.px h.pxPos, delPos_append _ _ h.dels trivial, ?_⟩
      · intro k
        have := hcount k
        simp only [cnt_recvAll, delSum_append, delSum, MsgP.dels, refsO, MsgO.refs] at this ⊢
        omega
      · refine backOk_append s.px _ s.p2o _ (by intro k e; simp) ?_ ?_ h.backs
        · intro k; simp only [cnt_recvAll, delSum_append, delSum, MsgP.dels]; omega
        · intro k; simp only [cnt_recvAll]; omega
    | reply ids kept =>
      simp only [handleO]
      refine ⟨?_, recvAll_ne_zero ids s.px h.pxPos, h.dels, ?_⟩
      · intro k
        have := hcount k
        simp only [cnt_recvAll, refsO, MsgO.refs] at this ⊢
        omega
      · exact backOk_mono s.px _ s.p2o (by intro k; simp only [cnt_recvAll]; omega) h.backs
    | exc kept =>
      simp only [handleO]
      refine ⟨?_, h.pxPos, h.dels, h.backs⟩
      intro k
      have := hcount k
      simp only [refsO, MsgO.refs] at this ⊢
      omega
    | recvd ids =>
      simp only [handleO]
      refine ⟨?_, recvAll_ne_zero ids s.px h.pxPos, h.dels, ?_⟩
      · intro k
        have := hcount k
        simp only [cnt_recvAll, refsO, MsgO.refs] at this ⊢
        omega
      · exact backOk_mono s.px _ s.p2o (by intro k; simp only [cnt_recvAll]; omega) h.backs
    | unrecvd ids isReq kept =>
      simp only [handleO, failedUnbox_released]
      have ht := inv_unreceivedTail s.px s.p2o ids isReq h.dels h.backs
      refine ⟨?_, h.pxPos, ht.1, ht.2⟩
      intro k
      have := hcount k
      simp only [refsO, MsgO.refs] at this
      dsimp only
      rw [delSum_append, delSum_unreceivedTail]
      omega

/-- what `decref` leaves in a slot, in boxes outstanding -/
theorem val_dropBy (m n : Nat) : val (dropBy m n) = m + 1 - n := by
  unfold dropBy
  split
  · simp [val]; omega
  · simp [val]; omega

theorem inv_deliverP2O (s : St) (h : Inv s) : Inv (deliverP2O s).2 := by
  unfold deliverP2O
  cases hq : s.p2o with
  | nil => exact h
  | cons m rest =>
    have hcount := h.count
    have hdels := h.dels
    have hbacks := h.backs
    rw [hq] at hcount hdels hbacks
    cases m with
    | del k n =>
      have hn : 1 ≤ n := hdels.1
      have hk := hcount k
      simp only [delSum, MsgP.dels, if_true] at hk
      cases ht : s.tbl k with
      | none =>
        -- impossible under the invariant, but the machine answers it anyway
        rw [ht] at hk; simp [val] at hk; omega
      | some m =>
        rw [ht] at hk
        simp only [handleP, Tbl.decref, ht]
        refine ⟨?_, h.pxPos, hdels.2, hbacks⟩
        intro j
        have hj := hcount j
        by_cases e : j = k
        · subst e
          simp only [Tbl.set_same, val_dropBy, refsO_append, refsO, MsgO.refs, List.count_nil]
          simp only [val] at hk
          omega
        · have e' : ¬ k = j := fun x => e x.symm
          simp only [Tbl.set_other _ _ e, refsO_append, refsO, MsgO.refs, List.count_nil]
          simp only [delSum, MsgP.dels, e', if_false] at hj
          omega
    | back k echo =>
      have hk := hcount k
      have hb : 1 ≤ cnt (s.px k) + delSum k rest := hbacks.1
      simp only [delSum, MsgP.dels] at hk
      cases ht : s.tbl k with
      | none => rw [ht] at hk; simp [val] at hk; omega
      | some m =>
        simp only [handleP, ht]
        cases echo with
        | false =>
          refine ⟨?_, h.pxPos, hdels, hbacks.2⟩
          intro j
          have hj := hcount j
          simp only [delSum, MsgP.dels] at hj
          simp only [Bool.false_eq_true, if_false, refsO_append, refsO, MsgO.refs, List.count_nil]
          omega
        | true =>
          refine ⟨?_, h.pxPos, hdels, hbacks.2⟩
          intro j
          have hj := hcount j
          simp only [delSum, MsgP.dels] at hj
          simp only [if_true, val_add, refsO_append, refsO, MsgO.refs, count_cons_id, List.count_nil]
          omega
    | fetch ks =>
      simp only [handleP]
      refine ⟨?_, h.pxPos, hdels, hbacks⟩
      intro j
      have hj := hcount j
      simp only [delSum, MsgP.dels] at hj
      simp only [val_addAll, refsO_append, refsO, MsgO.refs]
      omega
    | reply =>
      simp only [handleP]
      refine ⟨?_, h.pxPos, hdels, hbacks⟩
      intro j
      have hj := hcount j
      simp only [delSum, MsgP.dels] at hj
      dsimp only
      omega
    | fetchBad ks =>
      simp only [handleP, failedSend_released]
      refine ⟨?_, h.pxPos, hdels, hbacks⟩
      intro j
      have hj := hcount j
      simp only [delSum, MsgP.dels] at hj
      simp only [val_failedBox_released, refsO_append, refsO, MsgO.refs]
      omega

theorem inv_step (s : St) (op : Op) (h : Inv s) : Inv (step s op).2 := by
  unfold step
  split
  · exact h
  · cases op with
    | send ks => exact inv_send s ks h
    | fetch ks => exact inv_fetch s ks h
    | sendFail ks => exact inv_sendFail s ks h
    | fetchBad ks => exact inv_fetchBad s ks h
    | back k e => exact inv_passBack s k e h
    | finalize k => exact inv_finalize s k h
    | splitHead j => exact inv_splitHead s j h
    | deliverO2P => exact inv_deliverO2P s h
    | deliverP2O => exact inv_deliverP2O s h
    | close => exact inv_closeAll s

theorem inv_run (ops : List Op) (s : St) (h : Inv s) : Inv (run s ops) := by
  induction ops generalizing s with
  | nil => exact h
  | cons op ops ih => exact ih _ (inv_step s op h)


/-! ### consequences used by the property theorems -/

/-- under the invariant no `LOCAL_REF` fails to resolve and no `decref` meets an absent key -/
theorem step_no_keyError (s : St) (op : Op) (h : Inv s) : (step s op).1 ≠ .keyError := by
  unfold step
  split
  · simp
  · cases op with
    | send ks => simp
    | fetch ks => simp
    | sendFail ks => simp
    | fetchBad ks => simp
    | back k e => simp only [passBack]; cases s.px k <;> simp
    | finalize k => simp only [finalize]; cases s.px k <;> simp
    | splitHead j =>
      simp only [splitHead]
      cases s.o2p with
      | nil => simp
      | cons m rest => cases m <;> simp <;> split <;> simp
    | close => simp
    | deliverO2P =>
      simp only [deliverO2P]
      cases s.o2p with
      | nil => simp
      | cons m rest => cases m <;> simp [handleO]
    | deliverP2O =>
      simp only [deliverP2O]
      cases hq : s.p2o with
      | nil => simp
      | cons m rest =>
        have hcount := h.count
        have hdels := h.dels
        have hbacks := h.backs
        rw [hq] at hcount hdels hbacks
        cases m with
        | del k n =>
          have hn : 1 ≤ n := hdels.1
          have hk := hcount k
          simp only [delSum, MsgP.dels, if_true] at hk
          cases ht : s.tbl k with
          | none => rw [ht] at hk; simp [val] at hk; omega
          | some m => simp [handleP, Tbl.decref, ht]
        | back k echo =>
          have hk := hcount k
          have hb : 1 ≤ cnt (s.px k) + delSum k rest := hbacks.1
          simp only [delSum, MsgP.dels] at hk
          cases ht : s.tbl k with
          | none => rw [ht] at hk; simp [val] at hk; omega
          | some m => cases echo <;> simp [handleP, ht]
        | fetch ks => simp [handleP]
        | reply => simp [handleP]
        | fetchBad ks => simp [handleP]

/-- the application layer only ever performs operations of the machine below -/
theorem appStep_base (a : App) (op : AOp) : ∃ ops, (appStep a op).2.s = run a.s ops := by
  cases op with
  | send ks => exact ⟨[.send ks], rfl⟩
  | fetch ks =>
    simp only [appStep]
    split
    · exact ⟨[], rfl⟩
    · exact ⟨[.fetch ks], rfl⟩
  | sendFail ks => exact ⟨[.sendFail ks], rfl⟩
  | fetchFail ks =>
    simp only [appStep]
    split
    · exact ⟨[], rfl⟩
    · exact ⟨[.fetchBad ks], rfl⟩
  | back k e =>
    simp only [appStep]
    split
    · exact ⟨[], rfl⟩
    · split
      · exact ⟨[.back k e], rfl⟩
      · exact ⟨[], rfl⟩
  | drop k =>
    simp only [appStep]
    split
    · exact ⟨[], rfl⟩
    · split
      · split
        · exact ⟨[], rfl⟩
        · exact ⟨[.finalize k], rfl⟩
      · exact ⟨[], rfl⟩
  | collect =>
    simp only [appStep]
    split
    · exact ⟨[], rfl⟩
    · split
      · exact ⟨[], rfl⟩
      · exact ⟨[], rfl⟩
  | expire j =>
    simp only [appStep]
    split
    · exact ⟨[], rfl⟩
    · split
      · exact ⟨[], rfl⟩
      · exact ⟨[], rfl⟩
  | deliverO2P =>
    simp only [appStep]
    split
    · exact ⟨[], rfl⟩
    · split
      · exact ⟨[], rfl⟩
      · exact ⟨[.deliverO2P], rfl⟩
      · rename_i ids _ _
        split
        · exact ⟨.deliverO2P :: (dying ids a.held a.results).map .finalize, rfl⟩
        · exact ⟨[.deliverO2P], rfl⟩
        · exact ⟨[], rfl⟩
      · exact ⟨[.deliverO2P], rfl⟩
      · exact ⟨[], rfl⟩
      · split
        · exact ⟨[.deliverO2P], rfl⟩
        · exact ⟨[.deliverO2P], rfl⟩
        · exact ⟨[], rfl⟩
      · exact ⟨[.deliverO2P], rfl⟩
      · exact ⟨[], rfl⟩
      · exact ⟨[], rfl⟩
  | deliverFail j =>
    simp only [appStep]
    split
    · exact ⟨[], rfl⟩
    · split
      · split
        · exact ⟨_, rfl⟩
        · exact ⟨[], rfl⟩
      · split
        · split
          · exact ⟨_, rfl⟩
          · exact ⟨_, rfl⟩
          · exact ⟨[], rfl⟩
        · exact ⟨[], rfl⟩
      · exact ⟨[], rfl⟩
  | deliverP2O => exact ⟨[.deliverP2O], rfl⟩
  | close => exact ⟨[.close], rfl⟩

theorem inv_appStep (a : App) (op : AOp) (h : Inv a.s) : Inv (appStep a op).2.s := by
  obtain ⟨ops, e⟩ := appStep_base a op
  rw [e]; exact inv_run ops a.s h

theorem inv_appRun (ops : List AOp) (a : App) (h : Inv a.s) : Inv (appRun a ops).s := by
  induction ops generalizing a with
  | nil => exact h
  | cons op ops ih => exact ih _ (inv_appStep a op h)

/-! ### dispatch that is not atomic (nested serve during `_unbox`) -/

/-- taking a hand-back off the queue: the rest of the state still satisfies the invariant, and the key is present -/
theorem inv_pop_back (s : St) (k : Id) (e : Bool) (rest : List MsgP) (h : Inv s) (hq : s.p2o = .back k e :: rest) :
    Inv { s with p2o := rest } ∧ ∃ n, s.tbl k = some n := by
  have hcount := h.count
  have hdels := h.dels
  have hbacks := h.backs
  rw [hq] at hcount hdels hbacks
  refine ⟨⟨?_, h.pxPos, hdels, hbacks.2⟩, ?_⟩
  · intro j
    have hj := hcount j
    simp only [delSum, MsgP.dels] at hj
    dsimp only
    omega
  · have hk := hcount k
    have hb : 1 ≤ cnt (s.px k) + delSum k rest := hbacks.1
    simp only [delSum, MsgP.dels] at hk
    cases ht : s.tbl k with
    | none => rw [ht] at hk; simp [val] at hk; omega
    | some n => exact ⟨n, rfl⟩

/-- the handler's answer to a hand-back, in any state that satisfies the invariant (the key may be gone meanwhile:
the package holds the object, boxing it again starts a new entry) -/
theorem inv_answer_back (t : St) (k : Id) (h : Inv t) :
    Inv { t with tbl := t.tbl.add k, o2p := t.o2p ++ [.reply [k] true] }
    ∧ Inv { t with o2p := t.o2p ++ [.reply [] false] } := by
  constructor
  · refine ⟨?_, h.pxPos, h.dels, h.backs⟩
    intro j
    have hj := h.count j
    simp only [val_add, refsO_append, refsO, MsgO.refs, count_cons_id, List.count_nil]
    omega
  · refine ⟨?_, h.pxPos, h.dels, h.backs⟩
    intro j
    have hj := h.count j
    simp only [refsO_append, refsO, MsgO.refs, List.count_nil]
    omega

/-- with the local references resolved first, a nested serve of ANY content keeps the invariant ... -/
theorem inv_deliverNested (mid : List Op) (s : St) (h : Inv s) : Inv (deliverNested true mid s).2 := by
  unfold deliverNested
  split
  · exact h
  · cases hq : s.p2o with
    | nil => exact h
    | cons m rest =>
      cases m with
      | back k e =>
        obtain ⟨h0, n, hn⟩ := inv_pop_back s k e rest h hq
        have h1 := inv_run mid _ h0
        simp only [if_true, hn]
        split
        · exact h1
        · split
          · exact (inv_answer_back _ k h1).1
          · exact (inv_answer_back _ k h1).2
      | del k n => exact h
      | fetch ks => exact h
      | reply => exact h
      | fetchBad ks => exact h

/-- ... and the hand-back always finds its object -/
theorem deliverNested_no_keyError (mid : List Op) (s : St) (h : Inv s) : (deliverNested true mid s).1 ≠ .keyError := by
  unfold deliverNested
  split
  · simp
  · cases hq : s.p2o with
    | nil => simp
    | cons m rest =>
      cases m with
      | back k e =>
        obtain ⟨_, n, hn⟩ := inv_pop_back s k e rest h hq
        simp only [if_true, hn]
        split
        · simp
        · split <;> simp
      | del k n => simp
      | fetch ks => simp
      | reply => simp
      | fetchBad ks => simp

end Rpyc.Box
