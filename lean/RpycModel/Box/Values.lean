import RpycModel.Box.Lemmas
/-
Helper definitions and lemmas for C03: the relation between a value and what arrives at the peer, the effect
of `box` / `unboxOnePass` on the counts of Part 1, proxy identity, and the label tree as a brine value.
-/
namespace Rpyc.Box
open Rpyc

mutual
/-- keys of the peer's objects that the value refers to through proxies of this connection -/
def PyVal.proxies : PyVal → List Id
  | .proxy id _ => [id]
  | .tup xs => PyVal.proxiesL xs
  | _ => []
def PyVal.proxiesL : List PyVal → List Id
  | [] => []
  | x :: xs => x.proxies ++ PyVal.proxiesL xs
end

mutual
/-- `Arrives x y`: the sender's value `x` is received as `y` — an equal value of the same type tree for plain
values, a proxy of the same key for an object (subclass instances included), the original object for a proxy
handed back, component by component for tuples -/
inductive Arrives : PyVal → PyVal → Prop where
  | val (x : PyVal) : x.dumpable = true → Arrives x (.imm x.toVal)
  | tup (xs ys : List PyVal) : ArrivesL xs ys → Arrives (.tup xs) (.tup ys)
  | obj (id : Id) (pid : Nat) : Arrives (.obj id) (.proxy id pid)
  | sub (v : Val) (id : Id) (pid : Nat) : Arrives (.sub v id) (.proxy id pid)
  | back (id : Id) (pid : Nat) : Arrives (.proxy id pid) (.obj id)
inductive ArrivesL : List PyVal → List PyVal → Prop where
  | nil : ArrivesL [] []
  | cons (x y : PyVal) (xs ys : List PyVal) : Arrives x y → ArrivesL xs ys → ArrivesL (x :: xs) (y :: ys)
end

theorem unboxRef_tbl (s : Side) (id : Id) : (unboxRef s id).2.tbl = s.tbl := by
  unfold unboxRef; cases s.px id <;> rfl

theorem unboxRef_px (s : Side) (id : Id) : (unboxRef s id).2.px = s.px.recv id := by
  unfold unboxRef; cases s.px id <;> rfl

theorem unboxRef_val (s : Side) (id : Id) : ∃ pid, (unboxRef s id).1 = .proxy id pid := by
  unfold unboxRef; cases s.px id
  · exact ⟨s.next, rfl⟩
  · exact ⟨s.pid id, rfl⟩

mutual
/-- `unboxOnePass ∘ box`: whatever `_box` produced, the peer's `_unbox` accepts it and yields what `Arrives` describes —
provided the objects the value's proxies refer to are still in the peer's table (C10: `alive_while_held`) -/
theorem unbox_box_aux1 : ∀ (x : PyVal) (t t' : Tbl) (l : Label) (s : Side),
    box t x = .ok (l, t') → (∀ id ∈ x.proxies, s.tbl id ≠ none) →
    ∃ y s', unboxOnePass s l = .ok (y, s') ∧ Arrives x y ∧ s'.tbl = s.tbl
  | .imm v, t, t', l, s, hb, _ => by
    simp only [box] at hb
    split at hb
    · rename_i hd
      cases hb
      exact ⟨.imm v, s, by simp [unboxOnePass], Arrives.val (.imm v) (by simpa [PyVal.dumpable] using hd), rfl⟩
    · cases hb
  | .tup xs, t, t', l, s, hb, hres => by
    simp only [box] at hb
    split at hb
    · rename_i hd
      cases hb
      exact ⟨.imm (.tuple (PyVal.toValL xs)), s, by simp [unboxOnePass],
        Arrives.val (.tup xs) (by simpa [PyVal.dumpable] using hd), rfl⟩
    · cases hbl : boxL t xs with
      | error e => simp only [hbl] at hb; cases hb
      | ok p =>
        obtain ⟨ls, t2⟩ := p
        simp only [hbl] at hb
        cases hb
        obtain ⟨ys, s', hu, ha, ht⟩ := unboxL_boxL_aux1 xs t t' ls s hbl (by simpa [PyVal.proxies] using hres)
        exact ⟨.tup ys, s', by simp [unboxOnePass, hu], Arrives.tup xs ys ha, ht⟩
  | .obj id, t, t', l, s, hb, _ => by
    simp only [box] at hb
    cases hb
    obtain ⟨pid, hp⟩ := unboxRef_val s id
    refine ⟨(unboxRef s id).1, (unboxRef s id).2, by simp [unboxOnePass], ?_, unboxRef_tbl s id⟩
    rw [hp]; exact Arrives.obj id pid
  | .sub v id, t, t', l, s, hb, _ => by
    simp only [box] at hb
    cases hb
    obtain ⟨pid, hp⟩ := unboxRef_val s id
    refine ⟨(unboxRef s id).1, (unboxRef s id).2, by simp [unboxOnePass], ?_, unboxRef_tbl s id⟩
    rw [hp]; exact Arrives.sub v id pid
  | .proxy id pid, t, t', l, s, hb, hres => by
    simp only [box] at hb
    cases hb
    have hne := hres id (by simp [PyVal.proxies])
    cases ht : s.tbl id with
    | none => exact absurd ht hne
    | some n => exact ⟨.obj id, s, by simp [unboxOnePass, ht], Arrives.back id pid, rfl⟩
theorem unboxL_boxL_aux1 : ∀ (xs : List PyVal) (t t' : Tbl) (ls : List Label) (s : Side),
    boxL t xs = .ok (ls, t') → (∀ id ∈ PyVal.proxiesL xs, s.tbl id ≠ none) →
    ∃ ys s', unboxOnePassL s ls = .ok (ys, s') ∧ ArrivesL xs ys ∧ s'.tbl = s.tbl
  | [], t, t', ls, s, hb, _ => by
    simp only [boxL] at hb
    cases hb
    exact ⟨[], s, by simp [unboxOnePassL], ArrivesL.nil, rfl⟩
  | x :: xs, t, t', ls, s, hb, hres => by
    simp only [boxL] at hb
    cases hbx : box t x with
    | error e => simp only [hbx] at hb; cases hb
    | ok p =>
      obtain ⟨l, t1⟩ := p
      simp only [hbx] at hb
      cases hbl : boxL t1 xs with
      | error e => simp only [hbl] at hb; cases hb
      | ok q =>
        obtain ⟨ls', t2⟩ := q
        simp only [hbl] at hb
        cases hb
        obtain ⟨y, s1, hu, ha, ht⟩ := unbox_box_aux1 x t t1 l s hbx
          (fun id hid => hres id (by simp [PyVal.proxiesL, hid]))
        obtain ⟨ys, s2, hul, hal, htl⟩ := unboxL_boxL_aux1 xs t1 t' ls' s1 hbl
          (fun id hid => by rw [ht]; exact hres id (by simp [PyVal.proxiesL, hid]))
        exact ⟨y :: ys, s2, by simp [unboxOnePassL, hu, hul], ArrivesL.cons x y xs ys ha hal, by rw [htl, ht]⟩
end

/-! ### what boxing and unboxing do to the counts of Part 1 -/

theorem addAll_append (t : Tbl) (a b : List Id) : addAll t (a ++ b) = addAll (addAll t a) b := by
  simp [addAll, List.foldl_append]

theorem recvAll_append (p : Tbl) (a b : List Id) : recvAll p (a ++ b) = recvAll (recvAll p a) b := by
  simp [recvAll, List.foldl_append]

mutual
/-- `_box` adds to the table exactly the by-reference keys of the label tree it returns, in order -/
theorem box_adds : ∀ (x : PyVal) (t t' : Tbl) (l : Label), box t x = .ok (l, t') → t' = addAll t l.remoteRefs
  | .imm v, t, t', l, hb => by
    simp only [box] at hb
    split at hb
    · cases hb; simp [Label.remoteRefs, addAll]
    · cases hb
  | .tup xs, t, t', l, hb => by
    simp only [box] at hb
    split at hb
    · cases hb; simp [Label.remoteRefs, addAll]
    · cases hbl : boxL t xs with
      | error e => simp only [hbl] at hb; cases hb
      | ok p =>
        obtain ⟨ls, t2⟩ := p
        simp only [hbl] at hb
        cases hb
        simpa [Label.remoteRefs] using boxL_adds xs t t' ls hbl
  | .obj id, t, t', l, hb => by simp only [box] at hb; cases hb; simp [Label.remoteRefs, addAll]
  | .sub v id, t, t', l, hb => by simp only [box] at hb; cases hb; simp [Label.remoteRefs, addAll]
  | .proxy id pid, t, t', l, hb => by simp only [box] at hb; cases hb; simp [Label.remoteRefs, addAll]
theorem boxL_adds : ∀ (xs : List PyVal) (t t' : Tbl) (ls : List Label), boxL t xs = .ok (ls, t') →
    t' = addAll t (Label.remoteRefsL ls)
  | [], t, t', ls, hb => by simp only [boxL] at hb; cases hb; simp [Label.remoteRefsL, addAll]
  | x :: xs, t, t', ls, hb => by
    simp only [boxL] at hb
    cases hbx : box t x with
    | error e => simp only [hbx] at hb; cases hb
    | ok p =>
      obtain ⟨l, t1⟩ := p
      simp only [hbx] at hb
      cases hbl : boxL t1 xs with
      | error e => simp only [hbl] at hb; cases hb
      | ok q =>
        obtain ⟨ls', t2⟩ := q
        simp only [hbl] at hb
        cases hb
        rw [Label.remoteRefsL, addAll_append, ← box_adds x t t1 l hbx]
        exact boxL_adds xs t1 t' ls' hbl
end

mutual
/-- `_unbox` counts exactly the by-reference keys of the label tree, in order, and never touches the table -/
theorem unbox_counts1 : ∀ (l : Label) (s s' : Side) (y : PyVal), unboxOnePass s l = .ok (y, s') →
    s'.px = recvAll s.px l.remoteRefs ∧ s'.tbl = s.tbl
  | .value v, s, s', y, hu => by simp only [unboxOnePass] at hu; cases hu; simp [Label.remoteRefs, recvAll]
  | .tuple ls, s, s', y, hu => by
    simp only [unboxOnePass] at hu
    cases hul : unboxOnePassL s ls with
    | error e => simp only [hul] at hu; cases hu
    | ok p =>
      obtain ⟨xs, s2⟩ := p
      simp only [hul] at hu
      cases hu
      simpa [Label.remoteRefs] using unboxL_counts1 ls s s' xs hul
  | .localRef id, s, s', y, hu => by
    simp only [unboxOnePass] at hu
    cases ht : s.tbl id with
    | none => simp only [ht] at hu; cases hu
    | some n => simp only [ht] at hu; cases hu; simp [Label.remoteRefs, recvAll]
  | .remoteRef id, s, s', y, hu => by
    simp only [unboxOnePass, Except.ok.injEq] at hu
    have hs : (unboxRef s id).2 = s' := by rw [hu]
    subst hs
    exact ⟨by rw [unboxRef_px]; simp [Label.remoteRefs, recvAll], unboxRef_tbl s id⟩
  | .other tag, s, s', y, hu => by simp only [unboxOnePass] at hu; cases hu
theorem unboxL_counts1 : ∀ (ls : List Label) (s s' : Side) (ys : List PyVal), unboxOnePassL s ls = .ok (ys, s') →
    s'.px = recvAll s.px (Label.remoteRefsL ls) ∧ s'.tbl = s.tbl
  | [], s, s', ys, hu => by simp only [unboxOnePassL] at hu; cases hu; simp [Label.remoteRefsL, recvAll]
  | l :: ls, s, s', ys, hu => by
    simp only [unboxOnePassL] at hu
    cases hux : unboxOnePass s l with
    | error e => simp only [hux] at hu; cases hu
    | ok p =>
      obtain ⟨x, s1⟩ := p
      simp only [hux] at hu
      cases hul : unboxOnePassL s1 ls with
      | error e => simp only [hul] at hu; cases hu
      | ok q =>
        obtain ⟨xs, s2⟩ := q
        simp only [hul] at hu
        cases hu
        obtain ⟨h1, h2⟩ := unbox_counts1 l s s1 x hux
        obtain ⟨h3, h4⟩ := unboxL_counts1 ls s1 s' xs hul
        exact ⟨by rw [Label.remoteRefsL, recvAll_append, ← h1]; exact h3, by rw [h4, h2]⟩
end

/-! ### proxy identity -/

/-- live proxies have serial numbers below `next`, and distinct keys have distinct live proxies -/
structure PxInv (s : Side) : Prop where
  below : ∀ k, s.px k ≠ none → s.pid k < s.next
  distinct : ∀ j k, s.px j ≠ none → s.px k ≠ none → s.pid j = s.pid k → j = k

theorem pxInv_init : PxInv Side.init := ⟨by intro k h; simp [Side.init, Tbl.empty] at h, by intro j k h; simp [Side.init, Tbl.empty] at h⟩

theorem recv_live (p : Tbl) (id k : Id) : (p.recv id) k ≠ none ↔ (k = id ∨ p k ≠ none) := by
  by_cases e : k = id
  · subst e; simp [Tbl.recv]; cases p k <;> simp [hit]
  · simp [Tbl.recv, Tbl.set_other _ _ e, e]

/-- receiving one reference: a live proxy keeps its identity, every live proxy stays alive, `PxInv` is kept -/
theorem unboxRef_keeps (s : Side) (id : Id) (h : PxInv s) :
    PxInv (unboxRef s id).2 ∧ s.next ≤ (unboxRef s id).2.next ∧
    (∀ k, s.px k ≠ none → (unboxRef s id).2.pid k = s.pid k ∧ (unboxRef s id).2.px k ≠ none) := by
  unfold unboxRef
  cases hp : s.px id with
  | some c =>
    refine ⟨⟨?_, ?_⟩, Nat.le_refl _, ?_⟩
    · intro k hk
      have := (recv_live s.px id k).mp hk
      rcases this with e | e
      · subst e; exact h.below k (by rw [hp]; simp)
      · exact h.below k e
    · intro j k hj hk hjk
      have lj : s.px j ≠ none := by
        rcases (recv_live s.px id j).mp hj with e | e
        · subst e; rw [hp]; simp
        · exact e
      have lk : s.px k ≠ none := by
        rcases (recv_live s.px id k).mp hk with e | e
        · subst e; rw [hp]; simp
        · exact e
      exact h.distinct j k lj lk hjk
    · intro k hk
      exact ⟨rfl, (recv_live s.px id k).mpr (Or.inr hk)⟩
  | none =>
    refine ⟨⟨?_, ?_⟩, Nat.le_succ _, ?_⟩
    · intro k hk
      dsimp only at hk ⊢
      by_cases e : k = id
      · subst e; simp
      · have lk : s.px k ≠ none := by
          rcases (recv_live s.px id k).mp hk with e' | e'
          · exact absurd e' e
          · exact e'
        simp only [e, if_false]
        exact Nat.lt_succ_of_lt (h.below k lk)
    · intro j k hj hk hjk
      dsimp only at hj hk hjk
      by_cases ej : j = id <;> by_cases ek : k = id
      · rw [ej, ek]
      · have lk : s.px k ≠ none := by
          rcases (recv_live s.px id k).mp hk with e' | e'
          · exact absurd e' ek
          · exact e'
        have := h.below k lk
        simp only [ej, ek, if_true, if_false] at hjk
        omega
      · have lj : s.px j ≠ none := by
          rcases (recv_live s.px id j).mp hj with e' | e'
          · exact absurd e' ej
          · exact e'
        have := h.below j lj
        simp only [ej, ek, if_true, if_false] at hjk
        omega
      · have lj : s.px j ≠ none := by
          rcases (recv_live s.px id j).mp hj with e' | e'
          · exact absurd e' ej
          · exact e'
        have lk : s.px k ≠ none := by
          rcases (recv_live s.px id k).mp hk with e' | e'
          · exact absurd e' ek
          · exact e'
        simp only [ej, ek, if_false] at hjk
        exact h.distinct j k lj lk hjk
    · intro k hk
      have e : k ≠ id := by intro e; subst e; exact hk hp
      exact ⟨by simp [e], (recv_live s.px id k).mpr (Or.inr hk)⟩

mutual
/-- unboxing any message: live proxies keep their identity and stay alive; the invariant is kept -/
theorem unbox_keeps1 : ∀ (l : Label) (s s' : Side) (y : PyVal), unboxOnePass s l = .ok (y, s') → PxInv s →
    PxInv s' ∧ s.next ≤ s'.next ∧ (∀ k, s.px k ≠ none → s'.pid k = s.pid k ∧ s'.px k ≠ none)
  | .value v, s, s', y, hu, h => by simp only [unboxOnePass] at hu; cases hu; exact ⟨h, Nat.le_refl _, fun k hk => ⟨rfl, hk⟩⟩
  | .tuple ls, s, s', y, hu, h => by
    simp only [unboxOnePass] at hu
    cases hul : unboxOnePassL s ls with
    | error e => simp only [hul] at hu; cases hu
    | ok p =>
      obtain ⟨xs, s2⟩ := p
      simp only [hul] at hu
      cases hu
      exact unboxL_keeps1 ls s s' xs hul h
  | .localRef id, s, s', y, hu, h => by
    simp only [unboxOnePass] at hu
    cases ht : s.tbl id with
    | none => simp only [ht] at hu; cases hu
    | some n => simp only [ht] at hu; cases hu; exact ⟨h, Nat.le_refl _, fun k hk => ⟨rfl, hk⟩⟩
  | .remoteRef id, s, s', y, hu, h => by
    simp only [unboxOnePass, Except.ok.injEq] at hu
    have hs : (unboxRef s id).2 = s' := by rw [hu]
    subst hs
    exact unboxRef_keeps s id h
  | .other tag, s, s', y, hu, h => by simp only [unboxOnePass] at hu; cases hu
theorem unboxL_keeps1 : ∀ (ls : List Label) (s s' : Side) (ys : List PyVal), unboxOnePassL s ls = .ok (ys, s') → PxInv s →
    PxInv s' ∧ s.next ≤ s'.next ∧ (∀ k, s.px k ≠ none → s'.pid k = s.pid k ∧ s'.px k ≠ none)
  | [], s, s', ys, hu, h => by simp only [unboxOnePassL] at hu; cases hu; exact ⟨h, Nat.le_refl _, fun k hk => ⟨rfl, hk⟩⟩
  | l :: ls, s, s', ys, hu, h => by
    simp only [unboxOnePassL] at hu
    cases hux : unboxOnePass s l with
    | error e => simp only [hux] at hu; cases hu
    | ok p =>
      obtain ⟨x, s1⟩ := p
      simp only [hux] at hu
      cases hul : unboxOnePassL s1 ls with
      | error e => simp only [hul] at hu; cases hu
      | ok q =>
        obtain ⟨xs, s2⟩ := q
        simp only [hul] at hu
        cases hu
        obtain ⟨h1, n1, k1⟩ := unbox_keeps1 l s s1 x hux h
        obtain ⟨h2, n2, k2⟩ := unboxL_keeps1 ls s1 s' xs hul h1
        refine ⟨h2, Nat.le_trans n1 n2, ?_⟩
        intro k hk
        obtain ⟨a, b⟩ := k1 k hk
        obtain ⟨c, d⟩ := k2 k b
        exact ⟨by rw [c, a], d⟩
end

/-! ### the two-pass `_unbox` succeeds exactly when the one-pass walk does, with the same result -/

mutual
theorem create_tbl : ∀ (r : RLabel) (s s' : Side) (y : PyVal), create s r = .ok (y, s') → s'.tbl = s.tbl
  | .value v, s, s', y, h => by simp only [create] at h; cases h; rfl
  | .tuple rs, s, s', y, h => by
    simp only [create] at h
    cases hc : createL s rs with
    | error e => simp only [hc] at h; cases h
    | ok p => obtain ⟨xs, s2⟩ := p; simp only [hc] at h; cases h; exact createL_tbl rs s s' xs hc
  | .resolved id, s, s', y, h => by simp only [create] at h; cases h; rfl
  | .remoteRef id, s, s', y, h => by
    simp only [create, Except.ok.injEq] at h
    have hs : (unboxRef s id).2 = s' := by rw [h]
    subst hs; exact unboxRef_tbl s id
  | .other tag, s, s', y, h => by simp only [create] at h; cases h
theorem createL_tbl : ∀ (rs : List RLabel) (s s' : Side) (ys : List PyVal), createL s rs = .ok (ys, s') → s'.tbl = s.tbl
  | [], s, s', ys, h => by simp only [createL] at h; cases h; rfl
  | r :: rs, s, s', ys, h => by
    simp only [createL] at h
    cases hc : create s r with
    | error e => simp only [hc] at h; cases h
    | ok p =>
      obtain ⟨x, s1⟩ := p
      simp only [hc] at h
      cases hl : createL s1 rs with
      | error e => simp only [hl] at h; cases h
      | ok q =>
        obtain ⟨xs, s2⟩ := q
        simp only [hl] at h
        cases h
        rw [createL_tbl rs s1 s' xs hl, create_tbl r s s1 x hc]
end

mutual
theorem twoPass_of_onePass : ∀ (l : Label) (s s' : Side) (y : PyVal), unboxOnePass s l = .ok (y, s') →
    ∃ r, resolve s.tbl l = .ok r ∧ create s r = .ok (y, s')
  | .value v, s, s', y, h => by simp only [unboxOnePass] at h; cases h; exact ⟨.value v, by simp [resolve], by simp [create]⟩
  | .tuple ls, s, s', y, h => by
    simp only [unboxOnePass] at h
    cases hl : unboxOnePassL s ls with
    | error e => simp only [hl] at h; cases h
    | ok p =>
      obtain ⟨xs, s2⟩ := p
      simp only [hl] at h
      cases h
      obtain ⟨rs, h1, h2⟩ := twoPassL_of_onePassL ls s s' xs hl
      exact ⟨.tuple rs, by simp [resolve, h1], by simp [create, h2]⟩
  | .localRef id, s, s', y, h => by
    simp only [unboxOnePass] at h
    cases ht : s.tbl id with
    | none => simp only [ht] at h; cases h
    | some n => simp only [ht] at h; cases h; exact ⟨.resolved id, by simp [resolve, ht], by simp [create]⟩
  | .remoteRef id, s, s', y, h => by
    simp only [unboxOnePass] at h
    exact ⟨.remoteRef id, by simp [resolve], by simpa [create] using h⟩
  | .other tag, s, s', y, h => by simp only [unboxOnePass] at h; cases h
theorem twoPassL_of_onePassL : ∀ (ls : List Label) (s s' : Side) (ys : List PyVal), unboxOnePassL s ls = .ok (ys, s') →
    ∃ rs, resolveL s.tbl ls = .ok rs ∧ createL s rs = .ok (ys, s')
  | [], s, s', ys, h => by simp only [unboxOnePassL] at h; cases h; exact ⟨[], by simp [resolveL], by simp [createL]⟩
  | l :: ls, s, s', ys, h => by
    simp only [unboxOnePassL] at h
    cases hx : unboxOnePass s l with
    | error e => simp only [hx] at h; cases h
    | ok p =>
      obtain ⟨x, s1⟩ := p
      simp only [hx] at h
      cases hl : unboxOnePassL s1 ls with
      | error e => simp only [hl] at h; cases h
      | ok q =>
        obtain ⟨xs, s2⟩ := q
        simp only [hl] at h
        cases h
        obtain ⟨r, h1, h2⟩ := twoPass_of_onePass l s s1 x hx
        obtain ⟨rs, h3, h4⟩ := twoPassL_of_onePassL ls s1 s' xs hl
        rw [(unbox_counts1 l s s1 x hx).2] at h3
        exact ⟨r :: rs, by simp [resolveL, h1, h3], by simp [createL, h2, h4]⟩
end

mutual
theorem onePass_of_twoPass : ∀ (l : Label) (r : RLabel) (s s' : Side) (y : PyVal),
    resolve s.tbl l = .ok r → create s r = .ok (y, s') → unboxOnePass s l = .ok (y, s')
  | .value v, r, s, s', y, h1, h2 => by
    simp only [resolve] at h1; cases h1
    simpa [create, unboxOnePass] using h2
  | .tuple ls, r, s, s', y, h1, h2 => by
    simp only [resolve] at h1
    cases hr : resolveL s.tbl ls with
    | error e => simp only [hr] at h1; cases h1
    | ok rs =>
      simp only [hr] at h1; cases h1
      simp only [create] at h2
      cases hc : createL s rs with
      | error e => simp only [hc] at h2; cases h2
      | ok p =>
        obtain ⟨xs, s2⟩ := p
        simp only [hc] at h2; cases h2
        simp [unboxOnePass, onePassL_of_twoPassL ls rs s s' xs hr hc]
  | .localRef id, r, s, s', y, h1, h2 => by
    simp only [resolve] at h1
    cases ht : s.tbl id with
    | none => simp only [ht] at h1; cases h1
    | some n =>
      simp only [ht] at h1; cases h1
      simp only [create] at h2
      simpa [unboxOnePass, ht] using h2
  | .remoteRef id, r, s, s', y, h1, h2 => by
    simp only [resolve] at h1; cases h1
    simpa [create, unboxOnePass] using h2
  | .other tag, r, s, s', y, h1, h2 => by
    simp only [resolve] at h1; cases h1
    simp only [create] at h2; cases h2
theorem onePassL_of_twoPassL : ∀ (ls : List Label) (rs : List RLabel) (s s' : Side) (ys : List PyVal),
    resolveL s.tbl ls = .ok rs → createL s rs = .ok (ys, s') → unboxOnePassL s ls = .ok (ys, s')
  | [], rs, s, s', ys, h1, h2 => by
    simp only [resolveL] at h1; cases h1
    simpa [createL, unboxOnePassL] using h2
  | l :: ls, rs, s, s', ys, h1, h2 => by
    simp only [resolveL] at h1
    cases hr : resolve s.tbl l with
    | error e => simp only [hr] at h1; cases h1
    | ok r =>
      simp only [hr] at h1
      cases hrl : resolveL s.tbl ls with
      | error e => simp only [hrl] at h1; cases h1
      | ok rs' =>
        simp only [hrl] at h1; cases h1
        simp only [createL] at h2
        cases hc : create s r with
        | error e => simp only [hc] at h2; cases h2
        | ok p =>
          obtain ⟨x, s1⟩ := p
          simp only [hc] at h2
          cases hcl : createL s1 rs' with
          | error e => simp only [hcl] at h2; cases h2
          | ok q =>
            obtain ⟨xs, s2⟩ := q
            simp only [hcl] at h2; cases h2
            have e1 := onePass_of_twoPass l r s s1 x hr hc
            have ht : s1.tbl = s.tbl := create_tbl r s s1 x hc
            have e2 := onePassL_of_twoPassL ls rs' s1 s' xs (by rw [ht]; exact hrl) hcl
            simp [unboxOnePassL, e1, e2]
end

/-- the two-pass `_unbox` and the one-pass walk succeed on the same packages with the same result and state -/
theorem unbox_iff_onePass (s s' : Side) (l : Label) (y : PyVal) :
    unbox s l = .ok (y, s') ↔ unboxOnePass s l = .ok (y, s') := by
  constructor
  · intro h
    unfold unbox at h
    cases hr : resolve s.tbl l with
    | error e => simp only [hr] at h; cases h
    | ok r => simp only [hr] at h; exact onePass_of_twoPass l r s s' y hr h
  · intro h
    obtain ⟨r, h1, h2⟩ := twoPass_of_onePass l s s' y h
    simp [unbox, h1, h2]

/-- `unbox ∘ box` for `_unbox` as it is now -/
theorem unbox_box_aux (x : PyVal) (t t' : Tbl) (l : Label) (s : Side)
    (hb : box t x = .ok (l, t')) (hres : ∀ id ∈ x.proxies, s.tbl id ≠ none) :
    ∃ y s', unbox s l = .ok (y, s') ∧ Arrives x y ∧ s'.tbl = s.tbl := by
  obtain ⟨y, s', hu, ha, ht⟩ := unbox_box_aux1 x t t' l s hb hres
  exact ⟨y, s', (unbox_iff_onePass s s' l y).mpr hu, ha, ht⟩

theorem unbox_counts (l : Label) (s s' : Side) (y : PyVal) (hu : unbox s l = .ok (y, s')) :
    s'.px = recvAll s.px l.remoteRefs ∧ s'.tbl = s.tbl :=
  unbox_counts1 l s s' y ((unbox_iff_onePass s s' l y).mp hu)

theorem unbox_keeps (l : Label) (s s' : Side) (y : PyVal) (hu : unbox s l = .ok (y, s')) (h : PxInv s) :
    PxInv s' ∧ s.next ≤ s'.next ∧ (∀ k, s.px k ≠ none → s'.pid k = s.pid k ∧ s'.px k ≠ none) :=
  unbox_keeps1 l s s' y ((unbox_iff_onePass s s' l y).mp hu) h

mutual
/-- a package with a local reference the table does not hold is refused with KeyError in the first pass — whatever
else it carries, wherever, and before any proxy exists -/
theorem resolve_keyError_of_missing : ∀ (l : Label) (t : Tbl), (∃ id ∈ l.localRefs, t id = none) → resolve t l = .error .keyError
  | .value v, t, h => by obtain ⟨id, hm, _⟩ := h; simp [Label.localRefs] at hm
  | .tuple ls, t, h => by
    obtain ⟨id, hm, hn⟩ := h
    simp [resolve, resolveL_keyError_of_missing ls t ⟨id, by simpa [Label.localRefs] using hm, hn⟩]
  | .localRef id, t, h => by
    obtain ⟨id', hm, hn⟩ := h
    simp [Label.localRefs] at hm
    subst hm
    simp [resolve, hn]
  | .remoteRef id, t, h => by obtain ⟨id', hm, _⟩ := h; simp [Label.localRefs] at hm
  | .other tag, t, h => by obtain ⟨id', hm, _⟩ := h; simp [Label.localRefs] at hm
theorem resolveL_keyError_of_missing : ∀ (ls : List Label) (t : Tbl), (∃ id ∈ Label.localRefsL ls, t id = none) →
    resolveL t ls = .error .keyError
  | [], t, h => by obtain ⟨id, hm, _⟩ := h; simp [Label.localRefsL] at hm
  | l :: ls, t, h => by
    obtain ⟨id, hm, hn⟩ := h
    simp only [Label.localRefsL, List.mem_append] at hm
    simp only [resolveL]
    cases hr : resolve t l with
    | error e =>
      -- the first pass only ever raises KeyError
      have : e = .keyError := resolve_error_is_keyError l t e hr
      simp [this]
    | ok r =>
      rcases hm with hm | hm
      · rw [resolve_keyError_of_missing l t ⟨id, hm, hn⟩] at hr; cases hr
      · simp [resolveL_keyError_of_missing ls t ⟨id, hm, hn⟩]
theorem resolve_error_is_keyError : ∀ (l : Label) (t : Tbl) (e : Err), resolve t l = .error e → e = .keyError
  | .value v, t, e, h => by simp [resolve] at h
  | .tuple ls, t, e, h => by
    simp only [resolve] at h
    cases hr : resolveL t ls with
    | error e' => simp only [hr] at h; cases h; exact resolveL_error_is_keyError ls t e hr
    | ok rs => simp [hr] at h
  | .localRef id, t, e, h => by
    simp only [resolve] at h
    cases ht : t id with
    | none => simp only [ht] at h; cases h; rfl
    | some n => simp [ht] at h
  | .remoteRef id, t, e, h => by simp [resolve] at h
  | .other tag, t, e, h => by simp [resolve] at h
theorem resolveL_error_is_keyError : ∀ (ls : List Label) (t : Tbl) (e : Err), resolveL t ls = .error e → e = .keyError
  | [], t, e, h => by simp [resolveL] at h
  | l :: ls, t, e, h => by
    simp only [resolveL] at h
    cases hr : resolve t l with
    | error e' => simp only [hr] at h; cases h; exact resolve_error_is_keyError l t e hr
    | ok r =>
      simp only [hr] at h
      cases hl : resolveL t ls with
      | error e' => simp only [hl] at h; cases h; exact resolveL_error_is_keyError ls t e hl
      | ok rs => simp [hl] at h
end

/-! ### the label tree as a brine value -/

mutual
/-- only the four labels `_box` produces -/
def Label.known : Label → Bool
  | .other _ => false
  | .tuple ls => Label.knownL ls
  | _ => true
def Label.knownL : List Label → Bool
  | [] => true
  | l :: ls => l.known && Label.knownL ls
end

mutual
theorem box_known : ∀ (x : PyVal) (t t' : Tbl) (l : Label), box t x = .ok (l, t') → l.known = true
  | .imm v, t, t', l, hb => by
    simp only [box] at hb
    split at hb
    · cases hb; rfl
    · cases hb
  | .tup xs, t, t', l, hb => by
    simp only [box] at hb
    split at hb
    · cases hb; rfl
    · cases hbl : boxL t xs with
      | error e => simp only [hbl] at hb; cases hb
      | ok p =>
        obtain ⟨ls, t2⟩ := p
        simp only [hbl] at hb
        cases hb
        simpa [Label.known] using boxL_known xs t t' ls hbl
  | .obj id, t, t', l, hb => by simp only [box] at hb; cases hb; rfl
  | .sub v id, t, t', l, hb => by simp only [box] at hb; cases hb; rfl
  | .proxy id pid, t, t', l, hb => by simp only [box] at hb; cases hb; rfl
theorem boxL_known : ∀ (xs : List PyVal) (t t' : Tbl) (ls : List Label), boxL t xs = .ok (ls, t') → Label.knownL ls = true
  | [], t, t', ls, hb => by simp only [boxL] at hb; cases hb; rfl
  | x :: xs, t, t', ls, hb => by
    simp only [boxL] at hb
    cases hbx : box t x with
    | error e => simp only [hbx] at hb; cases hb
    | ok p =>
      obtain ⟨l, t1⟩ := p
      simp only [hbx] at hb
      cases hbl : boxL t1 xs with
      | error e => simp only [hbl] at hb; cases hb
      | ok q =>
        obtain ⟨ls', t2⟩ := q
        simp only [hbl] at hb
        cases hb
        simp [Label.knownL, box_known x t t1 l hbx, boxL_known xs t1 t' ls' hbl]
end

/-- the four label numbers select four different branches of `_unbox` (generated constants) -/
theorem labelKind_table : labelKind Gen.Box.labelValue = .value ∧ labelKind Gen.Box.labelTuple = .tuple
    ∧ labelKind Gen.Box.labelLocalRef = .localRef ∧ labelKind Gen.Box.labelRemoteRef = .remoteRef := by decide

mutual
/-- reading back the brine value of a label tree gives the label tree -/
theorem parse_toVal (pack : Id → Val) (unpack : Val → Option Id) (hp : ∀ k, unpack (pack k) = some k) :
    ∀ (l : Label) (fuel : Nat), l.known = true → l.depth ≤ fuel → parseLabel unpack fuel (l.toVal pack) = .ok l
  | .value v, fuel, _, hf => by
    obtain ⟨f, rfl⟩ : ∃ f, fuel = f + 1 := ⟨fuel - 1, by simp [Label.depth] at hf; omega⟩
    simp [Label.toVal, parseLabel, labelKind_table.1]
  | .tuple ls, fuel, hk, hf => by
    obtain ⟨f, rfl⟩ : ∃ f, fuel = f + 1 := ⟨fuel - 1, by simp [Label.depth] at hf; omega⟩
    have := parseL_toValL pack unpack hp ls f (by simpa [Label.known] using hk) (by simp [Label.depth] at hf; omega)
    simp [Label.toVal, parseLabel, labelKind_table.2.1, this]
  | .localRef id, fuel, _, hf => by
    obtain ⟨f, rfl⟩ : ∃ f, fuel = f + 1 := ⟨fuel - 1, by simp [Label.depth] at hf; omega⟩
    simp [Label.toVal, parseLabel, labelKind_table.2.2.1, hp]
  | .remoteRef id, fuel, _, hf => by
    obtain ⟨f, rfl⟩ : ∃ f, fuel = f + 1 := ⟨fuel - 1, by simp [Label.depth] at hf; omega⟩
    simp [Label.toVal, parseLabel, labelKind_table.2.2.2, hp]
  | .other tag, fuel, hk, _ => by simp [Label.known] at hk
theorem parseL_toValL (pack : Id → Val) (unpack : Val → Option Id) (hp : ∀ k, unpack (pack k) = some k) :
    ∀ (ls : List Label) (fuel : Nat), Label.knownL ls = true → Label.depthL ls ≤ fuel →
      parseLabelL unpack fuel (Label.toValL pack ls) = .ok ls
  | [], fuel, _, _ => by simp [Label.toValL, parseLabelL]
  | l :: ls, fuel, hk, hf => by
    simp only [Label.knownL, Bool.and_eq_true] at hk
    simp only [Label.depthL] at hf
    have hl : 1 ≤ l.depth := by cases l <;> simp [Label.depth]
    obtain ⟨f, rfl⟩ : ∃ f, fuel = f + 1 := ⟨fuel - 1, by omega⟩
    have h1 := parse_toVal pack unpack hp l f hk.1 (by omega)
    have h2 := parseL_toValL pack unpack hp ls (f + 1) hk.2 (by omega)
    simp [Label.toValL, parseLabelL, h1, h2]
end

/-! ### an invariant of whole conversations

Between two steps of a conversation nothing is in flight, so the counts of Part 1 balance directly: what an end's
table holds for a key is what the other end's live proxy of it will release. -/

/-- one lending direction at rest: the holder's proxies are well identified, none counts zero, and the owner's table
(`t`) holds for every key exactly what the holder's live proxy counts -/
structure HalfInv (t : Tbl) (q : Side) : Prop where
  px : PxInv q
  pos : ∀ k, q.px k ≠ some 0
  bal : ∀ k, val (t k) = cnt (q.px k)

theorem HalfInv.congr {t : Tbl} {q q' : Side} (h : HalfInv t q) (h1 : q'.px = q.px) (h2 : q'.pid = q.pid)
    (h3 : q'.next = q.next) : HalfInv t q' :=
  ⟨⟨by intro k hk; rw [h1] at hk; rw [h2, h3]; exact h.px.below k hk,
    by intro j k hj hk hjk; rw [h1] at hj hk; rw [h2] at hjk; exact h.px.distinct j k hj hk hjk⟩,
   by intro k; rw [h1]; exact h.pos k, by intro k; rw [h1]; exact h.bal k⟩

theorem halfInv_init : HalfInv Side.init.tbl Side.init :=
  ⟨pxInv_init, by intro k; simp [Side.init, Tbl.empty], by intro k; simp [Side.init, Tbl.empty, val, cnt]⟩

theorem set_none_live (p : Tbl) (id k : Id) (h : (p.set id none) k ≠ none) : k ≠ id ∧ p k ≠ none := by
  by_cases e : k = id
  · subst e; simp at h
  · exact ⟨e, by simpa [Tbl.set_other _ _ e] using h⟩

/-- a value travels from `o` to `q`: both directions stay balanced -/
theorem xfer_inv (o q o1 q1 : Side) (x y : PyVal) (l : Label) (hx : xfer o q x = .ok (l, y, o1, q1))
    (h1 : HalfInv o.tbl q) (h2 : HalfInv q.tbl o) : HalfInv o1.tbl q1 ∧ HalfInv q1.tbl o1 := by
  unfold xfer at hx
  cases hb : box o.tbl x with
  | error e => simp only [hb] at hx; cases hx
  | ok p =>
    obtain ⟨l', t⟩ := p
    simp only [hb] at hx
    cases hu : unbox q l' with
    | error e => simp only [hu] at hx; cases hx
    | ok r =>
      obtain ⟨y', q'⟩ := r
      simp only [hu, Except.ok.injEq, Prod.mk.injEq] at hx
      obtain ⟨rfl, rfl, rfl, rfl⟩ := hx
      obtain ⟨hpx, htbl⟩ := unbox_counts l' q q' y' hu
      obtain ⟨hk, _, _⟩ := unbox_keeps l' q q' y' hu h1.px
      constructor
      · refine ⟨hk, ?_, ?_⟩
        · rw [hpx]; exact recvAll_ne_zero _ _ h1.pos
        · intro k
          have := h1.bal k
          rw [hpx, box_adds x o.tbl t l' hb, val_addAll, cnt_recvAll]
          omega
      · rw [htbl]
        exact h2.congr rfl rfl rfl

/-- the holder `q` finalizes its proxy of `id` and the owner `o` processes the release: both directions stay balanced -/
theorem release_inv (o q : Side) (id : Id) (h1 : HalfInv o.tbl q) (h2 : HalfInv q.tbl o) :
    HalfInv (release o q id).1.tbl (release o q id).2 ∧ HalfInv (release o q id).2.tbl (release o q id).1 := by
  unfold release
  cases hp : q.px id with
  | none => exact ⟨h1, h2⟩
  | some c =>
    have hc : 1 ≤ c := by
      have := cnt_pos_of_ne_zero (h1.pos id) (by rw [hp]; simp)
      simpa [hp, cnt] using this
    have hb := h1.bal id
    rw [hp] at hb
    simp only [cnt] at hb
    cases ht : o.tbl id with
    | none => rw [ht] at hb; simp [val] at hb; omega
    | some m =>
      rw [ht] at hb
      simp only [val] at hb
      have hq' : HalfInv (o.tbl.set id (dropBy m c)) { q with px := q.px.set id none } := by
        refine ⟨⟨?_, ?_⟩, ?_, ?_⟩
        · intro k hk
          exact h1.px.below k (set_none_live q.px id k hk).2
        · intro j k hj hk hjk
          exact h1.px.distinct j k (set_none_live q.px id j hj).2 (set_none_live q.px id k hk).2 hjk
        · intro k
          by_cases e : k = id
          · subst e; simp
          · simp only [Tbl.set_other _ _ e]; exact h1.pos k
        · intro k
          by_cases e : k = id
          · subst e
            simp only [Tbl.set_same, val_dropBy, cnt]
            omega
          · simp only [Tbl.set_other _ _ e]; exact h1.bal k
      simp only [Tbl.decref, ht]
      exact ⟨hq', h2.congr rfl rfl rfl⟩

theorem releaseAll_inv (ids : List Id) (o q : Side) (h1 : HalfInv o.tbl q) (h2 : HalfInv q.tbl o) :
    HalfInv (releaseAll o q ids).1.tbl (releaseAll o q ids).2 ∧ HalfInv (releaseAll o q ids).2.tbl (releaseAll o q ids).1 := by
  induction ids generalizing o q with
  | nil => exact ⟨h1, h2⟩
  | cons id ids ih =>
    obtain ⟨a, b⟩ := release_inv o q id h1 h2
    have := ih (release o q id).1 (release o q id).2 a b
    simpa [releaseAll, List.foldl] using this

/-- both lending directions of a conversation at rest -/
def ConvInv (c : Conv) : Prop := HalfInv c.a.tbl c.b ∧ HalfInv c.b.tbl c.a

theorem convInv_init : ConvInv Conv.init := ⟨halfInv_init, halfInv_init⟩

theorem convInv_send (c : Conv) (x : PyVal) (keep : Bool) (seen : Seen) (c' : Conv) (h : ConvInv c)
    (hs : c.send x keep = .ok (seen, c')) : ConvInv c' := by
  unfold Conv.send at hs
  cases hx : xfer c.a c.b x with
  | error e => simp only [hx] at hs; cases hs
  | ok r =>
    obtain ⟨l, y, a1, b1⟩ := r
    simp only [hx] at hs
    obtain ⟨i1, i2⟩ := xfer_inv c.a c.b a1 b1 x y l hx h.1 h.2
    cases keep with
    | true =>
      simp only [if_true, Except.ok.injEq, Prod.mk.injEq] at hs
      obtain ⟨_, rfl⟩ := hs
      exact ⟨i1, i2⟩
    | false =>
      simp only [Bool.false_eq_true, if_false, Except.ok.injEq, Prod.mk.injEq] at hs
      obtain ⟨_, rfl⟩ := hs
      exact releaseAll_inv _ a1 b1 i1 i2

theorem convInv_echo (c : Conv) (x : PyVal) (seen : Seen) (c' : Conv) (h : ConvInv c)
    (hs : c.echo x = .ok (seen, c')) : ConvInv c' := by
  unfold Conv.echo at hs
  cases hx : xfer c.a c.b x with
  | error e => simp only [hx] at hs; cases hs
  | ok r =>
    obtain ⟨l, y, a1, b1⟩ := r
    simp only [hx] at hs
    obtain ⟨i1, i2⟩ := xfer_inv c.a c.b a1 b1 x y l hx h.1 h.2
    cases hx2 : xfer b1 a1 y with
    | error e => simp only [hx2] at hs; cases hs
    | ok r2 =>
      obtain ⟨l2, z, b2, a2⟩ := r2
      simp only [hx2, Except.ok.injEq, Prod.mk.injEq] at hs
      obtain ⟨_, rfl⟩ := hs
      obtain ⟨j1, j2⟩ := xfer_inv b1 a1 b2 a2 y z l2 hx2 i2 i1
      obtain ⟨k1, k2⟩ := releaseAll_inv (transient l c.heldB) a2 b2 j2 j1
      obtain ⟨m1, m2⟩ := releaseAll_inv (transient l2 c.heldA) _ _ k2 k1
      exact ⟨m2, m1⟩

theorem convInv_make (c : Conv) (id : Id) (seen : Seen) (c' : Conv) (h : ConvInv c)
    (hs : c.make id = .ok (seen, c')) : ConvInv c' := by
  unfold Conv.make at hs
  cases hx : xfer c.b c.a (.obj id) with
  | error e => simp only [hx] at hs; cases hs
  | ok r =>
    obtain ⟨l, y, b1, a1⟩ := r
    simp only [hx, Except.ok.injEq, Prod.mk.injEq] at hs
    obtain ⟨_, rfl⟩ := hs
    obtain ⟨i1, i2⟩ := xfer_inv c.b c.a b1 a1 (.obj id) y l hx h.2 h.1
    exact ⟨i2, i1⟩

theorem convInv_forget (c : Conv) (h : ConvInv c) : ConvInv c.forget := by
  unfold Conv.forget
  exact releaseAll_inv c.heldB c.a c.b h.1 h.2

theorem convInv_step (c : Conv) (op : ConvOp) (h : ConvInv c) : ConvInv (c.step op) := by
  cases op with
  | send keep x =>
    simp only [Conv.step]
    cases hs : c.send x keep with
    | error e => exact h
    | ok r => exact convInv_send c x keep r.1 r.2 h hs
  | echo x =>
    simp only [Conv.step]
    cases hs : c.echo x with
    | error e => exact h
    | ok r => exact convInv_echo c x r.1 r.2 h hs
  | make id =>
    simp only [Conv.step]
    cases hs : c.make id with
    | error e => exact h
    | ok r => exact convInv_make c id r.1 r.2 h hs
  | forget => exact convInv_forget c h

theorem convInv_run (ops : List ConvOp) (c : Conv) (h : ConvInv c) : ConvInv (Conv.run c ops) := by
  induction ops generalizing c with
  | nil => exact h
  | cons op ops ih => exact ih _ (convInv_step c op h)

end Rpyc.Box
