import RpycModel.Async.Lemmas
/-
L7 Async — several requests on one connection.

Every request has its own `World` (its *view*): its own result, registry entry, callback log — and a copy of
what all requests share: the clock, the inbound channel (replies carry the sequence number of their
request), the busy log.  An event addressed to request `k` is a `step` of view `k`; every other view (and
the observer `env`, which owns no request) sees only its *environment image*: the ticks, the messages put
into the channel, and the `serve` calls that event made — `envImage`.  `views_agree` proves that this is
consistent: after every event all views still agree on the clock, the channel and the busy log, i.e. the
per-request worlds are projections of one connection.  So the events of request A reach request B only as
environment events: elapsed time, consumed messages, and B's own reply being dispatched when A's serving
comes across it.  Every theorem of Props/C15.lean quantifies over all event sequences, environment events
included, and therefore holds for each request of a multi-request run (`multi_*` in Props/C15.lean).
-/
namespace Rpyc.Async

/-- two views agree on what the connection shares -/
def Agree (a b : World) : Prop := a.now = b.now ∧ a.chan = b.chan ∧ a.busy = b.busy

theorem Agree.refl (a : World) : Agree a a := ⟨rfl, rfl, rfl⟩
theorem Agree.symm {a b : World} (h : Agree a b) : Agree b a := ⟨h.1.symm, h.2.1.symm, h.2.2.symm⟩
theorem Agree.trans {a b c : World} (h : Agree a b) (g : Agree b c) : Agree a c :=
  ⟨h.1.trans g.1, h.2.1.trans g.2.1, h.2.2.trans g.2.2⟩

/-- number of `serve` calls the loop of `wait` makes (a call that would block forever is not counted: it
never returns) -/
def waitCount : Nat → World → Nat
  | 0, _ => 0
  | f + 1, w =>
    if w.ar.isReady || w.ar.ttl.expired w.now then 0
    else match serve w w.ar.ttl with
      | none => 0
      | some w' => 1 + waitCount f w'

/-- what an event of one request looks like to everybody else -/
def envImage (w : World) : Ev → List Ev
  | .setExpiry _ => []
  | .arrive _ _ => []
  | .addCallback _ => []
  | .qExpired => []
  | .send d m => [.send d m]
  | .serve1 => [.serve1]
  | .serveT τ => [.serveT τ]
  | .serveAt t => [.serveAt t]
  | .tick d => [.tick d]
  | .qReady => if w.ar.isReady || w.ar.ttl.expired w.now then [] else [.serve1]
  | .qError => if w.ar.isReady || w.ar.ttl.expired w.now then [] else [.serve1]
  | .qValue => List.replicate (waitCount (waitFuel w) w) (.serveAt w.ar.ttl)
  | .wait => List.replicate (waitCount (waitFuel w) w) (.serveAt w.ar.ttl)

/-- environment events: elapsed time, a message entering the channel, somebody serving once -/
def isEnv : Ev → Bool
  | .tick _ => true
  | .send _ _ => true
  | .serve1 => true
  | .serveT _ => true
  | .serveAt _ => true
  | _ => false

theorem envImage_of_env (v : World) (e : Ev) (h : isEnv e = true) : envImage v e = [e] := by
  cases e <;> simp [isEnv] at h <;> rfl

structure MWorld where
  /-- an observer that owns no request: carries the shared state when there is no view yet -/
  env : World
  /-- `views[k]` belongs to the request with sequence number `k + 1` -/
  views : List World
  deriving Repr

def MWorld.init (t0 : Nat) : MWorld := ⟨{ World.init t0 with live := false }, []⟩

/-- the view of a freshly issued request (`async_request(…, timeout=τ)`): next sequence number, new result,
live registry entry, own ghost logs; shared state as it is -/
def newView (env : World) (seq : Nat) (τ : Option Int) : World :=
  setExpiry { env with seq := seq, ar := AR.init, live := true, cbLog := [], readyAt := none } τ

inductive MEv where
  | request (τ : Option Int)
  /-- an event of request `k + 1` -/
  | on (k : Nat) (e : Ev)
  /-- an environment event by nobody in particular (time passes, the peer sends, some thread serves) -/
  | env (e : Ev)
  deriving Repr

def mstep (mw : MWorld) : MEv → MWorld × Obs
  | .request τ => ({ mw with views := mw.views ++ [newView mw.env (mw.views.length + 1) τ] }, .unit)
  | .on k e =>
    match mw.views[k]? with
    | none => (mw, .unit)
    | some v =>
      ({ env := runs mw.env (envImage v e),
         views := mw.views.mapIdx (fun i x => if i = k then (step v e).1 else runs x (envImage v e)) },
       (step v e).2)
  | .env e =>
    if isEnv e then ({ env := (step mw.env e).1, views := mw.views.map (fun x => (step x e).1) }, .unit)
    else (mw, .unit)

def mruns : MWorld → List MEv → MWorld
  | mw, [] => mw
  | mw, e :: es => mruns (mstep mw e).1 es

/-! ### consistency: all views keep agreeing on the shared state -/

theorem dispatch_agree {a b : World} (h : Agree a b) (m : Msg) : Agree (dispatch a m) (dispatch b m) := by
  obtain ⟨h1, h2, h3⟩ := h
  cases m with
  | reply s e v =>
    have ha : Agree (dispatch a (.reply s e v)) a := by
      simp only [dispatch]; split
      · exact ⟨by simp, by simp, by simp⟩
      · exact Agree.refl a
    have hb : Agree b (dispatch b (.reply s e v)) := by
      simp only [dispatch]; split
      · exact ⟨by simp, by simp, by simp⟩
      · exact Agree.refl b
    exact ha.trans (Agree.trans ⟨h1, h2, h3⟩ hb)
  | other d => exact ⟨by simp [dispatch, h1], by simp [dispatch, h2], by simp [dispatch, h1, h3]⟩

theorem serve_agree {a b : World} (h : Agree a b) (t : Timeout) :
    (serve a t = none ∧ serve b t = none)
      ∨ ∃ a' b', serve a t = some a' ∧ serve b t = some b' ∧ Agree a' b' := by
  obtain ⟨h1, h2, h3⟩ := h
  unfold serve
  rw [h2, h1]
  cases hc : b.chan with
  | nil =>
    by_cases hf : t.finite = true
    · simp only [hf, if_true]
      exact Or.inr ⟨_, _, rfl, rfl, ⟨rfl, rfl, h3⟩⟩
    · simp [hf]
  | cons hd rest =>
    obtain ⟨at_, m⟩ := hd
    simp only
    split
    · refine Or.inr ⟨_, _, rfl, rfl, ?_⟩
      exact dispatch_agree (a := { a with now := max b.now at_, chan := rest })
        (b := { b with now := max b.now at_, chan := rest }) ⟨rfl, rfl, h3⟩ m
    · exact Or.inr ⟨_, _, rfl, rfl, ⟨rfl, rfl, h3⟩⟩

theorem serveOnce_agree {a b : World} (h : Agree a b) (t : Timeout) : Agree (serveOnce a t) (serveOnce b t) := by
  unfold serveOnce
  rcases serve_agree h t with ⟨ha, hb⟩ | ⟨a', b', ha, hb, hab⟩
  · rw [ha, hb]; exact h
  · rw [ha, hb]; exact hab

theorem pollAll0_eq (w : World) : pollAll0 w = serveOnce w (Timeout.make w.now (some 0)) := rfl

theorem serve_ttl {w w1 : World} {t : Timeout} (h : serve w t = some w1) : w1.ar.ttl = w.ar.ttl :=
  (serve_time h).1

/-- the world in which a `wait` loop ends (none: out of fuel, which `waitLoop_fuel` excludes) -/
def LoopRes.world : LoopRes → Option World
  | .done w => some w
  | .hang w => some w
  | .fuel => none

theorem waitLoop_agree : ∀ (f : Nat) (v x w' : World), Agree v x → (waitLoop f v).world = some w' →
    Agree w' (runs x (List.replicate (waitCount f v) (.serveAt v.ar.ttl))) := by
  intro f
  induction f with
  | zero => intro v x w' _ h; simp [waitLoop, LoopRes.world] at h
  | succ f ih =>
    intro v x w' hag h
    unfold waitLoop at h
    unfold waitCount
    split at h
    · next hc =>
      simp only [LoopRes.world, Option.some.injEq] at h
      subst h
      simp [hc, runs, hag]
    · next hc =>
      simp only [hc, Bool.false_eq_true, if_false]
      split at h
      · next hs =>
        simp only [LoopRes.world, Option.some.injEq] at h
        subst h
        simp [hs, runs, hag]
      · next w1 hs =>
        simp only [hs]
        have hstep : Agree w1 (step x (.serveAt v.ar.ttl)).1 := by
          have := serveOnce_agree hag v.ar.ttl
          simp only [serveOnce, hs] at this
          exact this
        have := ih w1 (step x (.serveAt v.ar.ttl)).1 w' hstep h
        rw [serve_ttl hs] at this
        have e1 : 1 + waitCount f w1 = waitCount f w1 + 1 := by omega
        rw [e1, List.replicate_succ]
        simpa [runs] using this

theorem value_world (w : World) : (value w).1 = (wait w).1 := by
  unfold value; split
  · split <;> rfl
  · rfl

theorem wait_agree {v x : World} (h : Agree v x) :
    Agree (wait v).1 (runs x (List.replicate (waitCount (waitFuel v) v) (.serveAt v.ar.ttl))) := by
  have hfuel := waitLoop_fuel (waitFuel v) v (Nat.le_refl _)
  unfold wait
  cases hl : waitLoop (waitFuel v) v with
  | done w' =>
    have := waitLoop_agree (waitFuel v) v x w' h (by simp [hl, LoopRes.world])
    simp only
    split <;> exact this
  | hang w' =>
    exact waitLoop_agree (waitFuel v) v x w' h (by simp [hl, LoopRes.world])
  | fuel => exact absurd hl hfuel

theorem ready_agree {v x : World} (h : Agree v x) :
    Agree (ready v).1 (runs x (if v.ar.isReady || v.ar.ttl.expired v.now then [] else [.serve1])) := by
  unfold ready
  cases hr : v.ar.isReady with
  | true => simp [runs, h]
  | false =>
    cases hx : v.ar.ttl.expired v.now with
    | true => simp [runs, h]
    | false =>
      simp only [Bool.false_eq_true, if_false, Bool.or_self, runs, step]
      rw [pollAll0_eq, pollAll0_eq, h.1]
      exact serveOnce_agree h _

theorem error_world (w : World) : (error w).1 = (ready w).1 := by
  unfold error; split <;> rfl

/-- **One event of one request, seen from any other view**: the stepped view and the other view after the
event's environment image agree on clock, channel and busy log. -/
theorem step_image_agree {v x : World} (h : Agree v x) (e : Ev) :
    Agree (step v e).1 (runs x (envImage v e)) := by
  obtain ⟨h1, h2, h3⟩ := h
  cases e with
  | setExpiry τ => exact ⟨h1, h2, h3⟩
  | arrive e v' =>
    simp only [step, envImage, runs]
    have : Agree (dispatch v (.reply v.seq e v')) v := by
      simp only [dispatch]; split
      · exact ⟨by simp, by simp, by simp⟩
      · exact Agree.refl v
    exact this.trans ⟨h1, h2, h3⟩
  | send d m => exact ⟨h1, by simp [step, envImage, runs, h1, h2], h3⟩
  | serve1 =>
    simp only [step, envImage, runs]
    rw [pollAll0_eq, pollAll0_eq, h1]
    exact serveOnce_agree ⟨h1, h2, h3⟩ _
  | serveT τ =>
    simp only [step, envImage, runs]
    rw [h1]
    exact serveOnce_agree ⟨h1, h2, h3⟩ _
  | serveAt t =>
    simp only [step, envImage, runs]
    exact serveOnce_agree ⟨h1, h2, h3⟩ _
  | addCallback c =>
    simp only [step, envImage, runs, addCallback]
    split <;> exact ⟨h1, h2, h3⟩
  | qReady => exact ready_agree ⟨h1, h2, h3⟩
  | qError =>
    simp only [step, envImage]
    rw [error_world]
    exact ready_agree ⟨h1, h2, h3⟩
  | qExpired => exact ⟨h1, h2, h3⟩
  | qValue =>
    simp only [step, envImage]
    rw [value_world]
    exact wait_agree ⟨h1, h2, h3⟩
  | wait => exact wait_agree ⟨h1, h2, h3⟩
  | tick d => exact ⟨by simp [step, envImage, runs, h1], h2, h3⟩

/-- two bystanders of the same event keep agreeing with each other -/
theorem runs_image_agree {v x y : World} (hx : Agree v x) (hy : Agree v y) (e : Ev) :
    Agree (runs x (envImage v e)) (runs y (envImage v e)) :=
  (step_image_agree hx e).symm.trans (step_image_agree hy e)

/-- every view agrees with the observer -/
def MAgree (mw : MWorld) : Prop := ∀ (k : Nat) (v : World), mw.views[k]? = some v → Agree v mw.env

theorem MAgree.init (t0 : Nat) : MAgree (MWorld.init t0) := by
  intro k v h; simp [MWorld.init] at h

theorem newView_agree (env : World) (n : Nat) (τ : Option Int) : Agree (newView env n τ) env :=
  ⟨rfl, rfl, rfl⟩

/-- **The per-request worlds are projections of one connection**: whatever events happen to whichever
requests, all views agree on the clock, the channel and the busy log. -/
theorem views_agree (mw : MWorld) (h : MAgree mw) (e : MEv) : MAgree (mstep mw e).1 := by
  cases e with
  | request τ =>
    intro k v hk
    simp only [mstep] at hk ⊢
    rw [List.getElem?_append] at hk
    split at hk
    · exact h k v hk
    · next hlt =>
      have : k - mw.views.length = 0 := by
        rcases Nat.lt_or_ge (k - mw.views.length) 1 with h1 | h1
        · omega
        · rw [List.getElem?_eq_none (by simpa using h1)] at hk; cases hk
      rw [this] at hk
      simp only [List.getElem?_cons_zero, Option.some.injEq] at hk
      subst hk
      exact newView_agree _ _ _
  | on k0 e =>
    simp only [mstep]
    cases hv : mw.views[k0]? with
    | none => exact h
    | some v0 =>
      intro k v hk
      simp only at hk ⊢
      rw [List.getElem?_mapIdx] at hk
      cases hx : mw.views[k]? with
      | none => rw [hx] at hk; cases hk
      | some x =>
        rw [hx] at hk
        simp only [Option.map_some, Option.some.injEq] at hk
        have h0 := h k0 v0 hv
        split at hk
        · subst hk
          exact step_image_agree h0 e
        · subst hk
          have hxv : Agree v0 x := h0.trans (h k x hx).symm
          exact runs_image_agree hxv h0 e
  | env e =>
    simp only [mstep]
    split
    · next he =>
      intro k v hk
      simp only [List.getElem?_map] at hk
      cases hx : mw.views[k]? with
      | none => rw [hx] at hk; cases hk
      | some x =>
        rw [hx] at hk
        simp only [Option.map_some, Option.some.injEq] at hk
        subst hk
        have := step_image_agree (h k x hx) e
        rw [envImage_of_env x e he] at this
        simpa [runs] using this
    · exact h

theorem mruns_agree : ∀ (es : List MEv) (mw : MWorld), MAgree mw → MAgree (mruns mw es)
  | [], _, h => h
  | e :: es, mw, h => mruns_agree es _ (views_agree mw h e)

/-! ### each view is a single-request run -/

theorem envImage_isEnv (v : World) (e : Ev) : ∀ e' ∈ envImage v e, isEnv e' = true := by
  intro e' he
  cases e <;> simp only [envImage] at he
  all_goals first
    | (simp at he; done)
    | (simp at he; subst he; rfl)
    | (split at he <;> simp at he; subst he; rfl)
    | (rw [List.mem_replicate] at he; rw [he.2]; rfl)

/-- a reply that belongs to another request does nothing to this one -/
theorem dispatch_foreign (w : World) (s : Nat) (e : Bool) (v : Nat) (h : s ≠ w.seq) :
    dispatch w (.reply s e v) = w := by
  simp [dispatch, h]

/-- what one multi-request event does to view `k`: a `step` when it is addressed to it, otherwise a run of
environment events only (`tick`, `send`, `serve…`) -/
theorem view_after (mw : MWorld) (e : MEv) (k : Nat) (v : World) (hv : mw.views[k]? = some v) :
    ∃ es : List Ev, (mstep mw e).1.views[k]? = some (runs v es)
      ∧ ∀ e' ∈ es, isEnv e' = true ∨ e = .on k e' := by
  cases e with
  | request τ =>
    refine ⟨[], ?_, by simp⟩
    simp only [mstep, runs]
    rw [List.getElem?_append_left (by
      rcases Nat.lt_or_ge k mw.views.length with h | h
      · exact h
      · rw [List.getElem?_eq_none h] at hv; cases hv)]
    exact hv
  | on k0 e =>
    simp only [mstep]
    cases hv0 : mw.views[k0]? with
    | none => exact ⟨[], by simpa [runs] using hv, by simp⟩
    | some v0 =>
      simp only
      rw [List.getElem?_mapIdx, hv]
      simp only [Option.map_some]
      by_cases hk : k = k0
      · subst hk
        rw [hv] at hv0
        simp only [Option.some.injEq] at hv0
        subst hv0
        exact ⟨[e], by simp [runs], by simp⟩
      · exact ⟨envImage v0 e, by simp [hk], fun e' he => Or.inl (envImage_isEnv v0 e e' he)⟩
  | env e =>
    simp only [mstep]
    split
    · next he =>
      refine ⟨[e], by simp [runs, hv], ?_⟩
      intro e' h'
      simp at h'
      subst h'
      exact Or.inl he
    · exact ⟨[], by simpa [runs] using hv, by simp⟩

theorem view_after_runs : ∀ (es : List MEv) (mw : MWorld) (k : Nat) (v : World), mw.views[k]? = some v →
    ∃ evs : List Ev, (mruns mw es).views[k]? = some (runs v evs)
      ∧ ∀ e' ∈ evs, isEnv e' = true ∨ .on k e' ∈ es
  | [], _, _, _, hv => ⟨[], by simpa [mruns, runs] using hv, by simp⟩
  | e :: es, mw, k, v, hv => by
    obtain ⟨e1, h1, p1⟩ := view_after mw e k v hv
    obtain ⟨e2, h2, p2⟩ := view_after_runs es (mstep mw e).1 k (runs v e1) h1
    refine ⟨e1 ++ e2, by simpa [mruns, runs_append] using h2, ?_⟩
    intro e' he
    rcases List.mem_append.mp he with he | he
    · rcases p1 e' he with h | h
      · exact Or.inl h
      · exact Or.inr (by simp [h])
    · rcases p2 e' he with h | h
      · exact Or.inl h
      · exact Or.inr (List.mem_cons_of_mem _ h)

/-! definitional (not counted as a property theorem) -/

/-- a fresh request's view: pending, own deadline, live entry, and it agrees with the connection -/
theorem new_request_view (env : World) (n : Nat) (τ : Option Int) :
    (newView env n τ).ar.isReady = false ∧ (newView env n τ).ar.ttl = Timeout.make env.now τ
      ∧ (newView env n τ).live = true ∧ (newView env n τ).seq = n ∧ Inv (newView env n τ)
      ∧ Agree (newView env n τ) env := by
  refine ⟨rfl, rfl, rfl, rfl, ?_, newView_agree env n τ⟩
  intro h
  simp [newView, setExpiry, AR.init] at h

end Rpyc.Async
