import RpycModel.Async.Model
/-
Helper lemmas for C15 (the property theorems are in Props/C15.lean).
-/
namespace Rpyc.Async

/-! ### `Timeout` -/

theorem Timeout.make_none (now : Nat) : Timeout.make now none = Timeout.inf := rfl

theorem Timeout.make_neg (now : Nat) (t : Int) (h : t < 0) : Timeout.make now (some t) = Timeout.inf := by
  simp [Timeout.make, Timeout.inf]; omega

theorem Timeout.make_nonneg (now : Nat) (t : Int) (h : 0 ≤ t) :
    Timeout.make now (some t) = ⟨true, now + t.toNat⟩ := by
  simp [Timeout.make, h]

theorem Timeout.expired_mono (t : Timeout) {a b : Nat} (hab : a ≤ b) (h : t.expired a = true) : t.expired b = true := by
  simp [Timeout.expired] at *
  exact ⟨h.1, by omega⟩

theorem Timeout.inf_not_expired (now : Nat) : Timeout.inf.expired now = false := rfl

theorem Timeout.expired_iff (t : Timeout) (now : Nat) : t.expired now = true ↔ t.finite = true ∧ t.tmax ≤ now := by
  simp [Timeout.expired]

/-! ### fields after `call` / `dispatch` -/

@[simp] theorem call_now (w : World) (e : Bool) (v : Nat) : (call w e v).now = w.now := by
  unfold call; split <;> rfl
@[simp] theorem call_ttl (w : World) (e : Bool) (v : Nat) : (call w e v).ar.ttl = w.ar.ttl := by
  unfold call; split <;> rfl
@[simp] theorem call_live (w : World) (e : Bool) (v : Nat) : (call w e v).live = w.live := by
  unfold call; split <;> rfl
@[simp] theorem call_chan (w : World) (e : Bool) (v : Nat) : (call w e v).chan = w.chan := by
  unfold call; split <;> rfl
@[simp] theorem call_busy (w : World) (e : Bool) (v : Nat) : (call w e v).busy = w.busy := by
  unfold call; split <;> rfl

@[simp] theorem dispatch_ttl (w : World) (m : Msg) : (dispatch w m).ar.ttl = w.ar.ttl := by
  cases m <;> simp only [dispatch]
  split <;> simp
@[simp] theorem dispatch_chan (w : World) (m : Msg) : (dispatch w m).chan = w.chan := by
  cases m <;> simp only [dispatch]
  split <;> simp

theorem dispatch_now_ge (w : World) (m : Msg) : w.now ≤ (dispatch w m).now := by
  cases m <;> simp only [dispatch]
  · split <;> simp
  · omega

/-! ### properties preserved by serving -/

/-- `P` does not mind the clock moving forward or the channel changing -/
def ClockStable (P : World → Prop) : Prop :=
  ∀ (w : World) (n : Nat) (ch : List (Nat × Msg)), P w → w.now ≤ n → P { w with now := n, chan := ch }

theorem serve_pres {P : World → Prop} (hs : ClockStable P) (hd : ∀ w m, P w → P (dispatch w m))
    {w w' : World} {t : Timeout} (hp : P w) (h : serve w t = some w') : P w' := by
  unfold serve at h
  split at h
  · split at h
    · injection h with h; subst h
      exact hs w (max w.now t.tmax) w.chan hp (Nat.le_max_left _ _)
    · cases h
  · split at h
    · injection h with h; subst h
      exact hd _ _ (hs w _ _ hp (Nat.le_max_left _ _))
    · injection h with h; subst h
      exact hs w (max w.now t.tmax) w.chan hp (Nat.le_max_left _ _)

theorem pollAll0_pres {P : World → Prop} (hs : ClockStable P) (hd : ∀ w m, P w → P (dispatch w m))
    {w : World} (hp : P w) : P (pollAll0 w) := by
  unfold pollAll0
  split
  · next w' h => exact serve_pres hs hd hp h
  · exact hp

theorem serveOnce_pres {P : World → Prop} (hs : ClockStable P) (hd : ∀ w m, P w → P (dispatch w m))
    {w : World} (t : Timeout) (hp : P w) : P (serveOnce w t) := by
  unfold serveOnce
  split
  · next w' h => exact serve_pres hs hd hp h
  · exact hp

theorem waitLoop_pres {P : World → Prop} (hs : ClockStable P) (hd : ∀ w m, P w → P (dispatch w m)) :
    ∀ (f : Nat) (w : World), P w →
      (∀ w', waitLoop f w = .done w' → P w') ∧ (∀ w', waitLoop f w = .hang w' → P w') := by
  intro f
  induction f with
  | zero => intro w _; constructor <;> (intro w' h; simp [waitLoop] at h)
  | succ f ih =>
    intro w hp
    unfold waitLoop
    split
    · constructor
      · intro w' h; injection h with h; subst h; exact hp
      · intro w' h; cases h
    · split
      · constructor
        · intro w' h; cases h
        · intro w' h; injection h with h; subst h; exact hp
      · next w1 h1 => exact ih w1 (serve_pres hs hd hp h1)

theorem wait_pres {P : World → Prop} (hs : ClockStable P) (hd : ∀ w m, P w → P (dispatch w m))
    {w : World} (hp : P w) : P (wait w).1 := by
  unfold wait
  have := waitLoop_pres hs hd (waitFuel w) w hp
  split
  · next w' h => split <;> exact this.1 w' h
  · next w' h => exact this.2 w' h
  · exact hp

theorem ready_pres {P : World → Prop} (hs : ClockStable P) (hd : ∀ w m, P w → P (dispatch w m))
    {w : World} (hp : P w) : P (ready w).1 := by
  unfold ready
  split
  · exact hp
  · split
    · exact hp
    · exact pollAll0_pres hs hd hp

theorem error_pres {P : World → Prop} (hs : ClockStable P) (hd : ∀ w m, P w → P (dispatch w m))
    {w : World} (hp : P w) : P (error w).1 := by
  unfold error
  split <;> exact ready_pres hs hd hp

theorem value_pres {P : World → Prop} (hs : ClockStable P) (hd : ∀ w m, P w → P (dispatch w m))
    {w : World} (hp : P w) : P (value w).1 := by
  unfold value
  split
  · split <;> exact wait_pres hs hd hp
  · exact wait_pres hs hd hp

/-- every event except `set_expiry` and `add_callback` only moves the clock, the channel, or dispatches -/
theorem step_pres {P : World → Prop} (hs : ClockStable P) (hd : ∀ w m, P w → P (dispatch w m))
    (hx : ∀ w τ, P w → P (setExpiry w τ)) (hc : ∀ w c, P w → P (addCallback w c))
    {w : World} (hp : P w) (e : Ev) : P (step w e).1 := by
  cases e with
  | setExpiry τ => exact hx w τ hp
  | arrive e v => exact hd w (.reply w.seq e v) hp
  | send d m => exact hs w w.now _ hp (Nat.le_refl _)
  | serve1 => exact pollAll0_pres hs hd hp
  | serveT τ => exact serveOnce_pres hs hd _ hp
  | serveAt t => exact serveOnce_pres hs hd _ hp
  | addCallback c => exact hc w c hp
  | qReady => exact ready_pres hs hd hp
  | qError => exact error_pres hs hd hp
  | qExpired => exact hp
  | qValue => exact value_pres hs hd hp
  | wait => exact wait_pres hs hd hp
  | tick d => exact hs w (w.now + d) w.chan hp (Nat.le_add_right _ _)

/-- the same for events other than `set_expiry` -/
theorem step_pres_noRearm {P : World → Prop} (hs : ClockStable P) (hd : ∀ w m, P w → P (dispatch w m))
    (hc : ∀ w c, P w → P (addCallback w c))
    {w : World} (hp : P w) (e : Ev) (hne : ∀ τ, e ≠ .setExpiry τ) : P (step w e).1 := by
  cases e with
  | setExpiry τ => exact absurd rfl (hne τ)
  | arrive e v => exact hd w (.reply w.seq e v) hp
  | send d m => exact hs w w.now _ hp (Nat.le_refl _)
  | serve1 => exact pollAll0_pres hs hd hp
  | serveT τ => exact serveOnce_pres hs hd _ hp
  | serveAt t => exact serveOnce_pres hs hd _ hp
  | addCallback c => exact hc w c hp
  | qReady => exact ready_pres hs hd hp
  | qError => exact error_pres hs hd hp
  | qExpired => exact hp
  | qValue => exact value_pres hs hd hp
  | wait => exact wait_pres hs hd hp
  | tick d => exact hs w (w.now + d) w.chan hp (Nat.le_add_right _ _)

/-- the clock never runs backwards -/
theorem step_now_ge (w : World) (e : Ev) : w.now ≤ (step w e).1.now := by
  have h := @step_pres (fun x => w.now ≤ x.now)
    (fun x n ch hx hn => Nat.le_trans hx hn)
    (fun x m hx => Nat.le_trans hx (dispatch_now_ge x m))
    (fun x τ hx => hx)
    (fun x c hx => by unfold addCallback; split <;> exact hx)
    w (Nat.le_refl _) e
  exact h

/-! ### readiness is final -/

/-- the result is ready with these contents, no stored callbacks, registry entry gone -/
def Frozen (e : Option Bool) (o : Option Nat) (w : World) : Prop :=
  w.ar.isReady = true ∧ w.ar.isExc = e ∧ w.ar.obj = o ∧ w.ar.callbacks = [] ∧ w.live = false

theorem Frozen.dispatch {e o} {w : World} (h : Frozen e o w) (m : Msg) : Frozen e o (dispatch w m) := by
  obtain ⟨h1, h2, h3, h4, h5⟩ := h
  cases m with
  | reply sq x v => simp [Rpyc.Async.dispatch, h5]; exact ⟨h1, h2, h3, h4, h5⟩
  | other d => exact ⟨h1, h2, h3, h4, h5⟩

theorem Frozen.step {e o} {w : World} (h : Frozen e o w) (ev : Ev) : Frozen e o (step w ev).1 := by
  refine @step_pres (Frozen e o) (fun x n ch hx _ => hx) (fun x m hx => hx.dispatch m)
    (fun x τ hx => hx) ?_ w h ev
  intro x c hx
  obtain ⟨h1, h2, h3, h4, h5⟩ := hx
  simp [addCallback, h1]
  exact ⟨h1, h2, h3, h4, h5⟩

theorem Frozen.runs {e o} : ∀ (evs : List Ev) {w : World}, Frozen e o w → Frozen e o (runs w evs)
  | [], _, h => h
  | ev :: evs, _, h => Frozen.runs evs (h.step ev)

/-- ready ⇒ no stored callbacks and the registry entry is gone: invariant of every run -/
def Inv (w : World) : Prop := w.ar.isReady = true → w.ar.callbacks = [] ∧ w.live = false

theorem Inv.init (t0 : Nat) : Inv (World.init t0) := by
  intro h; cases h

theorem Inv.frozen {w : World} (hi : Inv w) (hr : w.ar.isReady = true) : Frozen w.ar.isExc w.ar.obj w :=
  ⟨hr, rfl, rfl, (hi hr).1, (hi hr).2⟩

theorem Inv.call {w : World} (hl : w.live = false) (e : Bool) (v : Nat) (hi : Inv w) : Inv (call w e v) := by
  unfold Rpyc.Async.call
  split
  · exact hi
  · intro _; exact ⟨rfl, hl⟩

theorem Inv.dispatch {w : World} (hi : Inv w) (m : Msg) : Inv (dispatch w m) := by
  cases m with
  | reply sq x v =>
    simp only [Rpyc.Async.dispatch]
    split
    · exact Inv.call rfl x v (fun hr => ⟨(hi hr).1, rfl⟩)
    · exact hi
  | other d => exact hi

theorem Inv.step {w : World} (hi : Inv w) (ev : Ev) : Inv (step w ev).1 := by
  refine @step_pres Inv (fun x n ch hx _ => hx) (fun x m hx => hx.dispatch m) (fun x τ hx => hx) ?_ w hi ev
  intro x c hx
  unfold addCallback
  split
  · exact hx
  · next hr => intro h; simp at hr; simp [hr] at h

theorem Inv.runs : ∀ (evs : List Ev) {w : World}, Inv w → Inv (runs w evs)
  | [], _, h => h
  | ev :: evs, _, h => Inv.runs evs (h.step ev)

/-! ### expiry while pending is final (until re-armed) -/

/-- pending result whose deadline has passed: same expiry, same (unpublished) contents as `a`, callback log `log`,
the callbacks of `a` still stored (later registrations behind them) -/
def Dead (a : AR) (log : List (Nat × Nat)) (ra : Option Nat) (w : World) : Prop :=
  w.ar.isReady = false ∧ w.ar.ttl = a.ttl ∧ a.ttl.expired w.now = true ∧ w.cbLog = log ∧ w.ar.isExc = a.isExc
    ∧ w.ar.obj = a.obj ∧ w.readyAt = ra ∧ ∃ more, w.ar.callbacks = a.callbacks ++ more

theorem Dead.of_expired {w : World} (h : w.ar.expired w.now = true) : Dead w.ar w.cbLog w.readyAt w := by
  simp [AR.expired] at h
  exact ⟨h.1, rfl, h.2, rfl, rfl, rfl, rfl, [], by simp⟩

theorem Dead.expired {a log ra} {w : World} (h : Dead a log ra w) : w.ar.expired w.now = true := by
  obtain ⟨h1, h2, h3, _⟩ := h
  simp [AR.expired, h1, h2, h3]

theorem Dead.clock {a log ra} : ClockStable (Dead a log ra) := by
  intro w n ch ⟨h1, h2, h3, h4, h5, h6, h7, h8⟩ hn
  exact ⟨h1, h2, Timeout.expired_mono a.ttl hn h3, h4, h5, h6, h7, h8⟩

theorem Dead.call {a log ra} {w : World} (h : Dead a log ra w) (e : Bool) (v : Nat) : call w e v = w := by
  unfold Rpyc.Async.call
  simp [h.expired]

theorem Dead.dispatch {a log ra} {w : World} (h : Dead a log ra w) (m : Msg) : Dead a log ra (dispatch w m) := by
  cases m with
  | reply sq x v =>
    simp only [Rpyc.Async.dispatch]
    split
    · have h' : Dead a log ra { w with live := false } := h
      rw [h'.call]; exact h'
    · exact h
  | other d => exact Dead.clock w (w.now + d) w.chan h (Nat.le_add_right _ _)

/-- any event other than `set_expiry` leaves an expired result expired -/
theorem Dead.step {a log ra} {w : World} (h : Dead a log ra w) (ev : Ev) (hne : ∀ τ, ev ≠ .setExpiry τ) :
    Dead a log ra (step w ev).1 := by
  cases ev with
  | setExpiry τ => exact absurd rfl (hne τ)
  | addCallback c =>
    obtain ⟨h1, h2, h3, h4, h5, h6, h7, more, h8⟩ := h
    have hs : (Rpyc.Async.step w (.addCallback c)).1
        = { w with ar := { w.ar with callbacks := w.ar.callbacks ++ [c] } } := by
      simp [Rpyc.Async.step, addCallback, h1]
    rw [hs]
    exact ⟨h1, h2, h3, h4, h5, h6, h7, more ++ [c], by simp [h8]⟩
  | arrive e v => exact h.dispatch _
  | send d m => exact Dead.clock w w.now _ h (Nat.le_refl _)
  | serve1 => exact pollAll0_pres Dead.clock (fun x m hx => hx.dispatch m) h
  | serveT τ => exact serveOnce_pres Dead.clock (fun x m hx => hx.dispatch m) _ h
  | serveAt t => exact serveOnce_pres Dead.clock (fun x m hx => hx.dispatch m) _ h
  | qReady => exact ready_pres Dead.clock (fun x m hx => hx.dispatch m) h
  | qError => exact error_pres Dead.clock (fun x m hx => hx.dispatch m) h
  | qExpired => exact h
  | qValue => exact value_pres Dead.clock (fun x m hx => hx.dispatch m) h
  | wait => exact wait_pres Dead.clock (fun x m hx => hx.dispatch m) h
  | tick d => exact Dead.clock w (w.now + d) w.chan h (Nat.le_add_right _ _)

def noRearm (evs : List Ev) : Prop := ∀ ev ∈ evs, ∀ τ, ev ≠ .setExpiry τ

theorem Dead.runs {a log ra} : ∀ (evs : List Ev) {w : World}, Dead a log ra w → noRearm evs →
    Dead a log ra (runs w evs)
  | [], _, h, _ => h
  | ev :: evs, _, h, hn =>
    Dead.runs evs (h.step ev (hn ev (List.mem_cons_self ..))) (fun e he => hn e (List.mem_cons_of_mem _ he))

/-- what an expired result shows -/
theorem Dead.wait {a log ra} {w : World} (h : Dead a log ra w) : wait w = (w, .timeout) := by
  obtain ⟨h1, h2, h3, _⟩ := h
  simp [Rpyc.Async.wait, waitFuel, waitLoop, h1, h2, h3]

theorem Dead.value {a log ra} {w : World} (h : Dead a log ra w) : value w = (w, .timeout) := by
  simp [Rpyc.Async.value, h.wait]

theorem Dead.ready {a log ra} {w : World} (h : Dead a log ra w) : ready w = (w, false) := by
  obtain ⟨h1, h2, h3, _⟩ := h
  simp [Rpyc.Async.ready, h1, h2, h3]

theorem Dead.error {a log ra} {w : World} (h : Dead a log ra w) : error w = (w, some false) := by
  simp [Rpyc.Async.error, h.ready]

/-! ### callbacks: once, in registration order -/

/-- registrations (callback, instant) made by the events of a run -/
def regsOf : World → List Ev → List (Nat × Nat)
  | _, [] => []
  | w, .addCallback c :: es => (c, w.now) :: regsOf (step w (.addCallback c)).1 es
  | w, e :: es => regsOf (step w e).1 es

/-- the callback ledger: `regs` are all registrations so far -/
def CbInv (regs : List (Nat × Nat)) (w : World) : Prop :=
  (∀ p ∈ regs, p.2 ≤ w.now) ∧
  ((w.ar.isReady = true ∧ w.ar.callbacks = [] ∧ ∃ t, w.readyAt = some t ∧ t ≤ w.now ∧
      w.cbLog = regs.map (fun p => (p.1, max p.2 t)))
   ∨ (w.ar.isReady = false ∧ w.cbLog = [] ∧ w.ar.callbacks = regs.map Prod.fst))

theorem CbInv.clock {regs} : ClockStable (CbInv regs) := by
  intro w n ch ⟨h1, h2⟩ hn
  refine ⟨fun p hp => Nat.le_trans (h1 p hp) hn, ?_⟩
  rcases h2 with ⟨a, b, t, c, d, e⟩ | h2
  · exact Or.inl ⟨a, b, t, c, Nat.le_trans d hn, e⟩
  · exact Or.inr h2

theorem CbInv.call {regs} {w : World} (h : CbInv regs w) (hr : w.ar.isReady = false) (e : Bool) (v : Nat) :
    CbInv regs (call w e v) := by
  unfold Rpyc.Async.call
  split
  · exact h
  · obtain ⟨h1, h2⟩ := h
    refine ⟨h1, Or.inl ⟨rfl, rfl, w.now, rfl, Nat.le_refl _, ?_⟩⟩
    rcases h2 with ⟨a, _⟩ | ⟨_, b, c⟩
    · rw [hr] at a; cases a
    · simp only [b, c, List.nil_append, List.map_map]
      apply List.map_congr_left
      intro p hp
      simp [Nat.max_eq_right (h1 p hp)]

theorem CbInv.dispatch {regs} {w : World} (hi : Inv w) (h : CbInv regs w) (m : Msg) : CbInv regs (dispatch w m) := by
  cases m with
  | reply sq x v =>
    simp only [Rpyc.Async.dispatch]
    split
    · next hl =>
      have hr : w.ar.isReady = false := by
        cases hr : w.ar.isReady with
        | false => rfl
        | true => have := (hi hr).2; rw [hl.2] at this; cases this
      exact CbInv.call (w := { w with live := false }) h hr x v
    · exact h
  | other d => exact CbInv.clock w (w.now + d) w.chan h (Nat.le_add_right _ _)

/-- `Inv ∧ CbInv regs`, the form that `step_pres` can carry -/
def Ledger (regs : List (Nat × Nat)) (w : World) : Prop := Inv w ∧ CbInv regs w

theorem Ledger.clock {regs} : ClockStable (Ledger regs) :=
  fun w n ch h hn => ⟨h.1, CbInv.clock w n ch h.2 hn⟩

theorem Ledger.dispatch {regs} {w : World} (h : Ledger regs w) (m : Msg) : Ledger regs (dispatch w m) :=
  ⟨h.1.dispatch m, CbInv.dispatch h.1 h.2 m⟩

theorem Ledger.addCallback {regs} {w : World} (h : Ledger regs w) (c : Nat) :
    Ledger (regs ++ [(c, w.now)]) (addCallback w c) := by
  obtain ⟨hi, h1, h2⟩ := h
  have hi' : Inv (Rpyc.Async.addCallback w c) := by
    have := Inv.step hi (.addCallback c); exact this
  refine ⟨hi', ?_⟩
  unfold Rpyc.Async.addCallback
  rcases h2 with ⟨a, b, t, c1, d, e⟩ | ⟨a, b, c1⟩
  · simp only [a, if_true]
    refine ⟨?_, Or.inl ⟨a, b, t, c1, d, ?_⟩⟩
    · intro p hp
      rcases List.mem_append.mp hp with hp | hp
      · exact h1 p hp
      · simp at hp; subst hp; exact Nat.le_refl _
    · simp [e, Nat.max_eq_left d]
  · simp only [a, Bool.false_eq_true, ↓reduceIte]
    refine ⟨?_, Or.inr ⟨rfl, b, ?_⟩⟩
    · intro p hp
      rcases List.mem_append.mp hp with hp | hp
      · exact h1 p hp
      · simp at hp; subst hp; exact Nat.le_refl _
    · simp [c1]

theorem Ledger.step_other {regs} {w : World} (h : Ledger regs w) (ev : Ev) (hne : ∀ c, ev ≠ .addCallback c) :
    Ledger regs (step w ev).1 := by
  cases ev with
  | addCallback c => exact absurd rfl (hne c)
  | setExpiry τ => exact h
  | arrive e v => exact h.dispatch _
  | send d m => exact Ledger.clock w w.now _ h (Nat.le_refl _)
  | serve1 => exact pollAll0_pres Ledger.clock (fun x m hx => hx.dispatch m) h
  | serveT τ => exact serveOnce_pres Ledger.clock (fun x m hx => hx.dispatch m) _ h
  | serveAt t => exact serveOnce_pres Ledger.clock (fun x m hx => hx.dispatch m) _ h
  | qReady => exact ready_pres Ledger.clock (fun x m hx => hx.dispatch m) h
  | qError => exact error_pres Ledger.clock (fun x m hx => hx.dispatch m) h
  | qExpired => exact h
  | qValue => exact value_pres Ledger.clock (fun x m hx => hx.dispatch m) h
  | wait => exact wait_pres Ledger.clock (fun x m hx => hx.dispatch m) h
  | tick d => exact Ledger.clock w (w.now + d) w.chan h (Nat.le_add_right _ _)

theorem Ledger.runs : ∀ (evs : List Ev) {regs} {w : World}, Ledger regs w →
    Ledger (regs ++ regsOf w evs) (runs w evs)
  | [], regs, w, h => by simpa [regsOf, Rpyc.Async.runs] using h
  | .addCallback c :: evs, regs, w, h => by
    have h1 := h.addCallback c
    have := Ledger.runs evs (w := (step w (.addCallback c)).1) h1
    simpa [regsOf, Rpyc.Async.runs, List.append_assoc] using this
  | .setExpiry τ :: evs, regs, w, h => by
    have := Ledger.runs evs (h.step_other (.setExpiry τ) (by intro c hc; cases hc))
    simpa [regsOf, Rpyc.Async.runs] using this
  | .arrive e v :: evs, regs, w, h => by
    have := Ledger.runs evs (h.step_other (.arrive e v) (by intro c hc; cases hc))
    simpa [regsOf, Rpyc.Async.runs] using this
  | .send d m :: evs, regs, w, h => by
    have := Ledger.runs evs (h.step_other (.send d m) (by intro c hc; cases hc))
    simpa [regsOf, Rpyc.Async.runs] using this
  | .serve1 :: evs, regs, w, h => by
    have := Ledger.runs evs (h.step_other .serve1 (by intro c hc; cases hc))
    simpa [regsOf, Rpyc.Async.runs] using this
  | .serveT τ :: evs, regs, w, h => by
    have := Ledger.runs evs (h.step_other (.serveT τ) (by intro c hc; cases hc))
    simpa [regsOf, Rpyc.Async.runs] using this
  | .serveAt t :: evs, regs, w, h => by
    have := Ledger.runs evs (h.step_other (.serveAt t) (by intro c hc; cases hc))
    simpa [regsOf, Rpyc.Async.runs] using this
  | .qReady :: evs, regs, w, h => by
    have := Ledger.runs evs (h.step_other .qReady (by intro c hc; cases hc))
    simpa [regsOf, Rpyc.Async.runs] using this
  | .qError :: evs, regs, w, h => by
    have := Ledger.runs evs (h.step_other .qError (by intro c hc; cases hc))
    simpa [regsOf, Rpyc.Async.runs] using this
  | .qExpired :: evs, regs, w, h => by
    have := Ledger.runs evs (h.step_other .qExpired (by intro c hc; cases hc))
    simpa [regsOf, Rpyc.Async.runs] using this
  | .qValue :: evs, regs, w, h => by
    have := Ledger.runs evs (h.step_other .qValue (by intro c hc; cases hc))
    simpa [regsOf, Rpyc.Async.runs] using this
  | .wait :: evs, regs, w, h => by
    have := Ledger.runs evs (h.step_other .wait (by intro c hc; cases hc))
    simpa [regsOf, Rpyc.Async.runs] using this
  | .tick d :: evs, regs, w, h => by
    have := Ledger.runs evs (h.step_other (.tick d) (by intro c hc; cases hc))
    simpa [regsOf, Rpyc.Async.runs] using this

theorem Ledger.init (t0 : Nat) : Ledger [] (World.init t0) :=
  ⟨Inv.init t0, by
    unfold CbInv
    refine ⟨?_, Or.inr ⟨rfl, rfl, rfl⟩⟩
    intro p hp
    cases hp⟩

/-! ### timing of `wait` -/

/-- what one `serve` under a deadline that has not passed can do to the clock and the busy log -/
theorem serve_time {w w1 : World} {t : Timeout} (h : serve w t = some w1) :
    w1.ar.ttl = w.ar.ttl ∧ w.now ≤ w1.now ∧
    (t.finite = true → w.now ≤ t.tmax →
      (w1.busy = w.busy ∧ w1.now ≤ t.tmax) ∨ (∃ s d, w1.busy = w.busy ++ [(s, d)] ∧ s ≤ t.tmax ∧ w1.now = s + d)) := by
  unfold serve at h
  split at h
  · split at h
    · injection h with h; subst h
      exact ⟨rfl, Nat.le_max_left _ _, fun _ hle => Or.inl ⟨rfl, by simp [Nat.max_eq_right hle]⟩⟩
    · cases h
  · next at_ m rest hch =>
    split at h
    · next hc =>
      injection h with h; subst h
      refine ⟨by simp, Nat.le_trans (Nat.le_max_left w.now at_)
        (dispatch_now_ge { w with now := max w.now at_, chan := rest } m), ?_⟩
      intro hf hle
      have hat : max w.now at_ ≤ t.tmax := by
        simp [hf] at hc
        rcases hc with hc | hc <;> omega
      cases m with
      | reply sq x v =>
        left
        simp only [dispatch]
        split <;> simp [hat]
      | other d =>
        right
        exact ⟨max w.now at_, d, rfl, hat, rfl⟩
    · injection h with h; subst h
      exact ⟨rfl, Nat.le_max_left _ _, fun _ hle => Or.inl ⟨rfl, by simp [Nat.max_eq_right hle]⟩⟩

/-- `wait` raising the timeout error: the deadline is finite, has been reached, and the instant is the later of the
deadline and the call — or the end of an unrelated request whose dispatch began no later than the deadline -/
def TimedOutAt (w w' : World) : Prop :=
  w'.ar.ttl = w.ar.ttl ∧ w.ar.ttl.finite = true ∧ w.ar.ttl.tmax ≤ w'.now ∧
  ((w'.now = max w.now w.ar.ttl.tmax)
   ∨ ∃ s d pre, w'.busy = w.busy ++ pre ++ [(s, d)] ∧ s ≤ w.ar.ttl.tmax ∧ w.ar.ttl.tmax < s + d ∧ w'.now = s + d)

theorem waitLoop_timeout : ∀ (f : Nat) (w w' : World), waitLoop f w = .done w' → w'.ar.isReady = false →
    TimedOutAt w w' := by
  intro f
  induction f with
  | zero => intro w w' h; simp [waitLoop] at h
  | succ f ih =>
    intro w w' h hnr
    unfold waitLoop at h
    split at h
    · next hc =>
      injection h with h; subst h
      simp [hnr, Timeout.expired] at hc
      exact ⟨rfl, hc.1, hc.2, Or.inl (by omega)⟩
    · next hc =>
      split at h
      · cases h
      · next w1 h1 =>
        simp [Timeout.expired] at hc
        obtain ⟨httl, hge, htime⟩ := serve_time h1
        -- is the deadline reached at w1 ?
        by_cases hfin : w.ar.ttl.finite = true
        · have hlt : w.now < w.ar.ttl.tmax := by have := hc.2 hfin; omega
          rcases htime hfin (Nat.le_of_lt hlt) with ⟨hb, hle⟩ | ⟨s, d, hb, hs, hn⟩
          · -- clock still within the deadline: continue
            have := ih w1 w' h hnr
            obtain ⟨a, b, c, dd⟩ := this
            rw [httl] at a b c dd
            refine ⟨a, b, c, ?_⟩
            rcases dd with dd | ⟨s, d, pre, e1, e2, e3, e4⟩
            · left; rw [dd]; omega
            · right; exact ⟨s, d, pre, by rw [e1, hb], e2, e3, e4⟩
          · by_cases hover : w.ar.ttl.tmax ≤ s + d
            · -- the request ran past the deadline: the loop ends here
              have hexp : w1.ar.ttl.expired w1.now = true := by
                simp [Timeout.expired, httl, hfin, hn, hover]
              cases f with
              | zero => simp [waitLoop] at h
              | succ f =>
                unfold waitLoop at h
                simp [hexp] at h
                subst h
                refine ⟨httl, hfin, by omega, ?_⟩
                by_cases heq : w.ar.ttl.tmax = s + d
                · left; omega
                · right; exact ⟨s, d, [], by simp [hb], hs, by omega, hn⟩
            · have := ih w1 w' h hnr
              obtain ⟨a, b, c, dd⟩ := this
              rw [httl] at a b c dd
              refine ⟨a, b, c, ?_⟩
              rcases dd with dd | ⟨s', d', pre, e1, e2, e3, e4⟩
              · left; rw [dd]; omega
              · right; exact ⟨s', d', (s, d) :: pre, by rw [e1, hb]; simp, e2, e3, e4⟩
        · -- no deadline: the loop cannot end un-ready
          have := ih w1 w' h hnr
          obtain ⟨_, b, _⟩ := this
          rw [httl] at b
          exact absurd b hfin

/-! ### the fuel of `wait` is enough -/

theorem serve_chan {w w1 : World} {t : Timeout} (h : serve w t = some w1) :
    w1.chan.length + 1 = w.chan.length ∨
    (w1.chan.length = w.chan.length ∧ w1.ar = w.ar ∧ t.finite = true ∧ t.tmax ≤ w1.now) := by
  unfold serve at h
  split at h
  · next hch =>
    split at h
    · next hf => injection h with h; subst h; right; exact ⟨rfl, rfl, hf, Nat.le_max_right _ _⟩
    · cases h
  · next at_ m rest hch =>
    split at h
    · injection h with h; subst h; left; simp [hch]
    · next hc =>
      injection h with h; subst h; right
      have hf : t.finite = true := by
        cases hfin : t.finite with
        | true => rfl
        | false => simp [hfin] at hc
      exact ⟨rfl, rfl, hf, Nat.le_max_right _ _⟩

theorem waitLoop_fuel : ∀ (f : Nat) (w : World), w.chan.length + 2 ≤ f → waitLoop f w ≠ .fuel := by
  intro f
  induction f with
  | zero => intro w h; omega
  | succ f ih =>
    intro w hf
    unfold waitLoop
    split
    · intro h; cases h
    · next hc =>
      split
      · intro h; cases h
      · next w1 h1 =>
        rcases serve_chan h1 with hlen | ⟨hlen, har, hfin, hle⟩
        · exact ih w1 (by omega)
        · -- deadline reached without consuming: next iteration ends the loop
          cases f with
          | zero => omega
          | succ f =>
            unfold waitLoop
            have : w1.ar.ttl.expired w1.now = true := by
              simp [Timeout.expired, har, hfin, hle]
            simp [this]

/-! ### vocabulary of the property statements -/

/-- the three states of the statement: pending until the reply arrives or the expiry passes -/
inductive Status where
  | pending | ready | expired
  deriving DecidableEq, Repr

def status (w : World) : Status :=
  if w.ar.isReady then .ready else if w.ar.ttl.expired w.now then .expired else .pending

theorem status_expired_iff (w : World) : status w = .expired ↔ w.ar.expired w.now = true := by
  unfold status AR.expired
  cases w.ar.isReady <;> cases w.ar.ttl.expired w.now <;> simp

theorem status_ready_iff (w : World) : status w = .ready ↔ w.ar.isReady = true := by
  unfold status
  cases w.ar.isReady <;> cases w.ar.ttl.expired w.now <;> simp

theorem status_pending_iff (w : World) :
    status w = .pending ↔ w.ar.isReady = false ∧ w.ar.ttl.expired w.now = false := by
  unfold status
  cases w.ar.isReady <;> cases w.ar.ttl.expired w.now <;> simp

/-- a world that some sequence of events produces from a freshly issued request -/
def Reachable (w : World) : Prop := ∃ t0 evs, w = runs (World.init t0) evs

theorem Reachable.inv {w : World} (h : Reachable w) : Inv w := by
  obtain ⟨t0, evs, rfl⟩ := h
  exact Inv.runs evs (Inv.init t0)

theorem runs_append (w : World) (a b : List Ev) : runs w (a ++ b) = runs (runs w a) b := by
  induction a generalizing w with
  | nil => rfl
  | cons e a ih => simp [runs, ih]

theorem Reachable.runs {w : World} (h : Reachable w) (evs : List Ev) : Reachable (runs w evs) := by
  obtain ⟨t0, evs0, rfl⟩ := h
  exact ⟨t0, evs0 ++ evs, (runs_append _ _ _).symm⟩

/-! ### raising / re-entrant callbacks -/

theorem runCbs_plain (now : Nat) : ∀ (cbs : List Cb) (log : List (Nat × Nat)),
    (∀ c ∈ cbs, c.raises = false ∧ c.adds = []) →
    runCbs now cbs log = (log ++ cbs.map (fun c => (c.id, now)), false)
  | [], log, _ => by simp [runCbs]
  | c :: rest, log, h => by
    have hc := h c (List.mem_cons_self ..)
    have := runCbs_plain now rest (log ++ [(c.id, now)]) (fun x hx => h x (List.mem_cons_of_mem _ hx))
    simp [runCbs, hc.1, hc.2, this]

theorem runCbs_raiser (now : Nat) : ∀ (pre : List Cb) (c : Cb) (post : List Cb) (log : List (Nat × Nat)),
    (∀ x ∈ pre, x.raises = false) → c.raises = true →
    runCbs now (pre ++ c :: post) log
      = (log ++ (pre ++ [c]).flatMap (fun x => (x.id, now) :: x.adds.map (fun a => (a, now))), true)
  | [], c, post, log, _, hc => by simp [runCbs, hc]
  | p :: pre, c, post, log, hp, hc => by
    have h0 := hp p (List.mem_cons_self ..)
    have := runCbs_raiser now pre c post (log ++ (p.id, now) :: p.adds.map (fun a => (a, now)))
      (fun x hx => hp x (List.mem_cons_of_mem _ hx)) hc
    simp [runCbs, h0, this, List.append_assoc]

theorem runCbs_noraise (now : Nat) : ∀ (cbs : List Cb) (log : List (Nat × Nat)),
    (∀ c ∈ cbs, c.raises = false) →
    runCbs now cbs log = (log ++ cbs.flatMap (fun x => (x.id, now) :: x.adds.map (fun a => (a, now))), false)
  | [], log, _ => by simp [runCbs]
  | c :: rest, log, h => by
    have hc := h c (List.mem_cons_self ..)
    have := runCbs_noraise now rest (log ++ (c.id, now) :: c.adds.map (fun a => (a, now)))
      (fun x hx => h x (List.mem_cons_of_mem _ hx))
    simp [runCbs, hc, this, List.append_assoc]

theorem runAll_spec (now : Nat) : ∀ (cbs : List Cb) (log : List (Nat × Nat)),
    runAll now cbs log
      = (log ++ cbs.flatMap (fun x => (x.id, now) :: x.adds.map (fun a => (a, now))), cbs.any Cb.raises)
  | [], log => by simp [runAll]
  | c :: rest, log => by
    have := runAll_spec now rest (log ++ (c.id, now) :: c.adds.map (fun a => (a, now)))
    simp [runAll, this, List.append_assoc]

/-! ### definitional lemmas

One-step unfoldings of the model's definitions: they record what the transcription says (and are used as
vocabulary by the property theorems in Props/C15.lean) but carry no content beyond the transcription, which
the correspondence ties to the code.  They are NOT counted as property theorems. -/

/-- a timeout is finite exactly when it is a number ≥ 0 (the code's `timeout is not None and timeout >= 0`) -/
theorem timeout_finite_iff (now : Nat) (τ : Option Int) :
    (Timeout.make now τ).finite = true ↔ ∃ t, τ = some t ∧ 0 ≤ t := by
  cases τ with
  | none => simp [Timeout.make]
  | some t =>
    by_cases h : 0 ≤ t
    · simp [Timeout.make, h]
    · simp [Timeout.make, h]


/-- its deadline is the instant it was set plus the value; it has expired from that instant on, not before -/
theorem timeout_deadline (now : Nat) (t : Int) (h : 0 ≤ t) (n : Nat) :
    (Timeout.make now (some t)).expired n = decide (now + t.toNat ≤ n) := by
  simp [Timeout.make, h, Timeout.expired]


/-- without a (non-negative) timeout nothing ever expires -/
theorem infinite_never_expires (now : Nat) (τ : Option Int) (h : (Timeout.make now τ).finite = false) (n : Nat) :
    (Timeout.make now τ).expired n = false := by
  simp [Timeout.expired, h]


/-- a callback registered on a ready result runs at once and only then -/
theorem callback_after_ready_runs_at_once (w : World) (hr : w.ar.isReady = true) (c : Nat) :
    (step w (.addCallback c)).1 = { w with cbLog := w.cbLog ++ [(c, w.now)] } := by
  simp [step, addCallback, hr]


/-- **A reply arriving after the expiry is discarded**: nothing changes but the connection's registry
entry, and no callback runs — whether it is dispatched directly or taken from the channel by a serve. -/
theorem late_reply_discarded (w : World) (hx : status w = .expired) (e : Bool) (v : Nat) :
    (step w (.arrive e v)).1 = { w with live := false } := by
  have hd := Dead.of_expired ((status_expired_iff w).mp hx)
  simp only [step, dispatch]
  split
  · have h' : Dead w.ar w.cbLog w.readyAt { w with live := false } := hd
    exact h'.call e v
  · next hl => simp at hl; cases w; simp_all


/-- **A reply arriving while pending decides for good**: ready with that value and flag, every stored
callback run at this instant in registration order, the list emptied. -/
theorem reply_accepted_when_pending (w : World) (hp : status w = .pending) (hl : w.live = true) (e : Bool) (v : Nat) :
    (step w (.arrive e v)).1.ar.isReady = true
      ∧ (step w (.arrive e v)).1.ar.isExc = some e ∧ (step w (.arrive e v)).1.ar.obj = some v
      ∧ (step w (.arrive e v)).1.cbLog = w.cbLog ++ w.ar.callbacks.map (fun c => (c, w.now))
      ∧ (step w (.arrive e v)).1.ar.callbacks = []
      ∧ (step w (.arrive e v)).1.readyAt = some w.now
      ∧ (step w (.arrive e v)).1.now = w.now := by
  obtain ⟨h1, h2⟩ := (status_pending_iff w).mp hp
  simp [step, dispatch, hl, call, AR.expired, h1, h2]


/-- `sync_request` with configured timeout `τ` = issue the request, `set_expiry(τ)`, read `.value` — for
every `τ`, `None` included (where `async_request` skips `set_expiry`, which is the same thing). -/
theorem sync_is_async_plus_timeout (w : World) (τ : Option Int) :
    syncRequest w τ = step (step (asyncRequest w none) (.setExpiry τ)).1 .qValue := by
  cases τ with
  | none => rfl
  | some t => rfl


/-- and `timed(proxy, τ)(…)` is `async_request(…, timeout=τ)` -/
theorem timed_is_async_with_timeout (w : World) (τ : Option Int) : timedCall w τ = asyncRequest w τ := by
  cases τ with
  | none => rfl
  | some t => rfl


/-- **Every request gets its own deadline, counted from the instant it is issued** — however old the
connection or a reused `timed` wrapper is: the fresh result of `async_request(timeout=τ)`, of a call of a
`timed(proxy, τ)` wrapper made at any earlier time, and of `sync_request` with configured timeout `τ`
expires at `issue instant + τ` (never for `None`/negative), is pending with an empty callback list, and
its registry entry is live. -/
theorem each_request_own_deadline (w : World) (τ : Option Int) :
    (asyncRequest w τ).ar.ttl = Timeout.make w.now τ
      ∧ (Timed.call w (Timed.make τ)).ar.ttl = Timeout.make w.now τ
      ∧ (asyncRequest w τ).ar.isReady = false ∧ (asyncRequest w τ).ar.callbacks = []
      ∧ (asyncRequest w τ).live = true ∧ (asyncRequest w τ).now = w.now
      ∧ Timed.call w (Timed.make τ) = asyncRequest w τ := by
  cases τ with
  | none => exact ⟨rfl, rfl, rfl, rfl, rfl, rfl, rfl⟩
  | some t => exact ⟨rfl, rfl, rfl, rfl, rfl, rfl, rfl⟩


end Rpyc.Async
