/-
L7 Async — `rpyc/core/async_.py` (`AsyncResult`), `rpyc/lib/__init__.py` (`Timeout`),
`rpyc/core/protocol.py` (`serve`, `poll_all`, `_seq_request_callback`, `async_request`,
`sync_request`), `rpyc/utils/helpers.py` (`timed`).

Time is a discrete virtual clock (`Nat` ticks).  One asynchronous result lives in a `World` together
with the clock, the connection's registry entry for its request (`live`), and the connection's inbound
channel (a FIFO of messages with the instant each becomes readable).  The fields `cbLog`, `readyAt`,
`busy` are ghost instrumentation (what the harness records by observing the real objects); no model
function reads them.
-/
namespace Rpyc.Async

/-! ### `rpyc.lib.Timeout` -/

/-- `Timeout`: `finite`, `tmax` (meaningful iff `finite`) -/
structure Timeout where
  finite : Bool
  tmax : Nat
  deriving DecidableEq, Repr

/-- `Timeout.__init__(timeout)` at instant `now`:
`finite = timeout is not None and timeout >= 0` — a NEGATIVE timeout is infinite, like `None`;
`tmax = time.time() + timeout if finite else None`. -/
def Timeout.make (now : Nat) : Option Int → Timeout
  | none => ⟨false, 0⟩
  | some t => if 0 ≤ t then ⟨true, now + t.toNat⟩ else ⟨false, 0⟩

/-- `Timeout.expired()`: `self.finite and time.time() >= self.tmax` -/
def Timeout.expired (t : Timeout) (now : Nat) : Bool := t.finite && decide (t.tmax ≤ now)

/-- `Timeout.timeleft()`: `max(0, tmax - now) if finite else None` -/
def Timeout.timeleft (t : Timeout) (now : Nat) : Option Nat := if t.finite then some (t.tmax - now) else none

/-- the infinite timeout, `Timeout(None)` -/
def Timeout.inf : Timeout := ⟨false, 0⟩

/-! ### `AsyncResult` -/

/-- the slots of `AsyncResult` (`_conn` is the surrounding `World`) -/
structure AR where
  isReady : Bool
  isExc : Option Bool
  obj : Option Nat
  callbacks : List Nat
  ttl : Timeout
  deriving DecidableEq, Repr

/-- `AsyncResult.__init__` -/
def AR.init : AR := ⟨false, none, none, [], Timeout.inf⟩

/-- the `expired` property: `not self._is_ready and self._ttl.expired()` -/
def AR.expired (a : AR) (now : Nat) : Bool := !a.isReady && a.ttl.expired now

/-- an inbound message of the connection: the reply (or exception) to this result's request, or
unrelated traffic whose dispatch keeps the serving thread busy for `dur` ticks -/
inductive Msg where
  | reply (seq : Nat) (isExc : Bool) (v : Nat)
  | other (dur : Nat)
  deriving DecidableEq, Repr

structure World where
  now : Nat
  /-- the sequence number of the request this result belongs to (`_get_seq_id()`) -/
  seq : Nat
  ar : AR
  /-- `seq in conn._request_callbacks` (popped by the first reply, `_seq_request_callback`) -/
  live : Bool
  /-- inbound channel, FIFO: (instant at which the message becomes readable, message) -/
  chan : List (Nat × Msg)
  /-- ghost: callback invocations (callback, instant) in the order they happened -/
  cbLog : List (Nat × Nat)
  /-- ghost: instant at which `__call__` accepted the reply -/
  readyAt : Option Nat
  /-- ghost: unrelated dispatches (start instant, duration) -/
  busy : List (Nat × Nat)
  deriving DecidableEq, Repr

/-- the world right after `_async_request` has sent the request at instant `t0` -/
def World.init (t0 : Nat) : World := ⟨t0, 0, AR.init, true, [], [], none, []⟩

/-- `AsyncResult.__call__(is_exc, obj)`: dropped iff `expired` at this instant; otherwise publish the
value, set ready, run every stored callback in order, clear the list. -/
def call (w : World) (isExc : Bool) (v : Nat) : World :=
  if w.ar.expired w.now then w
  else { w with
    ar := { w.ar with isExc := some isExc, obj := some v, isReady := true, callbacks := [] }
    cbLog := w.cbLog ++ w.ar.callbacks.map (fun c => (c, w.now))
    readyAt := some w.now }

/-- `Connection._dispatch` of one inbound message.  A reply goes through `_seq_request_callback`:
the registry entry *of its own sequence number* is popped and called; a reply whose sequence number is not
this request's (a late reply to an earlier, abandoned request; a reply to another live request) is none of
this result's business, and without an entry the reply is ignored. -/
def dispatch (w : World) : Msg → World
  | .reply s e v => if s = w.seq ∧ w.live = true then call { w with live := false } e v else w
  | .other d => { w with now := w.now + d, busy := w.busy ++ [(w.now, d)] }

/-- `Connection.serve(timeout)` on the calling thread (receive lock free): `poll(timeout)` returns true
when the head of the channel is readable now or becomes readable no later than the deadline (the clock
moves to that instant), else the clock moves to the deadline and `serve` returns false.  `none`: the
poll blocks forever (no deadline, nothing ever arrives). -/
def serve (w : World) (t : Timeout) : Option World :=
  match w.chan with
  | [] => if t.finite then some { w with now := max w.now t.tmax } else none
  | (at_, m) :: rest =>
    if decide (at_ ≤ w.now) || !t.finite || decide (at_ ≤ t.tmax) then
      some (dispatch { w with now := max w.now at_, chan := rest } m)
    else some { w with now := max w.now t.tmax }

/-- `Connection.poll_all(timeout=0)`: `Timeout(0)` has expired by the first check, so the loop body
(`poll` = `serve(timeout, wait_for_lock=False)`) runs exactly once. -/
def pollAll0 (w : World) : World :=
  match serve w (Timeout.make w.now (some 0)) with
  | some w' => w'
  | none => w

/-- one `serve(t)` by somebody else; if it would block forever nothing changes for this result -/
def serveOnce (w : World) (t : Timeout) : World :=
  match serve w t with
  | some w' => w'
  | none => w

inductive LoopRes where
  | done (w : World)
  | hang (w : World)
  | fuel
  deriving DecidableEq, Repr

/-- `while not self._is_ready and not self._ttl.expired(): self._conn.serve(self._ttl)` -/
def waitLoop : Nat → World → LoopRes
  | 0, _ => .fuel
  | f + 1, w =>
    if w.ar.isReady || w.ar.ttl.expired w.now then .done w
    else match serve w w.ar.ttl with
      | none => .hang w
      | some w' => waitLoop f w'

/-- what a call shows to its caller -/
inductive Obs where
  | unit
  | bool (b : Bool)
  | tri (b : Option Bool)
  | value (v : Option Nat)
  | raised (v : Option Nat)
  | timeout
  | hang
  | fuel
  deriving DecidableEq, Repr

/-- every loop iteration that does not end the loop consumes a message, or reaches the deadline -/
def waitFuel (w : World) : Nat := w.chan.length + 2

/-- `AsyncResult.wait()` -/
def wait (w : World) : World × Obs :=
  match waitLoop (waitFuel w) w with
  | .done w' => if w'.ar.isReady then (w', .unit) else (w', .timeout)
  | .hang w' => (w', .hang)
  | .fuel => (w, .fuel)

/-- the `ready` property -/
def ready (w : World) : World × Bool :=
  if w.ar.isReady then (w, true)
  else if w.ar.ttl.expired w.now then (w, false)
  else (pollAll0 w, (pollAll0 w).ar.isReady)

/-- the `error` property: `self.ready and self._is_exc` (a Python `and`: yields `_is_exc` itself) -/
def error (w : World) : World × Option Bool :=
  if (ready w).2 then ((ready w).1, (ready w).1.ar.isExc) else ((ready w).1, some false)

/-- the `value` property -/
def value (w : World) : World × Obs :=
  match (wait w).2 with
  | .unit => if (wait w).1.ar.isExc = some true then ((wait w).1, .raised (wait w).1.ar.obj)
             else ((wait w).1, .value (wait w).1.ar.obj)
  | o => ((wait w).1, o)

/-- `AsyncResult.add_callback(func)` -/
def addCallback (w : World) (c : Nat) : World :=
  if w.ar.isReady then { w with cbLog := w.cbLog ++ [(c, w.now)] }
  else { w with ar := { w.ar with callbacks := w.ar.callbacks ++ [c] } }

/-- `AsyncResult.set_expiry(timeout)` -/
def setExpiry (w : World) (τ : Option Int) : World :=
  { w with ar := { w.ar with ttl := Timeout.make w.now τ } }

/-- events -/
inductive Ev where
  /-- `res.set_expiry(τ)` -/
  | setExpiry (τ : Option Int)
  /-- the reply for this request is dispatched at this instant (by whichever thread serves) -/
  | arrive (isExc : Bool) (v : Nat)
  /-- the peer's message becomes readable `delay` ticks from now -/
  | send (delay : Nat) (m : Msg)
  /-- unrelated activity of this thread serves the connection once: `conn.serve(0)` -/
  | serve1
  /-- unrelated activity serves the connection once with a timeout of its own, `conn.serve(τ)` … -/
  | serveT (τ : Option Int)
  /-- … or up to an absolute deadline of its own (another result's `wait` loop: `serve(other._ttl)`) -/
  | serveAt (t : Timeout)
  | addCallback (c : Nat)
  | qReady | qError | qExpired | qValue | wait
  /-- the thread does something else for `d` ticks -/
  | tick (d : Nat)
  deriving DecidableEq, Repr

def step (w : World) : Ev → World × Obs
  | .setExpiry τ => (setExpiry w τ, .unit)
  | .arrive e v => (dispatch w (.reply w.seq e v), .unit)
  | .send d m => ({ w with chan := w.chan ++ [(w.now + d, m)] }, .unit)
  | .serve1 => (pollAll0 w, .unit)
  | .serveT τ => (serveOnce w (Timeout.make w.now τ), .unit)
  | .serveAt t => (serveOnce w t, .unit)
  | .addCallback c => (addCallback w c, .unit)
  | .qReady => ((ready w).1, .bool (ready w).2)
  | .qError => ((error w).1, .tri (error w).2)
  | .qExpired => (w, .bool (w.ar.expired w.now))
  | .qValue => value w
  | .wait => wait w
  | .tick d => ({ w with now := w.now + d }, .unit)

/-- run a sequence of events, collecting what each showed -/
def run : World → List Ev → World × List Obs
  | w, [] => (w, [])
  | w, e :: es => ((run (step w e).1 es).1, (step w e).2 :: (run (step w e).1 es).2)

/-- final world of a run -/
def runs : World → List Ev → World
  | w, [] => w
  | w, e :: es => runs (step w e).1 es

/-! ### requests -/

/-- `Connection.async_request(handler, *args, timeout=τ)`: next sequence number, new result, send, and
`if timeout is not None: res.set_expiry(timeout)`; the ghost logs are those of the new result -/
def asyncRequest (w : World) (τ : Option Int) : World :=
  match τ with
  | none => { w with seq := w.seq + 1, ar := AR.init, live := true, cbLog := [], readyAt := none }
  | some t => setExpiry { w with seq := w.seq + 1, ar := AR.init, live := true, cbLog := [], readyAt := none } (some t)

/-- `Connection.sync_request(handler, *args)` with `config["sync_request_timeout"] = τ`:
`self.async_request(handler, *args, timeout=τ).value` -/
def syncRequest (w : World) (τ : Option Int) : World × Obs := value (asyncRequest w τ)

/-- `timed(proxy, τ)(*args)`: `res = async_(proxy)(*args); res.set_expiry(τ); return res` -/
def timedCall (w : World) (τ : Option Int) : World := setExpiry (asyncRequest w none) τ

/-! ### callbacks that raise or re-enter

The worlds above take callbacks to return normally and not to touch the result.  `callR` is `__call__`
alone with callbacks that may raise and may register further callbacks from inside themselves. -/

/-- a callback: when run it registers `adds` (callbacks that simply return) on the result it is given — the
result is ready by then, so `add_callback` runs each of them at once — and then returns or raises.  (Reading
`res.value` or issuing a new request from inside a callback leaves this result as it is: such callbacks are
plain `⟨id, false, []⟩`.) -/
structure Cb where
  id : Nat
  raises : Bool
  adds : List Nat
  deriving DecidableEq, Repr

/-- `for cb in self._callbacks: cb(self)`: stops at the first callback that raises; returns the invocations
(callback, instant) in order and whether one raised -/
def runCbs (now : Nat) : List Cb → List (Nat × Nat) → List (Nat × Nat) × Bool
  | [], log => (log, false)
  | c :: rest, log =>
    if c.raises then (log ++ (c.id, now) :: c.adds.map (fun a => (a, now)), true)
    else runCbs now rest (log ++ (c.id, now) :: c.adds.map (fun a => (a, now)))

structure CallOut where
  isReady : Bool
  isExc : Option Bool
  obj : Option Nat
  log : List (Nat × Nat)
  /-- callbacks still stored in `_callbacks` afterwards -/
  stored : List Nat
  /-- the exception of a callback propagates out of `__call__` into whoever is serving -/
  raised : Bool
  deriving DecidableEq, Repr

/-- the loop that runs *every* callback: `for cb in callbacks: try: cb(self) except Exception as ex: remember the
first`; returns the invocations in order and whether any callback raised -/
def runAll (now : Nat) : List Cb → List (Nat × Nat) → List (Nat × Nat) × Bool
  | [], log => (log, false)
  | c :: rest, log =>
    ((runAll now rest (log ++ (c.id, now) :: c.adds.map (fun a => (a, now)))).1,
     c.raises || (runAll now rest (log ++ (c.id, now) :: c.adds.map (fun a => (a, now)))).2)

/-- `AsyncResult.__call__(is_exc, obj)` with such callbacks.  `allRun` is measured on the source
(`Gen.Async.callbacksAllRun`); `propagates`
(`Gen.Async.callbackErrorPropagates`, also measured) says whether a callback's error leaves `__call__`:
* `true`: the list is copied and cleared, every callback runs in order, the first error is re-raised after the
  loop;
* `false`: the loop stops at the first callback that raises — the value has been published and the result is
  ready, the callbacks after it are not run, and `del self._callbacks[:]` is not reached (the whole list stays
  stored and is never run again: the registry entry is gone). -/
def callR (allRun : Bool) (propagates : Bool) (expired : Bool) (now : Nat) (cbs : List Cb) (isExc : Bool) (v : Nat) :
    CallOut :=
  if expired then ⟨false, none, none, [], cbs.map Cb.id, false⟩
  else if allRun then ⟨true, some isExc, some v, (runAll now cbs []).1, [], propagates && (runAll now cbs []).2⟩
  else if (runCbs now cbs []).2 then ⟨true, some isExc, some v, (runCbs now cbs []).1, cbs.map Cb.id, true⟩
  else ⟨true, some isExc, some v, (runCbs now cbs []).1, [], false⟩

/-! ### a registration racing with the publication (another thread delivers the reply)

`add_callback` is two steps: it tests `_is_ready`, then appends (or runs the callback).  When the reply is
published by another thread (a `BgServingThread`) between the two, what happens depends on whether the two
steps and `__call__`'s "set ready + take the list" exclude each other (`atomic`, measured on the source). -/

/-- `add_callback(c)` on this thread with the reply `(isExc, v)` delivered by another thread right after the test
of `_is_ready`:
* `atomic`: the publisher has to wait until the registration is complete — the outcome is the serial order
  "register, then publish";
* not `atomic`: the test said "not ready", the publication runs and clears the list, then `c` is appended to it:
  stored for ever, never run.
When the test says "ready" the callback simply runs at once (and the reply, a duplicate, is ignored). -/
def addCallbackRace (atomic : Bool) (w : World) (c : Nat) (isExc : Bool) (v : Nat) : World :=
  if w.ar.isReady || atomic then dispatch (addCallback w c) (.reply w.seq isExc v)
  else
    { dispatch w (.reply w.seq isExc v) with
      ar := { (dispatch w (.reply w.seq isExc v)).ar with
              callbacks := (dispatch w (.reply w.seq isExc v)).ar.callbacks ++ [c] } }

/-- `helpers.timed`: the wrapper keeps the *timeout value* (`self.timeout = timeout`), not a deadline; the
deadline of each result is computed when that call is made -/
structure Timed where
  timeout : Option Int
  deriving DecidableEq, Repr

/-- `timed.__init__(proxy, timeout)` -/
def Timed.make (τ : Option Int) : Timed := ⟨τ⟩

/-- `timed.__call__`: `res = self.proxy(*args); res.set_expiry(self.timeout); return res` -/
def Timed.call (w : World) (t : Timed) : World := timedCall w t.timeout

end Rpyc.Async
