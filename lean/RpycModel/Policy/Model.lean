import RpycModel.Base.Bytes
import RpycModel.Gen.Policy
/-
L4 — attribute access policy.

Source modelled (rpyc/core/protocol.py unless said otherwise):
  * `DEFAULT_CONFIG`, `Connection.__init__`  (`self._config = DEFAULT_CONFIG.copy(); self._config.update(config)`)
  * `Connection._check_attr`     → `checkAttr`, `checkProbes`
  * `Connection._access_attr`    → `run` / `accessAttr`
  * `_handle_getattr/_setattr/_delattr/_callattr/_ctxexit/_cmp` → `handle`
  * `Service._rpyc_setattr/_rpyc_delattr` (core/service.py) → `serviceObj`
  * `helpers.restricted` (utils/helpers.py) → `restrictedView`
  * `SlaveService.on_connect` (core/service.py) → `onConnectSlave`
  * histories of connections → `World`, `Event`, `step`, `runEvents`

Text is `PyStr = List Nat` (code points), so lone surrogates and any prefix are representable.
Environment facts the model never computes: `hasattr(obj, n)` (field `has`), what a user-written hook does
(field `hook`).  In the theorems they are universally quantified; in the driver the harness supplies them.
-/
namespace Rpyc.Policy
open Rpyc

abbrev PyStr := List Nat

/-- the three kinds of operation, i.e. the `param` argument `"allow_getattr" | "allow_setattr" | "allow_delattr"` -/
inductive Op where
  | get | set | del
  deriving DecidableEq, Repr, Inhabited

/-- the part of a connection's `_config` dict that attribute policy and `SlaveService.on_connect` read or write -/
structure Config where
  allowSafe : Bool
  allowExposed : Bool
  allowPublic : Bool
  allowAll : Bool
  allowGet : Bool
  allowSet : Bool
  allowDel : Bool
  exposedPrefix : PyStr
  safe : List PyStr
  allowPickle : Bool
  importCustomExc : Bool
  instantiateCustomExc : Bool
  instantiateOldstyleExc : Bool
  deriving DecidableEq, Repr, Inhabited

/-- `protocol.DEFAULT_CONFIG` (generated from the live dict) -/
def defaultConfig : Config :=
  { allowSafe := Gen.Policy.cfgAllowSafeAttrs
    allowExposed := Gen.Policy.cfgAllowExposedAttrs
    allowPublic := Gen.Policy.cfgAllowPublicAttrs
    allowAll := Gen.Policy.cfgAllowAllAttrs
    allowGet := Gen.Policy.cfgAllowGetattr
    allowSet := Gen.Policy.cfgAllowSetattr
    allowDel := Gen.Policy.cfgAllowDelattr
    exposedPrefix := Gen.Policy.cfgExposedPrefixCp
    safe := Gen.Policy.cfgSafeAttrsCp
    allowPickle := Gen.Policy.cfgAllowPickle
    importCustomExc := Gen.Policy.cfgImportCustomExceptions
    instantiateCustomExc := Gen.Policy.cfgInstantiateCustomExceptions
    instantiateOldstyleExc := Gen.Policy.cfgInstantiateOldstyleExceptions }

/-- `config[perm]` -/
def Config.perm (c : Config) : Op → Bool
  | .get => c.allowGet
  | .set => c.allowSet
  | .del => c.allowDel

/-! ### `_check_attr` -/

/-- truthiness of `prefix = config["allow_exposed_attrs"] and config["exposed_prefix"]`:
`False` when exposed attributes are off, and an empty prefix string is falsy too -/
def prefixTruthy (c : Config) : Bool := c.allowExposed && !c.exposedPrefix.isEmpty

/-- `prefix + name` -/
def twin (c : Config) (name : PyStr) : PyStr := c.exposedPrefix ++ name

/-- `name.startswith("_")` -/
def startsUnderscore (name : PyStr) : Bool := ([95] : PyStr).isPrefixOf name

/-- the four `plain |= …` lines.  `name.startswith(prefix)` is evaluated only when `allow_exposed_attrs` is true
(short circuit), and then `prefix` is the prefix string; every string starts with the empty prefix. -/
def plainAllowed (c : Config) (name : PyStr) : Bool :=
  c.allowAll
  || (c.allowExposed && c.exposedPrefix.isPrefixOf name)
  || (c.allowSafe && c.safe.contains name)
  || (c.allowPublic && !startsUnderscore name)

/-- `has_exposed = prefix and hasattr(obj, prefix + name)` (truthiness) -/
def hasExposed (c : Config) (has : PyStr → Bool) (name : PyStr) : Bool :=
  prefixTruthy c && has (twin c name)

/-- `Connection._check_attr(obj, name, perm)`: the name to access, or `AttributeError` -/
def checkAttr (c : Config) (has : PyStr → Bool) (name : PyStr) (op : Op) : Except Err PyStr :=
  if !c.perm op then .error .attributeError
  else if plainAllowed c name && (!hasExposed c has name || has name) then .ok name
  else if hasExposed c has name then .ok (twin c name)
  else if plainAllowed c name then .ok name      -- "chance for better traceback" (unreachable, kept as in the source)
  else .error .attributeError

/-- the `hasattr` probes `_check_attr` makes, in order: `prefix + name` iff the prefix is truthy,
then `name` iff `plain and has_exposed` -/
def checkProbes (c : Config) (has : PyStr → Bool) (name : PyStr) (op : Op) : List PyStr :=
  if !c.perm op then []
  else (if prefixTruthy c then [twin c name] else [])
    ++ (if plainAllowed c name && hasExposed c has name then [name] else [])

/-! ### names as they arrive, objects, hooks, effect log -/

/-- the `name` argument of `_access_attr`: exactly `str`, exactly `bytes`, or anything else
(int, None, tuple, an instance of a *subclass* of str/bytes, bytearray, …) -/
inductive Name where
  | text (s : PyStr)
  | bytes (b : Bytes)
  | other
  deriving DecidableEq, Repr, Inhabited

/-- `if type(name) is bytes: name = str(name, "utf8") elif type(name) is not str: raise TypeError` -/
def decodeName : Name → Except Err PyStr
  | .text s => .ok s
  | .bytes b =>
    match utf8Dec false b with
    | some s => .ok s
    | none => .error .unicodeDecodeError
  | .other => .error .typeError

/-- observable events.  `probe` is a `hasattr` made by `_check_attr` (a read that decides nothing by itself);
`access` is the default accessor `getattr/setattr/delattr(obj, name, …)`; `hook` is the call of the type's
`_rpyc_<op>attr`; `call` is `_handle_call` applied to the value obtained under `name`. -/
inductive Ev where
  | probe (obj : Nat) (name : PyStr)
  | access (obj : Nat) (op : Op) (name : PyStr)
  | hook (obj : Nat) (op : Op) (name : PyStr)
  | call (obj : Nat) (name : PyStr)
  deriving DecidableEq, Repr, Inhabited

/-- an event that reaches an attribute for real (everything but a `hasattr` probe) -/
def Ev.isEffect : Ev → Bool
  | .probe _ _ => false
  | _ => true

/-- what a type-level hook does with the (decoded) name: whatever it likes (`evs`), and then it either returns
(`err = none`) or raises.  Entirely the object's business. -/
structure HookRes where
  evs : List Ev
  err : Option Err
  deriving Repr, Inhabited

abbrev Hook := PyStr → HookRes

/-- an object as the policy sees it -/
structure Obj where
  /-- harness-assigned identity -/
  id : Nat
  /-- `hasattr(obj, n)` -/
  has : PyStr → Bool
  /-- `getattr(type(obj), "_rpyc_<op>attr", None)`; a hook set to `None` counts as absent, an
  instance-level attribute of that name is not looked at -/
  hook : Op → Option Hook

/-- an object whose type defines no hooks -/
def plainObj (id : Nat) (has : PyStr → Bool) : Obj := { id := id, has := has, hook := fun _ => none }

/-- a hook that refuses every name with `AttributeError` and touches nothing (`Service._rpyc_setattr/_rpyc_delattr`) -/
def denyHook : Hook := fun _ => { evs := [], err := some .attributeError }

/-- a hook that forwards exactly the listed names to `target` and refuses the rest with `e` -/
def listHook (target : Nat) (op : Op) (names : List PyStr) (e : Err) : Hook := fun n =>
  if names.contains n then { evs := [.access target op n], err := none } else { evs := [], err := some e }

/-- an instance of (a subclass of) `rpyc.Service`: which hooks the class defines and that they deny is generated -/
def serviceObj (id : Nat) (has : PyStr → Bool) : Obj :=
  { id := id, has := has,
    hook := fun
      | .get => none
      | .set => if Gen.Policy.serviceSetHookDenies then some denyHook else none
      | .del => if Gen.Policy.serviceDelHookDenies then some denyHook else none }

/-- `helpers.restricted(target, attrs, wattrs)`: class `Restricted` defines `_rpyc_getattr` (name in `attrs` →
`getattr(target, name)`, else AttributeError) and `_rpyc_setattr` (same with `wattrs`); it defines NO
`_rpyc_delattr`, so deletion falls to the configuration and acts on the view object itself.
`wattrs = none` is Python's `wattrs=None` (defaults to `attrs`). `viewHas` = `hasattr(view, n)`. -/
def restrictedView (id target : Nat) (attrs : List PyStr) (wattrs : Option (List PyStr)) (viewHas : PyStr → Bool) : Obj :=
  { id := id, has := viewHas,
    hook := fun
      | .get => if Gen.Policy.restrictedHasGetHook then some (listHook target .get attrs .attributeError) else none
      | .set => if Gen.Policy.restrictedHasSetHook then
          some (listHook target .set (match wattrs with | some w => w | none => attrs) .attributeError) else none
      | .del => none }

/-! ### `_access_attr` -/

/-- which accessor ended up being invoked, and with which name -/
inductive Action where
  | direct (name : PyStr)      -- `getattr/setattr/delattr(obj, name, *args)` after `_check_attr` translated the name
  | hooked (name : PyStr)      -- `type(obj)._rpyc_<op>attr(obj, name, *args)` returned
  deriving DecidableEq, Repr, Inhabited

def Action.name : Action → PyStr
  | .direct n => n
  | .hooked n => n

/-- result of one `_access_attr` call: what was decided (or the exception raised before / by the hook) and the
events it caused, in order -/
structure Res where
  out : Except Err Action
  log : List Ev
  deriving Repr, Inhabited

def probeEvs (id : Nat) (ns : List PyStr) : List Ev := ns.map (Ev.probe id)

/-- after name typing, with a hook present: the hook decides -/
def runHook (o : Obj) (h : Hook) (name : PyStr) (op : Op) : Res :=
  match (h name).err with
  | some e => { out := .error e, log := .hook o.id op name :: (h name).evs }
  | none => { out := .ok (.hooked name), log := .hook o.id op name :: (h name).evs }

/-- after name typing, without a hook: `_check_attr` then the default accessor -/
def runDefault (c : Config) (o : Obj) (name : PyStr) (op : Op) : Res :=
  match checkAttr c o.has name op with
  | .error e => { out := .error e, log := probeEvs o.id (checkProbes c o.has name op) }
  | .ok n => { out := .ok (.direct n), log := probeEvs o.id (checkProbes c o.has name op) ++ [.access o.id op n] }

/-- after name typing -/
def runNamed (c : Config) (o : Obj) (name : PyStr) (op : Op) : Res :=
  match o.hook op with
  | some h => runHook o h name op
  | none => runDefault c o name op

/-- `Connection._access_attr(obj, name, args, overrider, param, default)` -/
def run (c : Config) (o : Obj) (nm : Name) (op : Op) : Res :=
  match decodeName nm with
  | .error e => { out := .error e, log := [] }
  | .ok name => runNamed c o name op

def accessAttr (c : Config) (o : Obj) (nm : Name) (op : Op) : Except Err Action := (run c o nm op).out

/-! ### request handlers that reach attributes by name -/

inductive Req where
  | getattr | setattr | delattr
  | callattr            -- `_handle_callattr`: `_handle_getattr(obj, name)` then `_handle_call`
  deriving DecidableEq, Repr, Inhabited

/-- the `(overrider, param, default)` triple each handler passes (cross-checked against the generated call sites) -/
def Req.op : Req → Op
  | .getattr => .get
  | .setattr => .set
  | .delattr => .del
  | .callattr => .get

/-- append the call of the obtained value.  After the default accessor the call happens iff `getattr(obj, n)` returned,
i.e. iff the object has `n` (that is what `hasattr` means); otherwise the object's own AttributeError propagates.
A hook that returned, returned a value. -/
def thenCall (o : Obj) (r : Res) : Res :=
  match r.out with
  | .ok (.direct n) => { out := .ok (.direct n), log := if o.has n then r.log ++ [.call o.id n] else r.log }
  | .ok (.hooked n) => { out := .ok (.hooked n), log := r.log ++ [.call o.id n] }
  | .error e => { out := .error e, log := r.log }

/-- `_handle_getattr / _handle_setattr / _handle_delattr / _handle_callattr` -/
def handle (c : Config) (o : Obj) (nm : Name) : Req → Res
  | .callattr => thenCall o (run c o nm .get)
  | r => run c o nm r.op

/-- `_handle_ctxexit(obj, exc)`: `_handle_getattr(obj, "__exit__")(exc, typ, tb)` -/
def exitName : PyStr := [95, 95, 101, 120, 105, 116, 95, 95]
def handleCtxExit (c : Config) (o : Obj) : Res := thenCall o (run c o (.text exitName) .get)

/-- `_handle_cmp(obj, other, op)`: `_access_attr(type(obj), op, (), "_rpyc_getattr", "allow_getattr", getattr)(obj, other)`;
`ty` is `type(obj)` seen as an object (its hooks are those of the metaclass) -/
def handleCmp (c : Config) (ty : Obj) (opName : Name) : Res := thenCall ty (run c ty opName .get)

/-! ### connections and histories -/

/-- the caller's `config` dict, restricted to the modelled keys: `none` = key not given -/
structure Overlay where
  allowSafe : Option Bool := none
  allowExposed : Option Bool := none
  allowPublic : Option Bool := none
  allowAll : Option Bool := none
  allowGet : Option Bool := none
  allowSet : Option Bool := none
  allowDel : Option Bool := none
  exposedPrefix : Option PyStr := none
  safe : Option (List PyStr) := none
  allowPickle : Option Bool := none
  importCustomExc : Option Bool := none
  instantiateCustomExc : Option Bool := none
  instantiateOldstyleExc : Option Bool := none
  deriving DecidableEq, Repr, Inhabited

/-- one key of `dict.update`: given → replaces, absent → keeps -/
def upd {α} (new : Option α) (old : α) : α :=
  match new with
  | some v => v
  | none => old

/-- `cfg = base.copy(); cfg.update(overlay)` -/
def applyOverlay (base : Config) (ov : Overlay) : Config :=
  { allowSafe := upd ov.allowSafe base.allowSafe
    allowExposed := upd ov.allowExposed base.allowExposed
    allowPublic := upd ov.allowPublic base.allowPublic
    allowAll := upd ov.allowAll base.allowAll
    allowGet := upd ov.allowGet base.allowGet
    allowSet := upd ov.allowSet base.allowSet
    allowDel := upd ov.allowDel base.allowDel
    exposedPrefix := upd ov.exposedPrefix base.exposedPrefix
    safe := upd ov.safe base.safe
    allowPickle := upd ov.allowPickle base.allowPickle
    importCustomExc := upd ov.importCustomExc base.importCustomExc
    instantiateCustomExc := upd ov.instantiateCustomExc base.instantiateCustomExc
    instantiateOldstyleExc := upd ov.instantiateOldstyleExc base.instantiateOldstyleExc }

/-- the classic-mode overrides: what a connection established through `SlaveService._connect` has whatever the caller
asked for (generated by observing established connections; in the pinned code `on_connect` applies them) -/
def slaveOverlay : Overlay :=
  { allowSafe := Gen.Policy.slaveSetAllowSafeAttrs
    allowExposed := Gen.Policy.slaveSetAllowExposedAttrs
    allowPublic := Gen.Policy.slaveSetAllowPublicAttrs
    allowAll := Gen.Policy.slaveSetAllowAllAttrs
    allowGet := Gen.Policy.slaveSetAllowGetattr
    allowSet := Gen.Policy.slaveSetAllowSetattr
    allowDel := Gen.Policy.slaveSetAllowDelattr
    exposedPrefix := none
    safe := none
    allowPickle := Gen.Policy.slaveSetAllowPickle
    importCustomExc := Gen.Policy.slaveSetImportCustomExceptions
    instantiateCustomExc := Gen.Policy.slaveSetInstantiateCustomExceptions
    instantiateOldstyleExc := Gen.Policy.slaveSetInstantiateOldstyleExceptions }

/-- classic mode applied to a connection's own configuration (`SlaveService.on_connect(conn)` in the pinned code) -/
def onConnectSlave (c : Config) : Config := applyOverlay c slaveOverlay

/-- life of one connection slot -/
inductive ConnSt where
  | fresh                      -- no connection with this identity yet
  | live (cfg : Config)        -- `conn._config`
  | closed (cfg : Config)      -- closed (`_config` is kept by `_cleanup`, but no request is served any more)
  deriving DecidableEq, Repr, Inhabited

/-- `d.update(e)` on a caller's settings dict: keys of `e` replace, the others stay -/
def mergeOverlay (d e : Overlay) : Overlay :=
  { allowSafe := upd (e.allowSafe.map some) d.allowSafe
    allowExposed := upd (e.allowExposed.map some) d.allowExposed
    allowPublic := upd (e.allowPublic.map some) d.allowPublic
    allowAll := upd (e.allowAll.map some) d.allowAll
    allowGet := upd (e.allowGet.map some) d.allowGet
    allowSet := upd (e.allowSet.map some) d.allowSet
    allowDel := upd (e.allowDel.map some) d.allowDel
    exposedPrefix := upd (e.exposedPrefix.map some) d.exposedPrefix
    safe := upd (e.safe.map some) d.safe
    allowPickle := upd (e.allowPickle.map some) d.allowPickle
    importCustomExc := upd (e.importCustomExc.map some) d.importCustomExc
    instantiateCustomExc := upd (e.instantiateCustomExc.map some) d.instantiateCustomExc
    instantiateOldstyleExc := upd (e.instantiateOldstyleExc.map some) d.instantiateOldstyleExc }

/-- the process: the module-level `DEFAULT_CONFIG`, the settings-dict OBJECTS the application keeps (and may edit and
reuse after having passed them to a connection), and every connection's own `_config` -/
structure World where
  dflt : Config
  dicts : Nat → Overlay
  conns : Nat → ConnSt

def World.init : World := { dflt := defaultConfig, dicts := fun _ => {}, conns := fun _ => .fresh }

inductive Event where
  | open (i : Nat) (ov : Overlay)      -- `Connection(root, channel, config)` with a literal dict
  | openWith (i : Nat) (d : Nat)       -- `Connection(root, channel, D)` with the application's dict OBJECT `D = dicts d`
  | slave (i : Nat)                    -- connection i is the classic-mode one: its own copy gets the classic overrides
  | close (i : Nat)                    -- `conn_i.close()`
  | access (i : Nat)                   -- conn i serves any attribute request (decisions read, never write, the config)
  | editDict (d : Nat) (ov : Overlay)  -- the application edits its dict object `d` (`D.update(ov)`), e.g. after opening with it
  | setDefault (ov : Overlay)          -- the application edits the module-level defaults (`DEFAULT_CONFIG.update(ov)`)
  deriving DecidableEq, Repr, Inhabited

/-- the connection an event belongs to; edits of application dicts and of the defaults belong to none -/
def Event.conn : Event → Option Nat
  | .open i _ => some i
  | .openWith i _ => some i
  | .slave i => some i
  | .close i => some i
  | .access i => some i
  | .editDict _ _ => none
  | .setDefault _ => none

/-- environment events: they decide what connections opened LATER start from -/
def Event.isEnv : Event → Bool
  | .editDict _ _ => true
  | .setDefault _ => true
  | _ => false

def World.setConn (w : World) (i : Nat) (s : ConnSt) : World :=
  { w with conns := fun k => if k = i then s else w.conns k }

/-- one event.  Opening takes a SNAPSHOT: `DEFAULT_CONFIG.copy()` updated with the dict's content at that moment.
Events that make no sense for the slot's state (opening an identity twice, on_connect or close of a connection that
is not live) leave the world unchanged. -/
def step (w : World) : Event → World
  | .open i ov =>
    match w.conns i with
    | .fresh => w.setConn i (.live (applyOverlay w.dflt ov))
    | _ => w
  | .openWith i d =>
    match w.conns i with
    | .fresh => w.setConn i (.live (applyOverlay w.dflt (w.dicts d)))
    | _ => w
  | .slave i =>
    match w.conns i with
    | .live cfg => w.setConn i (.live (onConnectSlave cfg))
    | _ => w
  | .close i =>
    match w.conns i with
    | .live cfg => w.setConn i (.closed cfg)
    | _ => w
  | .access _ => w
  | .editDict d ov => { w with dicts := fun k => if k = d then mergeOverlay (w.dicts d) ov else w.dicts k }
  | .setDefault ov => { w with dflt := applyOverlay w.dflt ov }

def runEvents (w : World) : List Event → World
  | [] => w
  | e :: es => runEvents (step w e) es

/-- what connection `i` answers to an attribute request in world `w` (`none`: not a live connection) -/
def World.decide (w : World) (i : Nat) (o : Obj) (nm : Name) (r : Req) : Option Res :=
  match w.conns i with
  | .live cfg => some (handle cfg o nm r)
  | _ => none

end Rpyc.Policy
