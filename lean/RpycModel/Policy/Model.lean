import RpycModel.Base.Bytes
import RpycModel.Gen.Policy
/-
L4 — attribute access policy.

Source modelled (rpyc/core/protocol.py unless said otherwise):
  * `DEFAULT_CONFIG`, `Connection.__init__`  (`self._config = DEFAULT_CONFIG.copy(); self._config.update(config)`)
  * `Connection._check_attr`     → `checkAttr`, `checkProbes`
  * `Connection._access_attr`    → `run` / `accessAttr`
  * `_handle_getattr/_setattr/_delattr/_callattr/_ctxexit/_cmp` → `handle`
  * `Service._rpyc_setattr/_rpyc_delattr` (core/service.py) → `serviceObj`
  * `helpers.restricted` (utils/helpers.py) → `restrictedView`
  * `SlaveService.on_connect` (core/service.py) → `onConnectSlave`
  * histories of connections → `World`, `Event`, `step`, `runEvents`

Text is `PyStr = List Nat` (code points), so lone surrogates and any prefix are representable.
Environment facts the model never computes: `hasattr(obj, n)` (field `has`), what a user-written hook does
(field `hook`).  In the theorems they are universally quantified; in the driver the harness supplies them.
-/
namespace Rpyc.Policy
open Rpyc

abbrev PyStr := List Nat

/-- the three kinds of operation, i.e. the `param` argument `"allow_getattr" | "allow_setattr" | "allow_delattr"` -/
inductive Op where
  | get | set | del
  deriving DecidableEq, Repr, Inhabited

/-- the part of a connection's `_config` dict that attribute policy and `SlaveService.on_connect` read or write -/
structure Config where
  allowSafe : Bool
  allowExposed : Bool
  allowPublic : Bool
  allowAll : Bool
  allowGet : Bool
  allowSet : Bool
  allowDel : Bool
  exposedPrefix : PyStr
  safe : List PyStr
  allowPickle : Bool
  importCustomExc : Bool
  instantiateCustomExc : Bool
  instantiateOldstyleExc : Bool
  deriving DecidableEq, Repr, Inhabited

/-- `protocol.DEFAULT_CONFIG` (generated from the live dict) -/
def defaultConfig : Config :=
  { allowSafe := Gen.Policy.cfgAllowSafeAttrs
    allowExposed := Gen.Policy.cfgAllowExposedAttrs
    allowPublic := Gen.Policy.cfgAllowPublicAttrs
    allowAll := Gen.Policy.cfgAllowAllAttrs
    allowGet := Gen.Policy.cfgAllowGetattr
    allowSet := Gen.Policy.cfgAllowSetattr
    allowDel := Gen.Policy.cfgAllowDelattr
    exposedPrefix := Gen.Policy.cfgExposedPrefixCp
    safe := Gen.Policy.cfgSafeAttrsCp
    allowPickle := Gen.Policy.cfgAllowPickle
    importCustomExc := Gen.Policy.cfgImportCustomExceptions
    instantiateCustomExc := Gen.Policy.cfgInstantiateCustomExceptions
    instantiateOldstyleExc := Gen.Policy.cfgInstantiateOldstyleExceptions }

/-- `config[perm]` -/
def Config.perm (c : Config) : Op → Bool
  | .get => c.allowGet
  | .set => c.allowSet
  | .del => c.allowDel

/-! ### `_check_attr` -/

/-- truthiness of `prefix = config["allow_exposed_attrs"] and config["exposed_prefix"]`:
`False` when exposed attributes are off, and an empty prefix string is falsy too -/
def prefixTruthy (c : Config) : Bool := c.allowExposed && !c.exposedPrefix.isEmpty

/-- `prefix + name` -/
def twin (c : Config) (name : PyStr) : PyStr := c.exposedPrefix ++ name

/-- `name.startswith("_")` -/
def startsUnderscore (name : PyStr) : Bool := ([95] : PyStr).isPrefixOf name

/-- the four `plain |= …` lines.  `name.startswith(prefix)` is evaluated only when `allow_exposed_attrs` is true
(short circuit), and then `prefix` is the prefix string; every string starts with the empty prefix. -/
def plainAllowed (c : Config) (name : PyStr) : Bool :=
  c.allowAll
  || (c.allowExposed && c.exposedPrefix.isPrefixOf name)
  || (c.allowSafe && c.safe.contains name)
  || (c.allowPublic && !startsUnderscore name)

/-- `has_exposed = prefix and hasattr(obj, prefix + name)` (truthiness) -/
def hasExposed (c : Config) (has : PyStr → Bool) (name : PyStr) : Bool :=
  prefixTruthy c && has (twin c name)

/-- `Connection._check_attr(obj, name, perm)`: the name to access, or `AttributeError` -/
def checkAttr (c : Config) (has : PyStr → Bool) (name : PyStr) (op : Op) : Except Err PyStr :=
  if !c.perm op then .error .attributeError
  else if plainAllowed c name && (!hasExposed c has name || has name) then .ok name
  else if hasExposed c has name then .ok (twin c name)
  else if plainAllowed c name then .ok name      -- "chance for better traceback" (unreachable, kept as in the source)
  else .error .attributeError

/-- the `hasattr` probes `_check_attr` makes, in order: `prefix + name` iff the prefix is truthy,
then `name` iff `plain and has_exposed` -/
def checkProbes (c : Config) (has : PyStr → Bool) (name : PyStr) (op : Op) : List PyStr :=
  if !c.perm op then []
  else (if prefixTruthy c then [twin c name] else [])
    ++ (if plainAllowed c name && hasExposed c has name then [name] else [])

/-! ### names as they arrive, objects, hooks, effect log -/

/-- the `name` argument of `_access_attr`: exactly `str`, exactly `bytes`, or anything else
(int, None, tuple, an instance of a *subclass* of str/bytes, bytearray, …) -/
inductive Name where
  | text (s : PyStr)
  | bytes (b : Bytes)
  | other
  deriving DecidableEq, Repr, Inhabited

/-- `if type(name) is bytes: name = str(name, "utf8") elif type(name) is not str: raise TypeError` -/
def decodeName : Name → Except Err PyStr
  | .text s => .ok s
  | .bytes b =>
    match utf8Dec false b with
    | some s => .ok s
    | none => .error .unicodeDecodeError
  | .other => .error .typeError

/-- observable events.  `probe` is a `hasattr` made by `_check_attr` (a read that decides nothing by itself);
`access` is the default accessor `getattr/setattr/delattr(obj, name, …)`; `hook` is the call of the type's
`_rpyc_<op>attr`; `call` is `_handle_call` applied to the value obtained under `name`. -/
inductive Ev where
  | probe (obj : Nat) (name : PyStr)
  | access (obj : Nat) (op : Op) (name : PyStr)
  | hook (obj : Nat) (op : Op) (name : PyStr)
  | call (obj : Nat) (name : PyStr)
  deriving DecidableEq, Repr, Inhabited

/-- an event that reaches an attribute for real (everything but a `hasattr` probe) -/
def Ev.isEffect : Ev → Bool
  | .probe _ _ => false
  | _ => true

/-- what a type-level hook does with the (decoded) name: whatever it likes (`evs`), and then it either returns
(`err = none`) or raises.  Entirely the object's business. -/
structure HookRes where
  evs : List Ev
  err : Option Err
  deriving Repr, Inhabited

abbrev Hook := PyStr → HookRes

/-- an object as the policy sees it -/
structure Obj where
  /-- harness-assigned identity -/
  id : Nat
  /-- `hasattr(obj, n)` -/
  has : PyStr → Bool
  /-- `getattr(type(obj), "_rpyc_<op>attr", None)`; a hook set to `None` counts as absent, an
  instance-level attribute of that name is not looked at -/
  hook : Op → Option Hook
  /-- what `hasattr(obj, n)` does BESIDES answering: `hasattr` evaluates the attribute (a property getter, a
  `__getattr__`), so a probe is a read.  `[]` for objects whose attribute lookup is pure. -/
  probeExtra : PyStr → List Ev := fun _ => []

/-- an object whose type defines no hooks -/
def plainObj (id : Nat) (has : PyStr → Bool) : Obj := { id := id, has := has, hook := fun _ => none }

/-- a hook that refuses every name with `AttributeError` and touches nothing (`Service._rpyc_setattr/_rpyc_delattr`) -/
def denyHook : Hook := fun _ => { evs := [], err := some .attributeError }

/-- a hook that forwards exactly the listed names to `target` and refuses the rest with `e` -/
def listHook (target : Nat) (op : Op) (names : List PyStr) (e : Err) : Hook := fun n =>
  if names.contains n then { evs := [.access target op n], err := none } else { evs := [], err := some e }

/-- an instance of (a subclass of) `rpyc.Service`: which hooks the class defines and that they deny is generated -/
def serviceObj (id : Nat) (has : PyStr → Bool) : Obj :=
  { id := id, has := has,
    hook := fun
      | .get => none
      | .set => if Gen.Policy.serviceSetHookDenies then some denyHook else none
      | .del => if Gen.Policy.serviceDelHookDenies then some denyHook else none }

/-- `helpers.restricted(target, attrs, wattrs)`: class `Restricted` defines `_rpyc_getattr` (name in `attrs` →
`getattr(target, name)`, else AttributeError) and `_rpyc_setattr` (same with `wattrs`); it defines NO
`_rpyc_delattr`, so deletion falls to the configuration and acts on the view object itself.
`wattrs = none` is Python's `wattrs=None` (defaults to `attrs`).
`__getattr__ = _rpyc_getattr`: `hasattr(view, n)` for a name the view does not have itself (`viewOwn`: the class's and
instance's own attributes) and that is listed in `attrs` READS `getattr(target, n)` — so a probe of the view can reach
the target, for listed names only. -/
def restrictedView (id target : Nat) (attrs : List PyStr) (wattrs : Option (List PyStr))
    (viewOwn targetHas : PyStr → Bool) : Obj :=
  { id := id,
    has := fun n => viewOwn n || (attrs.contains n && targetHas n),
    hook := fun
      | .get => if Gen.Policy.restrictedHasGetHook then some (listHook target .get attrs .attributeError) else none
      | .set => if Gen.Policy.restrictedHasSetHook then
          some (listHook target .set (match wattrs with | some w => w | none => attrs) .attributeError) else none
      | .del => none,
    probeExtra := fun n => if !viewOwn n && attrs.contains n then [.access target .get n] else [] }

/-! ### `_access_attr` -/

/-- which accessor ended up being invoked, and with which name -/
inductive Action where
  | direct (name : PyStr)      -- `getattr/setattr/delattr(obj, name, *args)` after `_check_attr` translated the name
  | hooked (name : PyStr)      -- `type(obj)._rpyc_<op>attr(obj, name, *args)` returned
  deriving DecidableEq, Repr, Inhabited

def Action.name : Action → PyStr
  | .direct n => n
  | .hooked n => n

/-- result of one `_access_attr` call: what was decided (or the exception raised before / by the hook) and the
events it caused, in order -/
structure Res where
  out : Except Err Action
  log : List Ev
  deriving Repr, Inhabited

/-- the events of probing `ns` on `o`: each probe, followed by whatever evaluating that attribute does -/
def probeEvs (o : Obj) : List PyStr → List Ev
  | [] => []
  | n :: ns => .probe o.id n :: (o.probeExtra n ++ probeEvs o ns)

/-- after name typing, with a hook present: the hook decides -/
def runHook (o : Obj) (h : Hook) (name : PyStr) (op : Op) : Res :=
  match (h name).err with
  | some e => { out := .error e, log := .hook o.id op name :: (h name).evs }
  | none => { out := .ok (.hooked name), log := .hook o.id op name :: (h name).evs }

/-- after name typing, without a hook: `_check_attr` then the default accessor -/
def runDefault (c : Config) (o : Obj) (name : PyStr) (op : Op) : Res :=
  match checkAttr c o.has name op with
  | .error e => { out := .error e, log := probeEvs o (checkProbes c o.has name op) }
  | .ok n => { out := .ok (.direct n), log := probeEvs o (checkProbes c o.has name op) ++ [.access o.id op n] }

/-- after name typing -/
def runNamed (c : Config) (o : Obj) (name : PyStr) (op : Op) : Res :=
  match o.hook op with
  | some h => runHook o h name op
  | none => runDefault c o name op

/-- `Connection._access_attr(obj, name, args, overrider, param, default)` -/
def run (c : Config) (o : Obj) (nm : Name) (op : Op) : Res :=
  match decodeName nm with
  | .error e => { out := .error e, log := [] }
  | .ok name => runNamed c o name op

def accessAttr (c : Config) (o : Obj) (nm : Name) (op : Op) : Except Err Action := (run c o nm op).out

/-! ### request handlers that reach attributes by name -/

inductive Req where
  | getattr | setattr | delattr
  | callattr            -- `_handle_callattr`: `_handle_getattr(obj, name)` then `_handle_call`
  deriving DecidableEq, Repr, Inhabited

/-- the `(overrider, param, default)` triple each handler passes (cross-checked against the generated call sites) -/
def Req.op : Req → Op
  | .getattr => .get
  | .setattr => .set
  | .delattr => .del
  | .callattr => .get

/-- append the call of the obtained value.  After the default accessor the call happens iff `getattr(obj, n)` returned,
i.e. iff the object has `n` (that is what `hasattr` means); otherwise the object's own AttributeError propagates.
A hook that returned, returned a value. -/
def thenCall (o : Obj) (r : Res) : Res :=
  match r.out with
  | .ok (.direct n) => { out := .ok (.direct n), log := if o.has n then r.log ++ [.call o.id n] else r.log }
  | .ok (.hooked n) => { out := .ok (.hooked n), log := r.log ++ [.call o.id n] }
  | .error e => { out := .error e, log := r.log }

/-- `_handle_getattr / _handle_setattr / _handle_delattr / _handle_callattr` -/
def handle (c : Config) (o : Obj) (nm : Name) : Req → Res
  | .callattr => thenCall o (run c o nm .get)
  | r => run c o nm r.op

/-- `_handle_ctxexit(obj, exc)`: `_handle_getattr(obj, "__exit__")(exc, typ, tb)` -/
def exitName : PyStr := [95, 95, 101, 120, 105, 116, 95, 95]
def handleCtxExit (c : Config) (o : Obj) : Res := thenCall o (run c o (.text exitName) .get)

/-- `_handle_cmp(obj, other, op)`.  `ty` is `type(obj)` seen as an object (its hooks are those of the metaclass).
`respects` (measured on the live code): when `type(obj)` defines `_rpyc_getattr`, the OBJECT's hook decides —
`_access_attr(obj, op, ..)(other)`; otherwise (and always, in the variant that bypasses the hook) the operator is looked
up on the type under the configuration — `_access_attr(type(obj), op, ..)(obj, other)`. -/
def handleCmp (respects : Bool) (c : Config) (o ty : Obj) (opName : Name) : Res :=
  match respects, o.hook .get with
  | true, some _ => thenCall o (run c o opName .get)
  | _, _ => thenCall ty (run c ty opName .get)

/-- did the first stage of `_handle_oldslicing` end in an exception (any `Exception` is swallowed): the policy or a
hook refused, the name was not text, the attribute read raised (object lacks it), or calling the value raised
(`callRaises`: the object's business, a parameter) -/
def stageFails (o : Obj) (r : Res) (callRaises : Bool) : Bool :=
  match r.out with
  | .error _ => true
  | .ok (.direct n) => !o.has n || callRaises
  | .ok (.hooked _) => callRaises

/-- `_handle_oldslicing(obj, attempt, fallback, start, stop, args)`:
`try: self._handle_getattr(obj, attempt)(slice(start, stop), *args)` and on ANY exception
`self._handle_getattr(obj, fallback)(start, stop, *args)` — both names are the peer's, both go through the policy. -/
def handleOldSlicing (c : Config) (o : Obj) (attempt fallback : Name) (callRaises : Bool) : Res :=
  if stageFails o (thenCall o (run c o attempt .get)) callRaises then
    { out := (thenCall o (run c o fallback .get)).out,
      log := (thenCall o (run c o attempt .get)).log ++ (thenCall o (run c o fallback .get)).log }
  else thenCall o (run c o attempt .get)

/-! ### connections and histories -/

/-- the caller's `config` dict, restricted to the modelled keys: `none` = key not given -/
structure Overlay where
  allowSafe : Option Bool := none
  allowExposed : Option Bool := none
  allowPublic : Option Bool := none
  allowAll : Option Bool := none
  allowGet : Option Bool := none
  allowSet : Option Bool := none
  allowDel : Option Bool := none
  exposedPrefix : Option PyStr := none
  safe : Option (List PyStr) := none
  allowPickle : Option Bool := none
  importCustomExc : Option Bool := none
  instantiateCustomExc : Option Bool := none
  instantiateOldstyleExc : Option Bool := none
  deriving DecidableEq, Repr, Inhabited

/-- one key of `dict.update`: given → replaces, absent → keeps -/
def upd {α} (new : Option α) (old : α) : α :=
  match new with
  | some v => v
  | none => old

/-- `cfg = base.copy(); cfg.update(overlay)` -/
def applyOverlay (base : Config) (ov : Overlay) : Config :=
  { allowSafe := upd ov.allowSafe base.allowSafe
    allowExposed := upd ov.allowExposed base.allowExposed
    allowPublic := upd ov.allowPublic base.allowPublic
    allowAll := upd ov.allowAll base.allowAll
    allowGet := upd ov.allowGet base.allowGet
    allowSet := upd ov.allowSet base.allowSet
    allowDel := upd ov.allowDel base.allowDel
    exposedPrefix := upd ov.exposedPrefix base.exposedPrefix
    safe := upd ov.safe base.safe
    allowPickle := upd ov.allowPickle base.allowPickle
    importCustomExc := upd ov.importCustomExc base.importCustomExc
    instantiateCustomExc := upd ov.instantiateCustomExc base.instantiateCustomExc
    instantiateOldstyleExc := upd ov.instantiateOldstyleExc base.instantiateOldstyleExc }

/-- the classic-mode overrides: what a connection established through `SlaveService._connect` has whatever the caller
asked for (generated by observing established connections; in the pinned code `on_connect` applies them) -/
def slaveOverlay : Overlay :=
  { allowSafe := Gen.Policy.slaveSetAllowSafeAttrs
    allowExposed := Gen.Policy.slaveSetAllowExposedAttrs
    allowPublic := Gen.Policy.slaveSetAllowPublicAttrs
    allowAll := Gen.Policy.slaveSetAllowAllAttrs
    allowGet := Gen.Policy.slaveSetAllowGetattr
    allowSet := Gen.Policy.slaveSetAllowSetattr
    allowDel := Gen.Policy.slaveSetAllowDelattr
    exposedPrefix := none
    safe := none
    allowPickle := Gen.Policy.slaveSetAllowPickle
    importCustomExc := Gen.Policy.slaveSetImportCustomExceptions
    instantiateCustomExc := Gen.Policy.slaveSetInstantiateCustomExceptions
    instantiateOldstyleExc := Gen.Policy.slaveSetInstantiateOldstyleExceptions }

/-- classic mode applied to a connection's own configuration (`SlaveService.on_connect(conn)` in the pinned code) -/
def onConnectSlave (c : Config) : Config := applyOverlay c slaveOverlay

/-! ### the configuration heap

The property's isolation clause is about OBJECT IDENTITY: `DEFAULT_CONFIG` is one module-level dict object, the caller
passes a dict object it may keep, edit and reuse, every connection has a `_config` object, and the value stored under
`"safe_attrs"` is a reference to a set object.  Whether two of these are the same object (or read through to one
another) is exactly what the regressions the property names are about, so the world is a small heap and the steps do
the copy / alias / update operations the code performs.  WHICH operations the code performs is measured on the live
code by the generator (`Gen.Policy.initModeCode`, `classicWritesCallerDict`, `classicAddsToSafeCp`) — the model has all
the variants, the theorems are about the measured one, and the bad variants are shown to break isolation. -/

/-- identities of dict objects -/
inductive Ref where
  | dflt                -- `protocol.DEFAULT_CONFIG`
  | app (n : Nat)       -- a settings dict object of the application (passed as `config=`; literal dicts are fresh ones)
  | own (i : Nat)       -- the dict object `Connection.__init__` creates for connection `i`
  | srv (k : Nat)       -- the `protocol_config` dict object server `k` creates for itself when it is given none
  | srvShared           -- ONE dict object shared by all servers given none (a mutable default argument; bad variant)
  | tmp (i : Nat)       -- the per-client dict a server builds (`dict(self.protocol_config, credentials=.., ..)`)
  deriving DecidableEq, Repr, Inhabited

/-- the value stored under `"safe_attrs"`: a REFERENCE to the module's default set object (shared by everything that
copied it shallowly), or some other set (the application's; by value, never mutated in place in the model) -/
inductive SafeV where
  | dfltSet
  | lit (l : List PyStr)
  deriving DecidableEq, Repr, Inhabited

/-- the eleven Boolean keys -/
inductive BKey where
  | safe | exposed | public_ | all | get | set | del | pickle | importExc | instExc | oldExc
  deriving DecidableEq, Repr, Inhabited

/-- a dict object over the modelled keys (`none` = key absent) -/
structure HDict where
  b : BKey → Option Bool
  pfx : Option PyStr
  safe : Option SafeV

def HDict.empty : HDict := { b := fun _ => none, pfx := none, safe := none }

/-- one key of `d.update(e)` -/
def orOld {α} (new old : Option α) : Option α :=
  match new with
  | some v => some v
  | none => old

/-- `d.update(e)` -/
def HDict.update (d e : HDict) : HDict :=
  { b := fun k => orOld (e.b k) (d.b k), pfx := orOld e.pfx d.pfx, safe := orOld e.safe d.safe }

/-- a dict the application writes by value -/
def HDict.ofOverlay (ov : Overlay) : HDict :=
  { b := fun
      | .safe => ov.allowSafe | .exposed => ov.allowExposed | .public_ => ov.allowPublic | .all => ov.allowAll
      | .get => ov.allowGet | .set => ov.allowSet | .del => ov.allowDel | .pickle => ov.allowPickle
      | .importExc => ov.importCustomExc | .instExc => ov.instantiateCustomExc
      | .oldExc => ov.instantiateOldstyleExc,
    pfx := ov.exposedPrefix,
    safe := ov.safe.map SafeV.lit }

/-- `DEFAULT_CONFIG` as a dict object: every key present, `"safe_attrs"` refers to the default set object -/
def defaultDict : HDict :=
  { b := fun
      | .safe => some defaultConfig.allowSafe | .exposed => some defaultConfig.allowExposed
      | .public_ => some defaultConfig.allowPublic | .all => some defaultConfig.allowAll
      | .get => some defaultConfig.allowGet | .set => some defaultConfig.allowSet | .del => some defaultConfig.allowDel
      | .pickle => some defaultConfig.allowPickle | .importExc => some defaultConfig.importCustomExc
      | .instExc => some defaultConfig.instantiateCustomExc | .oldExc => some defaultConfig.instantiateOldstyleExc,
    pfx := some defaultConfig.exposedPrefix,
    safe := some .dfltSet }

/-- a connection slot: the `_config` expression is a lookup chain of dict objects (one object for a plain dict; several
for a layered mapping); writes go to the first -/
inductive HConn where
  | fresh
  | live (chain : List Ref)
  | closed (chain : List Ref)        -- `_cleanup` keeps `_config`; no request is served any more
  deriving DecidableEq, Repr, Inhabited

structure HWorld where
  dicts : Ref → HDict
  /-- content of the ONE set object `DEFAULT_CONFIG["safe_attrs"]` refers to -/
  dfltSet : List PyStr
  conns : Nat → HConn
  /-- `server_k.protocol_config`: which dict object server `k` holds (`none`: no such server) -/
  servers : Nat → Option Ref

def HWorld.init : HWorld :=
  { dicts := fun | .dflt => defaultDict | _ => HDict.empty, dfltSet := defaultConfig.safe, conns := fun _ => .fresh,
    servers := fun _ => none }

def lookB (dicts : Ref → HDict) : List Ref → BKey → Option Bool
  | [], _ => none
  | r :: rs, k => orOld ((dicts r).b k) (lookB dicts rs k)

def lookP (dicts : Ref → HDict) : List Ref → Option PyStr
  | [] => none
  | r :: rs => orOld (dicts r).pfx (lookP dicts rs)

def lookS (dicts : Ref → HDict) : List Ref → Option SafeV
  | [] => none
  | r :: rs => orOld (dicts r).safe (lookS dicts rs)

def HWorld.safeContent (w : HWorld) : SafeV → List PyStr
  | .dfltSet => w.dfltSet
  | .lit l => l

/-- the configuration a lookup chain denotes right now (`none`: some key is missing — `KeyError`) -/
def HWorld.cfgOfChain (w : HWorld) (ch : List Ref) : Option Config := do
  let a ← lookB w.dicts ch .safe
  let b ← lookB w.dicts ch .exposed
  let c ← lookB w.dicts ch .public_
  let d ← lookB w.dicts ch .all
  let e ← lookB w.dicts ch .get
  let f ← lookB w.dicts ch .set
  let g ← lookB w.dicts ch .del
  let p ← lookP w.dicts ch
  let s ← lookS w.dicts ch
  let h ← lookB w.dicts ch .pickle
  let i ← lookB w.dicts ch .importExc
  let j ← lookB w.dicts ch .instExc
  let k ← lookB w.dicts ch .oldExc
  pure { allowSafe := a, allowExposed := b, allowPublic := c, allowAll := d, allowGet := e, allowSet := f,
         allowDel := g, exposedPrefix := p, safe := w.safeContent s, allowPickle := h, importCustomExc := i,
         instantiateCustomExc := j, instantiateOldstyleExc := k }

/-- the configuration connection `i` enforces right now -/
def HWorld.cfgOf (w : HWorld) (i : Nat) : Option Config :=
  match w.conns i with
  | .live ch => w.cfgOfChain ch
  | .closed ch => w.cfgOfChain ch
  | .fresh => none

/-- how `Connection.__init__` builds `_config` (measured) -/
inductive InitMode where
  | copy            -- `DEFAULT_CONFIG.copy()` then `.update(config)`: a new object; the default set object stays shared
  | aliasDefault    -- `self._config = DEFAULT_CONFIG` then `.update(config)`
  | aliasArg        -- the caller's dict itself, completed with the defaults
  | layered         -- a layered mapping `{}` → caller's dict → DEFAULT_CONFIG that reads through
  deriving DecidableEq, Repr, Inhabited

/-- how classic mode applies its overrides (measured) -/
structure ClassicMode where
  /-- the overrides are written into the dict object the caller passed -/
  writesCallerDict : Bool
  /-- names added IN PLACE to the set object the connection's `"safe_attrs"` refers to -/
  addsToSafe : List PyStr
  deriving DecidableEq, Repr, Inhabited

structure Modes where
  init : InitMode
  classic : ClassicMode
  /-- `Server.__init__` without a `protocol_config` makes a dict object of its own (measured: two such servers hold
  distinct objects); `false`: they all hold one shared object -/
  serversOwnDict : Bool
  /-- a server given a `protocol_config` dict keeps that very object (documented sharing; measured).  Either value is
  compatible with the property. -/
  serverKeepsGiven : Bool
  /-- `__init__` also copies the `safe_attrs` SET (the pinned code does not: the copy is shallow and the default set
  object stays shared; measured).  Either value is compatible with the property as long as nobody grows that set. -/
  copiesSafeSet : Bool
  deriving DecidableEq, Repr, Inhabited

/-- the variants the property needs: an own copy per connection, classic overrides into it, a dict of its own per
server — whatever the two harmless choices (`keeps`, `copiesSet`) are -/
def Modes.good (keeps copiesSet : Bool) : Modes :=
  { init := .copy, classic := { writesCallerDict := false, addsToSafe := [] }, serversOwnDict := true,
    serverKeepsGiven := keeps, copiesSafeSet := copiesSet }

/-- the variant measured on the live code -/
def Modes.measured : Modes :=
  { init := match Gen.Policy.initModeCode with
      | 0 => .copy
      | 1 => .aliasDefault
      | 2 => .aliasArg
      | _ => .layered,
    classic := { writesCallerDict := Gen.Policy.classicWritesCallerDict,
                 addsToSafe := Gen.Policy.classicAddsToSafeCp },
    serversOwnDict := Gen.Policy.serversOwnDict,
    serverKeepsGiven := Gen.Policy.serverKeepsGivenDict,
    copiesSafeSet := !Gen.Policy.initSharesDefaultSafeSet }

/-- the classic-mode overrides as a dict -/
def slaveDict : HDict := HDict.ofOverlay slaveOverlay

def HWorld.setDict (w : HWorld) (r : Ref) (d : HDict) : HWorld :=
  { w with dicts := fun k => if k = r then d else w.dicts k }

def HWorld.setConn (w : HWorld) (i : Nat) (c : HConn) : HWorld :=
  { w with conns := fun k => if k = i then c else w.conns k }

/-- replace a reference to the default set object by a copy of its present content -/
def HDict.freezeSafe (d : HDict) (content : List PyStr) : HDict :=
  match d.safe with
  | some .dfltSet => { d with safe := some (.lit content) }
  | _ => d

/-- `Connection.__init__(root, channel, D)` for connection `i`, `D` the dict object `arg` -/
def initConn (m : InitMode) (copiesSet : Bool) (w : HWorld) (i : Nat) (arg : Ref) : HWorld × List Ref :=
  match m with
  | .copy =>
    (w.setDict (.own i)
      (if copiesSet then ((w.dicts .dflt).update (w.dicts arg)).freezeSafe w.dfltSet
       else (w.dicts .dflt).update (w.dicts arg)), [.own i])
  | .aliasDefault => (w.setDict .dflt ((w.dicts .dflt).update (w.dicts arg)), [.dflt])
  | .aliasArg => (w.setDict arg ((w.dicts .dflt).update (w.dicts arg)), [arg])
  | .layered => (w.setDict (.own i) HDict.empty, [.own i, arg, .dflt])

/-- in-place growth of the set object the chain's `"safe_attrs"` refers to -/
def addToSafe (w : HWorld) (ch : List Ref) (names : List PyStr) : HWorld :=
  match names with
  | [] => w
  | _ :: _ =>
    match lookS w.dicts ch with
    | some .dfltSet => { w with dfltSet := w.dfltSet ++ names }
    | _ => w

/-- first dict object of a chain (where `_config.update(..)` writes) -/
def headRef : List Ref → Ref
  | r :: _ => r
  | [] => .dflt

/-- `Service._connect(channel, D)` for connection `i` with the dict object `arg`; `classic`: the local service is
`SlaveService` (or `ClassicService`) -/
def openConn (m : Modes) (w : HWorld) (i : Nat) (arg : Ref) (classic : Bool) : HWorld :=
  let w0 := if classic && m.classic.writesCallerDict then
      w.setDict arg ((w.dicts arg).update slaveDict) else w
  let (w1, ch) := initConn m.init m.copiesSafeSet w0 i arg
  let w2 := if classic && !m.classic.writesCallerDict then
      w1.setDict (headRef ch) ((w1.dicts (headRef ch)).update slaveDict) else w1
  let w3 := if classic then addToSafe w2 ch m.classic.addsToSafe else w2
  w3.setConn i (.live ch)

/-- the dict object a new server holds: the caller's if it gave one (documented sharing), else its own — or, in the
bad variant, the one shared default -/
def serverRef (m : Modes) (k : Nat) : Option Nat → Ref
  | some d => if m.serverKeepsGiven then .app d else .srv k     -- (a server that copies the given dict: its content is
                                                               --  copied by `newServer` below)
  | none => if m.serversOwnDict then .srv k else .srvShared

/-- dict objects application code can get hold of and edit -/
def Ref.editable : Ref → Bool
  | .own _ => false
  | .tmp _ => false
  | _ => true

inductive HEvent where
  | open (i d : Nat) (classic : Bool)    -- establish connection i with dict object `app d`
  | close (i : Nat)
  | access (i : Nat)                     -- connection i serves attribute requests (TRUSTED: a request writes no config object)
  | editDict (r : Ref) (ov : Overlay)    -- the application runs `R.update(ov)` on one of ITS dict objects (or on DEFAULT_CONFIG)
  | mutDfltSet (names : List PyStr)      -- somebody grows the default `safe_attrs` set object IN PLACE
  | newServer (k : Nat) (d : Option Nat) -- `Server(service, protocol_config=D)` / `Server(service)` (it writes `logger` into its dict: not a modelled key)
  | serverConn (i k : Nat) (classic : Bool)  -- server k accepts a client: `dict(protocol_config, ..)`, then `service._connect`
  | editServer (k : Nat) (ov : Overlay)  -- the application runs `server_k.protocol_config.update(ov)` after construction
  deriving DecidableEq, Repr, Inhabited

def HEvent.conn : HEvent → Option Nat
  | .open i _ _ => some i
  | .close i => some i
  | .access i => some i
  | .serverConn i _ _ => some i
  | _ => none

/-- events the application is entitled to and rpyc itself never performs on another party's behalf: it edits dict
objects it owns (the module defaults, its settings dicts, its servers' `protocol_config`), never a connection's
private `_config` nor a server's per-client dict, and nobody grows the shared set -/
def HEvent.fair : HEvent → Bool
  | .editDict r _ => r.editable
  | .mutDfltSet _ => false
  | _ => true

def hstep (m : Modes) (w : HWorld) : HEvent → HWorld
  | .open i d classic =>
    match w.conns i with
    | .fresh => openConn m w i (.app d) classic
    | _ => w
  | .close i =>
    match w.conns i with
    | .live ch => w.setConn i (.closed ch)
    | _ => w
  | .access _ => w
  | .editDict r ov => w.setDict r ((w.dicts r).update (HDict.ofOverlay ov))
  | .mutDfltSet names => { w with dfltSet := w.dfltSet ++ names }
  | .newServer k d =>
    match w.servers k with
    | none =>
      let w' : HWorld := { w with servers := fun x => if x = k then some (serverRef m k d) else w.servers x }
      match d with
      | some n => if m.serverKeepsGiven then w' else w'.setDict (.srv k) (w.dicts (.app n))
      | none => w'
    | some _ => w
  | .serverConn i k classic =>
    match w.conns i, w.servers k with
    | .fresh, some r => openConn m (w.setDict (.tmp i) (w.dicts r)) i (.tmp i) classic
    | _, _ => w
  | .editServer k ov =>
    match w.servers k with
    | some r => if r.editable then w.setDict r ((w.dicts r).update (HDict.ofOverlay ov)) else w
    | none => w

def hrun (m : Modes) (w : HWorld) : List HEvent → HWorld
  | [] => w
  | e :: es => hrun m (hstep m w e) es

/-- what connection `i` answers to an attribute request in world `w` (`none`: not a live connection) -/
def HWorld.decide (w : HWorld) (i : Nat) (o : Obj) (nm : Name) (r : Req) : Option Res :=
  match w.conns i with
  | .live ch => (w.cfgOfChain ch).map (fun cfg => handle cfg o nm r)
  | _ => none

end Rpyc.Policy
