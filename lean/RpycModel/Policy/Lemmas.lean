import RpycModel.Policy.Model
/-
Helper definitions and lemmas for C06 (the property theorems themselves are in Props/C06.lean).
-/
namespace Rpyc.Policy
open Rpyc

deriving instance DecidableEq for Except

/-! ### the statement's vocabulary, as propositions over arbitrary configurations / names / objects -/

/-- "the name is allowed (everything / exposed-prefix / safe-list / public, as enabled)" -/
def NameAllowed (c : Config) (name : PyStr) : Prop :=
  c.allowAll = true
  ∨ (c.allowExposed = true ∧ c.exposedPrefix <+: name)
  ∨ (c.allowSafe = true ∧ name ∈ c.safe)
  ∨ (c.allowPublic = true ∧ ¬ ([95] : PyStr) <+: name)

/-- "has an exposed-prefixed twin on the object": exposed attributes are on, the prefix is not empty and the
object has `prefix ++ name` -/
def HasTwin (c : Config) (has : PyStr → Bool) (name : PyStr) : Prop :=
  c.allowExposed = true ∧ c.exposedPrefix ≠ [] ∧ has (c.exposedPrefix ++ name) = true

theorem plainAllowed_iff (c : Config) (name : PyStr) : plainAllowed c name = true ↔ NameAllowed c name := by
  simp [plainAllowed, NameAllowed, startsUnderscore, or_assoc, ← List.isPrefixOf_iff_prefix]

theorem hasExposed_iff (c : Config) (has : PyStr → Bool) (name : PyStr) :
    hasExposed c has name = true ↔ HasTwin c has name := by
  simp [hasExposed, HasTwin, prefixTruthy, twin, and_assoc]

/-- `_check_attr` as one closed formula over the four facts it depends on -/
theorem checkAttr_eq (c : Config) (has : PyStr → Bool) (name : PyStr) (op : Op) :
    checkAttr c has name op =
      if c.perm op && (plainAllowed c name || hasExposed c has name) then
        .ok (if hasExposed c has name && (!plainAllowed c name || !has name) then twin c name else name)
      else .error .attributeError := by
  unfold checkAttr
  generalize c.perm op = p
  generalize plainAllowed c name = pl
  generalize hasExposed c has name = he
  generalize has name = hn
  cases p <;> cases pl <;> cases he <;> cases hn <;> rfl

theorem checkProbes_eq (c : Config) (has : PyStr → Bool) (name : PyStr) (op : Op) :
    checkProbes c has name op =
      if c.perm op then
        (if prefixTruthy c then [twin c name] else [])
          ++ (if plainAllowed c name && hasExposed c has name then [name] else [])
      else [] := by
  unfold checkProbes
  cases c.perm op <;> rfl

theorem mem_checkProbes (c : Config) (has : PyStr → Bool) (name : PyStr) (op : Op) (n : PyStr)
    (h : n ∈ checkProbes c has name op) : n = name ∨ n = twin c name := by
  rw [checkProbes_eq] at h
  cases hp : c.perm op
  · simp [hp] at h
  · cases ht : prefixTruthy c <;> cases hq : (plainAllowed c name && hasExposed c has name) <;>
      simp [hp, ht, hq] at h
    · exact Or.inl h
    · exact Or.inr h
    · exact h.symm

@[simp] theorem probeEvs_filter_effect (id : Nat) (ns : List PyStr) :
    (probeEvs id ns).filter Ev.isEffect = [] := by
  induction ns with
  | nil => rfl
  | cons n ns ih => simp [probeEvs, Ev.isEffect]

theorem mem_probeEvs (id : Nat) (ns : List PyStr) (e : Ev) (h : e ∈ probeEvs id ns) :
    ∃ n ∈ ns, e = .probe id n := by
  simp [probeEvs] at h
  obtain ⟨n, hn, rfl⟩ := h
  exact ⟨n, hn, rfl⟩

/-- a failed call-by-name failed before the call: the read failed, and nothing was added -/
theorem thenCall_error (o : Obj) (r : Res) (e : Err) (h : (thenCall o r).out = .error e) :
    r.out = .error e ∧ (thenCall o r).log = r.log := by
  unfold thenCall at h ⊢
  cases hr : r.out with
  | ok a => cases a <;> simp [hr] at h
  | error e' => simp [hr] at h ⊢; exact h

/-! ### `dict.update` facts -/

@[simp] theorem upd_none {α} (a : α) : upd none a = a := rfl
@[simp] theorem upd_some {α} (a b : α) : upd (some b) a = b := rfl

theorem upd_idem {α} (o : Option α) (a : α) : upd o (upd o a) = upd o a := by
  cases o <;> rfl

/-- applying the same update twice is applying it once (`SlaveService.on_connect` run twice changes nothing more) -/
theorem applyOverlay_idem (c : Config) (ov : Overlay) : applyOverlay (applyOverlay c ov) ov = applyOverlay c ov := by
  simp [applyOverlay, upd_idem]

theorem onConnectSlave_idem (c : Config) : onConnectSlave (onConnectSlave c) = onConnectSlave c :=
  applyOverlay_idem c slaveOverlay

/-! ### histories -/

@[simp] theorem setConn_dflt (w : World) (i : Nat) (s : ConnSt) : (w.setConn i s).dflt = w.dflt := rfl
@[simp] theorem setConn_dicts (w : World) (i : Nat) (s : ConnSt) : (w.setConn i s).dicts = w.dicts := rfl
@[simp] theorem setConn_same (w : World) (i : Nat) (s : ConnSt) : (w.setConn i s).conns i = s := by
  simp [World.setConn]
theorem setConn_other (w : World) (i j : Nat) (s : ConnSt) (h : j ≠ i) : (w.setConn i s).conns j = w.conns j := by
  simp [World.setConn, h]

/-- only the application's own `DEFAULT_CONFIG.update(..)` writes the module-level defaults: no connection event does -/
theorem step_dflt (w : World) (e : Event) (h : ∀ ov, e ≠ .setDefault ov) : (step w e).dflt = w.dflt := by
  cases e with
  | «open» i ov => cases hw : w.conns i <;> simp [step, hw]
  | openWith i d => cases hw : w.conns i <;> simp [step, hw]
  | slave i => cases hw : w.conns i <;> simp [step, hw]
  | close i => cases hw : w.conns i <;> simp [step, hw]
  | access i => rfl
  | editDict d ov => rfl
  | setDefault ov => exact absurd rfl (h ov)

/-- no connection event writes the application's dict objects -/
theorem step_dicts (w : World) (e : Event) (h : e.isEnv = false) : (step w e).dicts = w.dicts := by
  cases e with
  | «open» i ov => cases hw : w.conns i <;> simp [step, hw]
  | openWith i d => cases hw : w.conns i <;> simp [step, hw]
  | slave i => cases hw : w.conns i <;> simp [step, hw]
  | close i => cases hw : w.conns i <;> simp [step, hw]
  | access i => rfl
  | editDict d ov => simp [Event.isEnv] at h
  | setDefault ov => simp [Event.isEnv] at h

theorem step_dflt_of_notEnv (w : World) (e : Event) (h : e.isEnv = false) : (step w e).dflt = w.dflt :=
  step_dflt w e (fun ov he => by subst he; simp [Event.isEnv] at h)

/-- an event that is not connection `j`'s own — another connection's, an edit of an application dict (even the very
dict object `j` was opened with), an edit of `DEFAULT_CONFIG` — leaves slot `j` alone -/
theorem step_other (w : World) (e : Event) (j : Nat) (h : e.conn ≠ some j) : (step w e).conns j = w.conns j := by
  cases e with
  | «open» i ov => have hj : j ≠ i := fun x => h (by simp [Event.conn, x])
                   cases hw : w.conns i <;> simp [step, hw, setConn_other _ _ _ _ hj]
  | openWith i d => have hj : j ≠ i := fun x => h (by simp [Event.conn, x])
                    cases hw : w.conns i <;> simp [step, hw, setConn_other _ _ _ _ hj]
  | slave i => have hj : j ≠ i := fun x => h (by simp [Event.conn, x])
               cases hw : w.conns i <;> simp [step, hw, setConn_other _ _ _ _ hj]
  | close i => have hj : j ≠ i := fun x => h (by simp [Event.conn, x])
               cases hw : w.conns i <;> simp [step, hw, setConn_other _ _ _ _ hj]
  | access i => rfl
  | editDict d ov => rfl
  | setDefault ov => rfl

/-- what an event does to slot `j` depends only on slot `j`, the defaults and the application's dicts -/
theorem step_own (w w' : World) (e : Event) (j : Nat)
    (hc : w.conns j = w'.conns j) (hd : w.dflt = w'.dflt) (hx : w.dicts = w'.dicts) :
    (step w e).conns j = (step w' e).conns j := by
  by_cases he : e.conn = some j
  · cases e with
    | «open» i ov =>
      simp only [Event.conn, Option.some.injEq] at he; subst he
      simp only [step]
      rw [← hc, ← hd]
      cases hw : w.conns i <;> simp [← hc, hw]
    | openWith i d =>
      simp only [Event.conn, Option.some.injEq] at he; subst he
      simp only [step]
      rw [← hc, ← hd, ← hx]
      cases hw : w.conns i <;> simp [← hc, hw]
    | slave i =>
      simp only [Event.conn, Option.some.injEq] at he; subst he
      simp only [step]
      rw [← hc]
      cases hw : w.conns i <;> simp [← hc, hw]
    | close i =>
      simp only [Event.conn, Option.some.injEq] at he; subst he
      simp only [step]
      rw [← hc]
      cases hw : w.conns i <;> simp [← hc, hw]
    | access i => exact hc
    | editDict d ov => exact hc
    | setDefault ov => exact hc
  · rw [step_other w e j he, step_other w' e j he, hc]

theorem step_env_congr (w w' : World) (e : Event) (hd : w.dflt = w'.dflt) (hx : w.dicts = w'.dicts) :
    (step w e).dflt = (step w' e).dflt ∧ (step w e).dicts = (step w' e).dicts := by
  cases e with
  | «open» i ov => cases hw : w.conns i <;> cases hw' : w'.conns i <;> simp [step, hw, hw', hd, hx]
  | openWith i d => cases hw : w.conns i <;> cases hw' : w'.conns i <;> simp [step, hw, hw', hd, hx]
  | slave i => cases hw : w.conns i <;> cases hw' : w'.conns i <;> simp [step, hw, hw', hd, hx]
  | close i => cases hw : w.conns i <;> cases hw' : w'.conns i <;> simp [step, hw, hw', hd, hx]
  | access i => exact ⟨hd, hx⟩
  | editDict d ov => simp [step, hd, hx]
  | setDefault ov => simp [step, hd, hx]

theorem runEvents_dflt (w : World) (evs : List Event) (h : ∀ e ∈ evs, ∀ ov, e ≠ .setDefault ov) :
    (runEvents w evs).dflt = w.dflt := by
  induction evs generalizing w with
  | nil => rfl
  | cons e es ih =>
    simp only [runEvents]
    rw [ih _ (fun x hx => h x (List.mem_cons_of_mem _ hx)), step_dflt w e (h e (List.mem_cons_self ..))]

/-- noninterference, general form: two worlds that agree on slot `j`, on the defaults and on the application's dicts
still agree on slot `j` after the one has run a whole history and the other only `j`'s own events plus the
environment edits of it -/
theorem runEvents_filter (j : Nat) (evs : List Event) (w w' : World)
    (hc : w.conns j = w'.conns j) (hd : w.dflt = w'.dflt) (hx : w.dicts = w'.dicts) :
    (runEvents w evs).conns j
      = (runEvents w' (evs.filter (fun e => e.conn == some j || e.isEnv))).conns j := by
  induction evs generalizing w w' with
  | nil => simpa [runEvents] using hc
  | cons e es ih =>
    by_cases hk : (e.conn == some j || e.isEnv) = true
    · simp only [runEvents, List.filter_cons, hk, if_true]
      obtain ⟨h1, h2⟩ := step_env_congr w w' e hd hx
      exact ih _ _ (step_own w w' e j hc hd hx) h1 h2
    · have hk' : (e.conn == some j || e.isEnv) = false := by simpa using hk
      simp only [runEvents, List.filter_cons, hk']
      have hne : e.conn ≠ some j := by
        intro h; simp [h] at hk'
      have henv : e.isEnv = false := by
        cases hh : e.isEnv <;> simp [hh] at hk' ⊢
      exact ih _ _ (by rw [step_other w e j hne, hc]) (by rw [step_dflt_of_notEnv w e henv, hd])
        (by rw [step_dicts w e henv, hx])

/-- the states a slot can be in once it holds the snapshot `cfg`: that snapshot, with or without the classic-mode
update, live or closed -/
def Frozen (cfg : Config) (s : ConnSt) : Prop :=
  s = .live cfg ∨ s = .live (onConnectSlave cfg) ∨ s = .closed cfg ∨ s = .closed (onConnectSlave cfg)

theorem step_frozen (w : World) (e : Event) (j : Nat) (cfg : Config) (h : Frozen cfg (w.conns j)) :
    Frozen cfg ((step w e).conns j) := by
  by_cases he : e.conn = some j
  · cases e with
    | «open» i ov =>
      simp only [Event.conn, Option.some.injEq] at he; subst he
      rcases h with h | h | h | h <;> simp [step, h, Frozen]
    | openWith i d =>
      simp only [Event.conn, Option.some.injEq] at he; subst he
      rcases h with h | h | h | h <;> simp [step, h, Frozen]
    | slave i =>
      simp only [Event.conn, Option.some.injEq] at he; subst he
      rcases h with h | h | h | h <;> simp [step, h, Frozen, onConnectSlave_idem]
    | close i =>
      simp only [Event.conn, Option.some.injEq] at he; subst he
      rcases h with h | h | h | h <;> simp [step, h, Frozen]
    | access i => exact h
    | editDict d ov => exact h
    | setDefault ov => exact h
  · rw [step_other w e j he]; exact h

theorem runEvents_frozen (evs : List Event) (w : World) (j : Nat) (cfg : Config) (h : Frozen cfg (w.conns j)) :
    Frozen cfg ((runEvents w evs).conns j) := by
  induction evs generalizing w with
  | nil => exact h
  | cons e es ih => exact ih _ (step_frozen w e j cfg h)

end Rpyc.Policy
