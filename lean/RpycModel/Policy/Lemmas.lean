import RpycModel.Policy.Model
/-
Helper definitions and lemmas for C06 (the property theorems themselves are in Props/C06.lean).
-/
namespace Rpyc.Policy
open Rpyc

deriving instance DecidableEq for Except

/-! ### the statement's vocabulary, as propositions over arbitrary configurations / names / objects -/

/-- "the name is allowed (everything / exposed-prefix / safe-list / public, as enabled)" -/
def NameAllowed (c : Config) (name : PyStr) : Prop :=
  c.allowAll = true
  ∨ (c.allowExposed = true ∧ c.exposedPrefix <+: name)
  ∨ (c.allowSafe = true ∧ name ∈ c.safe)
  ∨ (c.allowPublic = true ∧ ¬ ([95] : PyStr) <+: name)

/-- "has an exposed-prefixed twin on the object": exposed attributes are on, the prefix is not empty and the
object has `prefix ++ name` -/
def HasTwin (c : Config) (has : PyStr → Bool) (name : PyStr) : Prop :=
  c.allowExposed = true ∧ c.exposedPrefix ≠ [] ∧ has (c.exposedPrefix ++ name) = true

theorem plainAllowed_iff (c : Config) (name : PyStr) : plainAllowed c name = true ↔ NameAllowed c name := by
  simp [plainAllowed, NameAllowed, startsUnderscore, or_assoc, ← List.isPrefixOf_iff_prefix]

theorem hasExposed_iff (c : Config) (has : PyStr → Bool) (name : PyStr) :
    hasExposed c has name = true ↔ HasTwin c has name := by
  simp [hasExposed, HasTwin, prefixTruthy, twin, and_assoc]

/-- `_check_attr` as one closed formula over the four facts it depends on -/
theorem checkAttr_eq (c : Config) (has : PyStr → Bool) (name : PyStr) (op : Op) :
    checkAttr c has name op =
      if c.perm op && (plainAllowed c name || hasExposed c has name) then
        .ok (if hasExposed c has name && (!plainAllowed c name || !has name) then twin c name else name)
      else .error .attributeError := by
  unfold checkAttr
  generalize c.perm op = p
  generalize plainAllowed c name = pl
  generalize hasExposed c has name = he
  generalize has name = hn
  cases p <;> cases pl <;> cases he <;> cases hn <;> rfl

theorem checkProbes_eq (c : Config) (has : PyStr → Bool) (name : PyStr) (op : Op) :
    checkProbes c has name op =
      if c.perm op then
        (if prefixTruthy c then [twin c name] else [])
          ++ (if plainAllowed c name && hasExposed c has name then [name] else [])
      else [] := by
  unfold checkProbes
  cases c.perm op <;> rfl

theorem mem_checkProbes (c : Config) (has : PyStr → Bool) (name : PyStr) (op : Op) (n : PyStr)
    (h : n ∈ checkProbes c has name op) : n = name ∨ n = twin c name := by
  rw [checkProbes_eq] at h
  cases hp : c.perm op
  · simp [hp] at h
  · cases ht : prefixTruthy c <;> cases hq : (plainAllowed c name && hasExposed c has name) <;>
      simp [hp, ht, hq] at h
    · exact Or.inl h
    · exact Or.inr h
    · exact h.symm

@[simp] theorem probeEvs_filter_effect (id : Nat) (ns : List PyStr) :
    (probeEvs id ns).filter Ev.isEffect = [] := by
  induction ns with
  | nil => rfl
  | cons n ns ih => simp [probeEvs, Ev.isEffect]

theorem mem_probeEvs (id : Nat) (ns : List PyStr) (e : Ev) (h : e ∈ probeEvs id ns) :
    ∃ n ∈ ns, e = .probe id n := by
  simp [probeEvs] at h
  obtain ⟨n, hn, rfl⟩ := h
  exact ⟨n, hn, rfl⟩

/-- a failed call-by-name failed before the call: the read failed, and nothing was added -/
theorem thenCall_error (o : Obj) (r : Res) (e : Err) (h : (thenCall o r).out = .error e) :
    r.out = .error e ∧ (thenCall o r).log = r.log := by
  unfold thenCall at h ⊢
  cases hr : r.out with
  | ok a => cases a <;> simp [hr] at h
  | error e' => simp [hr] at h ⊢; exact h

/-! ### `dict.update` facts -/

@[simp] theorem upd_none {α} (a : α) : upd none a = a := rfl
@[simp] theorem upd_some {α} (a b : α) : upd (some b) a = b := rfl

theorem upd_idem {α} (o : Option α) (a : α) : upd o (upd o a) = upd o a := by
  cases o <;> rfl

/-- applying the same update twice is applying it once (`SlaveService.on_connect` run twice changes nothing more) -/
theorem applyOverlay_idem (c : Config) (ov : Overlay) : applyOverlay (applyOverlay c ov) ov = applyOverlay c ov := by
  simp [applyOverlay, upd_idem]

theorem onConnectSlave_idem (c : Config) : onConnectSlave (onConnectSlave c) = onConnectSlave c :=
  applyOverlay_idem c slaveOverlay

/-! ### histories -/

@[simp] theorem setConn_dflt (w : World) (i : Nat) (s : ConnSt) : (w.setConn i s).dflt = w.dflt := rfl
@[simp] theorem setConn_same (w : World) (i : Nat) (s : ConnSt) : (w.setConn i s).conns i = s := by
  simp [World.setConn]
theorem setConn_other (w : World) (i j : Nat) (s : ConnSt) (h : j ≠ i) : (w.setConn i s).conns j = w.conns j := by
  simp [World.setConn, h]

/-- no event writes the module-level defaults -/
theorem step_dflt (w : World) (e : Event) : (step w e).dflt = w.dflt := by
  cases e with
  | «open» i ov => simp only [step]; split <;> simp
  | slave i => simp only [step]; split <;> simp
  | close i => simp only [step]; split <;> simp
  | access i => rfl

/-- an event of connection `i` leaves every other slot alone -/
theorem step_other (w : World) (e : Event) (j : Nat) (h : e.conn ≠ j) : (step w e).conns j = w.conns j := by
  cases e with
  | «open» i ov => have hj : j ≠ i := fun x => h x.symm
                   cases hw : w.conns i <;> simp [step, hw, setConn_other _ _ _ _ hj]
  | slave i => have hj : j ≠ i := fun x => h x.symm
               cases hw : w.conns i <;> simp [step, hw, setConn_other _ _ _ _ hj]
  | close i => have hj : j ≠ i := fun x => h x.symm
               cases hw : w.conns i <;> simp [step, hw, setConn_other _ _ _ _ hj]
  | access i => rfl

/-- what an event of connection `j` does to slot `j` depends only on slot `j` and the defaults -/
theorem step_own (w w' : World) (e : Event) (j : Nat) (he : e.conn = j)
    (hc : w.conns j = w'.conns j) (hd : w.dflt = w'.dflt) : (step w e).conns j = (step w' e).conns j := by
  cases e with
  | «open» i ov =>
    simp only [Event.conn] at he; subst he
    simp only [step]
    rw [← hc, ← hd]
    cases hw : w.conns i <;> simp [← hc, hw]
  | slave i =>
    simp only [Event.conn] at he; subst he
    simp only [step]
    rw [← hc]
    cases hw : w.conns i <;> simp [← hc, hw]
  | close i =>
    simp only [Event.conn] at he; subst he
    simp only [step]
    rw [← hc]
    cases hw : w.conns i <;> simp [← hc, hw]
  | access i => exact hc

theorem runEvents_dflt (w : World) (evs : List Event) : (runEvents w evs).dflt = w.dflt := by
  induction evs generalizing w with
  | nil => rfl
  | cons e es ih => simp [runEvents, ih, step_dflt]

/-- noninterference, general form: two worlds that agree on slot `j` and on the defaults still agree on slot `j`
after the one has run a whole history and the other only `j`'s own events of it -/
theorem runEvents_filter (j : Nat) (evs : List Event) (w w' : World)
    (hc : w.conns j = w'.conns j) (hd : w.dflt = w'.dflt) :
    (runEvents w evs).conns j = (runEvents w' (evs.filter (fun e => e.conn == j))).conns j := by
  induction evs generalizing w w' with
  | nil => simpa [runEvents] using hc
  | cons e es ih =>
    by_cases he : e.conn = j
    · have : (e.conn == j) = true := by simp [he]
      simp only [runEvents, List.filter_cons, this, if_true]
      exact ih _ _ (step_own w w' e j he hc hd) (by simp [step_dflt, hd])
    · have : (e.conn == j) = false := by simp [he]
      simp only [runEvents, List.filter_cons, this]
      exact ih _ _ (by rw [step_other w e j he, hc]) (by simp [step_dflt, hd])

/-- invariant for the closed form: every non-fresh slot holds the defaults overlaid with the overlay of an `open`
event of that very connection, with or without the classic-mode update on top -/
def CfgFrom (dflt : Config) (opened : List Event) (j : Nat) (cfg : Config) : Prop :=
  ∃ ov, Event.open j ov ∈ opened ∧ (cfg = applyOverlay dflt ov ∨ cfg = onConnectSlave (applyOverlay dflt ov))

def SlotOk (dflt : Config) (opened : List Event) (j : Nat) : ConnSt → Prop
  | .fresh => True
  | .live cfg => CfgFrom dflt opened j cfg
  | .closed cfg => CfgFrom dflt opened j cfg

theorem SlotOk.mono {dflt : Config} {l l' : List Event} {j : Nat} {s : ConnSt}
    (h : SlotOk dflt l j s) (hl : ∀ e ∈ l, e ∈ l') : SlotOk dflt l' j s := by
  cases s with
  | fresh => trivial
  | live cfg => obtain ⟨ov, ho, hcfg⟩ := h; exact ⟨ov, hl _ ho, hcfg⟩
  | closed cfg => obtain ⟨ov, ho, hcfg⟩ := h; exact ⟨ov, hl _ ho, hcfg⟩

theorem step_slotOk (w : World) (e : Event) (seen : List Event)
    (h : ∀ j, SlotOk w.dflt seen j (w.conns j)) : ∀ j, SlotOk w.dflt (seen ++ [e]) j ((step w e).conns j) := by
  intro j
  have hmono : ∀ x ∈ seen, x ∈ seen ++ [e] := fun x hx => List.mem_append_left _ hx
  by_cases he : e.conn = j
  · cases e with
    | «open» i ov =>
      simp only [Event.conn] at he; subst he
      simp only [step]
      cases hw : w.conns i with
      | fresh =>
        simp only [setConn_same]
        exact ⟨ov, by simp, Or.inl rfl⟩
      | live cfg => simp only [hw]; exact (hw ▸ h i).mono hmono
      | closed cfg => simp only [hw]; exact (hw ▸ h i).mono hmono
    | slave i =>
      simp only [Event.conn] at he; subst he
      simp only [step]
      cases hw : w.conns i with
      | fresh => simp only [hw]; trivial
      | live cfg =>
        simp only [setConn_same]
        obtain ⟨ov, ho, hcfg⟩ := (hw ▸ h i : SlotOk w.dflt seen i (.live cfg))
        refine ⟨ov, hmono _ ho, Or.inr ?_⟩
        rcases hcfg with rfl | rfl
        · rfl
        · exact onConnectSlave_idem _
      | closed cfg => simp only [hw]; exact (hw ▸ h i).mono hmono
    | close i =>
      simp only [Event.conn] at he; subst he
      simp only [step]
      cases hw : w.conns i with
      | fresh => simp only [hw]; trivial
      | live cfg =>
        simp only [setConn_same]
        exact ((hw ▸ h i : SlotOk w.dflt seen i (.live cfg))).mono hmono
      | closed cfg => simp only [hw]; exact (hw ▸ h i).mono hmono
    | access i => exact (h j).mono hmono
  · rw [step_other w e j he]
    exact (h j).mono hmono

theorem runEvents_slotOk (evs : List Event) (w : World) (seen : List Event)
    (h : ∀ j, SlotOk w.dflt seen j (w.conns j)) :
    ∀ j, SlotOk w.dflt (seen ++ evs) j ((runEvents w evs).conns j) := by
  induction evs generalizing w seen with
  | nil => simpa [runEvents] using h
  | cons e es ih =>
    intro j
    have := ih (step w e) (seen ++ [e]) (by simpa [step_dflt] using step_slotOk w e seen h) j
    simpa [runEvents, step_dflt, List.append_assoc] using this

end Rpyc.Policy
