import RpycModel.Policy.Model
/-
Helper definitions and lemmas for C06 (the property theorems themselves are in Props/C06.lean).
-/
namespace Rpyc.Policy
open Rpyc

deriving instance DecidableEq for Except

/-! ### the statement's vocabulary, as propositions over arbitrary configurations / names / objects -/

/-- "the name is allowed (everything / exposed-prefix / safe-list / public, as enabled)" -/
def NameAllowed (c : Config) (name : PyStr) : Prop :=
  c.allowAll = true
  ∨ (c.allowExposed = true ∧ c.exposedPrefix <+: name)
  ∨ (c.allowSafe = true ∧ name ∈ c.safe)
  ∨ (c.allowPublic = true ∧ ¬ ([95] : PyStr) <+: name)

/-- "has an exposed-prefixed twin on the object": exposed attributes are on, the prefix is not empty and the
object has `prefix ++ name` -/
def HasTwin (c : Config) (has : PyStr → Bool) (name : PyStr) : Prop :=
  c.allowExposed = true ∧ c.exposedPrefix ≠ [] ∧ has (c.exposedPrefix ++ name) = true

theorem plainAllowed_iff (c : Config) (name : PyStr) : plainAllowed c name = true ↔ NameAllowed c name := by
  simp [plainAllowed, NameAllowed, startsUnderscore, or_assoc, ← List.isPrefixOf_iff_prefix]

theorem hasExposed_iff (c : Config) (has : PyStr → Bool) (name : PyStr) :
    hasExposed c has name = true ↔ HasTwin c has name := by
  simp [hasExposed, HasTwin, prefixTruthy, twin, and_assoc]

/-- `_check_attr` as one closed formula over the four facts it depends on -/
theorem checkAttr_eq (c : Config) (has : PyStr → Bool) (name : PyStr) (op : Op) :
    checkAttr c has name op =
      if c.perm op && (plainAllowed c name || hasExposed c has name) then
        .ok (if hasExposed c has name && (!plainAllowed c name || !has name) then twin c name else name)
      else .error .attributeError := by
  unfold checkAttr
  generalize c.perm op = p
  generalize plainAllowed c name = pl
  generalize hasExposed c has name = he
  generalize has name = hn
  cases p <;> cases pl <;> cases he <;> cases hn <;> rfl

theorem checkProbes_eq (c : Config) (has : PyStr → Bool) (name : PyStr) (op : Op) :
    checkProbes c has name op =
      if c.perm op then
        (if prefixTruthy c then [twin c name] else [])
          ++ (if plainAllowed c name && hasExposed c has name then [name] else [])
      else [] := by
  unfold checkProbes
  cases c.perm op <;> rfl

theorem mem_checkProbes (c : Config) (has : PyStr → Bool) (name : PyStr) (op : Op) (n : PyStr)
    (h : n ∈ checkProbes c has name op) : n = name ∨ n = twin c name := by
  rw [checkProbes_eq] at h
  cases hp : c.perm op
  · simp [hp] at h
  · cases ht : prefixTruthy c <;> cases hq : (plainAllowed c name && hasExposed c has name) <;>
      simp [hp, ht, hq] at h
    · exact Or.inl h
    · exact Or.inr h
    · exact h.symm

/-- an object whose `hasattr` is pure: evaluating an attribute does nothing else -/
def PureProbes (o : Obj) : Prop := ∀ n, o.probeExtra n = []

theorem mem_probeEvs (o : Obj) (ns : List PyStr) (e : Ev) (h : e ∈ probeEvs o ns) :
    ∃ n ∈ ns, e = .probe o.id n ∨ e ∈ o.probeExtra n := by
  induction ns with
  | nil => simp [probeEvs] at h
  | cons n ns ih =>
    simp only [probeEvs, List.mem_cons, List.mem_append] at h
    rcases h with rfl | h | h
    · exact ⟨n, by simp, Or.inl rfl⟩
    · exact ⟨n, by simp, Or.inr h⟩
    · obtain ⟨n', hn', hh⟩ := ih h
      exact ⟨n', by simp [hn'], hh⟩

theorem probeEvs_congr (o o' : Obj) (hid : o.id = o'.id) (hpe : o.probeExtra = o'.probeExtra) (ns : List PyStr) :
    probeEvs o ns = probeEvs o' ns := by
  induction ns with
  | nil => rfl
  | cons n ns ih => simp [probeEvs, hid, hpe, ih]

theorem probeEvs_pure (o : Obj) (hp : PureProbes o) (ns : List PyStr) : probeEvs o ns = ns.map (Ev.probe o.id) := by
  induction ns with
  | nil => rfl
  | cons n ns ih => simp [probeEvs, hp n, ih]

theorem probeEvs_filter_effect (o : Obj) (hp : PureProbes o) (ns : List PyStr) :
    (probeEvs o ns).filter Ev.isEffect = [] := by
  rw [probeEvs_pure o hp]
  induction ns with
  | nil => rfl
  | cons n ns ih => simp [Ev.isEffect]

/-- every event is a `hasattr` probe of `o`, or something that evaluating the probed attribute did -/
def OnlyProbes (o : Obj) (log : List Ev) : Prop :=
  ∀ ev ∈ log, ∃ n, ev = .probe o.id n ∨ ev ∈ o.probeExtra n

theorem onlyProbes_probeEvs (o : Obj) (ns : List PyStr) : OnlyProbes o (probeEvs o ns) := by
  intro ev hev
  obtain ⟨n, _, h⟩ := mem_probeEvs o ns ev hev
  exact ⟨n, h⟩

/-- a refused `_access_attr` on a hook-less object: nothing but probes; with a pure `hasattr`, no effect at all -/
theorem run_denied (c : Config) (o : Obj) (nm : Name) (op : Op) (e : Err)
    (hh : o.hook op = none) (h : (run c o nm op).out = .error e) :
    OnlyProbes o (run c o nm op).log ∧ (PureProbes o → (run c o nm op).log.filter Ev.isEffect = []) := by
  unfold run at h ⊢
  cases hd : decodeName nm with
  | error e' => exact ⟨by intro ev hev; simp at hev, fun _ => rfl⟩
  | ok name =>
    simp only [hd, runNamed, hh, runDefault] at h ⊢
    cases hc : checkAttr c o.has name op with
    | ok n => simp [hc] at h
    | error e' => exact ⟨onlyProbes_probeEvs o _, fun hp => probeEvs_filter_effect o hp _⟩

/-- a failed call-by-name failed before the call: the read failed, and nothing was added -/
theorem thenCall_error (o : Obj) (r : Res) (e : Err) (h : (thenCall o r).out = .error e) :
    r.out = .error e ∧ (thenCall o r).log = r.log := by
  unfold thenCall at h ⊢
  cases hr : r.out with
  | ok a => cases a <;> simp [hr] at h
  | error e' => simp [hr] at h ⊢; exact h

/-- the same for read-then-call (`callattr`, `ctxexit`, `cmp`, each stage of `oldslicing`) -/
theorem getcall_denied (c : Config) (o : Obj) (nm : Name) (e : Err)
    (hh : o.hook .get = none) (h : (thenCall o (run c o nm .get)).out = .error e) :
    OnlyProbes o (thenCall o (run c o nm .get)).log
    ∧ (PureProbes o → (thenCall o (run c o nm .get)).log.filter Ev.isEffect = []) := by
  obtain ⟨hr, hl⟩ := thenCall_error o _ e h
  rw [hl]
  exact run_denied c o nm .get e hh hr

/-- what read-then-call can reach on a hook-less object with a pure `hasattr`: only the one name `_check_attr`
approved for the requested name — read, then (if it exists) called -/
theorem getcall_effects (c : Config) (o : Obj) (nm : Name) (hh : o.hook .get = none) (hp : PureProbes o)
    (ev : Ev) (hev : ev ∈ (thenCall o (run c o nm .get)).log) (heff : ev.isEffect = true) :
    ∃ s n, decodeName nm = .ok s ∧ checkAttr c o.has s .get = .ok n
      ∧ (ev = .access o.id .get n ∨ ev = .call o.id n) := by
  unfold run at hev
  cases hd : decodeName nm with
  | error e' => simp [hd, thenCall] at hev
  | ok name =>
    simp only [hd, runNamed, hh, runDefault] at hev
    cases hc : checkAttr c o.has name .get with
    | error e' =>
      simp only [hc, thenCall] at hev
      rw [probeEvs_pure o hp] at hev
      simp only [List.mem_map] at hev
      obtain ⟨n, _, rfl⟩ := hev
      simp [Ev.isEffect] at heff
    | ok n =>
      refine ⟨name, n, rfl, hc, ?_⟩
      simp only [hc, thenCall] at hev
      rw [probeEvs_pure o hp] at hev
      cases hn : o.has n
      · simp [hn] at hev
        rcases hev with ⟨x, _, rfl⟩ | rfl
        · simp [Ev.isEffect] at heff
        · exact Or.inl rfl
      · simp [hn] at hev
        rcases hev with ⟨x, _, rfl⟩ | rfl | rfl
        · simp [Ev.isEffect] at heff
        · exact Or.inl rfl
        · exact Or.inr rfl

/-! ### `dict.update` facts -/

@[simp] theorem upd_none {α} (a : α) : upd none a = a := rfl
@[simp] theorem upd_some {α} (a b : α) : upd (some b) a = b := rfl

theorem upd_idem {α} (o : Option α) (a : α) : upd o (upd o a) = upd o a := by
  cases o <;> rfl

/-- applying the same update twice is applying it once (`SlaveService.on_connect` run twice changes nothing more) -/
theorem applyOverlay_idem (c : Config) (ov : Overlay) : applyOverlay (applyOverlay c ov) ov = applyOverlay c ov := by
  simp [applyOverlay, upd_idem]

theorem onConnectSlave_idem (c : Config) : onConnectSlave (onConnectSlave c) = onConnectSlave c :=
  applyOverlay_idem c slaveOverlay

/-! ### the configuration heap -/

@[simp] theorem setDict_dfltSet (w : HWorld) (r : Ref) (d : HDict) : (w.setDict r d).dfltSet = w.dfltSet := rfl
@[simp] theorem setDict_conns (w : HWorld) (r : Ref) (d : HDict) : (w.setDict r d).conns = w.conns := rfl
@[simp] theorem setDict_servers (w : HWorld) (r : Ref) (d : HDict) : (w.setDict r d).servers = w.servers := rfl
@[simp] theorem setDict_same (w : HWorld) (r : Ref) (d : HDict) : (w.setDict r d).dicts r = d := by
  simp [HWorld.setDict]
theorem setDict_other (w : HWorld) (r r' : Ref) (d : HDict) (h : r' ≠ r) : (w.setDict r d).dicts r' = w.dicts r' := by
  simp [HWorld.setDict, h]
@[simp] theorem hsetConn_dfltSet (w : HWorld) (i : Nat) (c : HConn) : (w.setConn i c).dfltSet = w.dfltSet := rfl
@[simp] theorem hsetConn_dicts (w : HWorld) (i : Nat) (c : HConn) : (w.setConn i c).dicts = w.dicts := rfl
@[simp] theorem hsetConn_servers (w : HWorld) (i : Nat) (c : HConn) : (w.setConn i c).servers = w.servers := rfl
@[simp] theorem hsetConn_same (w : HWorld) (i : Nat) (c : HConn) : (w.setConn i c).conns i = c := by
  simp [HWorld.setConn]
theorem hsetConn_other (w : HWorld) (i j : Nat) (c : HConn) (h : j ≠ i) : (w.setConn i c).conns j = w.conns j := by
  simp [HWorld.setConn, h]

@[simp] theorem addToSafe_nil (w : HWorld) (ch : List Ref) : addToSafe w ch [] = w := rfl

/-- the dict object a good-mode open creates for connection `i` from the dict object `arg` -/
def goodOwnDict (cs : Bool) (w : HWorld) (arg : Ref) (classic : Bool) : HDict :=
  if classic then
    (if cs then ((w.dicts .dflt).update (w.dicts arg)).freezeSafe w.dfltSet
     else (w.dicts .dflt).update (w.dicts arg)).update slaveDict
  else (if cs then ((w.dicts .dflt).update (w.dicts arg)).freezeSafe w.dfltSet
        else (w.dicts .dflt).update (w.dicts arg))

theorem openConn_good_conns (kp cs : Bool) (w : HWorld) (i : Nat) (arg : Ref) (classic : Bool) (k : Nat) :
    (openConn (Modes.good kp cs) w i arg classic).conns k = if k = i then .live [.own i] else w.conns k := by
  cases classic <;> simp [openConn, Modes.good, initConn, headRef, HWorld.setConn]

theorem openConn_good_dfltSet (kp cs : Bool) (w : HWorld) (i : Nat) (arg : Ref) (classic : Bool) :
    (openConn (Modes.good kp cs) w i arg classic).dfltSet = w.dfltSet := by
  cases classic <;> simp [openConn, Modes.good, initConn, headRef]

theorem openConn_good_servers (kp cs : Bool) (w : HWorld) (i : Nat) (arg : Ref) (classic : Bool) :
    (openConn (Modes.good kp cs) w i arg classic).servers = w.servers := by
  cases classic <;> simp [openConn, Modes.good, initConn, headRef]

theorem openConn_good_dicts (kp cs : Bool) (w : HWorld) (i : Nat) (arg : Ref) (classic : Bool) (r : Ref) :
    (openConn (Modes.good kp cs) w i arg classic).dicts r = if r = .own i then goodOwnDict cs w arg classic else w.dicts r := by
  cases classic <;> by_cases hr : r = .own i <;>
    simp [openConn, Modes.good, initConn, headRef, goodOwnDict, HWorld.setDict, hr]

/-- a configuration is a function of the dict objects on its chain and of the default set object's content -/
theorem lookB_congr (d d' : Ref → HDict) (ch : List Ref) (k : BKey) (h : ∀ r ∈ ch, d r = d' r) :
    lookB d ch k = lookB d' ch k := by
  induction ch with
  | nil => rfl
  | cons r rs ih => simp [lookB, h r (by simp), ih (fun x hx => h x (by simp [hx]))]

theorem lookP_congr (d d' : Ref → HDict) (ch : List Ref) (h : ∀ r ∈ ch, d r = d' r) : lookP d ch = lookP d' ch := by
  induction ch with
  | nil => rfl
  | cons r rs ih => simp [lookP, h r (by simp), ih (fun x hx => h x (by simp [hx]))]

theorem lookS_congr (d d' : Ref → HDict) (ch : List Ref) (h : ∀ r ∈ ch, d r = d' r) : lookS d ch = lookS d' ch := by
  induction ch with
  | nil => rfl
  | cons r rs ih => simp [lookS, h r (by simp), ih (fun x hx => h x (by simp [hx]))]

theorem cfgOfChain_congr (w w' : HWorld) (ch : List Ref) (h : ∀ r ∈ ch, w.dicts r = w'.dicts r)
    (hs : w.dfltSet = w'.dfltSet) : w.cfgOfChain ch = w'.cfgOfChain ch := by
  have hsc : w.safeContent = w'.safeContent := by
    funext v; cases v <;> simp [HWorld.safeContent, hs]
  simp only [HWorld.cfgOfChain, lookP_congr _ _ ch h, lookS_congr _ _ ch h, hsc,
    fun k => lookB_congr _ _ ch k h]

/-- ownership: every established connection's `_config` is exactly the one dict object created for it -/
def OwnInv (w : HWorld) : Prop :=
  ∀ i ch, (w.conns i = .live ch ∨ w.conns i = .closed ch) → ch = [.own i]

theorem ownInv_init : OwnInv HWorld.init := by
  intro i ch h; simp [HWorld.init] at h

/-! constructing a server touches no connection slot, not the default set, and no dict object but `srv k` -/
theorem newServer_conns (m : Modes) (w : HWorld) (k : Nat) (d : Option Nat) :
    (hstep m w (.newServer k d)).conns = w.conns := by
  cases hs : w.servers k <;> cases d <;> cases hk : m.serverKeepsGiven <;> simp [hstep, hs, hk]

theorem newServer_dfltSet (m : Modes) (w : HWorld) (k : Nat) (d : Option Nat) :
    (hstep m w (.newServer k d)).dfltSet = w.dfltSet := by
  cases hs : w.servers k <;> cases d <;> cases hk : m.serverKeepsGiven <;> simp [hstep, hs, hk]

theorem newServer_dicts (m : Modes) (w : HWorld) (k : Nat) (d : Option Nat) (r : Ref) (hr : r ≠ .srv k) :
    (hstep m w (.newServer k d)).dicts r = w.dicts r := by
  cases hs : w.servers k <;> cases d <;> cases hk : m.serverKeepsGiven <;>
    simp [hstep, hs, hk, setDict_other _ _ _ _ hr]

theorem newServer_servers (m : Modes) (w : HWorld) (k : Nat) (d : Option Nat) (x : Nat) :
    (hstep m w (.newServer k d)).servers x
      = if x = k then (match w.servers k with | none => some (serverRef m k d) | some r => some r) else w.servers x := by
  cases hs : w.servers k <;> cases d <;> cases hk : m.serverKeepsGiven <;> by_cases hx : x = k <;>
    simp [hstep, hs, hk, hx]

/-- the slot of connection `j` after one good-mode event -/
theorem hstep_good_conns (kp cs : Bool) (w : HWorld) (e : HEvent) (j : Nat) :
    (hstep (Modes.good kp cs) w e).conns j = w.conns j
    ∨ (w.conns j = .fresh ∧ (hstep (Modes.good kp cs) w e).conns j = .live [.own j])
    ∨ (∃ ch, w.conns j = .live ch ∧ (hstep (Modes.good kp cs) w e).conns j = .closed ch) := by
  cases e with
  | «open» i d classic =>
    cases hw : w.conns i with
    | fresh =>
      by_cases hji : j = i
      · subst hji; exact Or.inr (Or.inl ⟨hw, by simp [hstep, hw, openConn_good_conns]⟩)
      · exact Or.inl (by simp [hstep, hw, openConn_good_conns, hji])
    | live c => exact Or.inl (by simp [hstep, hw])
    | closed c => exact Or.inl (by simp [hstep, hw])
  | close i =>
    cases hw : w.conns i with
    | fresh => exact Or.inl (by simp [hstep, hw])
    | live c =>
      by_cases hji : j = i
      · subst hji; exact Or.inr (Or.inr ⟨c, hw, by simp [hstep, hw]⟩)
      · exact Or.inl (by simp [hstep, hw, hsetConn_other _ _ _ _ hji])
    | closed c => exact Or.inl (by simp [hstep, hw])
  | access i => exact Or.inl rfl
  | editDict r ov => exact Or.inl rfl
  | mutDfltSet names => exact Or.inl rfl
  | newServer k d => exact Or.inl (by rw [newServer_conns])
  | serverConn i k classic =>
    cases hw : w.conns i with
    | fresh =>
      cases hs : w.servers k with
      | none => exact Or.inl (by simp [hstep, hw, hs])
      | some r =>
        by_cases hji : j = i
        · subst hji; exact Or.inr (Or.inl ⟨hw, by simp [hstep, hw, hs, openConn_good_conns]⟩)
        · exact Or.inl (by simp [hstep, hw, hs, openConn_good_conns, hji])
    | live c => exact Or.inl (by simp [hstep, hw])
    | closed c => exact Or.inl (by simp [hstep, hw])
  | editServer k ov =>
    cases hs : w.servers k with
    | none => exact Or.inl (by simp [hstep, hs])
    | some r => cases hr : r.editable <;> exact Or.inl (by simp [hstep, hs, hr])

theorem hstep_good_inv (kp cs : Bool) (w : HWorld) (e : HEvent) (h : OwnInv w) : OwnInv (hstep (Modes.good kp cs) w e) := by
  intro j ch hj
  rcases hstep_good_conns kp cs w e j with heq | ⟨_, hl⟩ | ⟨c, hlive, hc⟩
  · rw [heq] at hj; exact h j ch hj
  · rw [hl] at hj
    rcases hj with hj | hj
    · injection hj with hj; exact hj.symm
    · cases hj
  · rw [hc] at hj
    rcases hj with hj | hj
    · cases hj
    · injection hj with hj; subst hj; exact h j c (Or.inl hlive)

@[simp] theorem initConn_conns (m : InitMode) (cs : Bool) (w : HWorld) (i : Nat) (arg : Ref) :
    (initConn m cs w i arg).1.conns = w.conns := by
  cases m <;> rfl

@[simp] theorem addToSafe_conns (w : HWorld) (ch : List Ref) (names : List PyStr) :
    (addToSafe w ch names).conns = w.conns := by
  unfold addToSafe
  cases names with
  | nil => rfl
  | cons n ns =>
    cases lookS w.dicts ch with
    | none => rfl
    | some v => cases v <;> rfl

theorem openConn_conns_other (m : Modes) (w : HWorld) (i : Nat) (arg : Ref) (classic : Bool) (j : Nat) (hj : j ≠ i) :
    (openConn m w i arg classic).conns j = w.conns j := by
  unfold openConn
  simp only [hsetConn_other _ _ _ _ hj]
  cases classic <;> cases m.classic.writesCallerDict <;> simp

/-- an event that is not connection `j`'s own leaves slot `j` alone — in every mode -/
theorem hstep_conns_other (m : Modes) (w : HWorld) (e : HEvent) (j : Nat) (h : e.conn ≠ some j) :
    (hstep m w e).conns j = w.conns j := by
  cases e with
  | «open» i d classic =>
    have hj : j ≠ i := fun x => h (by simp [HEvent.conn, x])
    cases hw : w.conns i <;> simp [hstep, hw, openConn_conns_other _ _ _ _ _ _ hj]
  | close i =>
    have hj : j ≠ i := fun x => h (by simp [HEvent.conn, x])
    cases hw : w.conns i <;> simp [hstep, hw, hsetConn_other _ _ _ _ hj]
  | access i => rfl
  | editDict r ov => rfl
  | mutDfltSet names => rfl
  | newServer k d => rw [newServer_conns]
  | serverConn i k classic =>
    have hj : j ≠ i := fun x => h (by simp [HEvent.conn, x])
    cases hw : w.conns i <;> cases hs : w.servers k <;> simp [hstep, hw, hs, openConn_conns_other _ _ _ _ _ _ hj]
  | editServer k ov =>
    cases hs : w.servers k with
    | none => simp [hstep, hs]
    | some r => cases hr : r.editable <;> simp [hstep, hs, hr]

/-- in the good mode no fair event writes the dict object of an ESTABLISHED connection, whoever's event it is -/
theorem hstep_good_ownDict (kp cs : Bool) (w : HWorld) (e : HEvent) (j : Nat) (hf : e.fair = true) (hj : w.conns j ≠ .fresh) :
    (hstep (Modes.good kp cs) w e).dicts (.own j) = w.dicts (.own j) := by
  cases e with
  | «open» i d classic =>
    cases hw : w.conns i with
    | fresh =>
      have hji : j ≠ i := fun x => hj (x ▸ hw)
      simp [hstep, hw, openConn_good_dicts, hji]
    | live c => simp [hstep, hw]
    | closed c => simp [hstep, hw]
  | close i => cases hw : w.conns i <;> simp [hstep, hw]
  | access i => rfl
  | editDict r ov =>
    cases r with
    | own k => simp [HEvent.fair, Ref.editable] at hf
    | tmp k => simp [HEvent.fair, Ref.editable] at hf
    | dflt => simp [hstep, setDict_other]
    | app n => simp [hstep, setDict_other]
    | srv n => simp [hstep, setDict_other]
    | srvShared => simp [hstep, setDict_other]
  | mutDfltSet names => rfl
  | newServer k d => exact newServer_dicts _ w k d _ (by simp)
  | serverConn i k classic =>
    cases hw : w.conns i with
    | fresh =>
      have hji : j ≠ i := fun x => hj (x ▸ hw)
      cases hs : w.servers k <;> simp [hstep, hw, hs, openConn_good_dicts, hji, setDict_other]
    | live c => simp [hstep, hw]
    | closed c => simp [hstep, hw]
  | editServer k ov =>
    cases hs : w.servers k with
    | none => simp [hstep, hs]
    | some r =>
      cases r with
      | own n => simp [hstep, hs, Ref.editable]
      | tmp n => simp [hstep, hs, Ref.editable]
      | dflt => simp [hstep, hs, Ref.editable, setDict_other]
      | app n => simp [hstep, hs, Ref.editable, setDict_other]
      | srv n => simp [hstep, hs, Ref.editable, setDict_other]
      | srvShared => simp [hstep, hs, Ref.editable, setDict_other]

theorem hstep_good_dfltSet (kp cs : Bool) (w : HWorld) (e : HEvent) (hf : e.fair = true) :
    (hstep (Modes.good kp cs) w e).dfltSet = w.dfltSet := by
  cases e with
  | «open» i d classic => cases hw : w.conns i <;> simp [hstep, hw, openConn_good_dfltSet]
  | close i => cases hw : w.conns i <;> simp [hstep, hw]
  | access i => rfl
  | editDict r ov => rfl
  | mutDfltSet names => simp [HEvent.fair] at hf
  | newServer k d => exact newServer_dfltSet _ w k d
  | serverConn i k classic =>
    cases hw : w.conns i <;> cases hs : w.servers k <;> simp [hstep, hw, hs, openConn_good_dfltSet]
  | editServer k ov =>
    cases hs : w.servers k with
    | none => simp [hstep, hs]
    | some r => cases hr : r.editable <;> simp [hstep, hs, hr]

/-! #### servers -/

/-- every server holds either the caller's dict object it was given, or the one it made for itself -/
def SrvInv (w : HWorld) : Prop := ∀ k r, w.servers k = some r → r = .srv k ∨ ∃ d, r = .app d

theorem srvInv_init : SrvInv HWorld.init := by
  intro k r h; simp [HWorld.init] at h

theorem hstep_good_servers (kp cs : Bool) (w : HWorld) (e : HEvent) (k : Nat) :
    (hstep (Modes.good kp cs) w e).servers k = w.servers k
    ∨ (w.servers k = none ∧ ∃ d, e = .newServer k d ∧ (hstep (Modes.good kp cs) w e).servers k = some (serverRef (Modes.good kp cs) k d)) := by
  cases e with
  | «open» i d classic => cases hw : w.conns i <;> simp [hstep, hw, openConn_good_servers]
  | close i => cases hw : w.conns i <;> simp [hstep, hw]
  | access i => exact Or.inl rfl
  | editDict r ov => exact Or.inl rfl
  | mutDfltSet names => exact Or.inl rfl
  | newServer k' d =>
    rw [newServer_servers]
    by_cases hk : k = k'
    · subst hk
      cases hs : w.servers k with
      | some r => exact Or.inl (by simp)
      | none => exact Or.inr ⟨rfl, d, rfl, by simp⟩
    · exact Or.inl (by simp [hk])
  | serverConn i k' classic =>
    cases hw : w.conns i <;> cases hs : w.servers k' <;> simp [hstep, hw, hs, openConn_good_servers]
  | editServer k' ov =>
    cases hs : w.servers k' with
    | none => exact Or.inl (by simp [hstep, hs])
    | some r => cases hr : r.editable <;> exact Or.inl (by simp [hstep, hs, hr])

theorem hstep_good_srvInv (kp cs : Bool) (w : HWorld) (e : HEvent) (h : SrvInv w) : SrvInv (hstep (Modes.good kp cs) w e) := by
  intro k r hr
  rcases hstep_good_servers kp cs w e k with heq | ⟨_, d, _, hnew⟩
  · rw [heq] at hr; exact h k r hr
  · rw [hnew] at hr
    injection hr with hr
    subst hr
    cases d with
    | none => exact Or.inl (by simp [serverRef, Modes.good])
    | some d =>
      cases kp with
      | true => exact Or.inr ⟨d, by simp [serverRef, Modes.good]⟩
      | false => exact Or.inl (by simp [serverRef, Modes.good])

theorem hrun_good_srvInv (kp cs : Bool) (evs : List HEvent) (w : HWorld) (h : SrvInv w) : SrvInv (hrun (Modes.good kp cs) w evs) := by
  induction evs generalizing w with
  | nil => exact h
  | cons e es ih => exact ih _ (hstep_good_srvInv kp cs w e h)

/-- dict objects that belong to the application: the module defaults, its settings dicts, its servers' own dicts -/
def Ref.appOwned : Ref → Bool
  | .dflt => true
  | .app _ => true
  | .srv _ => true
  | .srvShared => true
  | _ => false

/-- may this event edit the application's dict object `r`?  A direct edit of `r`; an edit through a server, which
goes to whatever object that server holds — never the module defaults, and `srv k` only through server `k` (`SrvInv`);
the construction of server `k`, which initialises `srv k`. -/
def HEvent.mayEdit (r : Ref) : HEvent → Bool
  | .editDict r' _ => r' == r
  | .editServer k _ =>
    match r with
    | .dflt => false
    | .srv k' => k == k'
    | .srvShared => false
    | _ => true
  | .newServer k _ => r == .srv k
  | _ => false

/-- rpyc itself (connects, per-client dicts of a server, closes, requests, server construction) never writes a dict
object of the application: only the application's own edits do -/
theorem hstep_good_sharedDicts (kp cs : Bool) (w : HWorld) (e : HEvent) (r : Ref) (hr : r.appOwned = true)
    (hsrv : SrvInv w) (he : e.mayEdit r = false) : (hstep (Modes.good kp cs) w e).dicts r = w.dicts r := by
  have hown : ∀ k, r ≠ .own k := by intro k h; subst h; simp [Ref.appOwned] at hr
  have htmp : ∀ k, r ≠ .tmp k := by intro k h; subst h; simp [Ref.appOwned] at hr
  cases e with
  | «open» i d classic =>
    cases hw : w.conns i <;> simp [hstep, hw, openConn_good_dicts, hown i]
  | close i => cases hw : w.conns i <;> simp [hstep, hw]
  | access i => rfl
  | editDict r' ov =>
    have : r ≠ r' := by intro x; subst x; simp [HEvent.mayEdit] at he
    simp [hstep, setDict_other _ _ _ _ this]
  | mutDfltSet names => rfl
  | newServer k d =>
    have hne : r ≠ .srv k := by intro x; subst x; simp [HEvent.mayEdit] at he
    exact newServer_dicts _ w k d r hne
  | serverConn i k classic =>
    cases hw : w.conns i <;> cases hs : w.servers k <;>
      simp [hstep, hw, hs, openConn_good_dicts, hown i, setDict_other _ _ _ _ (htmp i)]
  | editServer k ov =>
    cases hs : w.servers k with
    | none => simp [hstep, hs]
    | some r' =>
      have hne : r ≠ r' := by
        intro x; subst x
        rcases hsrv k r hs with rfl | ⟨d, rfl⟩
        · simp [HEvent.mayEdit] at he
        · simp [HEvent.mayEdit] at he
      cases hr' : r'.editable <;> simp [hstep, hs, hr', setDict_other _ _ _ _ hne]

/-- **frozen**: in the good mode, an established connection's configuration survives every fair event -/
theorem hstep_good_frozen (kp cs : Bool) (w : HWorld) (e : HEvent) (j : Nat) (hinv : OwnInv w) (hf : e.fair = true)
    (hj : w.conns j ≠ .fresh) : (hstep (Modes.good kp cs) w e).cfgOf j = w.cfgOf j ∧ (hstep (Modes.good kp cs) w e).conns j ≠ .fresh := by
  have hd := hstep_good_ownDict kp cs w e j hf hj
  have hs := hstep_good_dfltSet kp cs w e hf
  have key : (hstep (Modes.good kp cs) w e).cfgOfChain [Ref.own j] = w.cfgOfChain [Ref.own j] :=
    cfgOfChain_congr _ _ _ (by intro r hr; simp at hr; subst hr; exact hd) hs
  rcases hstep_good_conns kp cs w e j with heq | ⟨hfresh, _⟩ | ⟨c, hlive, hc⟩
  · refine ⟨?_, by rw [heq]; exact hj⟩
    simp only [HWorld.cfgOf, heq]
    cases hw : w.conns j with
    | fresh => exact absurd hw hj
    | live c => rw [hinv j c (Or.inl hw)]; exact key
    | closed c => rw [hinv j c (Or.inr hw)]; exact key
  · exact absurd hfresh hj
  · refine ⟨?_, by rw [hc]; simp⟩
    have hch := hinv j c (Or.inl hlive)
    simp only [HWorld.cfgOf, hc, hlive, hch]
    exact key

theorem hrun_good_inv (kp cs : Bool) (evs : List HEvent) (w : HWorld) (h : OwnInv w) : OwnInv (hrun (Modes.good kp cs) w evs) := by
  induction evs generalizing w with
  | nil => exact h
  | cons e es ih => exact ih _ (hstep_good_inv kp cs w e h)

theorem hrun_good_frozen (kp cs : Bool) (evs : List HEvent) (w : HWorld) (j : Nat) (hinv : OwnInv w)
    (hf : ∀ e ∈ evs, e.fair = true) (hj : w.conns j ≠ .fresh) : (hrun (Modes.good kp cs) w evs).cfgOf j = w.cfgOf j := by
  induction evs generalizing w with
  | nil => rfl
  | cons e es ih =>
    obtain ⟨h1, h2⟩ := hstep_good_frozen kp cs w e j hinv (hf e (List.mem_cons_self ..)) hj
    simp only [hrun]
    rw [ih _ (hstep_good_inv kp cs w e hinv) (fun x hx => hf x (List.mem_cons_of_mem _ hx)) h2, h1]

theorem hrun_conns_other (m : Modes) (evs : List HEvent) (w : HWorld) (j : Nat) (h : ∀ e ∈ evs, e.conn ≠ some j) :
    (hrun m w evs).conns j = w.conns j := by
  induction evs generalizing w with
  | nil => rfl
  | cons e es ih =>
    simp only [hrun]
    rw [ih _ (fun x hx => h x (List.mem_cons_of_mem _ hx)), hstep_conns_other m w e j (h e (List.mem_cons_self ..))]

theorem hrun_good_sharedDicts (kp cs : Bool) (evs : List HEvent) (w : HWorld) (r : Ref) (hr : r.appOwned = true)
    (hsrv : SrvInv w) (he : ∀ e ∈ evs, e.mayEdit r = false) :
    (hrun (Modes.good kp cs) w evs).dicts r = w.dicts r := by
  induction evs generalizing w with
  | nil => rfl
  | cons e es ih =>
    simp only [hrun]
    rw [ih _ (hstep_good_srvInv kp cs w e hsrv) (fun x hx => he x (List.mem_cons_of_mem _ hx)),
      hstep_good_sharedDicts kp cs w e r hr hsrv (he e (List.mem_cons_self ..))]

theorem hrun_good_dfltSet (kp cs : Bool) (evs : List HEvent) (w : HWorld) (hf : ∀ e ∈ evs, e.fair = true) :
    (hrun (Modes.good kp cs) w evs).dfltSet = w.dfltSet := by
  induction evs generalizing w with
  | nil => rfl
  | cons e es ih =>
    simp only [hrun]
    rw [ih _ (fun x hx => hf x (List.mem_cons_of_mem _ hx)), hstep_good_dfltSet kp cs w e (hf e (List.mem_cons_self ..))]

/-! #### servers' own dict objects -/

/-- one good-mode event leaves server `k`'s own dict object alone unless it is an edit of that very object: a direct
one, or one through a server — and the only server holding `srv k` is server `k` -/
theorem hstep_good_serverDict (kp cs : Bool) (w : HWorld) (e : HEvent) (k : Nat) (hinv : SrvInv w)
    (h1 : ∀ ov, e ≠ .editDict (.srv k) ov) (h2 : ∀ ov, e ≠ .editServer k ov) (h3 : ∀ d, e ≠ .newServer k d) :
    (hstep (Modes.good kp cs) w e).dicts (.srv k) = w.dicts (.srv k) := by
  cases e with
  | editServer k' ov =>
    have hk : k' ≠ k := fun x => h2 ov (by rw [x])
    cases hs : w.servers k' with
    | none => simp [hstep, hs]
    | some r =>
      have hne : Ref.srv k ≠ r := by
        rcases hinv k' r hs with rfl | ⟨d, rfl⟩
        · intro x; injection x with x; exact hk x.symm
        · intro x; cases x
      cases hr : r.editable <;> simp [hstep, hs, hr, setDict_other _ _ _ _ hne]
  | editDict r ov =>
    have hne : Ref.srv k ≠ r := fun x => h1 ov (by rw [x])
    simp [hstep, setDict_other _ _ _ _ hne]
  | «open» i d classic => cases hw : w.conns i <;> simp [hstep, hw, openConn_good_dicts]
  | close i => cases hw : w.conns i <;> simp [hstep, hw]
  | access i => rfl
  | mutDfltSet names => rfl
  | newServer k' d =>
    have hne : Ref.srv k ≠ .srv k' := by intro x; injection x with x; exact h3 d (by rw [x])
    exact newServer_dicts _ w k' d _ hne
  | serverConn i k' classic =>
    cases hw : w.conns i <;> cases hs : w.servers k' <;> simp [hstep, hw, hs, openConn_good_dicts, setDict_other]

theorem hrun_good_serverDict (kp cs : Bool) (evs : List HEvent) (w : HWorld) (k : Nat) (hinv : SrvInv w)
    (h1 : ∀ e ∈ evs, ∀ ov, e ≠ .editDict (.srv k) ov) (h2 : ∀ e ∈ evs, ∀ ov, e ≠ .editServer k ov)
    (h3 : ∀ e ∈ evs, ∀ d, e ≠ .newServer k d) :
    (hrun (Modes.good kp cs) w evs).dicts (.srv k) = w.dicts (.srv k) := by
  induction evs generalizing w with
  | nil => rfl
  | cons e es ih =>
    simp only [hrun]
    rw [ih _ (hstep_good_srvInv kp cs w e hinv) (fun x hx => h1 x (List.mem_cons_of_mem _ hx))
        (fun x hx => h2 x (List.mem_cons_of_mem _ hx)) (fun x hx => h3 x (List.mem_cons_of_mem _ hx)),
      hstep_good_serverDict kp cs w e k hinv (h1 e (List.mem_cons_self ..)) (h2 e (List.mem_cons_self ..))
        (h3 e (List.mem_cons_self ..))]

end Rpyc.Policy
