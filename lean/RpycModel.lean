import RpycModel.Gen.Brine
import RpycModel.Base.Bytes
import RpycModel.Base.Py
import RpycModel.Brine.Model
