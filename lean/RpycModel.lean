import RpycModel.Props.C04
