import Driver.Brine
/-
rpycdrv: one op per line in, one canonical line out.  First token selects the layer.
-/
open Rpyc.Drv

def dispatch (line : String) : String :=
  match (line.splitOn " ").filter (· ≠ "") with
  | "brine" :: args => brineOp args
  | _ => "bad-op"

partial def loop (h : IO.FS.Stream) (out : IO.FS.Stream) : IO Unit := do
  let line ← h.getLine
  if line.isEmpty then return ()
  let l := line.trimAscii.toString
  out.putStrLn (dispatch l)
  loop h out

def main : IO Unit := do
  let out ← IO.getStdout
  loop (← IO.getStdin) out
  out.flush
