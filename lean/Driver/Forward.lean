import RpycModel.Proto.Forward
import Driver.Calls
/-
Line protocol of the forwarding layer (C02).  Not verified; exercised on every line.

  fwd wire OP                                   ->  local <kind> | req <handler> <n> PYVAL*n
  fwd policy <classic|all-attrs|public|default> <get|set|del> NAME <T|F hasattr(obj,name)> <T|F hasattr(obj,prefix+name)>
                                                ->  ok NAME | err AttributeError
  fwd buffiter <chunk> <max_chunk> <factor> <n items> <-|NAME raised after the items>
                                                ->  ok <k items yielded> <-|NAME> | err ValueError
  OP := getattr NAME | setattr NAME PYVAL | delattr NAME | dir | hash | cmp <cmp|eq|ne|lt|gt|le|ge> PYVAL | repr | str
      | ctxexit PYVAL | reduceex PYVAL | instancecheck PYVAL | call <n> PYVAL*n <m> (NAME PYVAL)*m
      | method NAME <n> PYVAL*n <m> (NAME PYVAL)*m | array | buffiter PYVAL
-/
namespace Rpyc.Drv
open Rpyc Rpyc.Calls Rpyc.Forward

def pCmpOp : Parser CmpOp
  | "cmp" :: r => some (.cmp, r) | "eq" :: r => some (.eq, r) | "ne" :: r => some (.ne, r)
  | "lt" :: r => some (.lt, r) | "gt" :: r => some (.gt, r) | "le" :: r => some (.le, r) | "ge" :: r => some (.ge, r)
  | _ => none

def pArgsKw : Parser (List PyVal × List (Name × PyVal)) := fun toks =>
  match pCounted pPyVal toks with
  | some (args, r) => (pCounted pKwVal r).map (fun (kws, r') => ((args, kws), r'))
  | none => none

def pProxyOp : Parser ProxyOp
  | "getattr" :: r => (pName r).map (fun (n, r') => (.getattr n, r'))
  | "setattr" :: r => match pName r with
    | some (n, r1) => (pPyVal r1).map (fun (v, r2) => (.setattr n v, r2))
    | none => none
  | "delattr" :: r => (pName r).map (fun (n, r') => (.delattr n, r'))
  | "dir" :: r => some (.dir, r)
  | "hash" :: r => some (.hash, r)
  | "repr" :: r => some (.repr, r)
  | "str" :: r => some (.str, r)
  | "array" :: r => some (.array, r)
  | "cmp" :: r => match pCmpOp r with
    | some (o, r1) => (pPyVal r1).map (fun (v, r2) => (.cmp o v, r2))
    | none => none
  | "ctxexit" :: r => (pPyVal r).map (fun (v, r') => (.ctxExit v (.imm .none) (.imm .none), r'))
  | "reduceex" :: r => (pPyVal r).map (fun (v, r') => (.reduceEx v, r'))
  | "instancecheck" :: r => (pPyVal r).map (fun (v, r') => (.instancecheck v, r'))
  | "buffiter" :: r => (pPyVal r).map (fun (v, r') => (.buffiterFetch v, r'))
  | "call" :: r => (pArgsKw r).map (fun ((a, k), r') => (.call a k, r'))
  | "method" :: r => match pName r with
    | some (n, r1) => (pArgsKw r1).map (fun ((a, k), r') => (.method n a k, r'))
    | none => none
  | _ => none

def showLocalKind : LocalKind → String
  | .classDescriptor => "class-descriptor"
  | .attributeError => "AttributeError"
  | .objectAttr => "object-attr"

def showWire : Wire → String
  | .local_ k => "local " ++ showLocalKind k
  | .request h args => "req " ++ toString h ++ " " ++ toString args.length ++ String.join (args.map (fun a => " " ++ canonPyVal a))

def parseBoolTok : String → Option Bool
  | "T" => some true
  | "F" => some false
  | _ => none

def fwdOp : List String → String
  | "wire" :: rest => match pProxyOp rest with
    | some (op, []) => showWire (wireOf op)
    | _ => "bad-op"
  | ["policy", cfg, perm, nameTok, hn, ht] =>
    match (match cfg with | "classic" => some classicConfig | "all-attrs" => some allAttrsConfig | "public" => some publicConfig | "default" => some defaultConfig | _ => none),
          (match perm with | "get" => some Perm.get | "set" => some Perm.set | "del" => some Perm.del | _ => none),
          pName [nameTok], parseBoolTok hn, parseBoolTok ht with
    | some c, some p, some (name, []), some hasName, some hasTwin =>
      let has : Name → Bool := fun n => if n = name then hasName else if n = c.exposedPrefix ++ name then hasTwin else false
      match checkAttr c has p name with
      | .ok n => "ok " ++ showName n
      | .error e => "err " ++ String.ofList (e.cls.map Char.ofNat)
    | _, _, _, _, _ => "bad-op"
  | ["buffiter", c, m, f, n, term] =>
    match parseIntChars c.toList, parseIntChars m.toList, parseIntChars f.toList, parseNatChars n.toList,
          (if term = "-" then some none else (pName [term]).map (fun p => some p.1)) with
    | some chunk, some maxChunk, some factor, some count, some t =>
      let items := (List.range count).map (fun (i : Nat) => PyVal.imm (.int (Int.ofNat i)))
      let it : Iter := ⟨items, t.map (fun cls => ⟨cls, []⟩)⟩
      match buffiter chunk maxChunk factor it with
      | .error e => "err " ++ String.ofList (e.cls.map Char.ofNat)
      | .ok (got, ended) =>
        -- the items yielded are checked to be the first k of the iterator's, in order
        let isPrefix := (got.zip items).all (fun p => pyBeq p.1 p.2) && got.length ≤ items.length
        (if isPrefix then "ok " else "ok-not-a-prefix ") ++ toString got.length ++ " "
          ++ (match ended with | none => "-" | some e => showName e.cls)
    | _, _, _, _, _ => "bad-op"
  | _ => "bad-op"

end Rpyc.Drv
