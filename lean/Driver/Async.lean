import RpycModel.Async.Model
import Driver.Text
/-
drv_async ops (not verified; exercised on every line):

  async run <t0> <tok>*

tokens: X<τ> set_expiry (τ = N | int) · A<T|F><v> reply dispatched now · S<delay>:R<T|F><v> /
S<delay>:O<dur> peer message readable `delay` ticks from now · V conn.serve(0) · C<c> add_callback ·
r ready · e error · x expired · v value · w wait · T<d> tick · Y<τ> sync_request with configured
timeout τ (fresh result) · Z<τ> timed(proxy, τ)(...) (fresh result) · Q<τ> async_request(timeout=τ) ·
W<τ> make a `timed(proxy, τ)` wrapper (no request yet) · K call that wrapper (fresh result) ·
D the application drops its own reference to the result (not part of the model's state: the identity on `World`;
the connection's registry entry `live` is what keeps the request answerable).
Output: one `<obs>@<now>` per token, then the state.
-/
namespace Rpyc.Drv
open Rpyc Rpyc.Async

inductive AOp where
  | ev (e : Ev)
  | sync (τ : Option Int)
  | timed (τ : Option Int)
  | areq (τ : Option Int)
  | mkTimed (τ : Option Int)
  | callTimed
  | dropRef

def parseTau (cs : List Char) : Option (Option Int) :=
  match cs with
  | ['N'] => some none
  | _ => (parseIntChars cs).map some

def parseBoolC : Char → Option Bool
  | 'T' => some true
  | 'F' => some false
  | _ => none

def parseMsg : List Char → Option Msg
  | 'R' :: b :: cs => match parseBoolC b, parseNatChars cs with
    | some e, some v => some (.reply e v)
    | _, _ => none
  | 'O' :: cs => (parseNatChars cs).map Msg.other
  | _ => none

def parseAOp (tok : String) : Option AOp :=
  match tok.toList with
  | 'X' :: cs => (parseTau cs).map (fun t => .ev (.setExpiry t))
  | 'Y' :: cs => (parseTau cs).map .sync
  | 'Z' :: cs => (parseTau cs).map .timed
  | 'Q' :: cs => (parseTau cs).map .areq
  | 'W' :: cs => (parseTau cs).map .mkTimed
  | ['K'] => some .callTimed
  | ['D'] => some .dropRef
  | 'A' :: b :: cs => match parseBoolC b, parseNatChars cs with
    | some e, some v => some (.ev (.arrive e v))
    | _, _ => none
  | 'S' :: cs => match cs.span (· ≠ ':') with
    | (d, _ :: m) => match parseNatChars d, parseMsg m with
      | some d, some m => some (.ev (.send d m))
      | _, _ => none
    | _ => none
  | ['V'] => some (.ev .serve1)
  | 'C' :: cs => (parseNatChars cs).map (fun c => .ev (.addCallback c))
  | ['r'] => some (.ev .qReady)
  | ['e'] => some (.ev .qError)
  | ['x'] => some (.ev .qExpired)
  | ['v'] => some (.ev .qValue)
  | ['w'] => some (.ev .wait)
  | 'T' :: cs => (parseNatChars cs).map (fun d => .ev (.tick d))
  | _ => none

def showOptNat : Option Nat → String
  | none => "N"
  | some n => toString n

def showTri : Option Bool → String
  | none => "N"
  | some true => "T"
  | some false => "F"

def showObs : Obs → String
  | .unit => "-"
  | .bool b => if b then "T" else "F"
  | .tri b => showTri b
  | .value v => "val:" ++ showOptNat v
  | .raised v => "exc:" ++ showOptNat v
  | .timeout => "TO"
  | .hang => "HANG"
  | .fuel => "FUEL"

def showPairs (ps : List (Nat × Nat)) : String :=
  "[" ++ ",".intercalate (ps.map (fun p => toString p.1 ++ "@" ++ toString p.2)) ++ "]"

def showWorld (w : World) : String :=
  "st " ++ (if w.ar.isReady then "T" else "F") ++ " " ++ showTri w.ar.isExc ++ " " ++ showOptNat w.ar.obj
    ++ " cb[" ++ ",".intercalate (w.ar.callbacks.map toString) ++ "]"
    ++ " log" ++ showPairs w.cbLog
    ++ " ra" ++ showOptNat w.readyAt
    ++ " live" ++ (if w.live then "T" else "F")
    ++ " ch" ++ toString w.chan.length
    ++ " busy" ++ showPairs w.busy
    ++ " ttl" ++ (if w.ar.ttl.finite then toString w.ar.ttl.tmax else "inf")

/-- the wrapper made by the last `W` token travels next to the world; `K` without one is rejected -/
def applyAOp (w : World) (tw : Option Timed) : AOp → Option (World × Option Timed × Obs)
  | .ev e => some ((step w e).1, tw, (step w e).2)
  | .sync τ => some ((syncRequest w τ).1, tw, (syncRequest w τ).2)
  | .timed τ => some (timedCall w τ, tw, .unit)
  | .areq τ => some (asyncRequest w τ, tw, .unit)
  | .mkTimed τ => some (w, some (Timed.make τ), .unit)
  | .dropRef => some (w, tw, .unit)
  | .callTimed => match tw with
    | some t => some (Timed.call w t, tw, .unit)
    | none => none

def runAOps : World → Option Timed → List AOp → List String → Option (World × List String)
  | w, _, [], acc => some (w, acc.reverse)
  | w, tw, o :: os, acc =>
    match applyAOp w tw o with
    | some (w', tw', obs) => runAOps w' tw' os ((showObs obs ++ "@" ++ toString w'.now) :: acc)
    | none => none

def asyncOp : List String → String
  | "run" :: t0 :: toks =>
    match parseNatChars t0.toList, toks.mapM parseAOp with
    | some t0, some ops =>
      match runAOps (World.init t0) none ops [] with
      | some r => " ".intercalate (r.2 ++ [showWorld r.1])
      | none => "bad-op"
    | _, _ => "bad-op"
  | _ => "bad-op"

end Rpyc.Drv
