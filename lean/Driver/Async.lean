import RpycModel.Async.Multi
import RpycModel.Gen.Async
import Driver.Text
/-
drv_async ops (not verified; exercised on every line):

  async run <t0> <tok>*

tokens: X<τ> set_expiry (τ = N | int) · A<T|F><v> reply dispatched now · S<delay>:R<T|F><v> /
S<delay>:O<dur> peer message readable `delay` ticks from now · V conn.serve(0) · C<c> add_callback ·
r ready · e error · x expired · v value · w wait · T<d> tick · Y<τ> sync_request with configured
timeout τ (fresh result) · Z<τ> timed(proxy, τ)(...) (fresh result) · Q<τ> async_request(timeout=τ) ·
P<τ> conn.poll_all(τ) by unrelated activity · G<c>:<T|F><v> add_callback(c) with the reply delivered by another
thread between its test of `_is_ready` and its append ·
W<τ> make a `timed(proxy, τ)` wrapper (no request yet) · K call that wrapper (fresh result) ·
D the application drops its own reference to the result (not part of the model's state: the identity on `World`;
the connection's registry entry `live` is what keeps the request answerable).
Output: one `<obs>@<now>` per token, then the state.
-/
namespace Rpyc.Drv
open Rpyc Rpyc.Async

inductive AOp where
  | ev (e : Ev)
  | sync (τ : Option Int)
  | timed (τ : Option Int)
  | areq (τ : Option Int)
  | sendReply (d : Nat) (next : Bool) (e : Bool) (v : Nat)
  | pollAll (τ : Option Int)
  | race (c : Nat) (e : Bool) (v : Nat)
  | mkTimed (τ : Option Int)
  | callTimed
  | dropRef

def parseTau (cs : List Char) : Option (Option Int) :=
  match cs with
  | ['N'] => some none
  | _ => (parseIntChars cs).map some

def parseBoolC : Char → Option Bool
  | 'T' => some true
  | 'F' => some false
  | _ => none

/-- what `S<delay>:` carries: `O<dur>` unrelated request · `R<T|F><v>` the reply to the request issued last ·
`N<T|F><v>` the reply to the request that will be issued next · (multi) `R<k>:<T|F><v>` the reply to request k -/
inductive MsgTok where
  | other (d : Nat)
  | reply (next : Bool) (e : Bool) (v : Nat)
  | replyTo (k : Nat) (e : Bool) (v : Nat)

def parseMsgTok : List Char → Option MsgTok
  | 'O' :: cs => (parseNatChars cs).map MsgTok.other
  | 'N' :: b :: cs => match parseBoolC b, parseNatChars cs with
    | some e, some v => some (.reply true e v)
    | _, _ => none
  | 'R' :: cs =>
    match cs.span (· ≠ ':') with
    | (k, _ :: b :: vs) => match parseNatChars k, parseBoolC b, parseNatChars vs with
      | some k, some e, some v => some (.replyTo k e v)
      | _, _, _ => none
    | (_, []) => match cs with
      | b :: vs => match parseBoolC b, parseNatChars vs with
        | some e, some v => some (.reply false e v)
        | _, _ => none
      | [] => none
    | _ => none
  | _ => none

def parseAOp (tok : String) : Option AOp :=
  match tok.toList with
  | 'X' :: cs => (parseTau cs).map (fun t => .ev (.setExpiry t))
  | 'Y' :: cs => (parseTau cs).map .sync
  | 'Z' :: cs => (parseTau cs).map .timed
  | 'Q' :: cs => (parseTau cs).map .areq
  | 'W' :: cs => (parseTau cs).map .mkTimed
  | ['K'] => some .callTimed
  | ['D'] => some .dropRef
  | 'A' :: b :: cs => match parseBoolC b, parseNatChars cs with
    | some e, some v => some (.ev (.arrive e v))
    | _, _ => none
  | 'S' :: cs => match cs.span (· ≠ ':') with
    | (d, _ :: m) => match parseNatChars d, parseMsgTok m with
      | some d, some (.other k) => some (.ev (.send d (.other k)))
      | some d, some (.reply nx e v) => some (.sendReply d nx e v)
      | _, _ => none
    | _ => none
  | ['V'] => some (.ev .serve1)
  | 'U' :: cs => (parseTau cs).map (fun t => .ev (.serveT t))
  | 'P' :: cs => (parseTau cs).map .pollAll
  | 'G' :: cs => match cs.span (· ≠ ':') with
    | (c, _ :: b :: vs) => match parseNatChars c, parseBoolC b, parseNatChars vs with
      | some c, some e, some v => some (.race c e v)
      | _, _, _ => none
    | _ => none
  | 'C' :: cs => (parseNatChars cs).map (fun c => .ev (.addCallback c))
  | ['r'] => some (.ev .qReady)
  | ['e'] => some (.ev .qError)
  | ['x'] => some (.ev .qExpired)
  | ['v'] => some (.ev .qValue)
  | ['w'] => some (.ev .wait)
  | 'T' :: cs => (parseNatChars cs).map (fun d => .ev (.tick d))
  | _ => none

def showOptNat : Option Nat → String
  | none => "N"
  | some n => toString n

def showTri : Option Bool → String
  | none => "N"
  | some true => "T"
  | some false => "F"

def showObs : Obs → String
  | .unit => "-"
  | .bool b => if b then "T" else "F"
  | .tri b => showTri b
  | .value v => "val:" ++ showOptNat v
  | .raised v => "exc:" ++ showOptNat v
  | .timeout => "TO"
  | .hang => "HANG"
  | .fuel => "FUEL"

def showPairs (ps : List (Nat × Nat)) : String :=
  "[" ++ ",".intercalate (ps.map (fun p => toString p.1 ++ "@" ++ toString p.2)) ++ "]"

def showWorld (w : World) : String :=
  "st " ++ (if w.ar.isReady then "T" else "F") ++ " " ++ showTri w.ar.isExc ++ " " ++ showOptNat w.ar.obj
    ++ " cb[" ++ ",".intercalate (w.ar.callbacks.map toString) ++ "]"
    ++ " log" ++ showPairs w.cbLog
    ++ " ra" ++ showOptNat w.readyAt
    ++ " live" ++ (if w.live then "T" else "F")
    ++ " ch" ++ toString w.chan.length
    ++ " busy" ++ showPairs w.busy
    ++ " ttl" ++ (if w.ar.ttl.finite then toString w.ar.ttl.tmax else "inf")

/-- `Connection.poll_all(timeout)` by unrelated activity of this thread: `timeout = Timeout(timeout)`; `while True:
poll(timeout); if timeout.expired(): break` - i.e. `serve` up to the deadline at least once and again for as long as
the deadline has not passed.  Not an event of its own: a run of `serveAt deadline` environment events.  With no deadline
it never returns once the channel is empty (`hang`). -/
def pollAllLoop : Nat → World → Timeout → World × Obs
  | 0, w, _ => (w, .fuel)
  | f + 1, w, t =>
    match serve w t with
    | none => (w, .hang)
    | some w' => if t.expired w'.now then (w', .unit) else pollAllLoop f w' t

/-- the wrapper made by the last `W` token travels next to the world; `K` without one is rejected -/
def applyAOp (w : World) (tw : Option Timed) : AOp → Option (World × Option Timed × Obs)
  | .ev e => some ((step w e).1, tw, (step w e).2)
  | .race c e v => some (addCallbackRace Gen.Async.addCallbackAtomic w c e v, tw, .unit)
  | .pollAll τ =>
    let r := pollAllLoop (w.chan.length + 2) w (Timeout.make w.now τ)
    some (r.1, tw, r.2)
  | .sendReply d nx e v =>
    some ((step w (.send d (.reply (if nx then w.seq + 1 else w.seq) e v))).1, tw, .unit)
  | .sync τ => some ((syncRequest w τ).1, tw, (syncRequest w τ).2)
  | .timed τ => some (timedCall w τ, tw, .unit)
  | .areq τ => some (asyncRequest w τ, tw, .unit)
  | .mkTimed τ => some (w, some (Timed.make τ), .unit)
  | .dropRef => some (w, tw, .unit)
  | .callTimed => match tw with
    | some t => some (Timed.call w t, tw, .unit)
    | none => none

def runAOps : World → Option Timed → List AOp → List String → Option (World × List String)
  | w, _, [], acc => some (w, acc.reverse)
  | w, tw, o :: os, acc =>
    match applyAOp w tw o with
    | some (w', tw', obs) => runAOps w' tw' os ((showObs obs ++ "@" ++ toString w'.now) :: acc)
    | none => none

/-! #### several requests: `async multi <t0> <tok>*`
`Q<τ>` new request · `<k>.<tok>` an event of request k (tok: X<τ> C<c> r e x v w A<T|F><v>) · `T<d>` `V` `U<τ>`
`S<d>:O<dur>` `S<d>:R<k>:<T|F><v>` environment events.  Output: one `<obs>@<now>` per token, then one state per
request. -/

def parseMTok (tok : String) : Option MEv :=
  match tok.toList with
  | 'Q' :: cs => (parseTau cs).map MEv.request
  | 'T' :: cs => (parseNatChars cs).map (fun d => .env (.tick d))
  | ['V'] => some (.env .serve1)
  | 'U' :: cs => (parseTau cs).map (fun t => .env (.serveT t))
  | 'S' :: cs => match cs.span (· ≠ ':') with
    | (d, _ :: m) => match parseNatChars d, parseMsgTok m with
      | some d, some (.other k) => some (.env (.send d (.other k)))
      | some d, some (.replyTo k e v) => some (.env (.send d (.reply (k + 1) e v)))
      | _, _ => none
    | _ => none
  | cs =>
    match cs.span (· ≠ '.') with
    | (k, _ :: rest) =>
      match parseNatChars k, parseAOp (String.ofList rest) with
      | some k, some (.ev e) =>
        match e with
        | .setExpiry _ | .addCallback _ | .qReady | .qError | .qExpired | .qValue | .wait | .arrive _ _ => some (.on k e)
        | _ => none
      | _, _ => none
    | _ => none

def runMEvs : MWorld → List MEv → List String → MWorld × List String
  | mw, [], acc => (mw, acc.reverse)
  | mw, e :: es, acc =>
    let r := mstep mw e
    runMEvs r.1 es ((showObs r.2 ++ "@" ++ toString r.1.env.now) :: acc)

/-! #### `__call__` with raising / re-entrant callbacks: `async call <T|F expired> <now> <T|F isExc> <v> <cb>*`,
cb = `c<id>` returns · `c<id>!` raises · `c<id>+<a>,<b>` registers a, b from inside · `c<id>!+<a>` both -/

def parseCb (tok : String) : Option Cb :=
  match tok.toList with
  | 'c' :: cs =>
    let (body, adds) := match cs.span (· ≠ '+') with
      | (b, _ :: a) => (b, some a)
      | (b, []) => (b, none)
    let (idc, raises) := match body.reverse with
      | '!' :: r => (r.reverse, true)
      | _ => (body, false)
    match parseNatChars idc, (match adds with | none => some [] | some a => (splitComma a).mapM parseNatChars) with
    | some i, some a => some ⟨i, raises, a⟩
    | _, _ => none
  | _ => none

def showCallOut (o : CallOut) : String :=
  "st " ++ (if o.isReady then "T" else "F") ++ " " ++ showTri o.isExc ++ " " ++ showOptNat o.obj
    ++ " cb[" ++ ",".intercalate (o.stored.map toString) ++ "]"
    ++ " log" ++ showPairs o.log ++ " raised" ++ (if o.raised then "T" else "F")

def asyncOp : List String → String
  | "multi" :: t0 :: toks =>
    match parseNatChars t0.toList, toks.mapM parseMTok with
    | some t0, some evs =>
      let r := runMEvs (MWorld.init t0) evs []
      " ".intercalate (r.2 ++ r.1.views.map (fun v => "| " ++ showWorld v))
    | _, _ => "bad-op"
  | "call" :: ex :: now :: e :: v :: cbs =>
    match ex.toList, parseNatChars now.toList, e.toList, parseNatChars v.toList, cbs.mapM parseCb with
    | [x], some now, [b], some v, some cbs =>
      match parseBoolC x, parseBoolC b with
      | some x, some b => showCallOut (callR Gen.Async.callbacksAllRun Gen.Async.callbackErrorPropagates x now cbs b v)
      | _, _ => "bad-op"
    | _, _, _, _, _ => "bad-op"
  | "run" :: t0 :: toks =>
    match parseNatChars t0.toList, toks.mapM parseAOp with
    | some t0, some ops =>
      match runAOps (World.init t0) none ops [] with
      | some r => " ".intercalate (r.2 ++ [showWorld r.1])
      | none => "bad-op"
    | _, _ => "bad-op"
  | _ => "bad-op"

end Rpyc.Drv
