import RpycModel.Files.Model
import Driver.Text
/-
drv_files ops (not verified; exercised on every line):

  files upload   <chunk> <filter> <T|F ignore_invalid> <tree>
  files download <chunk> <filter> <T|F ignore_invalid> <tree>
  files copy     <chunk> <hex>
  files over <upload|download> <chunk> <filter> <T|F> <dst: - | tree> <src tree>   (destination may exist)

tree:   F<hex> regular file · X neither file nor directory · D( n<name> <tree> ... ), name = code points in hex
        separated by dots (lone surrogates allowed)
filter: N none · S<name> reject names ending with · P<name> reject names starting with · A reject all ·
        Z a falsy callable that would reject all
result: ok <tree> | ok - (nothing created) | err <name>
-/
namespace Rpyc.Drv
open Rpyc Rpyc.Files

/-- a name: code points in hex separated by dots (`61.2e.dcff`); the empty name is `-` -/
def parseName (cs : List Char) : Option Name :=
  if cs = ['-'] then some [] else ((String.ofList cs).splitOn ".").mapM (fun t => parseHexNat t.toList)

def hexNat (n : Nat) : String :=
  if n < 16 then String.ofList [hexChar n] else hexNat (n / 16) ++ String.ofList [hexChar (n % 16)]

def showName (n : Name) : String := if n.isEmpty then "-" else ".".intercalate (n.map hexNat)

partial def parseTree : List String → Option (Tree × List String)
  | [] => none
  | tok :: rest =>
    match tok.toList with
    | ['X'] => some (.other, rest)
    | 'F' :: cs => (parseHexGo cs #[]).map (fun b => (.file b.toList, rest))
    | ['D', '('] => (parseEntries rest).map (fun (es, r) => (.dir es, r))
    | _ => none
where
  parseEntries : List String → Option (Entries × List String)
    | [] => none
    | ")" :: rest => some (.nil, rest)
    | tok :: rest =>
      match tok.toList with
      | 'n' :: cs =>
        match parseName cs, parseTree rest with
        | some nm, some (t, r) =>
          match parseEntries r with
          | some (es, r') => some (.cons nm t es, r')
          | none => none
        | _, _ => none
      | _ => none

mutual
partial def showTree : Tree → String
  | .file b => "F" ++ toHex b
  | .other => "X"
  | .dir es => "D( " ++ showEntries es ++ ")"
partial def showEntries : Entries → String
  | .nil => ""
  | .cons n t rest => "n" ++ showName n ++ " " ++ showTree t ++ " " ++ showEntries rest
end

/-- the `filter` argument: `N` None · `A` a callable rejecting everything · `Z` a *falsy* callable rejecting
everything · `S<name>` / `P<name>` callables rejecting names with that suffix / prefix -/
def parseFilter (tok : String) : Option Filter :=
  match tok.toList with
  | ['N'] => some (effective none)
  | ['A'] => some (effective (some ⟨true, fun _ => false⟩))
  | ['Z'] => some (effective (some ⟨false, fun _ => false⟩))
  | 'S' :: cs => (parseName cs).map (fun s => effective (some ⟨true, fun n => !s.isSuffixOf n⟩))
  | 'P' :: cs => (parseName cs).map (fun s => effective (some ⟨true, fun n => !s.isPrefixOf n⟩))
  | _ => none

def showOutcome : Except FErr (Option Tree) → String
  | .ok (some t) => "ok " ++ showTree t
  | .ok none => "ok -"
  | .error e => "err " ++ e.name

/-- `files over <upload|download> <chunk> <filter> <T|F> <dst: - | tree> <src tree>`: one step of a history -/
def filesOver (chunk filt ii : String) (toks : List String) : String :=
  let dstAndRest : Option (Option Tree × List String) :=
    match toks with
    | "-" :: rest => some (none, rest)
    | _ => (parseTree toks).map (fun (t, r) => (some t, r))
  match parseNatChars chunk.toList, parseFilter filt, dstAndRest with
  | some c, some f, some (dst, rest) =>
    match parseTree rest, ii with
    | some (src, []), "T" => showOutcome (uploadOver c f true src dst)
    | some (src, []), "F" => showOutcome (uploadOver c f false src dst)
    | _, _ => "bad-op"
  | _, _, _ => "bad-op"

/-- `files under <upload|download> <chunk> <filter> <T|F> <D|F|M parent> <src tree>`: the destination is absent and its
parent is a directory / a regular file / missing -/
def filesUnder (chunk filt ii par : String) (toks : List String) : String :=
  let parent : Option Parent := match par with
    | "D" => some .dir | "F" => some .file | "M" => some .missing | _ => none
  match parseNatChars chunk.toList, parseFilter filt, parent, parseTree toks with
  | some c, some f, some p, some (src, []) =>
    match ii with
    | "T" => showOutcome (uploadUnder c f true p src)
    | "F" => showOutcome (uploadUnder c f false p src)
    | _ => "bad-op"
  | _, _, _, _ => "bad-op"

def filesOp : List String → String
  | "under" :: "upload" :: chunk :: filt :: ii :: par :: toks => filesUnder chunk filt ii par toks
  | "under" :: "download" :: chunk :: filt :: ii :: par :: toks => filesUnder chunk filt ii par toks
  | "over" :: "upload" :: chunk :: filt :: ii :: toks => filesOver chunk filt ii toks
  | "over" :: "download" :: chunk :: filt :: ii :: toks => filesOver chunk filt ii toks
  | kind :: chunk :: filt :: ii :: toks =>
    match parseNatChars chunk.toList, parseFilter filt, parseTree toks with
    | some c, some f, some (t, []) =>
      match kind, ii with
      | "upload", "T" => showOutcome (upload c f true t)
      | "upload", "F" => showOutcome (upload c f false t)
      | "download", "T" => showOutcome (download c f true t)
      | "download", "F" => showOutcome (download c f false t)
      | _, _ => "bad-op"
    | _, _, _ => "bad-op"
  | ["copy", chunk, h] =>
    match parseNatChars chunk.toList, parseHex h with
    | some c, some b => "ok " ++ toHex (copyFile c b)
    | _, _ => "bad-op"
  | ["copy", chunk] =>
    match parseNatChars chunk.toList with
    | some c => "ok " ++ toHex (copyFile c [])
    | none => "bad-op"
  | _ => "bad-op"

end Rpyc.Drv
