import Driver.Loop
import Driver.Sendq
/- drv_sendq: `sendq trace <n> <prog>… | <act>…` (see Driver/Sendq.lean) -/
open Rpyc.Drv

def dispatch : List String → String
  | "sendq" :: args => sendqOp args
  | _ => "bad-op"

def main : IO Unit := runDriver dispatch
