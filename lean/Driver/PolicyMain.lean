import Driver.Policy
/- drv_policy: `policy <op> ...` (see Driver/Policy.lean); stateful, one canonical line out per line in -/
open Rpyc.Drv

def dispatch (st : PState) : List String → PState × String
  | "policy" :: args => policyOp st args
  | _ => (st, "bad-op")

def main : IO Unit := do
  let out ← IO.getStdout
  loopSt dispatch {} (← IO.getStdin) out
  out.flush
