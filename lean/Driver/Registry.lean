import RpycModel.Srv.Registry
import Driver.Text
/-
drv_registry ops (one history per line, one value out):

  reg <base|udp|tcp> <pruning ms> <fd limit> <event>*

  event :=  t <ms>                                   set the clock
         |  d <hex|-> <host val> <n> <hint>*n        a datagram (`base`: as given; `udp`: through `udpRecv`)
         |  c <peer> <hex|-> <host val> <n> <hint>*n a TCP client that sends this at once
         |  s <peer>                                 a TCP client that sends nothing
  hint  :=  U <str val> <str val>     str.upper() of a non-ASCII text
         |  L <str val> <str val>     str.lower() of a non-ASCII text
         |  F <fset val> <tuple val>  iteration order of a frozenset the code iterates
         |  RL                        brine.load of this datagram hit the recursion limit
         |  RD                        brine.dump of this event's reply hit the recursion limit

Output: a tuple with one entry per d/c/s event,
  d:    ( alive ( reply? ) ( notes ) services )
  c, s: ( accepted elapsed tracked alive ( reply? ) ( notes ) services )
note = ( I1|I0 name host port ) for added|removed; services = ( ( name ( ( host port I<t> ) .. ) ) .. ), or N
when the event left the table exactly as it was.
Processing stops after an event that does not leave the loop alive.  `not-modelled` if an event needs
something the model does not have (a NaN inside a port, TAG_SLICE over a frozenset).
-/
namespace Rpyc.Drv
open Rpyc Rpyc.Brine Rpyc.Registry

inductive Hint where
  | upper (a b : List Nat)
  | lower (a b : List Nat)
  | fset (a b : List Val)
  | loadOverflows
  | dumpOverflows

/-- a code point no text contains: an `upper`/`lower` the harness did not supply shows up as a mismatch -/
def poison : List Nat := [0x110000]

def mkEnv (hs : List Hint) : Env where
  upper := fun s => (hs.findSome? (fun h => match h with
    | .upper a b => if a = s then some b else none
    | _ => none)).getD poison
  lower := fun s => (hs.findSome? (fun h => match h with
    | .lower a b => if a = s then some b else none
    | _ => none)).getD poison
  -- hints are matched as sets (Python's ==); a frozenset without a hint is iterated in wire order, which the
  -- harness relies on only where no code path iterates it
  fsetIter := fun xs => (hs.findSome? (fun h => match h with
    | .fset a b => if sortCodes (keyCodes a) = sortCodes (keyCodes xs) then some b else none
    | _ => none)).getD xs
  -- the interpreter's recursion limit, as observed for this event
  loadOverflows := fun _ => hs.any (fun h => match h with | .loadOverflows => true | _ => false)
  dumpOverflows := fun _ => hs.any (fun h => match h with | .dumpOverflows => true | _ => false)

def parseHint : List String → Option (Hint × List String)
  | "RL" :: rest => some (.loadOverflows, rest)
  | "RD" :: rest => some (.dumpOverflows, rest)
  | k :: rest =>
    match parseVal rest with
    | some (a, rest1) => match parseVal rest1 with
      | some (b, rest2) =>
        match k, a, b with
        | "U", .str x, .str y => some (.upper x y, rest2)
        | "L", .str x, .str y => some (.lower x y, rest2)
        | "F", .fset x, .tuple y => some (.fset x y, rest2)
        | _, _, _ => none
      | none => none
    | none => none
  | [] => none

def parseHints : Nat → List String → Option (List Hint × List String)
  | 0, toks => some ([], toks)
  | n+1, toks => match parseHint toks with
    | none => none
    | some (h, rest) => match parseHints n rest with
      | none => none
      | some (hs, rest') => some (h :: hs, rest')

def parseBytesTok (s : String) : Option Bytes := if s = "-" then some [] else parseHex s

def noteVal : Note → Val
  | .added n a => .tuple [.int 1, n, a.1, a.2]
  | .removed n a => .tuple [.int 0, n, a.1, a.2]

def servicesVal (sv : Services) : Val :=
  .tuple (sv.map (fun e => .tuple [e.1, .tuple (e.2.map (fun x => .tuple [x.1.1, x.1.2, .int x.2]))]))

/-- the table is written out only when the event changed it (`N` otherwise) -/
def stepVals (before : Services) (s : Step) : List Val :=
  [.bool s.alive, .tuple (match s.reply with | none => [] | some r => [r]), .tuple (s.notes.map noteVal),
   if Val.beq (servicesVal before) (servicesVal s.sv) then .none else servicesVal s.sv]

/-- does this datagram make the code compare a key the model has no faithful code for -/
def unmodelled (env : Env) (dgram : Bytes) : Bool :=
  match load dgram with
  | .error .notModelled => true
  | .error _ => false
  | .ok v => match unpack3' env v with
    | .error _ => false
    | .ok (m, c, a) => isMagic m && (match lookupCmd env c, iterate' env a with
      | some (.register, _), .ok [_, port] => hasNaN port
      | some (.unregister, _), .ok [port] => hasNaN port
      | _, _ => false)

structure Sim where
  sv : Services := []
  clock : Int := 0
  conn : List Nat := []
  out : Array Val := #[]
  dead : Bool := false
  flagged : Bool := false

inductive Mode where
  | base | udp | tcp
  deriving DecidableEq

partial def simulate (mode : Mode) (pruning : Int) (fdLimit : Nat) (sim : Sim) : List String → Option Sim
  | [] => some sim
  | "t" :: ms :: rest => match parseIntChars ms.toList with
    | some t => simulate mode pruning fdLimit { sim with clock := t } rest
    | none => none
  | "d" :: hx :: rest =>
    match parseBytesTok hx, parseVal rest with
    | some bs, some (host, nTok :: rest1) =>
      match parseNatChars nTok.toList with
      | none => none
      | some n => match parseHints n rest1 with
        | none => none
        | some (hs, rest2) =>
          if mode == .tcp then none
          else if sim.dead then simulate mode pruning fdLimit sim rest2
          else
            let env := mkEnv hs
            let dg := if mode == .udp then udpRecv bs else bs
            if unmodelled env dg then some { sim with flagged := true }
            else
              let s := workStep env pruning sim.sv host dg sim.clock
              simulate mode pruning fdLimit
                { sim with sv := s.sv, out := sim.out.push (.tuple (stepVals sim.sv s)), dead := !s.alive } rest2
    | _, _ => none
  | "c" :: peerTok :: hx :: rest =>
    match parseNatChars peerTok.toList, parseBytesTok hx, parseVal rest with
    | some peer, some bs, some (host, nTok :: rest1) =>
      match parseNatChars nTok.toList with
      | none => none
      | some n => match parseHints n rest1 with
        | none => none
        | some (hs, rest2) =>
          if mode != .tcp then none
          else if sim.dead then simulate mode pruning fdLimit sim rest2
          else
            let env := mkEnv hs
            if unmodelled env (bs.take Gen.maxDgramSize) then some { sim with flagged := true }
            else
              let r := tcpStep env pruning fdLimit ⟨sim.sv, sim.conn, sim.clock⟩ (.client peer host bs)
              simulate mode pruning fdLimit
                { sim with sv := r.1.sv, conn := r.1.conn, clock := r.1.clock, dead := !r.2.step.alive,
                           out := sim.out.push (.tuple ([.bool r.2.accepted, .int r.2.elapsed, .int r.1.conn.length] ++ stepVals sim.sv r.2.step)) }
                rest2
    | _, _, _ => none
  | "s" :: peerTok :: rest =>
    match parseNatChars peerTok.toList with
    | some peer =>
      if mode != .tcp then none
      else if sim.dead then simulate mode pruning fdLimit sim rest
      else
        let r := tcpStep (mkEnv []) pruning fdLimit ⟨sim.sv, sim.conn, sim.clock⟩ (.silent peer)
        simulate mode pruning fdLimit
          { sim with sv := r.1.sv, conn := r.1.conn, clock := r.1.clock,
                     out := sim.out.push (.tuple ([.bool r.2.accepted, .int r.2.elapsed, .int r.1.conn.length] ++ stepVals sim.sv r.2.step)) }
          rest
    | none => none
  | _ => none

def parseMode : String → Option Mode
  | "base" => some .base
  | "udp" => some .udp
  | "tcp" => some .tcp
  | _ => none

def registryOp : List String → String
  | modeTok :: prTok :: fdTok :: events =>
    match parseMode modeTok, parseIntChars prTok.toList, parseNatChars fdTok.toList with
    | some mode, some pruning, some fd =>
      match simulate mode pruning fd {} events with
      | none => "bad-op"
      | some sim => if sim.flagged then "not-modelled" else showVal (.tuple sim.out.toList)
    | _, _, _ => "bad-op"
  | _ => "bad-op"

end Rpyc.Drv
