import Driver.Loop
import Driver.Vinegar
/- drv_vinegar: `vin load ...` | `vin rt ...` (see Driver/Vinegar.lean) -/
open Rpyc.Drv

def dispatch : List String → String
  | "vin" :: args => vinegarOp args
  | _ => "bad-op"

def main : IO Unit := runDriver dispatch
