import Driver.Loop
import Driver.Brine
import Driver.Spec
/- drv_spec: the ops of drv_brine (`brine enc|dec|dumpable ..`: the model of the code) plus the ops of the
published format (`spec ..`, see Driver/Spec.lean) -/
open Rpyc.Drv

def dispatch : List String → String
  | "brine" :: args => brineOp args
  | "spec" :: args => specOp args
  | _ => "bad-op"

def main : IO Unit := runDriver dispatch
