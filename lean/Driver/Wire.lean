import RpycModel.Wire.Model
import RpycModel.Wire.Duplex
import Driver.Text
/-
drv_wire ops (not verified; exercised on every line).  Bytes are `x<hex>` (so the empty string is `x`).
Packets are `P<hex>` or `Z<hex>:<hex>` (the second part is the real `zlib.compress` output for that
data: the oracle value of the opaque `z.compress`, and its inverse for `z.decompress`).
Scripts are `-` (empty) or comma-separated items `<ev>` / `<ev>*<count>`:
  receive events  c<k> chunk · t socket.timeout · e<errno> OSError(errno) · z end of stream (b"")
  send events     a<k> accept · t socket.timeout · e<errno> OSError(errno)

  wire writes <c> <max> <pkt>                      -> ok [ x.. x.. ] | err <class>      (Channel.send's write calls)
  wire send <c> <max> <script> <pkt>*              -> <nreturned> <end> <closed> <events-left> x<accepted bytes>
  wire recv <retry> <max> <ncalls> <script> x<wire> <Z-pkt>*
                                                   -> <end> <closed> <events-left> <wire-left> [ x.. x.. ]
  wire reads <retry> <max> <script> x<wire> <n>*   -> <r1> .. <rk> | <closed> <events-left> <wire-left>
                                                      (stream.read(n) calls, continuing after EOFError)
  wire swrites <max> <script> x<data>*             -> <r1> .. <rk> | <closed> <events-left> x<accepted bytes>
                                                      (stream.write calls, continuing after EOFError)
  wire duplex <pipe> <max> <c> <fault> <rscript> <sscript> <pscript> x<wire> <op>* <Z-pkt>*
                                                   -> <r1> .. <rk> | <closed> <r-left> <s-left> <p-left> <wire-left> x<accepted>
      ONE stream used in both directions, calls in any order, continuing after exceptions.
      <fault> n | 1 | 2: which close() of the descriptor(s) raises once.  poll events: r ready · i idle ·
      n EINTR · s<errno> select error · f<errno> fileno raises · g fileno gives a number register refuses.
      ops: S<pkt> Channel.send · R Channel.recv · P stream.poll · C stream.close · r<n> stream.read(n) ·
      wx<hex> stream.write; bare Z-packets only feed the zlib table.
<end> is done | starved | an exception class name; <c>, <retry>, <closed> are T / F.
-/
namespace Rpyc.Drv
open Rpyc Rpyc.Wire

def parseBoolTok : String → Option Bool
  | "T" => some true
  | "F" => some false
  | _ => none

def showBool (b : Bool) : String := if b then "T" else "F"

def parseBytesTok (tok : String) : Option Bytes :=
  match tok.toList with
  | 'x' :: cs => (parseHexGo cs #[]).map Array.toList
  | _ => none

def showBytes (b : Bytes) : String := "x" ++ toHex b

def splitOnChar (sep : Char) (cs : List Char) : List (List Char) :=
  let (cur, acc) := cs.foldl (fun (st : List Char × List (List Char)) c =>
    if c = sep then ([], st.1.reverse :: st.2) else (c :: st.1, st.2)) ([], [])
  (cur.reverse :: acc).reverse

/-- `<ev>` or `<ev>*<count>` -/
def parseItem {α} (parseEv : List Char → Option α) (cs : List Char) : Option (List α) :=
  match splitOnChar '*' cs with
  | [e] => (parseEv e).map (fun x => [x])
  | [e, n] => match parseEv e, parseNatChars n with
    | some x, some k => some (List.replicate k x)
    | _, _ => none
  | _ => none

def parseScript {α} (parseEv : List Char → Option α) (tok : String) : Option (List α) :=
  if tok = "-" then some []
  else ((splitOnChar ',' tok.toList).mapM (parseItem parseEv)).map List.flatten

def parseRecvEv : List Char → Option RecvEv
  | ['t'] => some .timeout
  | ['z'] => some .eof
  | 'c' :: cs => (parseNatChars cs).map .chunk
  | 'e' :: cs => (parseNatChars cs).map .err
  | _ => none

def parseSendEv : List Char → Option SendEv
  | ['t'] => some .timeout
  | 'a' :: cs => (parseNatChars cs).map .accept
  | 'e' :: cs => (parseNatChars cs).map .err
  | _ => none

/-- a packet token: the data and, if given, the oracle value of `zlib.compress(data, level)` -/
def parsePkt (tok : String) : Option (Bytes × Option Bytes) :=
  match tok.toList with
  | 'P' :: cs => (parseHexGo cs #[]).map (fun a => (a.toList, none))
  | 'Z' :: cs => match splitOnChar ':' cs with
    | [d, c] => match parseHexGo d #[], parseHexGo c #[] with
      | some d, some c => some (d.toList, some c.toList)
      | _, _ => none
    | _ => none
  | _ => none

/-- the opaque zlib, as a finite table of (data, compressed) pairs supplied by the harness.
`compress` outside the table is never reached (the ops check the table first); `decompress` outside
the table is `zlib.error`. -/
def tableZ (tbl : List (Bytes × Bytes)) : ZlibFns where
  compress b := match tbl.find? (fun e => e.1 == b) with
    | some e => e.2
    | none => []
  decompress c := (tbl.find? (fun e => e.2 == c)).map (·.1)

def tableOf (pkts : List (Bytes × Option Bytes)) : List (Bytes × Bytes) :=
  pkts.filterMap (fun e => e.2.map (fun c => (e.1, c)))

/-- every packet that `send` would compress has its oracle value -/
def tableCovers (compress : Bool) (pkts : List (Bytes × Option Bytes)) : Bool :=
  pkts.all (fun e => !useCompression compress e.1 || e.2.isSome)

def showOutcome : Outcome → String
  | .done => "done"
  | .starved => "starved"
  | .err e => e.name

def showReadRes : ReadRes → String
  | .ok d => "ok:" ++ showBytes d
  | .eof => "EOFError"
  | .starved => "starved"

def showWriteRes : WriteRes → String
  | .ok => "ok"
  | .eof => "EOFError"
  | .starved => "starved"

def showList (xs : List Bytes) : String := "[ " ++ String.join (xs.map (fun x => showBytes x ++ " ")) ++ "]"

/-- consecutive `stream.read(n)` calls on one stream, not stopping at errors -/
def readsGo (retry : Bool) (maxChunk : Nat) : List Nat → RState → List String → List String × RState
  | [], s, acc => (acc.reverse, s)
  | n :: ns, s, acc =>
    let r := readExact retry maxChunk n s
    readsGo retry maxChunk ns r.2 (showReadRes r.1 :: acc)

/-- consecutive `stream.write(data)` calls on one stream, not stopping at errors -/
def swritesGo (maxChunk : Nat) : List Bytes → WState → List String → List String × WState
  | [], s, acc => (acc.reverse, s)
  | d :: ds, s, acc =>
    let r := writeAll maxChunk d s
    swritesGo maxChunk ds r.2 (showWriteRes r.1 :: acc)

def parsePollEv : List Char → Option PollEv
  | ['r'] => some .ready
  | ['i'] => some .idle
  | ['n'] => some .eintr
  | ['g'] => some .fdNeg
  | 's' :: cs => (parseNatChars cs).map .selErr
  | 'f' :: cs => (parseNatChars cs).map .fdErr
  | _ => none

def parseFault : String → Option CloseFault
  | "n" => some .none
  | "1" => some .first
  | "2" => some .second
  | _ => none

/-- a duplex op; `none` inside = a table-only token -/
def parseDOp (tok : String) : Option (Option DOp × Option (Bytes × Option Bytes)) :=
  match tok.toList with
  | ['R'] => some (some .recv, none)
  | ['P'] => some (some .poll, none)
  | ['C'] => some (some .close, none)
  | 'S' :: cs => (parsePkt (String.ofList cs)).map (fun p => (some (.send p.1), some p))
  | 'r' :: cs => (parseNatChars cs).map (fun n => (some (.read n), none))
  | 'w' :: cs => (parseBytesTok (String.ofList cs)).map (fun b => (some (.write b), none))
  | 'Z' :: _ => (parsePkt tok).map (fun p => (none, some p))
  | _ => none

def showX {α} (f : α → String) : XRes α → String
  | .ok a => f a
  | .eof => "EOFError"
  | .starved => "starved"
  | .oserr => "OSError"
  | .valerr => "ValueError"
  | .other e => e.name

def duplexGo (z : ZlibFns) (retry c : Bool) (mx : Nat) : List DOp → DState → List String → List String × DState
  | [], d, acc => (acc.reverse, d)
  | .send p :: ops, d, acc =>
    let r := dSend z c mx p d
    duplexGo z retry c mx ops r.2 (showX (fun _ => "ok") r.1 :: acc)
  | .recv :: ops, d, acc =>
    let r := dRecv z retry mx d
    duplexGo z retry c mx ops r.2 (showX (fun b => "ok:" ++ showBytes b) r.1 :: acc)
  | .poll :: ops, d, acc =>
    let r := dPoll d
    duplexGo z retry c mx ops r.2 (showX showBool r.1 :: acc)
  | .close :: ops, d, acc =>
    let r := dCloseCall d
    duplexGo z retry c mx ops r.2 (showX (fun _ => "ok") r.1 :: acc)
  | .read n :: ops, d, acc =>
    let r := dRead retry mx n d
    duplexGo z retry c mx ops r.2 (showX (fun b => "ok:" ++ showBytes b) r.1 :: acc)
  | .write b :: ops, d, acc =>
    let r := dWrite mx b d
    duplexGo z retry c mx ops r.2 (showX (fun _ => "ok") r.1 :: acc)

def duplexOp : List String → String
  | pipe :: mx :: c :: fault :: rs :: ss :: ps :: wire :: toks =>
    match parseBoolTok pipe, parseNatChars mx.toList, parseBoolTok c, parseFault fault, parseScript parseRecvEv rs,
        parseScript parseSendEv ss, parseScript parsePollEv ps, parseBytesTok wire, toks.mapM parseDOp with
    | some pipe, some mx, some c, some fault, some rs, some ss, some ps, some w, some items =>
      let ops := items.filterMap (·.1)
      let pkts := items.filterMap (·.2)
      let sends := items.filterMap (fun it => match it.1, it.2 with | some (.send _), some p => some p | _, _ => none)
      if !tableCovers c sends then "bad-op" else
      let d : DState := ⟨⟨w, rs, false⟩, ⟨[], ss, false⟩, pipe, fault, false, false, ps⟩
      let r := duplexGo (tableZ (tableOf pkts)) (!pipe) c mx ops d []
      " ".intercalate r.1 ++ s!" | {showBool r.2.r.closed} {r.2.r.script.length} {r.2.w.script.length} {r.2.pscript.length} {r.2.r.wire.length} {showBytes r.2.w.sent}"
    | _, _, _, _, _, _, _, _, _ => "bad-op"
  | _ => "bad-op"

def wireOp : List String → String
  | "duplex" :: args => duplexOp args
  | ["writes", c, mx, pkt] =>
    match parseBoolTok c, parseNatChars mx.toList, parsePkt pkt with
    | some c, some mx, some p =>
      if !tableCovers c [p] then "bad-op" else
      match sendWrites (tableZ (tableOf [p])) c mx p.1 with
      | .ok ws => "ok " ++ showList ws
      | .error e => "err " ++ e.name
    | _, _, _ => "bad-op"
  | "send" :: c :: mx :: script :: pkts =>
    match parseBoolTok c, parseNatChars mx.toList, parseScript parseSendEv script, pkts.mapM parsePkt with
    | some c, some mx, some sc, some ps =>
      if !tableCovers c ps then "bad-op" else
      let r := sendMany (tableZ (tableOf ps)) c mx (ps.map (·.1)) ⟨[], sc, false⟩
      s!"{r.1} {showOutcome r.2.1} {showBool r.2.2.closed} {r.2.2.script.length} {showBytes r.2.2.sent}"
    | _, _, _, _ => "bad-op"
  | "recv" :: retry :: mx :: n :: script :: wire :: tbl =>
    match parseBoolTok retry, parseNatChars mx.toList, parseNatChars n.toList, parseScript parseRecvEv script,
        parseBytesTok wire, tbl.mapM parsePkt with
    | some retry, some mx, some n, some sc, some w, some tb =>
      if tb.any (fun e => e.2.isNone) then "bad-op" else
      let r := recvMany (tableZ (tableOf tb)) retry mx n ⟨w, sc, false⟩
      s!"{showOutcome r.2.1} {showBool r.2.2.closed} {r.2.2.script.length} {r.2.2.wire.length} {showList r.1}"
    | _, _, _, _, _, _ => "bad-op"
  | "reads" :: retry :: mx :: script :: wire :: ns =>
    match parseBoolTok retry, parseNatChars mx.toList, parseScript parseRecvEv script, parseBytesTok wire,
        ns.mapM (fun t => parseNatChars t.toList) with
    | some retry, some mx, some sc, some w, some ns =>
      let r := readsGo retry mx ns ⟨w, sc, false⟩ []
      " ".intercalate r.1 ++ s!" | {showBool r.2.closed} {r.2.script.length} {r.2.wire.length}"
    | _, _, _, _, _ => "bad-op"
  | "swrites" :: mx :: script :: ds =>
    match parseNatChars mx.toList, parseScript parseSendEv script, ds.mapM parseBytesTok with
    | some mx, some sc, some ds =>
      let r := swritesGo mx ds ⟨[], sc, false⟩ []
      " ".intercalate r.1 ++ s!" | {showBool r.2.closed} {r.2.script.length} {showBytes r.2.sent}"
    | _, _, _ => "bad-op"
  | _ => "bad-op"

end Rpyc.Drv
