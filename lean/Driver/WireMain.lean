import Driver.Loop
import Driver.Wire
/- drv_wire: `wire writes|send|recv|reads|swrites ...` (see Driver/Wire.lean) -/
open Rpyc.Drv

def dispatch : List String → String
  | "wire" :: args => wireOp args
  | _ => "bad-op"

def main : IO Unit := runDriver dispatch
