import Driver.Loop
import Driver.Registry
/- drv_registry: `reg <base|udp|tcp> <pruning ms> <fd limit> <event>*` (see Driver/Registry.lean) -/
open Rpyc.Drv

def dispatch : List String → String
  | "reg" :: args => registryOp args
  | _ => "bad-op"

def main : IO Unit := runDriver dispatch
