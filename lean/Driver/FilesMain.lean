import Driver.Loop
import Driver.Files
/- drv_files: `files upload|download <chunk> <filter> <T|F> <tree>` · `files copy <chunk> <hex>` (see Driver/Files.lean) -/
open Rpyc.Drv

def dispatch : List String → String
  | "files" :: args => filesOp args
  | _ => "bad-op"

def main : IO Unit := runDriver dispatch
