import RpycModel.Spec.Published
import RpycModel.Spec.Code
import Driver.Text
/-
drv_spec ops of the published format (C19):
  spec enc <val>                      reference encoder, published text rule (strict UTF-8)
  spec encx <val>                     reference encoder, surrogate code points written in three bytes
  spec const <NAME>                   published value of a named constant
  spec frame <0|1> <data|-> <z|->     the frame a sender emits for data (z = what its zlib produced)
  spec recv <stream> <inflated|-|!>   Channel.recv on the stream (inflated = what zlib returns, ! = zlib.error)
  spec msg <val>                      read a decoded payload as a message: kind + its published encoding + whether
                                      the request arguments / dumped exception have the published layout
  spec reply <handler> <val>          does a boxed reply value have the shape published for that handler
Hex strings; `-` is the empty byte string.
-/
namespace Rpyc.Drv
open Rpyc Rpyc.Spec

def hexArg (s : String) : Option Bytes := if s = "-" then some [] else parseHex s
def hexOut (b : Bytes) : String := if b.isEmpty then "-" else toHex b

def constTable : List (String × Int) :=
  (tagTable ++ msgTable ++ labelTable ++ handlerTable ++ excTable).map (fun p => (p.1, (p.2 : Int)))
  ++ otherTable
  ++ [("IMM_LO", IMM_LO), ("IMM_HI", IMM_HI), ("IMM_BASE", IMM_BASE),
      ("COMPRESSION_THRESHOLD", (COMPRESSION_THRESHOLD : Nat)), ("COMPRESSION_LEVEL", COMPRESSION_LEVEL),
      ("FRAME_HEADER_SIZE", (FRAME_HEADER_SIZE : Nat)), ("FRAME_LEN_WIDTH", (FRAME_LEN_WIDTH : Nat)),
      ("FRAME_FLAG_WIDTH", (FRAME_FLAG_WIDTH : Nat))]

def specOp : List String → String
  | "enc" :: toks => match parseValLine toks with
    | some v => showExcept toHex (specEnc v)
    | none => "bad-op"
  | "encx" :: toks => match parseValLine toks with
    | some v => showExcept toHex (specEncWith true v)
    | none => "bad-op"
  | ["const", name] => match constTable.lookup name with
    | some v => "ok " ++ toString v
    | none => if name = "FLUSHER" then "ok " ++ hexOut FLUSHER else "err unknown"
  | ["frame", c, d, z] =>
    match (if c = "0" then some false else if c = "1" then some true else none), hexArg d, hexArg z with
    | some compress, some data, some zb => showExcept hexOut (sendFrame (fun _ => zb) compress data)
    | _, _, _ => "bad-op"
  | ["recv", s, i] =>
    match hexArg s, (if i = "!" then some none else (hexArg i).map some) with
    | some stream, some infl =>
      showExcept (fun (p : Bytes × Bytes) => hexOut p.1 ++ " " ++ hexOut p.2) (Code.channelRecv (fun _ => infl) stream)
    | _, _ => "bad-op"
  | "msg" :: toks => match parseValLine toks with
    | some v => match Msg.ofVal? v with
      | some m => (match m.wire with
        | .ok bs => "ok " ++ m.kind ++ " " ++ toHex bs ++ (if m.conforms then " layout-ok" else " layout-BAD")
        | .error e => "err " ++ e.name)
      | none => "err malformed"
    | none => "bad-op"
  | "reply" :: h :: toks =>
    match parseNatChars h.toList, parseValLine toks with
    | some handler, some v => (match Boxed.ofVal? (valSize v + 1) v with
      | some b => if replyConforms handler b then "ok layout-ok" else "ok layout-BAD"
      | none => "err malformed")
    | _, _ => "bad-op"
  | _ => "bad-op"

end Rpyc.Drv
