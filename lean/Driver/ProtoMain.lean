import Driver.Loop
import Driver.Proto
/- drv_proto: dispatches on the first token; each family of ops lives in its own file (see Driver/Proto.lean) -/
open Rpyc.Drv

def main : IO Unit := runDriver protoDispatch
