import RpycModel.Vinegar.Model
import Driver.Text
/-
drv_vinegar ops (not verified; exercised on every line of the C09 correspondence):

  vin load <r> <env> <fmt> <settable> <base> <payload>
  vin rt   <s><k><d|e> <r> <env> <fmt> <settable> <base> <hd> <tb> <args> <reprs> <dir> <walk>

  <r>    three of T/F: import_custom_exceptions, instantiate_custom_exceptions, instantiate_oldstyle_exceptions
  <s><k> four of T/F (include_local_traceback, include_local_version, propagate_SystemExit_locally,
         propagate_KeyboardInterrupt_locally) followed by b|c (the class is the built-in object / is not)
  <env>  loaded T/F, importable T/F, then two of m|n|t|e|a, then lazy T/F (the module defines a PEP 562 `__getattr__`): what
         the module's own namespace holds under clsname (vars(sys.modules[modname]).get(clsname))
         and what getattr(builtins, clsname, None) is (missing, not a type, a type that is no exception, an
         exception class, an exception class whose __new__ needs arguments)
  <fmt>  N (unused) | S.. ("%s.%s" % (modname, clsname)) | ( S<error name> )
  <settable> ( ( S<name> <value> I0|S<error name> T|F ) ... ): the setattr outcomes that are not "stored"
         (I0 = AttributeError, swallowed); last field: the row is about the generic stand-in (T) / the real class (F)
  d = `vinegar.dump` then load; e = `Connection._send_exception` (fallback record when dump or brine raises) then load
  <tb> S.. | ( S<error name> ) when traceback.format_exception raises;  <walk> N | ( S<error name> ): the first error
  raised by repr()/getattr during dump's walk
  <base> what `cls.__str__(exc)` gives on the received object: S.. | ( S<error name> ) when it raises | N when there is no
         such object; the model answers `str(exc)` (`Derived.__str__`) after ` str `
  <hd> ( S<module> S<name> )   <args> ( v .. ) with O<k> for what brine cannot carry
  <reprs> ( S..|N .. ) parallel to args   <dir> ( ( S<name> I<0 AttributeError|1 data|2 other> <value> S<repr>|N ) .. )

Outputs:  load: `imp <tuple of module names> init <n> code <k> out <outcome> | <seen>` (k: module-level code run by the lookup);
  rt: `local` | `pay err <E>` (dump raises) | `noreply err <E>` | `pay <payload> | ` + the same as load.
-/
namespace Rpyc.Drv
open Rpyc Rpyc.Vinegar

partial def parseVals (toks : List String) (acc : Array Val := #[]) : Option (List Val) :=
  match toks with
  | [] => some acc.toList
  | _ => match parseVal toks with
    | some (v, rest) => parseVals rest (acc.push v)
    | none => none

def flags (s : String) : Option (List Bool) :=
  s.toList.mapM (fun c => if c = 'T' then some true else if c = 'F' then some false else none)

def objKind : Char → Option ObjKind
  | 'm' => some .missing | 'n' => some .notType | 't' => some .typeNotExc
  | 'e' => some (.excClass false) | 'a' => some (.excClass true) | _ => none

def allErrs : List Err :=
  [.typeError, .valueError, .unicodeDecodeError, .unicodeEncodeError, .attributeError, .structError, .keyError,
   .eofError, .zlibError, .recursionError, .indexError, .stopIteration, .timeoutError, .notModelled]

def errOfCps (s : Str) : Err :=
  match allErrs.find? (fun e => e.name.toList.map Char.toNat == s) with
  | some e => e
  | none => .notModelled

def setRes : Val → Option SetRes
  | .int 0 => some .swallowed
  | .str n => some (.raises (errOfCps n))
  | _ => none

def setTable : Val → Option (List (Str × Val × SetRes × Bool))
  | .tuple rows => rows.mapM (fun row => match row with
      | .tuple [.str n, v, code, .bool g] => (setRes code).map (fun r => (n, v, r, g))
      | _ => none)
  | _ => none

def isGeneric : ClsRef → Bool
  | .generic _ => true
  | _ => false

def fmtOf : Val → Option (Except Err Str)
  | .none => some (.error .notModelled)
  | .str s => some (.ok s)
  | .tuple [.str n] => some (.error (errOfCps n))
  | _ => none

def mkEnv (envs : String) (fmt tbl : Val) : Option Env :=
  match envs.toList, fmtOf fmt, setTable tbl with
  | [l, i, ma, ba, lz], some f, some t =>
    match flags (String.ofList [l, i, lz]), objKind ma, objKind ba with
    | some [loaded, importable, lazy], some mk, some bk =>
      some { loaded := fun _ => loaded, importable := fun _ => importable, lazy := fun _ => lazy, modAttr := fun _ _ => mk,
             builtinAttr := fun _ => bk, fmtName := fun _ _ => f,
             setattr := fun cls n v =>
               match t.find? (fun row => row.1 == n && Val.beq row.2.1 v && row.2.2.2 == isGeneric cls) with
               | some row => row.2.2.1
               | none => .store }
    | _, _, _ => none
  | _, _, _ => none

def recvCfg (s : String) : Option RecvCfg :=
  match flags s with
  | some [a, b, c] => some ⟨a, b, c⟩
  | _ => none

/-- four switches, b|c (built-in object or not), d|e (direct: `vinegar.dump` alone; end to end: `_send_exception`) -/
def sendCfg (s : String) : Option (SendCfg × ClsKind × Bool) :=
  match s.toList with
  | [a, b, c, d, k, m] =>
    match flags (String.ofList [a, b, c, d]), k, m with
    | some [w, x, y, z], 'b', 'd' => some (⟨w, x, y, z⟩, .builtin, false)
    | some [w, x, y, z], 'c', 'd' => some (⟨w, x, y, z⟩, .custom, false)
    | some [w, x, y, z], 'b', 'e' => some (⟨w, x, y, z⟩, .builtin, true)
    | some [w, x, y, z], 'c', 'e' => some (⟨w, x, y, z⟩, .custom, true)
    | _, _, _ => none
  | _ => none

def tbOf : Val → Option (Except Err Str)
  | .str s => some (.ok s)
  | .tuple [.str n] => some (.error (errOfCps n))
  | _ => none

def walkOf : Val → Option (Option Err)
  | .none => some none
  | .tuple [.str n] => some (some (errOfCps n))
  | _ => none

def pyObj (v r : Val) : Option PyObj :=
  match r with
  | .str s => some ⟨v, s⟩
  | .none => some ⟨v, []⟩
  | _ => none

def zipObjs : List Val → List Val → Option (List PyObj)
  | [], [] => some []
  | v :: vs, r :: rs => match pyObj v r, zipObjs vs rs with
    | some o, some os => some (o :: os)
    | _, _ => none
  | _, _ => none

def dirEntry : Val → Option DirEntry
  | .tuple [.str n, .int k, v, r] =>
    if k = 0 then some ⟨n, none, false⟩
    else if k = 1 then (pyObj v r).map (fun o => ⟨n, some o, true⟩)
    else if k = 2 then (pyObj v r).map (fun o => ⟨n, some o, false⟩)
    else none
  | _ => none

def excRec (kind : ClsKind) : List Val → Option ExcRec
  | [.tuple [.str m, .str n], tb, .tuple args, .tuple reprs, .tuple dir, walk] =>
    match zipObjs args reprs, dir.mapM dirEntry, tbOf tb, walkOf walk with
    | some as, some ds, some t, some w => some ⟨⟨m, n, kind⟩, as, ds, t, w⟩
    | _, _, _, _ => none
  | _ => none

def showCls : ClsRef → String
  | .real m c => "R " ++ showVal m ++ " " ++ showVal (.str c)
  | .generic fn => "G " ++ showVal (.str fn)

/-- instance attributes, most recent assignment of each name only -/
def dedupe : List (Str × Val) → List Str → List (Str × Val)
  | [], _ => []
  | (n, v) :: rest, seen => if seen.contains n then dedupe rest seen else (n, v) :: dedupe rest (n :: seen)

/-- base = what `cls.__str__(exc)` gives on the received object (supplied by the harness); `none`: the object is not an
instance of a `Derived` subclass (the bare `StopIteration()` the `raise` statement makes) -/
def showObj (o : ExcObj) (base : Option (Except Err Str)) : String :=
  showCls o.cls ++ " " ++ showVal (.tuple o.args) ++ " "
    ++ showVal (.tuple ((dedupe o.attrs []).map (fun p => .tuple [.str p.1, p.2])))
    ++ " str " ++ (match base with
      | none => "N"
      | some b => match o.str b with
        | .ok t => showVal (.str t)
        | .error e => "!" ++ e.name)

def showSeen (base : Option (Except Err Str)) : Seen → String
  | .raised o => "raised " ++ showObj o base
  | .error e => "err " ++ e.name

def baseOf : Val → Option (Option (Except Err Str))
  | .none => some none
  | .str t => some (some (.ok t))
  | .tuple [.str n] => some (some (.error (errOfCps n)))
  | _ => none

def showLoad (base : Option (Except Err Str)) (res : LoadResult) : String :=
  let imps := res.events.filterMap (fun ev => match ev with | .importAttempt m => some m | _ => none)
  let inits := (res.events.filter (fun ev => match ev with | .init _ => true | _ => false)).length
  let codes := (res.events.filter (fun ev => match ev with | .moduleCode _ _ => true | _ => false)).length
  let out := match res.out with
    | .error e => "err " ++ e.name
    | .ok .stopIterationClass => "stopcls"
    | .ok (.strExc s) => "str " ++ showVal (.str s)
    | .ok (.exc o) => "exc " ++ showObj o base
  let seenBase := match res.out with
    | .ok (.exc _) => base
    | _ => none
  "imp " ++ showVal (.tuple imps) ++ " init " ++ toString inits ++ " code " ++ toString codes ++ " out " ++ out ++ " | "
    ++ showSeen seenBase (requesterSees res)

def vinegarOp : List String → String
  | "load" :: r :: envs :: toks =>
    match recvCfg r, parseVals toks with
    | some rc, some [fmt, tbl, bs, payload] =>
      match mkEnv envs fmt tbl, baseOf bs with
      | some env, some base => showLoad base (loadExc rc env payload)
      | _, _ => "bad-op"
    | _, _ => "bad-op"
  | "rt" :: s :: r :: envs :: toks =>
    match sendCfg s, recvCfg r, parseVals toks with
    | some (sc, kind, e2e), some rc, some (fmt :: tbl :: bs :: recToks) =>
      match mkEnv envs fmt tbl, excRec kind recToks, baseOf bs with
      | some env, some e, some base =>
        if e2e then
          if routedLocally sc e then "local"
          else match boxExc sc e with
            | .error err => "noreply err " ++ err.name
            | .ok p => "pay " ++ showVal p ++ " | " ++ showLoad base (loadExc rc env p)
        else match dumpExc sc e with
          | .error err => "pay err " ++ err.name
          | .ok p => "pay " ++ showVal p ++ " | " ++ showLoad base (loadExc rc env p)
      | _, _, _ => "bad-op"
    | _, _, _ => "bad-op"
  | _ => "bad-op"

end Rpyc.Drv
