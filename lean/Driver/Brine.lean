import RpycModel.Brine.Model
import Driver.Text
namespace Rpyc.Drv
open Rpyc Rpyc.Brine

def brineOp : List String → String
  | "enc" :: toks => match parseValLine toks with
    | some v => showExcept toHex (dump v)
    | none => "bad-op"
  | ["dec", h] => match parseHex h with
    | some bs => showExcept showVal (load bs)
    | none => "bad-op"
  | ["dec"] => showExcept showVal (load [])
  | "dumpable" :: toks => match parseValLine toks with
    | some v => if dumpable v then "T" else "F"
    | none => "bad-op"
  | _ => "bad-op"

end Rpyc.Drv
