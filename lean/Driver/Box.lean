import RpycModel.Box.Model
import Driver.Text
/-
drv_box ops (layer L3).

  box c10 <n> <op> ; <op> ; ...     one history of the application-level machine over objects 0..n-1;
                                     answer: the outcome and a snapshot after every op, joined by " | "
      ops:  send k.. | fetch k.. | back k T|F | drop k | collect | dO | dP | close
      snapshot:  <outcome> t=<slot>,.. p=<slot>,.. h=<held ids, sorted> r=<ready results> o=[..] q=[..]
-/
namespace Rpyc.Drv
open Rpyc Rpyc.Box

def parseIds (toks : List String) : Option (List Nat) := toks.mapM (fun t => parseNatChars t.toList)

def parseAOp : List String → Option AOp
  | "send" :: ks => (parseIds ks).map .send
  | "fetch" :: ks => (parseIds ks).map .fetch
  | ["back", k, "T"] => (parseNatChars k.toList).map (fun k => .back k true)
  | ["back", k, "F"] => (parseNatChars k.toList).map (fun k => .back k false)
  | ["drop", k] => (parseNatChars k.toList).map .drop
  | ["collect"] => some .collect
  | ["dO"] => some .deliverO2P
  | ["dP"] => some .deliverP2O
  | ["close"] => some .close
  | _ => none

/-- split a token list at ";" -/
def splitOps (toks : List String) : List (List String) :=
  let (cur, acc) := toks.foldl (fun (st : List String × List (List String)) t =>
    if t = ";" then ([], st.1.reverse :: st.2) else (t :: st.1, st.2)) ([], [])
  (cur.reverse :: acc).reverse

def showSlot : Option Nat → String
  | none => "-"
  | some n => toString n

def showIds (ks : List Nat) : String := " ".intercalate (ks.map toString)

def showMsgO : MsgO → String
  | .req ids => "req" ++ String.join (ids.map (fun k => " " ++ toString k))
  | .reply ids kept => "reply" ++ String.join (ids.map (fun k => " " ++ toString k)) ++ (if kept then " T" else " F")
  | .exc => "exc"

def showMsgP : MsgP → String
  | .del k n => "del " ++ toString k ++ " " ++ toString n
  | .back k e => "back " ++ toString k ++ (if e then " T" else " F")
  | .fetch ks => "fetch" ++ String.join (ks.map (fun k => " " ++ toString k))
  | .reply => "reply"

def showOut : Out → String
  | .ok => "ok" | .empty => "empty" | .keyError => "KeyError" | .disabled => "disabled" | .closed => "closed"

def showAOut : AOut → String
  | .base o => showOut o
  | .notHeld => "not-held"
  | .notModelled => "NOT-MODELLED"

def insertSorted (k : Nat) : List Nat → List Nat
  | [] => [k]
  | x :: xs => if k ≤ x then k :: x :: xs else x :: insertSorted k xs

def snapshot (n : Nat) (o : AOut) (a : App) : String :=
  showAOut o
    ++ " t=" ++ ",".intercalate ((List.range n).map (fun k => showSlot (a.s.tbl k)))
    ++ " p=" ++ ",".intercalate ((List.range n).map (fun k => showSlot (a.s.px k)))
    ++ " h=" ++ ",".intercalate ((a.held.foldr insertSorted []).map toString)
    ++ " r=" ++ toString a.results.length
    ++ " o=[" ++ ";".intercalate (a.s.o2p.map showMsgO) ++ "]"
    ++ " q=[" ++ ";".intercalate (a.s.p2o.map showMsgP) ++ "]"
    ++ (if a.s.closed then " closed" else "")

def runHistory (n : Nat) : App → List AOp → List String → List String
  | _, [], acc => acc.reverse
  | a, op :: ops, acc =>
    let r := appStep a op
    runHistory n r.2 ops (snapshot n r.1 r.2 :: acc)

def boxOp : List String → String
  | "c10" :: n :: toks =>
    match parseNatChars n.toList, (splitOps toks).mapM parseAOp with
    | some n, some ops => " | ".intercalate (runHistory n App.init ops [])
    | _, _ => "bad-op"
  | _ => "bad-op"

end Rpyc.Drv
