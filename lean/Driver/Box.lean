import RpycModel.Box.Model
import Driver.Text
/-
drv_box ops (layer L3).

  box c10 <n> <op> ; <op> ; ...     one history of the application-level machine over objects 0..n-1;
                                     answer: the outcome and a snapshot after every op, joined by " | "
      ops:  send k.. | fetch k.. | sendFail k.. | fetchFail k.. | back k T|F | drop k | collect | expire j | dO | dOfail j | dP | close
      snapshot:  <outcome> t=<slot>,.. p=<slot>,.. h=<held ids, sorted> r=<ready results> w=<waiters: o|x expired> o=[..] q=[..]
-/
namespace Rpyc.Drv
open Rpyc Rpyc.Box

def parseIds (toks : List String) : Option (List Nat) := toks.mapM (fun t => parseNatChars t.toList)

def parseAOp : List String → Option AOp
  | "send" :: ks => (parseIds ks).map .send
  | "fetch" :: ks => (parseIds ks).map .fetch
  | "sendFail" :: ks => (parseIds ks).map .sendFail
  | "fetchFail" :: ks => (parseIds ks).map .fetchFail
  | ["back", k, "T"] => (parseNatChars k.toList).map (fun k => .back k true)
  | ["back", k, "F"] => (parseNatChars k.toList).map (fun k => .back k false)
  | ["drop", k] => (parseNatChars k.toList).map .drop
  | ["collect"] => some .collect
  | ["expire", j] => (parseNatChars j.toList).map .expire
  | ["dOfail", j] => (parseNatChars j.toList).map .deliverFail
  | ["dO"] => some .deliverO2P
  | ["dP"] => some .deliverP2O
  | ["close"] => some .close
  | _ => none

/-- split a token list at ";" -/
def splitOps (toks : List String) : List (List String) :=
  let (cur, acc) := toks.foldl (fun (st : List String × List (List String)) t =>
    if t = ";" then ([], st.1.reverse :: st.2) else (t :: st.1, st.2)) ([], [])
  (cur.reverse :: acc).reverse

def showSlot : Option Nat → String
  | none => "-"
  | some n => toString n

def showIds (ks : List Nat) : String := " ".intercalate (ks.map toString)

def showMsgO : MsgO → String
  | .req ids => "req" ++ String.join (ids.map (fun k => " " ++ toString k))
  | .reply ids kept => "reply" ++ String.join (ids.map (fun k => " " ++ toString k)) ++ (if kept then " T" else " F")
  | .exc _ => "exc"
  | .recvd ids => "recvd" ++ String.join (ids.map (fun k => " " ++ toString k))
  | .unrecvd ids _ _ => "unrecvd" ++ String.join (ids.map (fun k => " " ++ toString k))

def showMsgP : MsgP → String
  | .del k n => "del " ++ toString k ++ " " ++ toString n
  | .back k e => "back " ++ toString k ++ (if e then " T" else " F")
  | .fetch ks => "fetch" ++ String.join (ks.map (fun k => " " ++ toString k))
  | .reply => "reply"
  | .fetchBad ks => "fetchbad" ++ String.join (ks.map (fun k => " " ++ toString k))

def showOut : Out → String
  | .ok => "ok" | .empty => "empty" | .keyError => "KeyError" | .disabled => "disabled" | .closed => "closed"
  | .unsendable => "unsendable" | .unreceived => "unreceived"

def showAOut : AOut → String
  | .base o => showOut o
  | .notHeld => "not-held"
  | .notModelled => "NOT-MODELLED"

def insertSorted (k : Nat) : List Nat → List Nat
  | [] => [k]
  | x :: xs => if k ≤ x then k :: x :: xs else x :: insertSorted k xs

def snapshot (n : Nat) (o : AOut) (a : App) : String :=
  showAOut o
    ++ " t=" ++ ",".intercalate ((List.range n).map (fun k => showSlot (a.s.tbl k)))
    ++ " p=" ++ ",".intercalate ((List.range n).map (fun k => showSlot (a.s.px k)))
    ++ " h=" ++ ",".intercalate ((a.held.foldr insertSorted []).map toString)
    ++ " r=" ++ toString a.results.length
    ++ " w=" ++ String.join (a.waiters.map (fun w => if w then "x" else "o"))
    ++ " o=[" ++ ";".intercalate (a.s.o2p.map showMsgO) ++ "]"
    ++ " q=[" ++ ";".intercalate (a.s.p2o.map showMsgP) ++ "]"
    ++ (if a.s.closed then " closed" else "")

def runHistory (n : Nat) : App → List AOp → List String → List String
  | _, [], acc => acc.reverse
  | a, op :: ops, acc =>
    let r := appStep a op
    runHistory n r.2 ops (snapshot n r.1 r.2 :: acc)

/-! ### C03 conversations

  box c03 <op> ; <op> ; ...
      ops:  send K|D <pyval> | echo <pyval> | make <k> | raw <label tree> | forget | tables <nA> <nB>
      pyval:  plain value text | ( pyval .. ) | R<k> (own object) | Z<k> <plain> (subclass instance) | P<k> (proxy held)
      answer per op:  <label tree> => <arrived value> [=> <label tree back> => <arrived value>]
      label tree:  V <plain> | T( .. ) | L<k> | M<k> | ?<tag>
      arrived:  plain text | ( .. ) | P<k>#<serial>*<count> | R<k>
-/

partial def parsePy : List String → Option (PyVal × List String)
  | [] => none
  | tok :: rest =>
    match tok.toList with
    | ['('] => (parseSeq rest #[]).map (fun (xs, r) => (.tup xs, r))
    | 'R' :: cs => (parseNatChars cs).map (fun k => (.obj k, rest))
    | 'P' :: cs => (parseNatChars cs).map (fun k => (.proxy k 0, rest))
    | 'Z' :: cs =>
      match parseNatChars cs, parseVal rest with
      | some k, some (v, r) => some (.sub v k, r)
      | _, _ => none
    | _ => (parseVal (tok :: rest)).map (fun (v, r) => (.imm v, r))
where
  parseSeq : List String → Array PyVal → Option (List PyVal × List String)
    | [], _ => none
    | tok :: rest, acc =>
      if tok = ")" then some (acc.toList, rest)
      else match parsePy (tok :: rest) with
        | some (v, r) => parseSeq r (acc.push v)
        | none => none

partial def showLabel : Label → String
  | .value v => "V " ++ showVal v
  | .tuple ls => "T( " ++ String.join (ls.map (fun l => showLabel l ++ " ")) ++ ")"
  | .localRef k => "L" ++ toString k
  | .remoteRef k => "M" ++ toString k
  | .other t => "?" ++ toString t

partial def showPy (s : Side) : PyVal → String
  | .imm v => showVal v
  | .tup xs => "( " ++ String.join (xs.map (fun x => showPy s x ++ " ")) ++ ")"
  | .obj k => "R" ++ toString k
  | .sub _ k => "R" ++ toString k
  | .proxy k pid => "P" ++ toString k ++ "#" ++ toString pid ++ "*" ++ showSlot (s.px k)

def showSeen (seen : Seen) : String :=
  " => ".intercalate ((List.zip seen.labels seen.values).map (fun (l, (y, s)) => showLabel l ++ " => " ++ showPy s y))

partial def parseLabelText : List String → Option (Label × List String)
  | [] => none
  | tok :: rest =>
    match tok.toList with
    | ['V'] => (parseVal rest).map (fun (v, r) => (.value v, r))
    | ['T', '('] => (go rest #[]).map (fun (ls, r) => (.tuple ls, r))
    | 'L' :: cs => (parseNatChars cs).map (fun k => (.localRef k, rest))
    | 'M' :: cs => (parseNatChars cs).map (fun k => (.remoteRef k, rest))
    | '?' :: cs => (parseNatChars cs).map (fun k => (.other k, rest))
    | _ => none
where
  go : List String → Array Label → Option (List Label × List String)
    | [], _ => none
    | tok :: rest, acc =>
      if tok = ")" then some (acc.toList, rest)
      else match parseLabelText (tok :: rest) with
        | some (l, r) => go r (acc.push l)
        | none => none

inductive COp where
  | raw (l : Label)
  | send (keep : Bool) (x : PyVal)
  | echo (x : PyVal)
  | make (k : Nat)
  | forget
  | tables (na nb : Nat)

def parseCOp : List String → Option COp
  | "send" :: "K" :: toks => match parsePy toks with
    | some (x, []) => some (.send true x)
    | _ => none
  | "send" :: "D" :: toks => match parsePy toks with
    | some (x, []) => some (.send false x)
    | _ => none
  | "echo" :: toks => match parsePy toks with
    | some (x, []) => some (.echo x)
    | _ => none
  | ["make", k] => (parseNatChars k.toList).map .make
  | "raw" :: toks => match parseLabelText toks with
    | some (l, []) => some (.raw l)
    | _ => none
  | ["forget"] => some .forget
  | ["tables", a, b] => match parseNatChars a.toList, parseNatChars b.toList with
    | some a, some b => some (.tables a b)
    | _, _ => none
  | _ => none

def stepConv (c : Conv) : COp → String × Conv
  | .send keep x => match c.send x keep with
    | .ok (seen, c') => (showSeen seen, c')
    | .error e => ("err " ++ e.name, c)
  | .echo x => match c.echo x with
    | .ok (seen, c') => (showSeen seen, c')
    | .error e => ("err " ++ e.name, c)
  | .make k => match c.make k with
    | .ok (seen, c') => (showSeen seen, c')
    | .error e => ("err " ++ e.name, c)
  | .raw l => match c.raw l with
    | .ok (seen, c') => (showSeen seen, c')
    | .error e => ("err " ++ e.name, c.rawFailed l)
  | .forget => ("ok", c.forget)
  | .tables na nb =>
    ("a=" ++ ",".intercalate ((List.range na).map (fun k => showSlot (c.a.tbl k)))
      ++ " b=" ++ ",".intercalate ((List.range nb).map (fun k => showSlot (c.b.tbl k))), c)

def runConv : Conv → List COp → List String → List String
  | _, [], acc => acc.reverse
  | c, op :: ops, acc =>
    let r := stepConv c op
    runConv r.2 ops (r.1 :: acc)

def boxOp : List String → String
  | "c10" :: n :: toks =>
    match parseNatChars n.toList, (splitOps toks).mapM parseAOp with
    | some n, some ops => " | ".intercalate (runHistory n App.init ops [])
    | _, _ => "bad-op"
  | "c03" :: toks =>
    match (splitOps toks).mapM parseCOp with
    | some ops => " | ".intercalate (runConv Conv.init ops [])
    | none => "bad-op"
  | _ => "bad-op"

end Rpyc.Drv
