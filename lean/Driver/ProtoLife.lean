import RpycModel.Proto.Life
import Driver.Text
/-
drv_proto, life ops (C11; not verified, exercised on every line):

  life run <tok>*      run the event sequence on one side from the initial (open) state
  life runhook <tok>*  the same for a side whose `on_disconnect` hook raises
  life runwith <H|-><C|-> <tok>*   ... whose hook raises (H) and/or whose stream's close() raises (C)

tokens (<r> = s sent | e eof | h hook raised, close_catchall off | H hook raised, close_catchall on):
  cb            closeBegin (also closeAgain)        ce<r>           closeEnd
  rc            recvClose                           es<r>           eofInServe
  fn<s>         failSendNested: request s, made while a response was being delivered, cannot be written
  fq<s>         failSendRequest of request s        fr<T|F><r>      failSendReply (result by reference?)
  sx<r>         serveAllExit                        is<s>:<T|F>     issue request s (by-reference argument?)
  w<s>:<T|F><r> wait for s (own timeout expired?)   rp<s>:<v>       reply to s with payload v received
  to            the innermost wait loop times out

output: `acc=<accepted>/<total> closed=.. inClose=.. chan=.. hook=<n> cleaned=.. tables=.. pending=.. blocked=..
         out=<s>:<v<payload>|eof|timeout|closeexc>,... raised=<user|attr|hook|channel>,...`
-/
namespace Rpyc.Drv
open Rpyc Rpyc.Proto.Life

def parseTryRes : Char → Option TryRes
  | 's' => some .sent
  | 'e' => some .eof
  | 'h' => some (.hookRaised false)
  | 'H' => some (.hookRaised true)
  | _ => none

def parseTF : Char → Option Bool
  | 'T' => some true
  | 'F' => some false
  | _ => none

def splitColonL (cs : List Char) : Option (List Char × List Char) :=
  match cs.span (· ≠ ':') with
  | (a, _ :: b) => some (a, b)
  | _ => none

def parseLifeEv (tok : String) : Option Ev :=
  match tok.toList with
  | ['c', 'b'] => some .closeBegin
  | ['c', 'e', r] => (parseTryRes r).map .closeEnd
  | ['r', 'c'] => some .recvClose
  | ['e', 's', r] => (parseTryRes r).map .eofInServe
  | 'f' :: 'n' :: cs => (parseNatChars cs).map (fun s => .failSendNested s .eof)
  | 'f' :: 'q' :: cs => (parseNatChars cs).map .failSendRequest
  | ['f', 'r', b, r] => match parseTF b, parseTryRes r with
    | some b, some r => some (.failSendReply b r)
    | _, _ => none
  | ['s', 'x', r] => (parseTryRes r).map .serveAllExit
  | 'i' :: 's' :: cs => match splitColonL cs with
    | some (a, [b]) => match parseNatChars a, parseTF b with
      | some s, some b => some (.issue s b)
      | _, _ => none
    | _ => none
  | ['t', 'o'] => some .timeout
  | 'r' :: 'p' :: cs => match splitColonL cs with
    | some (a, b) => match parseNatChars a, parseNatChars b with
      | some s, some v => some (.reply s v)
      | _, _ => none
    | none => none
  | 'w' :: cs => match splitColonL cs with
    | some (a, [b, r]) => match parseNatChars a, parseTF b, parseTryRes r with
      | some s, some b, some r => some (.wait s b r)
      | _, _, _ => none
    | _ => none
  | _ => none

def showB (b : Bool) : String := if b then "T" else "F"

def showRes : Res → String
  | .value v => "v" ++ toString v
  | .eof => "eof"
  | .timeout => "timeout"
  | .closeExc => "closeexc"

def showCloseExc : CloseExc → String
  | .user => "user"
  | .attributeError => "attr"
  | .hook => "hook"
  | .channel => "channel"

def commasL (l : List String) : String := if l.isEmpty then "-" else ",".intercalate l

def showLife (l : Life) : String :=
  "closed=" ++ showB l.closed ++ " inClose=" ++ showB l.inClose ++ " chan=" ++ showB l.chanClosed
    ++ " hook=" ++ toString l.hookRuns ++ " cleaned=" ++ showB l.cleaned ++ " tables=" ++ showB l.tablesCleared
    ++ " pending=" ++ commasL (l.pending.map toString) ++ " blocked=" ++ commasL (l.blocked.map toString)
    ++ " out=" ++ commasL (l.outcomes.map (fun e => toString e.1 ++ ":" ++ showRes e.2))
    ++ " raised=" ++ commasL (l.closeRaised.map showCloseExc)
    ++ " endready=" ++ commasL ((l.pending.filter (fun s => completedByEnd l s)).map toString)

def lifeOp : List String → String
  | "run" :: toks =>
    match toks.mapM parseLifeEv with
    | some evs =>
      let (l, n) := runPrefix Life.init 0 evs
      "acc=" ++ toString n ++ "/" ++ toString evs.length ++ " " ++ showLife l
    | none => "bad-op"
  | "runwith" :: cfg :: toks =>
    -- <cfg> = two letters: H | - (the disconnect hook raises) and C | - (the stream's close() raises)
    match cfg.toList, toks.mapM parseLifeEv with
    | [h, c], some evs =>
      if (h = 'H' || h = '-') && (c = 'C' || c = '-') then
        let (l, n) := runPrefix (Life.initWith (h = 'H') (c = 'C')) 0 evs
        "acc=" ++ toString n ++ "/" ++ toString evs.length ++ " " ++ showLife l
      else "bad-op"
    | _, _ => "bad-op"
  | "runhook" :: toks =>
    -- the same on a side whose `on_disconnect` hook raises
    match toks.mapM parseLifeEv with
    | some evs =>
      let (l, n) := runPrefix (Life.initWith true) 0 evs
      "acc=" ++ toString n ++ "/" ++ toString evs.length ++ " " ++ showLife l
    | none => "bad-op"
  | _ => "bad-op"

end Rpyc.Drv
