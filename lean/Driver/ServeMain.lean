import Driver.Loop
import Driver.Serve
/- drv_serve: `serve trace <tok>…` (see Driver/Serve.lean) -/
open Rpyc.Drv

def dispatch : List String → String
  | "serve" :: args => serveOp args
  | _ => "bad-op"

def main : IO Unit := runDriver dispatch
