import RpycModel.Srv.Server
import Driver.Text
/-
drv_server ops (not verified; exercised on every line):

  srv run <kind> <auth:T|F> <nb> <tok>*        kind = threaded | pool | forking | oneshot
  srv classify <hex> [<inhex>=<outhex|E>,..]   frames of a byte string

tokens:  c<k>:g:<j> connect, the accepted socket getting the descriptor number client j's closed socket had · m<k> a call
that arms the service instance's on_disconnect to block · h<k> release that on_disconnect (any server kind) ·
c<k>:<g|b|s|r|e> connect (good / bad / no credentials yet / connection reset at once / e: see parseCred) · y<k>:<n> see parseTok · k<k>:<g|b> the late
credentials of a client that connected with s · w<k> a call asking the service which credentials and peer address its
connection carries (to the model: a call) · d<k>:<n> release the object of the n-th lend · · p<k> call · u<k>:<n> a call that passes the n-th kind of by-reference argument, which the service uses through
callbacks (to the model: a call) · x<k>:<n>:<m> a hostile but well-formed request naming a foreign / builtin type and answering
the server's class inspection with junk (to the model: a handled frame) · l<k> call that lends an object ·
o<k>:<n> use the object of the n-th lend (0-based, whole case) on connection k · g<k> graceful close ·
a<k> abrupt close (FIN) · E the accept loop's accept() fails once (EMFILE / ECONNABORTED) · f<k> client k connects and no thread / child process can be
started for it (threaded, forking) · z<k> abrupt close by reset (RST; the same to the model) · X server close · i<k>:<letters> hostile frames given as items (h handled, e empty, b bad,
t incomplete) · r<k>:<hex>[:<inhex>=<outhex|E>,..] hostile bytes (zlib results of the compressed frames supplied).

Output: one segment per token joined by " ; ":
  <obs>|L<0/1> A<0/1> c<n> f<n> p<n> q<n> fd<n> ch<n> n<frames>|<k>:<E|->:<inst|->:<conn hooks>:<disc hooks> ...
obs: - ok refused pong ref resolved keyerr eof timeout · `skip` for a token outside the alphabet in that state ·
`hang` for a pool close that does not return · NOT-MODELLED for bytes whose classification needs `Env.raises`.
-/
namespace Rpyc.Drv
open Rpyc Rpyc.Srv

def parseKind : String → Option Kind
  | "threaded" => some .threaded | "pool" => some .pool | "forking" => some .forking | "oneshot" => some .oneshot
  | _ => none

def splitColon (cs : List Char) : List (List Char) :=
  let (cur, acc) := cs.foldl (fun (st : List Char × List (List Char)) c =>
    if c = ':' then ([], st.1.reverse :: st.2) else (c :: st.1, st.2)) ([], [])
  (cur.reverse :: acc).reverse

def parsePair (cs : List Char) : Option (Bytes × Option Bytes) :=
  match cs.span (· ≠ '=') with
  | (a, _ :: b) =>
    match parseHexGo a #[] with
    | some x =>
      if b = ['E'] then some (x.toList, none)
      else (parseHexGo b #[]).map (fun y => (x.toList, some y.toList))
    | none => none
  | _ => none

def parseZ (cs : List Char) : Option (List (Bytes × Option Bytes)) :=
  if cs.isEmpty then some [] else (splitComma cs).mapM parsePair

def envOf (z : List (Bytes × Option Bytes)) (r : Bool) : Env :=
  { zlib := fun d => match z.lookup d with
      | some res => res
      | none => none,
    raises := fun _ => r }

def parseItems : List Char → Option (List Item)
  | [] => some []
  | 'h' :: cs => (parseItems cs).map (Item.handled :: ·)
  | 'b' :: cs => (parseItems cs).map (Item.bad :: ·)
  | 'e' :: cs => (parseItems cs).map (Item.empty :: ·)
  | 't' :: cs => (parseItems cs).map (Item.part :: ·)
  | _ => none

inductive Tok where
  | op (o : Op)
  | lend (k : Nat)
  | probe (k n : Nat)
  | drop (k n : Nat)
  | needsEnv

def parseCred : List Char → Option Cred
  | ['g'] => some .good | ['b'] => some .bad | ['s'] => some .silent | ['r'] => some .reset
  -- good credentials, but the client answers the request the service's on_connect makes (harness option "occ") with an
  -- exception reply naming SystemExit: the connection is rejected while it is being admitted, like a failed authentication
  | ['e'] => some .bad
  | _ => none

def parseTok (tok : String) : Option Tok :=
  match tok.toList with
  | ['X'] => some (.op .serverClose)
  | ['E'] => some (.op .acceptFault)
  | 'c' :: cs => match splitColon cs with
    | [k, c] => match parseNatChars k, parseCred c with
      | some k, some c => some (.op (.connect k c))
      | _, _ => none
    | [k, ['g'], j] => match parseNatChars k, parseNatChars j with
      | some k, some j => some (.op (.connectReuse k j))
      | _, _ => none
    | _ => none
  | 'f' :: cs => (parseNatChars cs).map (fun k => .op (.connectNoSpawn k))
  | 'm' :: cs => (parseNatChars cs).map (fun k => .op (.call k .arm))
  | 'h' :: cs => (parseNatChars cs).map (fun k => .op (.releaseHook k))
  | 'p' :: cs => (parseNatChars cs).map (fun k => .op (.call k .ping))
  | 'u' :: cs => match splitColon cs with
    | k :: _ => (parseNatChars k).map (fun k => .op (.call k .ping))
    | _ => none
  | 'w' :: cs => (parseNatChars cs).map (fun k => .op (.call k .ping))
  -- an unsolicited REPLY carrying a by-reference object plus a pre-sent EXCEPTION reply (naming SystemExit, KeyboardInterrupt,
  -- ...) to the INSPECT the server then makes: the BaseException leaves serve(): to the model a frame that raises
  | 'y' :: cs => match splitColon cs with
    | k :: _ => (parseNatChars k).map (fun k => .op (.raw k [.bad]))
    | _ => none
  | 'x' :: cs => match splitColon cs with
    | k :: _ => (parseNatChars k).map (fun k => .op (.raw k [.handled]))
    | _ => none
  | 'l' :: cs => (parseNatChars cs).map Tok.lend
  | 'o' :: cs => match splitColon cs with
    | [k, n] => match parseNatChars k, parseNatChars n with
      | some k, some n => some (.probe k n)
      | _, _ => none
    | _ => none
  | 'd' :: cs => match splitColon cs with
    | [k, n] => match parseNatChars k, parseNatChars n with
      | some k, some n => some (.drop k n)
      | _, _ => none
    | _ => none
  | 'k' :: cs => match splitColon cs with
    | [k, c] => match parseNatChars k, parseCred c with
      | some k, some c => some (.op (.creds k c))
      | _, _ => none
    | _ => none
  | 'g' :: cs => (parseNatChars cs).map (fun k => .op (.gracefulClose k))
  | 'a' :: cs => (parseNatChars cs).map (fun k => .op (.abruptClose k))
  | 'z' :: cs => (parseNatChars cs).map (fun k => .op (.abruptClose k))
  | 'i' :: cs => match splitColon cs with
    | [k, its] => match parseNatChars k, parseItems its with
      | some k, some its => some (.op (.raw k its))
      | _, _ => none
    | _ => none
  | 'r' :: cs =>
    match splitColon cs with
    | k :: h :: rest =>
      match parseNatChars k, parseHexGo h #[], parseZ (match rest with | [z] => z | _ => []) with
      | some k, some bs, some z =>
        if rest.length > 1 then none
        else if classify (envOf z true) bs.toList == classify (envOf z false) bs.toList
        then some (.op (.raw k (classify (envOf z true) bs.toList)))
        else some .needsEnv
      | _, _, _ => none
    | _ => none
  | _ => none

def showObs : Obs → String
  | .none => "-" | .ok => "ok" | .refused => "refused" | .eof => "eof" | .timeout => "timeout"
  | .reply .pong => "pong" | .reply (.ref _) => "ref" | .reply .resolved => "resolved" | .reply .keyError => "keyerr"
  | .reply .done => "done"

def b01 (b : Bool) : String := if b then "1" else "0"

def showCli (s : St) (k : Nat) : String :=
  let c := s.cli k
  toString k ++ ":" ++ (if c.shut || !c.clientOpen then "E" else "-") ++ ":" ++
    (match c.inst with | some i => toString i | none => "-") ++ ":" ++ toString c.connHooks ++ ":" ++ toString c.discHooks

def showSt (s : St) : String :=
  let fds := (if s.listening then 1 else 0) + (s.ids.filter (fun k => (s.cli k).srvFd)).length
  let ch := (s.ids.filter (fun k => (s.cli k).child)).length
  "L" ++ b01 s.listening ++ " A" ++ b01 s.acceptAlive ++ " c" ++ toString (s.ids.filter (fun k => (s.cli k).tracked)).length ++
    " f" ++ toString (s.ids.filter (fun k => (s.cli k).inFd)).length ++
    -- poll registrations and queue entries of a pool that has been closed are nobody's business any more (no thread looks
    -- at them; which of them the poller still removed in its last round is a race): reported as 0 by both sides
    " p" ++ toString (if s.cfg.kind == .pool && !s.poolUp then 0 else (s.ids.filter (fun k => (s.cli k).polled)).length) ++
    " q" ++ toString (if s.cfg.kind == .pool && !s.poolUp then 0 else s.queue.length) ++
    " fd" ++ toString fds ++ " ch" ++ toString ch ++ " n" ++ toString s.frames ++ "|" ++
    " ".intercalate ((s.ids.filter (fun k => (s.cli k).phase != .absent)).map (showCli s))

/-- debugging aid: phases -/
def showPhases (s : St) : String :=
  " ".intercalate (s.ids.map (fun k => toString k ++ "=" ++ (match (s.cli k).phase with
    | .absent => "absent" | .backlog => "backlog" | .authing => "authing" | .idle => "idle" | .closing => "closing"
    | .queued => "queued" | .blocked => "blocked" | .done => "done")))

def lendOid (c : Cli) (seq : Nat) : Option Nat :=
  match c.replies.lookup seq with
  | some (.ref oid) => some oid
  | _ => none

def runToks (dbg : Bool) : List Tok → St → List (Option Nat) → List String → List String
  | [], _, _, acc => acc.reverse
  | t :: ts, s, lends, acc =>
    let fin := fun (s' : St) (o : String) (lends' : List (Option Nat)) =>
      runToks dbg ts s' lends' ((o ++ "|" ++ showSt s' ++ (if dbg then "|" ++ showPhases s' else "")) :: acc)
    match t with
    | .needsEnv => ["NOT-MODELLED"]
    | .op o =>
      match step s o with
      | .ok (s', ob) => fin s' (showObs ob) lends
      | .error .notModelled => fin s "hang" lends
      | .error _ => fin s "skip" lends
    | .lend k =>
      match step s (.call k .lend) with
      | .ok (s', ob) => fin s' (showObs ob) (lends ++ [lendOid (s'.cli k) (s.cli k).nextSeq])
      | .error _ => fin s "skip" (lends ++ [none])
    | .probe k n =>
      match lends[n]? with
      | some (some oid) =>
        (match step s (.call k (.probe oid)) with
         | .ok (s', ob) => fin s' (showObs ob) lends
         | .error _ => fin s "skip" lends)
      | _ => fin s "skip" lends
    | .drop k n =>
      match lends[n]? with
      | some (some oid) =>
        (match step s (.call k (.drop oid)) with
         | .ok (s', ob) => fin s' (showObs ob) lends
         | .error _ => fin s "skip" lends)
      | _ => fin s "skip" lends

/-- the configuration of the code as it is: the two measured facts about the pool come from the generated constants -/
def cfgOfCode (kind : Kind) (auth : Bool) (nb : Nat) : Cfg :=
  { kind := kind, auth := auth, nb := nb, spare := Gen.Srv.poolDropSparesNewcomer,
    closeUnblocks := Gen.Srv.poolCloseUnblocksWorkers, acceptTough := Gen.Srv.acceptSurvivesTransientError }

def showItem : Item → String
  | .req _ _ => "q" | .handled => "h" | .empty => "e" | .bad => "b" | .part => "t" | .bye => "y" | .fin => "f"

def serverOp : List String → String
  | "run" :: kind :: auth :: nb :: toks =>
    match parseKind kind, (match auth with | "T" => some true | "F" => some false | _ => none),
          parseNatChars nb.toList, toks.mapM parseTok with
    | some kind, some auth, some nb, some toks =>
      " ; ".intercalate (runToks false toks
        (init (cfgOfCode kind auth nb)) [] [])
    | _, _, _, _ => "bad-op"
  | "debug" :: kind :: auth :: nb :: toks =>
    match parseKind kind, (match auth with | "T" => some true | "F" => some false | _ => none),
          parseNatChars nb.toList, toks.mapM parseTok with
    | some kind, some auth, some nb, some toks =>
      " ; ".intercalate (runToks true toks
        (init (cfgOfCode kind auth nb)) [] [])
    | _, _, _, _ => "bad-op"
  | ["classify", h] =>
    match parseHex h with
    | some bs =>
      if classify (envOf [] true) bs == classify (envOf [] false) bs
      then String.join ((classify (envOf [] true) bs).map showItem) ++ "."
      else "NOT-MODELLED"
    | none => "bad-op"
  | ["classify", h, z] =>
    match parseHex h, parseZ z.toList with
    | some bs, some z =>
      if classify (envOf z true) bs == classify (envOf z false) bs
      then String.join ((classify (envOf z true) bs).map showItem) ++ "."
      else "NOT-MODELLED"
    | _, _ => "bad-op"
  | _ => "bad-op"

end Rpyc.Drv
