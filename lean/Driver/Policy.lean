import RpycModel.Policy.Model
import Driver.Text
/-
drv_policy ops (stateful: configurations, objects and one world of connections are defined by earlier lines).

  reset
  cfg <id> <7 bits: safe exposed public all get set del> <4 bits: pickle import inst oldstyle> <S-prefix> D | [ S.. S.. ]
  obj <id> plain [ names ]
  obj <id> service [ names ]
  obj <id> restricted <targetId> [ attrs ] N | [ wattrs ] [ names the view has ITSELF ]   (target defined before)
  obj <id> hooked [ names ] <hook> <hook> <hook>        hook = -  |  L <ErrName> [ allowed names ]   (get set del)
  acc <cfgId> <objId> getattr|setattr|delattr|callattr <name>      name = S<cp>,<cp>.. | B<hex> | O
  ctx <cfgId> <objId>                                              _handle_ctxexit
  cmp <cfgId> <objId> <typeObjId> <name>                           _handle_cmp (object and its type; measured variant)
  old <cfgId> <objId> <attemptName> <fallbackName> <T|F>           _handle_oldslicing; T: calling the first value raises
  open <i> classic|plain { key value }*   establish connection i with a literal dict (keys as below)
                               keys: safe exposed public all get set del pickle import inst oldstyle (T|F),
                               prefix (S..), safelist ([ S.. ])
  openwith <i> classic|plain <d>           ... with the application's dict OBJECT d (its content now)
  dict <d> { key value }*      the application edits its dict object d (D.update(..))
  setdefault { key value }*    the application edits DEFAULT_CONFIG
  growset [ S.. ]              the default safe_attrs set object grows in place
  newserver <k> N|<d>          Server(service) / Server(service, protocol_config=<dict object d>)
  srvconn <i> <k> classic|plain    server k accepts a client: connection i
  editserver <k> { key value }*    server_k.protocol_config.update(..) after construction
  close <i>
  wacc <i> <objId> <req> <name>          decision of connection i  (or `none`)
  wcfg <i>                               fresh | live <cfg> | closed <cfg>
  wdflt                                  <cfg>

Result of acc/ctx/cmp/wacc:  <events> -> ok direct <name> | ok hooked <name> | err <Class>
  events: p<obj>:<name>  a<obj>:<op>:<name>  h<obj>:<op>:<name>  c<obj>:<name>     (name = code points joined by ',')
-/
namespace Rpyc.Drv
open Rpyc Rpyc.Policy

structure PState where
  cfgs : List (Nat × Config) := []
  objs : List (Nat × Obj) := []
  world : HWorld := HWorld.init

def parsePyStr (tok : String) : Option PyStr :=
  match tok.toList with
  | ['S'] => some []
  | 'S' :: cs => (splitComma cs).mapM parseNatChars
  | _ => none

def parseName (tok : String) : Option Name :=
  match tok.toList with
  | ['O'] => some .other
  | 'B' :: cs => (parseHexGo cs #[]).map (fun b => .bytes b.toList)
  | 'S' :: _ => (parsePyStr tok).map .text
  | _ => none

/-- `[ S.. S.. ]` from the front of the token list -/
def parseStrList : List String → Option (List PyStr × List String)
  | "[" :: rest => go rest #[]
  | _ => none
where
  go : List String → Array PyStr → Option (List PyStr × List String)
    | [], _ => none
    | "]" :: rest, acc => some (acc.toList, rest)
    | tok :: rest, acc => match parsePyStr tok with
      | some s => go rest (acc.push s)
      | none => none

def parseBit (c : Char) : Option Bool :=
  if c = '1' then some true else if c = '0' then some false else none

def parseBool (tok : String) : Option Bool :=
  if tok = "T" then some true else if tok = "F" then some false else none

def parseErr (tok : String) : Option Err :=
  if tok = "AttributeError" then some .attributeError
  else if tok = "ValueError" then some .valueError
  else if tok = "KeyError" then some .keyError
  else if tok = "TypeError" then some .typeError
  else none

def parseReq (tok : String) : Option Req :=
  if tok = "getattr" then some .getattr
  else if tok = "setattr" then some .setattr
  else if tok = "delattr" then some .delattr
  else if tok = "callattr" then some .callattr
  else none

def showPyStr (s : PyStr) : String := ",".intercalate (s.map toString)

def showOp : Op → String
  | .get => "get" | .set => "set" | .del => "del"

def showEv : Ev → String
  | .probe o n => s!"p{o}:{showPyStr n}"
  | .access o op n => s!"a{o}:{showOp op}:{showPyStr n}"
  | .hook o op n => s!"h{o}:{showOp op}:{showPyStr n}"
  | .call o n => s!"c{o}:{showPyStr n}"

def showRes (r : Res) : String :=
  String.join (r.log.map (fun e => showEv e ++ " ")) ++ "-> " ++
    (match r.out with
     | .ok (.direct n) => "ok direct " ++ showPyStr n
     | .ok (.hooked n) => "ok hooked " ++ showPyStr n
     | .error e => "err " ++ e.name)

def showBits (bs : List Bool) : String := String.ofList (bs.map (fun b => if b then '1' else '0'))

def showCfg (c : Config) : String :=
  showBits [c.allowSafe, c.allowExposed, c.allowPublic, c.allowAll, c.allowGet, c.allowSet, c.allowDel] ++ " "
    ++ showBits [c.allowPickle, c.importCustomExc, c.instantiateCustomExc, c.instantiateOldstyleExc] ++ " S"
    ++ showPyStr c.exposedPrefix ++ " [ " ++ String.join (c.safe.map (fun s => "S" ++ showPyStr s ++ " ")) ++ "]"

def parseCfg (bits7 bits4 pfx : String) (safe : List PyStr) : Option Config :=
  match bits7.toList.mapM parseBit, bits4.toList.mapM parseBit, parsePyStr pfx with
  | some [a, b, c, d, e, f, g], some [h, i, j, k], some p =>
    some { allowSafe := a, allowExposed := b, allowPublic := c, allowAll := d, allowGet := e, allowSet := f,
           allowDel := g, exposedPrefix := p, safe := safe, allowPickle := h, importCustomExc := i,
           instantiateCustomExc := j, instantiateOldstyleExc := k }
  | _, _, _ => none

/-- run events of the measured variant -/
def PState.evs (st : PState) (es : List HEvent) : PState := { st with world := hrun Modes.measured st.world es }

def hasOf (names : List PyStr) : PyStr → Bool := fun n => names.contains n

/-- hook spec: `-` or `L <Err> [ names ]`; the hook touches the object itself -/
def parseHook (self : Nat) (op : Op) : List String → Option (Option Hook × List String)
  | "-" :: rest => some (none, rest)
  | "L" :: e :: rest =>
    match parseErr e, parseStrList rest with
    | some err, some (names, rest') => some (some (listHook self op names err), rest')
    | _, _ => none
  | _ => none

def parseObj (objs : List (Nat × Obj)) (id : Nat) : List String → Option Obj
  | "plain" :: rest => match parseStrList rest with
    | some (names, []) => some (plainObj id (hasOf names))
    | _ => none
  | "service" :: rest => match parseStrList rest with
    | some (names, []) => some (serviceObj id (hasOf names))
    | _ => none
  | "restricted" :: t :: rest =>
    match (parseNatChars t.toList).bind (fun k => (List.lookup k objs).map (fun o => (k, o))), parseStrList rest with
    | some (target, tobj), some (attrs, "N" :: rest') => match parseStrList rest' with
      | some (vn, []) => some (restrictedView id target attrs none (hasOf vn) tobj.has)
      | _ => none
    | some (target, tobj), some (attrs, rest') => match parseStrList rest' with
      | some (w, rest'') => match parseStrList rest'' with
        | some (vn, []) => some (restrictedView id target attrs (some w) (hasOf vn) tobj.has)
        | _ => none
      | none => none
    | _, _ => none
  | "hooked" :: rest => match parseStrList rest with
    | some (names, r1) => match parseHook id .get r1 with
      | some (g, r2) => match parseHook id .set r2 with
        | some (s, r3) => match parseHook id .del r3 with
          | some (d, []) => some { id := id, has := hasOf names,
                                   hook := fun | .get => g | .set => s | .del => d }
          | _ => none
        | none => none
      | none => none
    | none => none
  | _ => none

partial def parseOverlay : List String → Overlay → Option Overlay
  | [], ov => some ov
  | "prefix" :: v :: rest, ov => match parsePyStr v with
    | some p => parseOverlay rest { ov with exposedPrefix := some p }
    | none => none
  | "safelist" :: rest, ov => match parseStrList rest with
    | some (l, rest') => parseOverlay rest' { ov with safe := some l }
    | none => none
  | k :: v :: rest, ov => match parseBool v with
    | none => none
    | some b =>
      if k = "safe" then parseOverlay rest { ov with allowSafe := some b }
      else if k = "exposed" then parseOverlay rest { ov with allowExposed := some b }
      else if k = "public" then parseOverlay rest { ov with allowPublic := some b }
      else if k = "all" then parseOverlay rest { ov with allowAll := some b }
      else if k = "get" then parseOverlay rest { ov with allowGet := some b }
      else if k = "set" then parseOverlay rest { ov with allowSet := some b }
      else if k = "del" then parseOverlay rest { ov with allowDel := some b }
      else if k = "pickle" then parseOverlay rest { ov with allowPickle := some b }
      else if k = "import" then parseOverlay rest { ov with importCustomExc := some b }
      else if k = "inst" then parseOverlay rest { ov with instantiateCustomExc := some b }
      else if k = "oldstyle" then parseOverlay rest { ov with instantiateOldstyleExc := some b }
      else none
  | _, _ => none

def showOptCfg : Option Config → String
  | some c => showCfg c
  | none => "KeyError"

def showConn (w : HWorld) (i : Nat) : String :=
  match w.conns i with
  | .fresh => "fresh"
  | .live ch => "live " ++ showOptCfg (w.cfgOfChain ch)
  | .closed ch => "closed " ++ showOptCfg (w.cfgOfChain ch)

/-- literal config dicts are fresh application dict objects nobody else refers to -/
def literalDict (i : Nat) : Nat := 1000000 + i

def parseClassic (tok : String) : Option Bool :=
  if tok = "classic" then some true else if tok = "plain" then some false else none

def nat? (s : String) : Option Nat := parseNatChars s.toList

def policyOp (st : PState) : List String → PState × String
  | ["reset"] => ({}, "ok")
  | "cfg" :: id :: b7 :: b4 :: pfx :: rest =>
    let safe? : Option (List PyStr) := match rest with
      | ["D"] => some Gen.Policy.cfgSafeAttrsCp
      | _ => match parseStrList rest with
        | some (l, []) => some l
        | _ => none
    match nat? id, safe? with
    | some i, some safe => match parseCfg b7 b4 pfx safe with
      | some c => ({ st with cfgs := (i, c) :: st.cfgs.filter (·.1 ≠ i) }, "ok")
      | none => (st, "bad-op")
    | _, _ => (st, "bad-op")
  | "obj" :: id :: rest =>
    match nat? id with
    | some i => match parseObj st.objs i rest with
      | some o => ({ st with objs := (i, o) :: st.objs.filter (·.1 ≠ i) }, "ok")
      | none => (st, "bad-op")
    | none => (st, "bad-op")
  | ["acc", c, o, r, n] =>
    match (nat? c).bind (fun k => List.lookup k st.cfgs), (nat? o).bind (fun k => List.lookup k st.objs), parseReq r, parseName n with
    | some cfg, some obj, some req, some nm => (st, showRes (handle cfg obj nm req))
    | _, _, _, _ => (st, "bad-op")
  | ["ctx", c, o] =>
    match (nat? c).bind (fun k => List.lookup k st.cfgs), (nat? o).bind (fun k => List.lookup k st.objs) with
    | some cfg, some obj => (st, showRes (handleCtxExit cfg obj))
    | _, _ => (st, "bad-op")
  | ["old", c, o, a, f, cr] =>
    match (nat? c).bind (fun k => List.lookup k st.cfgs), (nat? o).bind (fun k => List.lookup k st.objs),
          parseName a, parseName f, parseBool cr with
    | some cfg, some obj, some an, some fn, some b => (st, showRes (handleOldSlicing cfg obj an fn b))
    | _, _, _, _, _ => (st, "bad-op")
  | ["cmp", c, o, t, n] =>
    match (nat? c).bind (fun k => List.lookup k st.cfgs), (nat? o).bind (fun k => List.lookup k st.objs),
          (nat? t).bind (fun k => List.lookup k st.objs), parseName n with
    | some cfg, some obj, some ty, some nm =>
      (st, showRes (handleCmp Gen.Policy.cmpRespectsObjectHook cfg obj ty nm))
    | _, _, _, _ => (st, "bad-op")
  | "open" :: i :: k :: rest =>
    match nat? i, parseClassic k, parseOverlay rest {} with
    | some i, some classic, some ov =>
      (st.evs [HEvent.editDict (.app (literalDict i)) ov, HEvent.open i (literalDict i) classic], "ok")
    | _, _, _ => (st, "bad-op")
  | ["openwith", i, k, d] => match nat? i, parseClassic k, nat? d with
    | some i, some classic, some d => (st.evs [HEvent.open i d classic], "ok")
    | _, _, _ => (st, "bad-op")
  | "dict" :: d :: rest =>
    match nat? d, parseOverlay rest {} with
    | some d, some ov => ({ st with world := hstep Modes.measured st.world (.editDict (.app d) ov) }, "ok")
    | _, _ => (st, "bad-op")
  | "setdefault" :: rest =>
    match parseOverlay rest {} with
    | some ov => ({ st with world := hstep Modes.measured st.world (.editDict .dflt ov) }, "ok")
    | none => (st, "bad-op")
  | "growset" :: rest =>
    match parseStrList rest with
    | some (names, []) => ({ st with world := hstep Modes.measured st.world (.mutDfltSet names) }, "ok")
    | _ => (st, "bad-op")
  | ["newserver", k, d] =>
    match nat? k, (if d = "N" then some none else (nat? d).map some) with
    | some k, some d => (st.evs [HEvent.newServer k d], "ok")
    | _, _ => (st, "bad-op")
  | ["srvconn", i, k, c] => match nat? i, nat? k, parseClassic c with
    | some i, some k, some classic => (st.evs [HEvent.serverConn i k classic], "ok")
    | _, _, _ => (st, "bad-op")
  | "editserver" :: k :: rest =>
    match nat? k, parseOverlay rest {} with
    | some k, some ov => (st.evs [HEvent.editServer k ov], "ok")
    | _, _ => (st, "bad-op")
  | ["close", i] => match nat? i with
    | some i => ({ st with world := hstep Modes.measured st.world (.close i) }, "ok")
    | none => (st, "bad-op")
  | ["wacc", i, o, r, n] =>
    match nat? i, (nat? o).bind (fun k => List.lookup k st.objs), parseReq r, parseName n with
    | some i, some obj, some req, some nm =>
      ({ st with world := hstep Modes.measured st.world (.access i) },
       match st.world.decide i obj nm req with
       | some res => showRes res
       | none => "none")
    | _, _, _, _ => (st, "bad-op")
  | ["wcfg", i] => match nat? i with
    | some i => (st, showConn st.world i)
    | none => (st, "bad-op")
  | ["wdflt"] => (st, showOptCfg (st.world.cfgOfChain [.dflt]))
  | _ => (st, "bad-op")

/-- stateful variant of `Driver/Loop.lean` -/
partial def loopSt {σ} (stepFn : σ → List String → σ × String) (st : σ) (h out : IO.FS.Stream) : IO Unit := do
  let line ← h.getLine
  if line.isEmpty then return ()
  let l := line.trimAscii.toString
  let (st', res) := stepFn st ((l.splitOn " ").filter (· ≠ ""))
  out.putStrLn res
  loopSt stepFn st' h out

end Rpyc.Drv
