import RpycModel.Policy.Model
import Driver.Text
/-
drv_policy ops (stateful: configurations, objects and one world of connections are defined by earlier lines).

  reset
  cfg <id> <7 bits: safe exposed public all get set del> <4 bits: pickle import inst oldstyle> <S-prefix> D | [ S.. S.. ]
  obj <id> plain [ names ]
  obj <id> service [ names ]
  obj <id> restricted <targetId> [ attrs ] N | [ wattrs ] [ names the view has ]
  obj <id> hooked [ names ] <hook> <hook> <hook>        hook = -  |  L <ErrName> [ allowed names ]   (get set del)
  acc <cfgId> <objId> getattr|setattr|delattr|callattr <name>      name = S<cp>,<cp>.. | B<hex> | O
  ctx <cfgId> <objId>                                              _handle_ctxexit
  cmp <cfgId> <typeObjId> <name>                                   _handle_cmp on type(obj)
  open <i> { key value }*      keys: safe exposed public all get set del pickle import inst oldstyle (T|F),
                               prefix (S..), safelist ([ S.. ])
  openwith <i> <d>             open connection i with the application's dict object d (its content now)
  dict <d> { key value }*      the application edits its dict object d (D.update(..))
  setdefault { key value }*    the application edits DEFAULT_CONFIG
  slave <i> | close <i>
  wacc <i> <objId> <req> <name>          decision of connection i  (or `none`)
  wcfg <i>                               fresh | live <cfg> | closed <cfg>
  wdflt                                  <cfg>

Result of acc/ctx/cmp/wacc:  <events> -> ok direct <name> | ok hooked <name> | err <Class>
  events: p<obj>:<name>  a<obj>:<op>:<name>  h<obj>:<op>:<name>  c<obj>:<name>     (name = code points joined by ',')
-/
namespace Rpyc.Drv
open Rpyc Rpyc.Policy

structure PState where
  cfgs : List (Nat × Config) := []
  objs : List (Nat × Obj) := []
  world : World := World.init

def parsePyStr (tok : String) : Option PyStr :=
  match tok.toList with
  | ['S'] => some []
  | 'S' :: cs => (splitComma cs).mapM parseNatChars
  | _ => none

def parseName (tok : String) : Option Name :=
  match tok.toList with
  | ['O'] => some .other
  | 'B' :: cs => (parseHexGo cs #[]).map (fun b => .bytes b.toList)
  | 'S' :: _ => (parsePyStr tok).map .text
  | _ => none

/-- `[ S.. S.. ]` from the front of the token list -/
def parseStrList : List String → Option (List PyStr × List String)
  | "[" :: rest => go rest #[]
  | _ => none
where
  go : List String → Array PyStr → Option (List PyStr × List String)
    | [], _ => none
    | "]" :: rest, acc => some (acc.toList, rest)
    | tok :: rest, acc => match parsePyStr tok with
      | some s => go rest (acc.push s)
      | none => none

def parseBit (c : Char) : Option Bool :=
  if c = '1' then some true else if c = '0' then some false else none

def parseBool (tok : String) : Option Bool :=
  if tok = "T" then some true else if tok = "F" then some false else none

def parseErr (tok : String) : Option Err :=
  if tok = "AttributeError" then some .attributeError
  else if tok = "ValueError" then some .valueError
  else if tok = "KeyError" then some .keyError
  else if tok = "TypeError" then some .typeError
  else none

def parseReq (tok : String) : Option Req :=
  if tok = "getattr" then some .getattr
  else if tok = "setattr" then some .setattr
  else if tok = "delattr" then some .delattr
  else if tok = "callattr" then some .callattr
  else none

def showPyStr (s : PyStr) : String := ",".intercalate (s.map toString)

def showOp : Op → String
  | .get => "get" | .set => "set" | .del => "del"

def showEv : Ev → String
  | .probe o n => s!"p{o}:{showPyStr n}"
  | .access o op n => s!"a{o}:{showOp op}:{showPyStr n}"
  | .hook o op n => s!"h{o}:{showOp op}:{showPyStr n}"
  | .call o n => s!"c{o}:{showPyStr n}"

def showRes (r : Res) : String :=
  String.join (r.log.map (fun e => showEv e ++ " ")) ++ "-> " ++
    (match r.out with
     | .ok (.direct n) => "ok direct " ++ showPyStr n
     | .ok (.hooked n) => "ok hooked " ++ showPyStr n
     | .error e => "err " ++ e.name)

def showBits (bs : List Bool) : String := String.ofList (bs.map (fun b => if b then '1' else '0'))

def showCfg (c : Config) : String :=
  showBits [c.allowSafe, c.allowExposed, c.allowPublic, c.allowAll, c.allowGet, c.allowSet, c.allowDel] ++ " "
    ++ showBits [c.allowPickle, c.importCustomExc, c.instantiateCustomExc, c.instantiateOldstyleExc] ++ " S"
    ++ showPyStr c.exposedPrefix ++ " [ " ++ String.join (c.safe.map (fun s => "S" ++ showPyStr s ++ " ")) ++ "]"

def parseCfg (bits7 bits4 pfx : String) (safe : List PyStr) : Option Config :=
  match bits7.toList.mapM parseBit, bits4.toList.mapM parseBit, parsePyStr pfx with
  | some [a, b, c, d, e, f, g], some [h, i, j, k], some p =>
    some { allowSafe := a, allowExposed := b, allowPublic := c, allowAll := d, allowGet := e, allowSet := f,
           allowDel := g, exposedPrefix := p, safe := safe, allowPickle := h, importCustomExc := i,
           instantiateCustomExc := j, instantiateOldstyleExc := k }
  | _, _, _ => none

def hasOf (names : List PyStr) : PyStr → Bool := fun n => names.contains n

/-- hook spec: `-` or `L <Err> [ names ]`; the hook touches the object itself -/
def parseHook (self : Nat) (op : Op) : List String → Option (Option Hook × List String)
  | "-" :: rest => some (none, rest)
  | "L" :: e :: rest =>
    match parseErr e, parseStrList rest with
    | some err, some (names, rest') => some (some (listHook self op names err), rest')
    | _, _ => none
  | _ => none

def parseObj (id : Nat) : List String → Option Obj
  | "plain" :: rest => match parseStrList rest with
    | some (names, []) => some (plainObj id (hasOf names))
    | _ => none
  | "service" :: rest => match parseStrList rest with
    | some (names, []) => some (serviceObj id (hasOf names))
    | _ => none
  | "restricted" :: t :: rest =>
    match parseNatChars t.toList, parseStrList rest with
    | some target, some (attrs, "N" :: rest') => match parseStrList rest' with
      | some (vn, []) => some (restrictedView id target attrs none (hasOf vn))
      | _ => none
    | some target, some (attrs, rest') => match parseStrList rest' with
      | some (w, rest'') => match parseStrList rest'' with
        | some (vn, []) => some (restrictedView id target attrs (some w) (hasOf vn))
        | _ => none
      | none => none
    | _, _ => none
  | "hooked" :: rest => match parseStrList rest with
    | some (names, r1) => match parseHook id .get r1 with
      | some (g, r2) => match parseHook id .set r2 with
        | some (s, r3) => match parseHook id .del r3 with
          | some (d, []) => some { id := id, has := hasOf names,
                                   hook := fun | .get => g | .set => s | .del => d }
          | _ => none
        | none => none
      | none => none
    | none => none
  | _ => none

partial def parseOverlay : List String → Overlay → Option Overlay
  | [], ov => some ov
  | "prefix" :: v :: rest, ov => match parsePyStr v with
    | some p => parseOverlay rest { ov with exposedPrefix := some p }
    | none => none
  | "safelist" :: rest, ov => match parseStrList rest with
    | some (l, rest') => parseOverlay rest' { ov with safe := some l }
    | none => none
  | k :: v :: rest, ov => match parseBool v with
    | none => none
    | some b =>
      if k = "safe" then parseOverlay rest { ov with allowSafe := some b }
      else if k = "exposed" then parseOverlay rest { ov with allowExposed := some b }
      else if k = "public" then parseOverlay rest { ov with allowPublic := some b }
      else if k = "all" then parseOverlay rest { ov with allowAll := some b }
      else if k = "get" then parseOverlay rest { ov with allowGet := some b }
      else if k = "set" then parseOverlay rest { ov with allowSet := some b }
      else if k = "del" then parseOverlay rest { ov with allowDel := some b }
      else if k = "pickle" then parseOverlay rest { ov with allowPickle := some b }
      else if k = "import" then parseOverlay rest { ov with importCustomExc := some b }
      else if k = "inst" then parseOverlay rest { ov with instantiateCustomExc := some b }
      else if k = "oldstyle" then parseOverlay rest { ov with instantiateOldstyleExc := some b }
      else none
  | _, _ => none

def showConnSt : ConnSt → String
  | .fresh => "fresh"
  | .live c => "live " ++ showCfg c
  | .closed c => "closed " ++ showCfg c

def nat? (s : String) : Option Nat := parseNatChars s.toList

def policyOp (st : PState) : List String → PState × String
  | ["reset"] => ({}, "ok")
  | "cfg" :: id :: b7 :: b4 :: pfx :: rest =>
    let safe? : Option (List PyStr) := match rest with
      | ["D"] => some Gen.Policy.cfgSafeAttrsCp
      | _ => match parseStrList rest with
        | some (l, []) => some l
        | _ => none
    match nat? id, safe? with
    | some i, some safe => match parseCfg b7 b4 pfx safe with
      | some c => ({ st with cfgs := (i, c) :: st.cfgs.filter (·.1 ≠ i) }, "ok")
      | none => (st, "bad-op")
    | _, _ => (st, "bad-op")
  | "obj" :: id :: rest =>
    match nat? id with
    | some i => match parseObj i rest with
      | some o => ({ st with objs := (i, o) :: st.objs.filter (·.1 ≠ i) }, "ok")
      | none => (st, "bad-op")
    | none => (st, "bad-op")
  | ["acc", c, o, r, n] =>
    match (nat? c).bind (fun k => List.lookup k st.cfgs), (nat? o).bind (fun k => List.lookup k st.objs), parseReq r, parseName n with
    | some cfg, some obj, some req, some nm => (st, showRes (handle cfg obj nm req))
    | _, _, _, _ => (st, "bad-op")
  | ["ctx", c, o] =>
    match (nat? c).bind (fun k => List.lookup k st.cfgs), (nat? o).bind (fun k => List.lookup k st.objs) with
    | some cfg, some obj => (st, showRes (handleCtxExit cfg obj))
    | _, _ => (st, "bad-op")
  | ["cmp", c, o, n] =>
    match (nat? c).bind (fun k => List.lookup k st.cfgs), (nat? o).bind (fun k => List.lookup k st.objs), parseName n with
    | some cfg, some obj, some nm => (st, showRes (handleCmp cfg obj nm))
    | _, _, _ => (st, "bad-op")
  | "open" :: i :: rest =>
    match nat? i, parseOverlay rest {} with
    | some i, some ov => ({ st with world := step st.world (.open i ov) }, "ok")
    | _, _ => (st, "bad-op")
  | ["openwith", i, d] => match nat? i, nat? d with
    | some i, some d => ({ st with world := step st.world (.openWith i d) }, "ok")
    | _, _ => (st, "bad-op")
  | "dict" :: d :: rest =>
    match nat? d, parseOverlay rest {} with
    | some d, some ov => ({ st with world := step st.world (.editDict d ov) }, "ok")
    | _, _ => (st, "bad-op")
  | "setdefault" :: rest =>
    match parseOverlay rest {} with
    | some ov => ({ st with world := step st.world (.setDefault ov) }, "ok")
    | none => (st, "bad-op")
  | ["slave", i] => match nat? i with
    | some i => ({ st with world := step st.world (.slave i) }, "ok")
    | none => (st, "bad-op")
  | ["close", i] => match nat? i with
    | some i => ({ st with world := step st.world (.close i) }, "ok")
    | none => (st, "bad-op")
  | ["wacc", i, o, r, n] =>
    match nat? i, (nat? o).bind (fun k => List.lookup k st.objs), parseReq r, parseName n with
    | some i, some obj, some req, some nm =>
      ({ st with world := step st.world (.access i) },
       match st.world.decide i obj nm req with
       | some res => showRes res
       | none => "none")
    | _, _, _, _ => (st, "bad-op")
  | ["wcfg", i] => match nat? i with
    | some i => (st, showConnSt (st.world.conns i))
    | none => (st, "bad-op")
  | ["wdflt"] => (st, showCfg st.world.dflt)
  | _ => (st, "bad-op")

/-- stateful variant of `Driver/Loop.lean` -/
partial def loopSt {σ} (stepFn : σ → List String → σ × String) (st : σ) (h out : IO.FS.Stream) : IO Unit := do
  let line ← h.getLine
  if line.isEmpty then return ()
  let l := line.trimAscii.toString
  let (st', res) := stepFn st ((l.splitOn " ").filter (· ≠ ""))
  out.putStrLn res
  loopSt stepFn st' h out

end Rpyc.Drv
