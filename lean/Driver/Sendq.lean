import RpycModel.Conc.SendQ.Model
import Driver.Text
/-
drv_sendq — trace acceptance for the send-queue model (C12).

  sendq trace <n> <prog_0> … <prog_{n-1}> | <act> <act> …

`prog_i`: `-` or comma-separated `<id>s[<kind>]` (one stream write) / `<id>b[<kind>]` (three stream writes);
`kind` = the message type `_send` is called with (1 request, 2 reply, 3 exception; default 1).
Actions (the shared actions the real `_send` performed, in the order they happened; `t` = logical thread):
  s<t>:<id>      `_send` was called with message <id> (thread-local: the datum is being serialised)
  a<t>:<id>      `_send_queue.append` of message <id>
  c<t>:<0|1>     truth test of the queue (the `while` or the re-check) and its result (1 = non-empty)
  l<t>:<0|1>     `_sendlock.acquire(False)` and its result
  p<t>:<id>      `_send_queue.pop(0)` returned message <id>
  w<t>:<id>.<k>  stream write of piece <k> of message <id>
  r<t>           `_sendlock.release()`
  x<t>           the `_send` call returned
  n<p>:<c>:<msg> thread <p> started a nested `_send(msg)`; its activation is logical thread <c>
  D              the transport failed (every later stream write raises)
  f<t>:<id>.<k>  stream write of piece <k> of message <id> raised
  e<t>:EOFError  the `_send` call ended with the transport's exception (only after its own failed write)
Anything else (another exception, a blocking acquire, an unknown piece, …) is rejected.
Answer: `accept <facts>` or `reject pos=<i> act=<token> why=<reason> pc=<pc of that thread> <facts>`.
Not verified; exercised on every line.
-/
namespace Rpyc.Drv
open Rpyc.Conc.SendQ

inductive Act where
  | app (t id : Nat) | test (t : Nat) (r : Bool) | tryl (t : Nat) (r : Bool) | pop (t id : Nat)
  | wr (t id k : Nat) | rel (t : Nat) | ret (t : Nat) | reent (p c : Nat) (m : Msg)
  | brk | wfail (t id k : Nat) | exc (t : Nat) | start (t id : Nat)

def splitOn (sep : Char) (cs : List Char) : List (List Char) :=
  let (cur, acc) := cs.foldl (fun (st : List Char × List (List Char)) c =>
    if c = sep then ([], st.1.reverse :: st.2) else (c :: st.1, st.2)) ([], [])
  (cur.reverse :: acc).reverse

def parseMsg (cs : List Char) : Option Msg :=
  -- <id><s|b>[<kind>]: kind = the message type `_send` was called with (default 1 = request)
  match cs.span (fun c => c.isDigit) with
  | (idc, size :: kc) =>
    match parseNatChars idc, (if kc.isEmpty then some 1 else parseNatChars kc) with
    | some i, some k =>
      if size = 's' then some ⟨i, false, k⟩ else if size = 'b' then some ⟨i, true, k⟩ else none
    | _, _ => none
  | _ => none

def parseProg (tok : String) : Option (List Msg) :=
  if tok = "-" then some [] else (splitOn ',' tok.toList).mapM parseMsg

def parseBit : List Char → Option Bool
  | ['0'] => some false
  | ['1'] => some true
  | _ => none

def parseAct (tok : String) : Option Act :=
  match tok.toList with
  | [] => none
  | ['D'] => some .brk
  | k :: rest =>
    match k, (splitOn ':' rest) with
    | 'a', [t, i] => do some (.app (← parseNatChars t) (← parseNatChars i))
    | 's', [t, i] => do some (.start (← parseNatChars t) (← parseNatChars i))
    | 'c', [t, r] => do some (.test (← parseNatChars t) (← parseBit r))
    | 'l', [t, r] => do some (.tryl (← parseNatChars t) (← parseBit r))
    | 'p', [t, i] => do some (.pop (← parseNatChars t) (← parseNatChars i))
    | 'w', [t, ik] =>
      match splitOn '.' ik with
      | [i, k] => do some (.wr (← parseNatChars t) (← parseNatChars i) (← parseNatChars k))
      | _ => none
    | 'r', [t] => do some (.rel (← parseNatChars t))
    | 'x', [t] => do some (.ret (← parseNatChars t))
    | 'n', [p, c, m] => do some (.reent (← parseNatChars p) (← parseNatChars c) (← parseMsg m))
    | 'f', [t, ik] =>
      match splitOn '.' ik with
      | [i, k] => do some (.wfail (← parseNatChars t) (← parseNatChars i) (← parseNatChars k))
      | _ => none
    | 'e', [t, name] => if name = "EOFError".toList then (parseNatChars t).map .exc else none
    | _, _ => none

def pcName : PC → String
  | .idle => "idle" | .append m => s!"append({m.id})" | .check => "check" | .tryLock => "tryLock"
  | .recheck => "recheck" | .pop => "pop" | .write => "write" | .release => "release"
  | .releaseX => "releaseX" | .crash => "crash"

def runT (s : St) (t : Nat) : Except String St :=
  match exec s (.run t) with
  | some s' => .ok s'
  | none => .error (if blockedB s t then "thread-suspended-under-nested-send" else "no-step-enabled")

def actTid : Act → Nat
  | .app t _ | .test t _ | .tryl t _ | .pop t _ | .wr t _ _ | .rel t | .ret t | .reent t _ _
  | .wfail t _ _ | .exc t | .start t _ => t
  | .brk => 0

/-- the model thread must be able to take the same action with the same result.  `raising`: threads whose
current call is ending with the transport's exception (between the failed write and the `e` action) -/
def applyAct (s : St) (raising : List Nat) : Act → Except String (St × List Nat)
  | .brk => .ok (breakTransport s, raising)
  | .wfail t id k =>
    match s.pc t, s.hand with
    | .write, some h =>
      if !s.dead then .error "model-transport-still-works"
      else if h.2.id = id ∧ s.nw = k then (runT s t).map (fun s' => (s', t :: raising))
      else .error s!"model-writes-{h.2.id}.{s.nw}"
    | _, _ => .error "write-not-expected-here"
  | .exc t =>
    match s.pc t with
    | .idle =>
      if blockedB s t then .error "thread-suspended-under-nested-send"
      else if raising.contains t then .ok (s, raising.erase t) else .error "model-call-returned-normally"
    | _ => .error "exception-not-expected-here"
  | .ret t =>
    match s.pc t with
    | .idle =>
      if blockedB s t then .error "thread-suspended-under-nested-send"
      else if raising.contains t then .error "model-call-ends-with-the-transport-exception" else .ok (s, raising)
    | _ => .error "return-not-expected-here"
  | .rel t =>
    match s.pc t with
    | .release | .releaseX => (runT s t).map (fun s' => (s', raising))
    | _ => .error "release-not-expected-here"
  | .wr t id k =>
    match s.pc t, s.hand with
    | .write, some h =>
      if s.dead then .error "model-transport-has-failed"
      else if h.2.id = id ∧ s.nw = k then (runT s t).map (fun s' => (s', raising))
      else .error s!"model-writes-{h.2.id}.{s.nw}"
    | _, _ => .error "write-not-expected-here"
  | a => (applyAct0 s a).map (fun s' => (s', raising))
where applyAct0 (s : St) : Act → Except String St
  | .start t id =>
    match s.pc t, s.todo t with
    | .idle, m :: _ => if m.id = id then runT s t else .error s!"model-thread-would-send-{m.id}"
    | .idle, [] => .error "thread-has-no-message-left"
    | _, _ => .error "call-inside-a-send"
  | .app t id =>
    match s.pc t with
    | .append m => if m.id = id then runT s t else .error s!"model-appends-{m.id}"
    | _ => .error "append-not-expected-here"
  | .test t r =>
    match s.pc t with
    | .check | .recheck =>
      if r = !s.queue.isEmpty then runT s t else .error "queue-test-result-differs"
    | _ => .error "queue-test-not-expected-here"
  | .tryl t r =>
    match s.pc t with
    | .tryLock => if r = !s.lock then runT s t else .error "try-lock-result-differs"
    | _ => .error "try-lock-not-expected-here"
  | .pop t id =>
    match s.pc t, s.queue with
    | .pop, h :: _ => if h.2.id = id then runT s t else .error s!"model-pops-{h.2.id}"
    | .pop, [] => .error "model-queue-empty"
    | _, _ => .error "pop-not-expected-here"
  | .reent p c m =>
    if c ≠ s.next then .error s!"model-would-name-the-nested-activation-{s.next}"
    else match exec s (.reent p m) with
      | some s' => .ok s'
      | none => .error "nested-send-not-possible-here"
  | _ => .error "unreachable"

def showB (b : Bool) : String := if b then "T" else "F"
def showIds (l : List Nat) : String := if l.isEmpty then "-" else ",".intercalate (l.map toString)

/-- per-thread order, computed (always true by `per_thread_order_all`; printed as a cross-check) -/
def orderOk (s : St) : Bool :=
  (List.range s.next).all (fun t =>
    ((s.out ++ s.lost ++ s.hand.toList ++ s.queue).filter (fun it => it.1 == t)).map (·.2) ++ pending s t == s.prog t)

/-- per OS thread: messages were appended in the order the `_send` calls started (true by `os_thread_order`
when nested sends start past the append; may be false otherwise) -/
def osOrderOk (s : St) : Bool :=
  (List.range s.next).all (fun r => (onThread s r s.appended).isPrefixOf (onThread s r s.started))

def allDone (s : St) : Bool := (List.range s.next).all (isDoneB s)

/-- some sender has not returned and no thread can take a step -/
def stuck (s : St) : Bool :=
  !allDone s && !(List.range s.next).any (fun t => !blockedB s t && (step s t).isSome)

def facts (s : St) : String :=
  s!"stuck={showB (stuck s)} done={showB (allDone s)} q={showIds (s.queue.map (·.2.id))} lock={showB s.lock} " ++
  s!"hand={match s.hand with | some h => toString h.2.id ++ "." ++ toString s.nw | none => "-"} " ++
  s!"wire={showIds (s.out.map (·.2.id))} order={showB (orderOk s)} threads={s.next} " ++
  s!"dead={showB s.dead} lost={showIds (s.lost.map (·.2.id))} stub={s.stub.length} osorder={showB (osOrderOk s)}"

def runTrace (s : St) (raising : List Nat) : Nat → List String → String
  | _, [] => "accept " ++ facts s
  | i, tok :: rest =>
    match parseAct tok with
    | none => s!"reject pos={i} act={tok} why=not-an-action-of-the-model pc=- " ++ facts s
    | some a =>
      match applyAct s raising a with
      | .ok (s', r') => runTrace s' r' (i + 1) rest
      | .error e => s!"reject pos={i} act={tok} why={e} pc={pcName (s.pc (actTid a))} " ++ facts s

def splitBar : List String → List String → Option (List String × List String)
  | _, [] => none
  | acc, "|" :: rest => some (acc.reverse, rest)
  | acc, x :: rest => splitBar (x :: acc) rest

def sendqOp : List String → String
  | "trace" :: nTok :: rest =>
    match parseNatChars nTok.toList, splitBar [] rest with
    | some n, some (progToks, acts) =>
      if progToks.length ≠ n then "bad-op" else
      match progToks.mapM parseProg with
      | none => "bad-op"
      | some progs => runTrace (init n (fun t => progs.getD t [])) [] 0 acts
    | _, _ => "bad-op"
  | _ => "bad-op"

end Rpyc.Drv
