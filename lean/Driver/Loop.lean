/-
Shared stdin/stdout loop of the line-protocol drivers: one op per line in, one canonical line out.
-/
namespace Rpyc.Drv

partial def loop (dispatch : List String → String) (h : IO.FS.Stream) (out : IO.FS.Stream) : IO Unit := do
  let line ← h.getLine
  if line.isEmpty then return ()
  let l := line.trimAscii.toString
  out.putStrLn (dispatch ((l.splitOn " ").filter (· ≠ "")))
  loop dispatch h out

def runDriver (dispatch : List String → String) : IO Unit := do
  let out ← IO.getStdout
  loop dispatch (← IO.getStdin) out
  out.flush

end Rpyc.Drv
