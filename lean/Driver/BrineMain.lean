import Driver.Loop
import Driver.Brine
/- drv_brine: `brine enc <val>` | `brine dec <hex>` | `brine dumpable <val>` -/
open Rpyc.Drv

def dispatch : List String → String
  | "brine" :: args => brineOp args
  | _ => "bad-op"

def main : IO Unit := runDriver dispatch
