import Driver.Loop
import Driver.Async
/- drv_async: `async run <t0> <tok>*` (tokens: see Driver/Async.lean) -/
open Rpyc.Drv

def dispatch : List String → String
  | "async" :: args => asyncOp args
  | _ => "bad-op"

def main : IO Unit := runDriver dispatch
