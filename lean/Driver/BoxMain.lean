import Driver.Loop
import Driver.Box
/- drv_box: `box c10 <n> <history>` | `box c03 ...` (see Driver/Box.lean) -/
open Rpyc.Drv

def dispatch : List String → String
  | "box" :: args => boxOp args
  | _ => "bad-op"

def main : IO Unit := runDriver dispatch
