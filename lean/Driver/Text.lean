import RpycModel.Base.Py
/-
Line-protocol text forms (not verified; exercised on every line of every correspondence run).
Values: N X E T F I<int> D<16hex> C<16hex>:<16hex> B<hex> S<cp>,<cp>,.. ( .. ) { .. } [ a b c ] O<k>
-/
namespace Rpyc.Drv
open Rpyc

def hexDigit (c : Char) : Option Nat :=
  if '0' ≤ c ∧ c ≤ '9' then some (c.toNat - 48)
  else if 'a' ≤ c ∧ c ≤ 'f' then some (c.toNat - 87)
  else if 'A' ≤ c ∧ c ≤ 'F' then some (c.toNat - 55)
  else none

def parseHexGo : List Char → Array Nat → Option (Array Nat)
  | [], acc => some acc
  | [_], _ => none
  | a :: b :: rest, acc =>
    match hexDigit a, hexDigit b with
    | some x, some y => parseHexGo rest (acc.push (x * 16 + y))
    | _, _ => none

def parseHex (s : String) : Option Bytes := (parseHexGo s.toList #[]).map Array.toList

def hexChar (n : Nat) : Char := if n < 10 then Char.ofNat (48 + n) else Char.ofNat (87 + n)

def toHex (bs : Bytes) : String :=
  String.ofList (bs.foldr (fun b acc => hexChar (b / 16 % 16) :: hexChar (b % 16) :: acc) [])

def parseHexNat (cs : List Char) : Option Nat :=
  cs.foldl (fun acc c => match acc, hexDigit c with
    | some a, some d => some (a * 16 + d)
    | _, _ => none) (some 0)

def natToHex16 (n : Nat) : String :=
  String.ofList ((List.range 16).reverse.map (fun i => hexChar (n / 16 ^ i % 16)))

def parseNatChars (cs : List Char) : Option Nat :=
  if cs.isEmpty then none else
  cs.foldl (fun acc c => match acc with
    | some a => if '0' ≤ c ∧ c ≤ '9' then some (a * 10 + (c.toNat - 48)) else none
    | none => none) (some 0)

def parseIntChars : List Char → Option Int
  | '-' :: cs => (parseNatChars cs).map (fun n => - (n : Int))
  | cs => (parseNatChars cs).map (fun n => (n : Int))

def splitComma (cs : List Char) : List (List Char) :=
  let (cur, acc) := cs.foldl (fun (st : List Char × List (List Char)) c =>
    if c = ',' then ([], st.1.reverse :: st.2) else (c :: st.1, st.2)) ([], [])
  (cur.reverse :: acc).reverse

partial def parseVal : List String → Option (Val × List String)
  | [] => none
  | tok :: rest =>
    match tok.toList with
    | ['N'] => some (.none, rest)
    | ['X'] => some (.notImpl, rest)
    | ['E'] => some (.ellipsis, rest)
    | ['T'] => some (.bool true, rest)
    | ['F'] => some (.bool false, rest)
    | 'I' :: cs => (parseIntChars cs).map (fun i => (.int i, rest))
    | 'D' :: cs => (parseHexNat cs).map (fun b => (.float b, rest))
    | 'C' :: cs =>
      match splitOnColon cs with
      | some (a, b) => match parseHexNat a, parseHexNat b with
        | some x, some y => some (.complex x y, rest)
        | _, _ => none
      | none => none
    | 'B' :: cs => (parseHexGo cs #[]).map (fun b => (.bytes b.toList, rest))
    | ['S'] => some (.str [], rest)
    | 'S' :: cs => ((splitComma cs).mapM parseNatChars).map (fun s => (.str s, rest))
    | 'O' :: cs => (parseNatChars cs).map (fun k => (.other k, rest))
    | ['('] => (parseSeq ")" rest #[]).map (fun (xs, r) => (.tuple xs, r))
    | ['{'] => (parseSeq "}" rest #[]).map (fun (xs, r) => (.fset xs, r))
    | ['['] => match parseSeq "]" rest #[] with
      | some ([a, b, c], r) => some (.slice a b c, r)
      | _ => none
    | _ => none
where
  splitOnColon (cs : List Char) : Option (List Char × List Char) :=
    match cs.span (· ≠ ':') with
    | (a, _ :: b) => some (a, b)
    | _ => none
  parseSeq (close : String) : List String → Array Val → Option (List Val × List String)
    | [], _ => none
    | tok :: rest, acc =>
      if tok = close then some (acc.toList, rest)
      else match parseVal (tok :: rest) with
        | some (v, r) => parseSeq close r (acc.push v)
        | none => none

partial def showVal : Val → String
  | .none => "N" | .notImpl => "X" | .ellipsis => "E"
  | .bool true => "T" | .bool false => "F"
  | .int i => "I" ++ toString i
  | .float b => "D" ++ natToHex16 b
  | .complex r i => "C" ++ natToHex16 r ++ ":" ++ natToHex16 i
  | .bytes b => "B" ++ toHex b
  | .str s => "S" ++ ",".intercalate (s.map toString)
  | .tuple xs => "( " ++ String.join (xs.map (fun x => showVal x ++ " ")) ++ ")"
  | .fset xs => "{ " ++ String.join (xs.map (fun x => showVal x ++ " ")) ++ "}"
  | .slice a b c => "[ " ++ showVal a ++ " " ++ showVal b ++ " " ++ showVal c ++ " ]"
  | .other k => "O" ++ toString k

def parseValLine (toks : List String) : Option Val :=
  match parseVal toks with
  | some (v, []) => some v
  | _ => none

def showExcept {α} (f : α → String) : Except Err α → String
  | .ok a => "ok " ++ f a
  | .error e => "err " ++ e.name

end Rpyc.Drv
