import RpycModel.Proto.Ledger
import Driver.Text
/-
drv_proto, ledger ops (C08; not verified, exercised on every line):

  ledger run <seqA> <seqB> <tok>*      run the event sequence from counters seqA / seqB
  ledger dispatch <o>                  what `_dispatch_request` does with outcome class <o>

tokens (<x> = A | B):
  i<x>s  i<x>a        issue sync / async          f<x>             `_async_request` whose send raises
  w<x><seq>           await                       d<x>             deliver (serve one message)
  D<x>                deliver a response whose payload this side cannot decode
  F<x><o>:<val>       finish; <o> = v value, r ref, x raise, u undecodableArgs, e unencodableResult,
                      p unserializableExc, b raiseBase (a BaseException that is not an Exception), l raiseLocal
                      (SystemExit / KeyboardInterrupt with its propagate_*_locally switch on)
  j<x><R|X><seq>:<val>   hand-built REPLY / EXCEPTION frame towards <x>

output: `acc=<accepted>/<total> wire=<sender>:<msg code>:<seq>,... A[...] B[...]`
-/
namespace Rpyc.Drv
open Rpyc Rpyc.Proto.Ledger

def parseSide : Char → Option Side
  | 'A' => some .A
  | 'B' => some .B
  | _ => none

def parseOutcome : Char → Option Outcome
  | 'v' => some .value
  | 'r' => some .ref
  | 'x' => some .raise
  | 'b' => some .raiseBase
  | 'l' => some .raiseLocal
  | 'u' => some .undecodableArgs
  | 'e' => some .unencodableResult
  | 'p' => some .unserializableExc
  | _ => none

def splitColon (cs : List Char) : Option (List Char × List Char) :=
  match cs.span (· ≠ ':') with
  | (a, _ :: b) => some (a, b)
  | _ => none

def parseLedgerEv (tok : String) : Option Ev :=
  match tok.toList with
  | ['i', x, 's'] => (parseSide x).map (fun x => ⟨x, .issue .sync⟩)
  | ['i', x, 'a'] => (parseSide x).map (fun x => ⟨x, .issue .async⟩)
  | ['f', x] => (parseSide x).map (fun x => ⟨x, .issueFail⟩)
  | ['d', x] => (parseSide x).map (fun x => ⟨x, .deliver⟩)
  | ['D', x] => (parseSide x).map (fun x => ⟨x, .deliverFail⟩)
  | 'w' :: x :: cs => match parseSide x, parseNatChars cs with
    | some x, some s => some ⟨x, .await s⟩
    | _, _ => none
  | 'F' :: x :: o :: ':' :: cs => match parseSide x, parseOutcome o, parseNatChars cs with
    | some x, some o, some v => some ⟨x, .finish o v⟩
    | _, _, _ => none
  | 'j' :: x :: k :: cs => match parseSide x, splitColon cs with
    | some x, some (a, b) => match parseNatChars a, parseNatChars b with
      | some s, some v =>
        if k = 'R' then some ⟨x, .inject .reply s v⟩
        else if k = 'X' then some ⟨x, .inject .exc s v⟩
        else none
      | _, _ => none
    | _, _ => none
  | _ => none

def showSide : Side → String
  | .A => "A"
  | .B => "B"

def showRK : RKind → String
  | .reply => "R"
  | .exc => "X"

def showMsg : Msg → String
  | .req s => toString Gen.Proto.msgRequest ++ ":" ++ toString s
  | .resp k s _ => toString k.code ++ ":" ++ toString s

def showEntry (e : Entry) : String := toString e.1 ++ showRK e.2.1 ++ toString e.2.2

def showFrame : Frame → String
  | .handling r => "h" ++ toString r
  | .waiting s => "w" ++ toString s

def showKindC : Kind → String
  | .sync => "s"
  | .async => "a"

def commas (l : List String) : String := if l.isEmpty then "-" else ",".intercalate l

def showSideSt (name : String) (s : SideSt) : String :=
  name ++ "[seq=" ++ toString s.seq
    ++ " cb=" ++ commas (s.callbacks.map (fun e => toString e.1 ++ showKindC e.2))
    ++ " stack=" ++ commas (s.stack.map showFrame)
    ++ " inbox=" ++ commas (s.inbox.map showMsg)
    ++ " exec=" ++ commas (s.executed.map toString)
    ++ " ans=" ++ commas (s.answered.map showEntry)
    ++ " aband=" ++ commas (s.abandoned.map toString)
    ++ " res=" ++ commas (s.results.map (fun e =>
          -- (a response that could not be decoded reaches its waiter as an exception)
          if s.undecodable.contains e.1 then toString e.1 ++ "X0" else showEntry e))
    ++ " drop=" ++ commas (s.dropped.map toString)
    ++ " dead=" ++ (if s.dead then "T" else "F") ++ "]"

def showActionText : Action → String
  | .respond .reply => "respond " ++ toString RKind.reply.code
  | .respond .exc => "respond " ++ toString RKind.exc.code
  | .propagate => "propagate"

def ledgerOp : List String → String
  | "run" :: sa :: sb :: toks =>
    match parseNatChars sa.toList, parseNatChars sb.toList, toks.mapM parseLedgerEv with
    | some a, some b, some evs =>
      let (s, n) := runPrefix (St.init a b) 0 evs
      "acc=" ++ toString n ++ "/" ++ toString evs.length
        ++ " wire=" ++ commas (s.wire.map (fun e => showSide e.1 ++ ":" ++ showMsg e.2))
        ++ " " ++ showSideSt "A" s.a ++ " " ++ showSideSt "B" s.b
    | _, _, _ => "bad-op"
  | ["dispatch", o] =>
    match o.toList with
    | [c] => match parseOutcome c with
      | some o => showActionText (dispatchRequest o)
      | none => "bad-op"
    | _ => "bad-op"
  | _ => "bad-op"

end Rpyc.Drv
