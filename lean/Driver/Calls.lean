import RpycModel.Proto.Calls
import Driver.Text
/-
Line protocol of the call layer (C01).  Not verified; exercised on every line.

  calls <loc|dist> <fuel> <A|B> <nf> FN*nf tbl <ids|-> <ids|-> repr <nr> (PYVAL NAME)*nr entry PYVAL <n> PYVAL*n <m> (NAME PYVAL)*m
  FN    := fn <A|B> <n> STMT*n
  STMT  := call <x> EXPR <n> EXPR*n <m> (NAME EXPR)*m | try <n> STMT*n <*|NAME> <m> STMT*m | ret EXPR | raise NAME <n> EXPR*n
  EXPR  := c PYVAL | v<i> | a<i> | k<cp,cp,..> | t<n> EXPR*n
  PYVAL := V <value tokens of Driver/Text> | < PYVAL* > | RA<k> | RB<k>
  NAME  := n<cp,cp,..>
answer:  OUTCOME | c0 c1 .. | tblA | tblB     OUTCOME := ret PYVAL | exc NAME <n> PYVAL*n | stuck <Err> | norm
-/
namespace Rpyc.Drv
open Rpyc Rpyc.Calls

abbrev Parser (α : Type) := List String → Option (α × List String)

def pNat : Parser Nat
  | tok :: rest => (parseNatChars tok.toList).map (fun n => (n, rest))
  | [] => none

def pSide : Parser Side
  | "A" :: rest => some (.A, rest)
  | "B" :: rest => some (.B, rest)
  | _ => none

def parseCps (cs : List Char) : Option (List Nat) :=
  if cs.isEmpty then some [] else (splitComma cs).mapM parseNatChars

def pName : Parser Name
  | tok :: rest => match tok.toList with
    | 'n' :: cs => (parseCps cs).map (fun n => (n, rest))
    | _ => none
  | [] => none

def pIds : Parser (List Nat)
  | "-" :: rest => some ([], rest)
  | tok :: rest => ((splitComma tok.toList).mapM parseNatChars).map (fun n => (n, rest))
  | [] => none

partial def pMany {α : Type} (p : Parser α) : Nat → Parser (List α)
  | 0, toks => some ([], toks)
  | n+1, toks => match p toks with
    | some (a, r) => match pMany p n r with
      | some (as, r') => some (a :: as, r')
      | none => none
    | none => none

def pCounted {α : Type} (p : Parser α) : Parser (List α) := fun toks =>
  match pNat toks with
  | some (n, r) => pMany p n r
  | none => none

partial def pPyVal : Parser PyVal
  | "V" :: rest => (parseVal rest).map (fun (v, r) => (.imm v, r))
  | "<" :: rest => pTupItems rest #[]
  | tok :: rest => match tok.toList with
    | 'R' :: 'A' :: cs => (parseNatChars cs).map (fun k => (.ref .A k, rest))
    | 'R' :: 'B' :: cs => (parseNatChars cs).map (fun k => (.ref .B k, rest))
    | _ => none
  | [] => none
where
  pTupItems : List String → Array PyVal → Option (PyVal × List String)
    | ">" :: rest, acc => some (.tup acc.toList, rest)
    | toks, acc => match pPyVal toks with
      | some (x, r) => pTupItems r (acc.push x)
      | none => none

partial def pExpr : Parser Expr
  | "c" :: rest => (pPyVal rest).map (fun (v, r) => (.const v, r))
  | tok :: rest => match tok.toList with
    | 'v' :: cs => (parseNatChars cs).map (fun i => (.var i, rest))
    | 'a' :: cs => (parseNatChars cs).map (fun i => (.arg i, rest))
    | 'k' :: cs => (parseCps cs).map (fun k => (.kw k, rest))
    | 't' :: cs => match parseNatChars cs with
      | some n => (pMany pExpr n rest).map (fun (es, r) => (.tuple es, r))
      | none => none
    | _ => none
  | [] => none

def pKwExpr : Parser (Name × Expr) := fun toks =>
  match pName toks with
  | some (k, r) => (pExpr r).map (fun (e, r') => ((k, e), r'))
  | none => none

def pPat : Parser (Option Name)
  | "*" :: rest => some (none, rest)
  | toks => (pName toks).map (fun (n, r) => (some n, r))

partial def pStmt : Parser Stmt
  | "call" :: rest =>
    match pNat rest with
    | some (x, r1) => match pExpr r1 with
      | some (f, r2) => match pCounted pExpr r2 with
        | some (as, r3) => (pCounted pKwExpr r3).map (fun (kws, r4) => (.call x f as kws, r4))
        | none => none
      | none => none
    | none => none
  | "try" :: rest =>
    match pCounted pStmt rest with
    | some (body, r1) => match pPat r1 with
      | some (pat, r2) => (pCounted pStmt r2).map (fun (h, r3) => (.try_ body pat h, r3))
      | none => none
    | none => none
  | "ret" :: rest => (pExpr rest).map (fun (e, r) => (.ret e, r))
  | "raise" :: rest =>
    match pName rest with
    | some (c, r1) => (pCounted pExpr r1).map (fun (es, r2) => (.raise c es, r2))
    | none => none
  | _ => none

def pFn : Parser Fn
  | "fn" :: rest => match pSide rest with
    | some (o, r1) => (pCounted pStmt r1).map (fun (b, r2) => (⟨o, b⟩, r2))
    | none => none
  | _ => none

def pReprEntry : Parser (PyVal × Name) := fun toks =>
  match pPyVal toks with
  | some (x, r) => (pName r).map (fun (n, r') => ((x, n), r'))
  | none => none

def pKwVal : Parser (Name × PyVal) := fun toks =>
  match pName toks with
  | some (k, r) => (pPyVal r).map (fun (v, r') => ((k, v), r'))
  | none => none

/-- canonical text of a value: frozenset members sorted (the order a frozenset is iterated in is CPython's) -/
partial def canonVal : Val → String
  | .tuple xs => "( " ++ String.join (xs.map (fun x => canonVal x ++ " ")) ++ ")"
  | .fset xs => "{ " ++ String.join (((xs.map canonVal).toArray.qsort (· < ·)).toList.map (· ++ " ")) ++ "}"
  | .slice a b c => "[ " ++ canonVal a ++ " " ++ canonVal b ++ " " ++ canonVal c ++ " ]"
  | v => showVal v

partial def canonPyVal : PyVal → String
  | .imm v => "V " ++ canonVal v
  | .tup xs => "< " ++ String.join (xs.map (fun x => canonPyVal x ++ " ")) ++ ">"
  | .ref .A k => "RA" ++ toString k
  | .ref .B k => "RB" ++ toString k

def pyBeq (a b : PyVal) : Bool := canonPyVal a == canonPyVal b

partial def showPyVal : PyVal → String
  | .imm v => "V " ++ showVal v
  | .tup xs => "< " ++ String.join (xs.map (fun x => showPyVal x ++ " ")) ++ ">"
  | .ref .A k => "RA" ++ toString k
  | .ref .B k => "RB" ++ toString k

def showName (n : Name) : String := "n" ++ ",".intercalate (n.map toString)

def showOutcome : Outcome → String
  | .norm _ => "norm"
  | .ret v => "ret " ++ showPyVal v
  | .exc e => "exc " ++ showName e.cls ++ " " ++ toString e.args.length ++ String.join (e.args.map (fun a => " " ++ showPyVal a))
  | .stuck e => "stuck " ++ e.name

def showIds (ks : List Nat) : String := if ks.isEmpty then "-" else ",".intercalate (ks.map toString)

/-- `reprOf` from the table the harness supplies; `?` for a value it did not list -/
def reprTable (tbl : List (PyVal × Name)) (x : PyVal) : Name :=
  match tbl.find? (fun p => pyBeq p.1 x) with
  | some p => p.2
  | none => [63]

def callsOp : List String → String
  | mode :: rest =>
    match (match mode with | "loc" => some Mode.loc | "dist" => some Mode.dist | _ => none) with
    | none => "bad-op"
    | some m =>
      match pNat rest with
      | some (fuel, r1) => match pSide r1 with
        | some (s, r2) => match pCounted pFn r2 with
          | some (P, "tbl" :: r3) => match pIds r3 with
            | some (ta, r4) => match pIds r4 with
              | some (tb, "repr" :: r5) => match pCounted pReprEntry r5 with
                | some (rt, "entry" :: r6) => match pPyVal r6 with
                  | some (callee, r7) => match pCounted pPyVal r7 with
                    | some (args, r8) => match pCounted pKwVal r8 with
                      | some (kwargs, []) =>
                        let st0 : St := { count := fun _ => 0, tblA := ta, tblB := tb }
                        let (o, st) := callFn m { reprOf := reprTable rt, excNote := [63], tbNote := [63] } P fuel s callee args kwargs st0
                        showOutcome (o.normalize { reprOf := reprTable rt, excNote := [63], tbNote := [63] }) ++ " | "
                          ++ " ".intercalate ((List.range P.length).map (fun i => toString (st.count i)))
                          ++ " | " ++ showIds st.tblA ++ " | " ++ showIds st.tblB
                      | _ => "bad-op"
                    | none => "bad-op"
                  | none => "bad-op"
                | _ => "bad-op"
              | _ => "bad-op"
            | none => "bad-op"
          | _ => "bad-op"
        | none => "bad-op"
      | none => "bad-op"
  | [] => "bad-op"

end Rpyc.Drv
