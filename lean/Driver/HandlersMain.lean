import Driver.Loop
import Driver.Handlers
/- drv_handlers: `handlers run …` | `handlers pyeq …` | `handlers check …` (see Driver/Handlers.lean) -/
open Rpyc.Drv

def dispatch : List String → String
  | "handlers" :: args => handlersOp args
  | _ => "bad-op"

def main : IO Unit := runDriver dispatch
