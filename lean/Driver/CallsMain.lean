import Driver.Loop
import Driver.Calls
import Driver.Forward
/- drv_calls: `calls <loc|dist> ...` (C01, see Driver/Calls.lean), `fwd <wire|policy|buffiter> ...` (C02, Driver/Forward.lean) -/
open Rpyc.Drv

def dispatch : List String → String
  | "calls" :: args => callsOp args
  | "fwd" :: args => fwdOp args
  | _ => "bad-op"

def main : IO Unit := runDriver dispatch
