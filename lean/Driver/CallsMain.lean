import Driver.Loop
import Driver.Calls
/- drv_calls: `calls <loc|dist> ...` (C01, see Driver/Calls.lean) -/
open Rpyc.Drv

def dispatch : List String → String
  | "calls" :: args => callsOp args
  | _ => "bad-op"

def main : IO Unit := runDriver dispatch
