import RpycModel.Proto.Handlers
import Driver.Text
/-
drv_handlers ops (not verified; exercised on every line of the C07 correspondence):

  handlers run <cfg12> <root> <maxcb> <depth> <fuel> | <bursts> | <tape> | <strtab>
     cfg12   : 0/1 for allowSafe allowExposed allowPublic allowAll allowGet allowSet allowDel allowPickle
               importCustomExc instantiateCustomExc propagateKbdInt propagateSysExit ("default" = generated defaults);
               prefix and safe list are always the generated ones
     bursts  : messages separated by `;`, bursts by `/`; a message is a value or `G<ErrName>` (undecodable payload)
     tape    : environment moves separated by `;`:  `D R <pv>` | `D X <exc>` | `K <h> <pv>*`
     strtab  : `<val> => <val .str>` separated by `;`  (str() of non-text names in REMOTE_REF packages)
     pv      : `V <val>` | `< pv* >` | `o<k>` | `P <val name> <val cid> <val iid>`
     exc     : `<cls>:<flags>` flags ⊆ E (is an Exception) K (is KeyboardInterrupt) S (is SystemExit) F (EOFError)
  → `<events ; …> | <table key=o:cnt , …> | closed=<b> req=<n> resp=<n> abort=<n> clock=<n>`
  handlers pyeq <val> ; <val>            → T / F
  handlers check <cfg12> <b1> <b2> <op> <val name>   → ok <name> / err <E>
-/
namespace Rpyc.Drv
open Rpyc Rpyc.Handlers

def splitOn (sep : String) (toks : List String) : List (List String) :=
  let (cur, acc) := toks.foldl (fun (st : List String × List (List String)) t =>
    if t = sep then ([], st.1.reverse :: st.2) else (t :: st.1, st.2)) ([], [])
  (cur.reverse :: acc).reverse

partial def parsePV : List String → Option (PV × List String)
  | [] => none
  | "V" :: rest => (parseVal rest).map (fun (v, r) => (.imm v, r))
  | "<" :: rest => (go rest #[]).map (fun (xs, r) => (.tup xs, r))
  | "P" :: rest =>
    match parseVal rest with
    | some (.str nm, r1) => match parseVal r1 with
      | some (c, r2) => match parseVal r2 with
        | some (i, r3) => some (.proxy nm c i, r3)
        | none => none
      | none => none
    | _ => none
  | tok :: rest =>
    match tok.toList with
    | 'o' :: cs => (parseNatChars cs).map (fun k => (.obj k, rest))
    | _ => none
where
  go : List String → Array PV → Option (List PV × List String)
    | [], _ => none
    | ">" :: rest, acc => some (acc.toList, rest)
    | toks, acc => match parsePV toks with
      | some (v, r) => go r (acc.push v)
      | none => none

partial def parsePVs (toks : List String) (acc : Array PV) : Option (List PV) :=
  match toks with
  | [] => some acc.toList
  | _ => match parsePV toks with
    | some (v, r) => parsePVs r (acc.push v)
    | none => none

partial def showPV : PV → String
  | .imm v => "V " ++ showVal v
  | .tup xs => "< " ++ String.join (xs.map (fun x => showPV x ++ " ")) ++ ">"
  | .obj o => "o" ++ toString o
  | .proxy nm c i => "P " ++ showVal (.str nm) ++ " " ++ showVal c ++ " " ++ showVal i

def showPVs (xs : List PV) : String := "[ " ++ String.join (xs.map (fun x => showPV x ++ " ")) ++ "]"

def parseExc (tok : String) : Option Exc :=
  match tok.splitOn ":" with
  | [cls, flags] => some { cls := cls, isException := flags.contains 'E', kbdInt := flags.contains 'K',
                           sysExit := flags.contains 'S', eof := flags.contains 'F' }
  | _ => none

def showExc (x : Exc) : String :=
  x.cls ++ ":" ++ (if x.isException then "E" else "") ++ (if x.kbdInt then "K" else "")
    ++ (if x.sysExit then "S" else "") ++ (if x.eof then "F" else "")

def parseMove : List String → Option Move
  | "D" :: "R" :: rest => match parsePV rest with
    | some (v, []) => some (.done (.ret v))
    | _ => none
  | ["D", "X", x] => (parseExc x).map (fun e => .done (.raise e))
  | "K" :: h :: rest => match parseNatChars h.toList, parsePVs rest #[] with
    | some k, some xs => some (.callback k xs)
    | _, _ => none
  | _ => none

def errOfName (s : String) : Option Err :=
  [Err.typeError, .valueError, .unicodeDecodeError, .unicodeEncodeError, .attributeError, .structError, .keyError,
   .eofError, .zlibError, .recursionError, .indexError, .stopIteration, .timeoutError, .notModelled].find? (fun e => e.name == s)

def parseWire (toks : List String) : Option Wire :=
  match toks with
  | ["EMPTY"] => some Wire.empty
  | [t] => match t.toList with
    | 'G' :: cs => (errOfName (String.ofList cs)).map Wire.garbage
    | _ => (parseValLine toks).map Wire.val
  | _ => (parseValLine toks).map Wire.val

def parseCfg (tok : String) : Option Config :=
  if tok == "default" then some defaultConfig else
  match tok.toList.map (· == '1') with
  | [a, b, c, d, e, f, g, h, i, j, k, l] =>
    if tok.toList.all (fun ch => ch == '0' || ch == '1') then
      some { defaultConfig with
        allowSafe := a
        allowExposed := b
        allowPublic := c
        allowAll := d
        allowGet := e
        allowSet := f
        allowDel := g
        allowPickle := h
        importCustomExc := i
        instantiateCustomExc := j
        propagateKbdInt := k
        propagateSysExit := l }
    else none
  | _ => none

def kindName : TK → String
  | .probe => "probe" | .hookLookup => "hooklookup"
  | .attr .get => "attr.get" | .attr .set => "attr.set" | .attr .del => "attr.del"
  | .hook .get => "hook.get" | .hook .set => "hook.set" | .hook .del => "hook.del"
  | .call => "call" | .apply => "apply" | .repr => "repr" | .str => "str" | .hash => "hash" | .dir => "dir"
  | .islice => "islice" | .instancecheck => "instancecheck" | .pickle => "pickle" | .import_ => "import"
  | .modPresent => "modpresent" | .builtinAttr => "builtinattr" | .buildExc => "buildexc"
  | .truth => "truth" | .raise_ => "raise" | .splat => "splat" | .index => "index" | .idpack => "idpack"
  | .typeOf => "typeof" | .inspect => "inspect" | .probeConn => "probeconn" | .mkclass => "mkclass"
  | .modLookup => "modlookup"
  | .cleanup => "cleanup"

def showEv : Ev → String
  | .request seq => "request " ++ showVal seq
  | .touch t => "t:" ++ kindName t.kind ++ " " ++ showPV t.subj ++ " n=" ++ showVal (.str t.name) ++ " a=" ++ showPVs t.args
  | .answer (.ret v) => "a:R " ++ showPV v
  | .answer (.raise x) => "a:X " ++ showExc x
  | .cbmove h args => "cb " ++ toString h ++ " " ++ showPVs args
  | .outReq seq h boxed => "req " ++ toString seq ++ " " ++ toString h ++ " " ++ showVal boxed
  | .reply seq boxed => "reply " ++ showVal seq ++ " " ++ showVal boxed
  | .exc seq cls => "exc " ++ showVal seq ++ " " ++ cls
  | .aborted seq cls => "aborted " ++ showVal seq ++ " " ++ cls
  | .ignored seq => "ignored " ++ showVal seq
  | .delivered k => "delivered " ++ toString k
  | .dropped k => "dropped " ++ toString k
  | .expired k => "expired " ++ toString k
  | .lent key o => "lent " ++ showVal key ++ " o" ++ toString o
  | .cleaned => "cleaned"
  | .ended cls => "ended " ++ cls

def showSt (st : St) : String :=
  " ; ".intercalate (st.log.map showEv)
    ++ " | " ++ " , ".intercalate (st.table.map (fun s => showVal s.key ++ " =o" ++ toString s.o ++ ":" ++ toString s.cnt))
    ++ " | closed=" ++ (if st.closed then "T" else "F") ++ " clock=" ++ toString st.clock
    ++ " pending=" ++ toString st.pending.length

def parseStrTab (entries : List (List String)) : Option (List (Val × PyStr)) :=
  entries.filter (· ≠ []) |>.mapM (fun e =>
    match splitOn "=>" e with
    | [k, v] => match parseValLine k, parseValLine v with
      | some kv, some (.str s) => some (kv, s)
      | _, _ => none
    | _ => none)

def strOfTab (tab : List (Val × PyStr)) (v : Val) : PyStr :=
  match v with
  | .str s => s
  | _ => match tab.find? (fun p => Val.beq p.1 v) with
    | some p => p.2
    | none => cp "<str?>"

def mapM? {α β} (f : α → Option β) (xs : List α) : Option (List β) := xs.mapM f

def handlersOp : List String → String
  | "run" :: cfgTok :: rootTok :: cbTok :: depthTok :: fuelTok :: "|" :: rest =>
    match parseCfg cfgTok, parseNatChars rootTok.toList, parseNatChars cbTok.toList, parseNatChars depthTok.toList,
          parseNatChars fuelTok.toList, splitOn "|" rest with
    | some cfg, some root, some maxCb, some depth, some fuel, [bt, tt, st] =>
      let bursts := (splitOn "/" bt).map (fun b => (splitOn ";" b).filter (· ≠ []))
      match mapM? (fun b => mapM? parseWire b) bursts,
            mapM? parseMove ((splitOn ";" tt).filter (· ≠ [])),
            parseStrTab (splitOn ";" st) with
      | some ws, some moves, some tab =>
        let tape := moves.toArray
        let b : Ctx := { cfg := cfg, root := root, maxCb := maxCb, depth := depth, strOf := strOfTab tab,
                         env := fun t => match tape[t]? with
                           | some m => m
                           | none => .done (.raise { cls := "NO-ANSWER", isException := false }),
                         await := fun st _ fut => (.raise (Exc.ofErr .notModelled), st, fut) }
        showSt (run b fuel {} ws)
      | _, _, _ => "bad-op"
    | _, _, _, _, _, _ => "bad-op"
  | "pyeq" :: rest =>
    match splitOn ";" rest with
    | [a, b] => match parseValLine a, parseValLine b with
      | some x, some y => if pyEq x y then "T" else "F"
      | _, _ => "bad-op"
    | _ => "bad-op"
  | "check" :: cfgTok :: b1 :: b2 :: op :: rest =>
    match parseCfg cfgTok, parseValLine rest with
    | some cfg, some (.str n) =>
      let o : Option Op := if op == "get" then some .get else if op == "set" then some .set else if op == "del" then some .del else none
      match o with
      | some o => showExcept (fun s => showVal (.str s)) (checkAttr cfg (hasOf cfg n (b1 == "T") (b2 == "T")) n o)
      | none => "bad-op"
    | _, _ => "bad-op"
  | _ => "bad-op"

end Rpyc.Drv
