import Driver.ProtoLedger
import Driver.ProtoLife
/-
drv_proto — ops of the protocol layer (L6).  One line per family: add yours here.

  ledger ...   request/response ledger machine (C08)        Driver/ProtoLedger.lean
  life ...     lifecycle automaton of one side (C11)        Driver/ProtoLife.lean
-/
namespace Rpyc.Drv

def protoDispatch : List String → String
  | "ledger" :: args => ledgerOp args
  | "life" :: args => lifeOp args
  | _ => "bad-op"

end Rpyc.Drv
