import RpycModel.Conc.Serve.Model
import Driver.Text
/-
drv_serve ops (one line each):

  serve trace <tok> <tok> …      trace acceptance: the model must be able to take every observed action
                                 with the same observed result.  Tokens (no blanks inside):
      call:<t>:<tmo|n>:<seq>     thread t took seq from the counter for a call with timeout tmo
      bg:<t>   stop:<t>          thread t becomes / stops being a background serving thread
      poll:<t>:<d>:<tmax>        thread t entered conn.poll_all(d); its Timeout's tmax
      peer:<seq>:<0|1>:<val>     the peer answered seq (reply / exception) with payload val
      dup:<seq>:<0|1>:<val>      the peer repeated the answer it had given to seq
      tick:<d>                   virtual time advanced by d
      eof                        the peer closed the stream
      note:<t>:<what>…           an observation outside the model's alphabet (ignored)
      run:<t>:<label>[:<obs>…]   thread t executed the line `label` with the observed result
      chk:<t>:<R|->              the harness saw client t blocked in poll()/on the condition, its result ready or not
    answer: `ok res=… reg=… dc=… now=… bl=…`   or   `reject <index> <token> model=<label[:obs]> pc=<pc>`
  Anything unparsable: `bad-op`.
-/
namespace Rpyc.Drv
open Rpyc.Conc.Serve

def pNat (s : String) : Option Nat := parseNatChars s.toList

def pOptNat (s : String) : Option (Option Nat) :=
  if s = "n" then some none else (pNat s).map some

def showOptT (o : Option Nat) : String := match o with | none => "inf" | some d => toString d

def pcName : PC → String
  | .idle => "idle" | .c1 => "c1" | .c2 => "c2" | .c3 => "c3" | .w0 => "w0" | .s0 => "s0" | .s1 => "s1"
  | .s2 => "s2" | .s2w => "s2w" | .s2f => "s2f" | .zz => "zz" | .s2r => "s2r" | .s3 => "s3" | .p0 => "p0" | .x0 => "x0" | .r0 => "r0"
  | .n0 => "n0" | .n1 => "n1" | .n2 => "n2" | .d0 => "d0" | .d1 => "d1" | .d2 => "d2" | .d3 => "d3"
  | .d4 => "d4" | .d5 => "d5" | .w9 => "w9" | .w10 => "w10" | .b0 => "b0" | .bS => "bS" | .q1 => "q1"

def insertSorted (x : Nat) : List Nat → List Nat
  | [] => [x]
  | y :: ys => if x ≤ y then x :: y :: ys else y :: insertSorted x ys

def sortNats (xs : List Nat) : List Nat := xs.foldr insertSorted []

def b01 (b : Bool) : String := if b then "1" else "0"

/-- what the model says thread `t` does next in state `s`, in the harness's token syntax (after `run:<t>:`) -/
def expect (s : St) (t : Tid) : String :=
  let l := s.loc t
  match l.pc with
  | .idle => "idle"
  | .c1 => s!"c1:{l.seq}"
  | .c2 => if s.closed then s!"c2:{l.seq}:closed" else s!"c2:{l.seq}"
  | .c3 => s!"c3:{showOptT (l.tmo.map (s.now + ·))}"
  | .w0 => if !(s.cells l.seq).ready && !expiredAt (s.cells l.seq).ttl s.now then "w0:loop" else "w0:exit"
  | .s0 => s!"s0:{showOptT (if l.nowait then l.pdl else if l.bg then some s.now else (s.cells l.seq).ttl)}"
  | .s1 => "s1"
  | .s2 => if s.recvLock = none then "s2:ok" else "s2:fail"
  | .s2w => s!"s2w:{showOptT (l.dl.map (max s.now))}"
  | .s2f => "s2f"
  | .zz => if t ∉ s.waiters then "zz:notified" else "zz:timeout"
  | .s2r => "s2r"
  | .s3 => "s3"
  | .p0 => if s.closed then "p0:eof" else match s.chan with
    | f :: _ => s!"p0:{f.id}"
    | [] => if s.eof then "p0:eof" else "p0:none"
  | .x0 => if s.closed then "x0:again" else "x0:first"
  | .r0 => "r0"
  | .n0 => "n0"
  | .n1 => "n1:" ++ (if s.waiters.isEmpty then "-" else "+".intercalate ((sortNats s.waiters).map toString))
  | .n2 => "n2"
  | .d0 => if l.data.isSome then "d0:data" else if l.raising then "d0:raise" else "d0:none"
  | .d1 => match l.data with
    | some f => s!"d1:{f.seq}:" ++ (if (s.cells f.seq).reg then "cb" else "nocb")
    | none => "d1:?"
  | .d2 => match l.cb with
    | some q => if !(s.cells q).ready && expiredAt (s.cells q).ttl s.now then "d2:expired" else "d2:live"
    | none => "d2:?"
  | .d3 => match l.cb, l.data with
    | some q, some f => s!"d3:{q}:{b01 f.exc}"
    | _, _ => "d3:?"
  | .d4 => match l.cb, l.data with
    | some q, some f => s!"d4:{q}:{f.val}"
    | _, _ => "d4:?"
  | .d5 => match l.cb with
    | some q => s!"d5:{q}"
    | none => "d5:?"
  | .w9 => if (s.cells l.seq).ready then "w9:ready" else "w9:notready"
  | .w10 => "w10:" ++ (match (s.cells l.seq).isExc with | none => "n" | some e => b01 e) ++ ":" ++
            (match (s.cells l.seq).obj with | none => "n" | some v => toString v)
  | .b0 => "b0"
  | .bS => "bS"
  | .q1 => if expiredAt l.pdl s.now then "q1:exit" else "q1:loop"

def showOutcome : Outcome → String
  | .timeout => "timeout"
  | .eof => "eof"
  | .value e o => "value:" ++ (match e with | none => "n" | some b => b01 b) ++ ":" ++
                  (match o with | none => "None" | some v => toString v)

structure Acc where
  s : St := init
  tids : List Nat := []
  results : List (Nat × Nat × String) := []   -- (tid, seq, outcome) in completion order

def Acc.noteTid (a : Acc) (t : Nat) : Acc := if a.tids.contains t then a else { a with tids := a.tids ++ [t] }

/-- one token; `Except (expected text)` -/
def feed (a : Acc) (tok : String) : Except String Acc :=
  match tok.splitOn ":" with
  | ["call", t, tmo, q] =>
    match pNat t, pOptNat tmo, pNat q with
    | some t, some tmo, some q =>
      if a.s.seqCounter ≠ q then .error s!"call:seq={a.s.seqCounter}" else
      match step a.s (.call t tmo) with
      | some s' => .ok ({ a with s := s' }.noteTid t)
      | none => .error s!"call-not-enabled pc={pcName (a.s.loc t).pc}"
    | _, _, _ => .error "bad-op"
  | ["bg", t] =>
    match pNat t with
    | some t => match step a.s (.bg t) with
      | some s' => .ok ({ a with s := s' }.noteTid t)
      | none => .error "bg-not-enabled"
    | none => .error "bad-op"
  | ["poll", t, d, tmax] =>
    match pNat t, pNat d, pNat tmax with
    | some t, some d, some tmax =>
      if a.s.now + d ≠ tmax then .error s!"poll:tmax={a.s.now + d}" else
      match step a.s (.pollAll t d) with
      | some s' => .ok ({ a with s := s' }.noteTid t)
      | none => .error s!"poll-not-enabled pc={pcName (a.s.loc t).pc}"
    | _, _, _ => .error "bad-op"
  | ["stop", t] =>
    match pNat t with
    | some t => match step a.s (.stop t) with
      | some s' => .ok { a with s := s' }
      | none => .error s!"stop-not-enabled pc={pcName (a.s.loc t).pc}"
    | none => .error "bad-op"
  | ["peer", q, e, v] =>
    match pNat q, pNat e, pNat v with
    | some q, some e, some v =>
      if e > 1 then .error "bad-op" else
      match step a.s (.peer q (e == 1) v) with
      | some s' => .ok { a with s := s' }
      | none => .error "peer-not-outstanding"
    | _, _, _ => .error "bad-op"
  | "note" :: _ => .ok a      -- a harness observation that is not an action of the model (e.g. add_callback's readiness test)
  | ["eof"] =>
    match step a.s .peerEof with
    | some s' => .ok { a with s := s' }
    | none => .error "eof-twice"
  | ["dup", q, e, v] =>
    match pNat q, pNat e, pNat v with
    | some q, some e, some v =>
      if e > 1 then .error "bad-op" else
      match step a.s (.peerDup q (e == 1) v) with
      | some s' => .ok { a with s := s' }
      | none => .error "dup-not-the-answer-given"
    | _, _, _ => .error "bad-op"
  | ["tick", d] =>
    match pNat d with
    | some d => match step a.s (.tick d) with
      | some s' => .ok { a with s := s' }
      | none => .error "tick"
    | none => .error "bad-op"
  | ["chk", t, r] =>
    -- the harness saw thread t blocked (in poll or on the condition) with readiness flag r of its request
    match pNat t with
    | some t =>
      let rdy := (a.s.cells (a.s.loc t).seq).ready
      if blocked a.s t ∧ inCall a.s t ∧ (if rdy then "R" else "-") = r then .ok a
      else .error s!"chk:blocked={blocked a.s t}:ready={rdy} pc={pcName (a.s.loc t).pc}"
    | none => .error "bad-op"
  | "run" :: t :: rest =>
    match pNat t with
    | none => .error "bad-op"
    | some t =>
      let want := expect a.s t
      if want ≠ ":".intercalate rest then .error (want ++ " pc=" ++ pcName (a.s.loc t).pc) else
      match step a.s (.run t) with
      | none => .error (want ++ " blocked pc=" ++ pcName (a.s.loc t).pc)
      | some s' =>
        let l' := s'.loc t
        let a' := { a with s := s' }
        if (a.s.loc t).pc ≠ .idle ∧ l'.pc = .idle ∧ (a.s.loc t).bg = false then
          match l'.result with
          | some r => .ok { a' with results := a'.results ++ [(t, l'.seq, showOutcome r)] }
          | none => .ok a'
        else .ok a'
  | _ => .error "bad-op"

def feedAll : Acc → Nat → List String → Except (Nat × String × String) Acc
  | a, _, [] => .ok a
  | a, i, tok :: rest => match feed a tok with
    | .ok a' => feedAll a' (i + 1) rest
    | .error e => .error (i, tok, e)

def summary (a : Acc) : String :=
  let s := a.s
  let tids := sortNats a.tids
  let res := tids.flatMap (fun t => (a.results.filter (fun r => r.1 == t)).map (fun r => s!"{r.1}/{r.2.1}/{r.2.2}"))
  let reg := (List.range s.seqCounter).filter (fun q => (s.cells q).reg)
  let dc := (List.range s.nsent).map (fun k => toString (s.dcount k))
  let bl := (tids.filter (fun t => inCall s t)).map (fun t =>
      s!"{t}/" ++ (if blocked s t then "B" else "-") ++ "/" ++ (if (s.cells (s.loc t).seq).ready then "R" else "-"))
  let dash (xs : List String) (sep : String) := if xs.isEmpty then "-" else sep.intercalate xs
  s!"res={dash res ","} reg={dash (reg.map toString) "+"} dc={dash dc ","} now={s.now} bl={dash bl ","}"

def serveOp : List String → String
  | "trace" :: toks =>
    match feedAll {} 0 toks with
    | .ok a => "ok " ++ summary a
    | .error (i, tok, e) => if e = "bad-op" then "bad-op" else s!"reject {i} {tok} model={e}"
  | _ => "bad-op"

end Rpyc.Drv
