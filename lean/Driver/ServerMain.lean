import Driver.Loop
import Driver.Server
/- drv_server: `srv run <kind> <auth> <nb> <tok>*` | `srv classify <hex> [zlib pairs]` (see Driver/Server.lean) -/
open Rpyc.Drv

def dispatch : List String → String
  | "srv" :: args => serverOp args
  | _ => "bad-op"

def main : IO Unit := runDriver dispatch
