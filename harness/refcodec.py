"""Reference implementation of the published rpyc 5.x wire format: value codec, packet framing, message
layout, and a minimal peer.  Written from the published tables (the 5.0.x release notes/source as a
*document*): it imports nothing from rpyc and shares no code with it.  Used by harness/props/c19.py as
the independent party of the C19 correspondence and as its direct oracle.

Value codec ("brine")
    one tag byte, then tag-specific content.  Byte strings, tuples and integer text each have several
    *forms* that differ in how the length is stated: implied by the tag (0..4), one length byte, or four
    length bytes (big-endian).  A conforming encoder may use any form whose length field can hold the
    length; the published encoder uses the one with the fewest bytes.  `encode(v)` does that;
    `encode(v, choose=f)` lets `f` pick among the legal forms (for testing decoders).
Packets
    4-byte big-endian payload length, 1 flag byte (non-zero: payload is a zlib stream), payload, b"\\n".
    The published sender compresses (level 1) exactly the packets longer than 3000 bytes.
Messages
    payload = value (kind, seq, args): (1, seq, (handler, boxed)) request, (2, seq, boxed) reply,
    (3, seq, dumped_exception) exception.  boxed = (1, value) | (2, (boxed, ...)) | (3, id_pack of an object
    of the RECEIVER) | (4, id_pack of an object of the SENDER); id_pack = (type name, class id, instance id).
"""
import struct
import zlib

# ------------------------------------------------------------------------------------------ published tables
TAGS = {
    "NONE": 0x00, "EMPTY_STR": 0x01, "EMPTY_TUPLE": 0x02, "TRUE": 0x03, "FALSE": 0x04, "NOT_IMPLEMENTED": 0x05,
    "ELLIPSIS": 0x06, "UNICODE": 0x08, "STR1": 0x0a, "STR2": 0x0b, "STR3": 0x0c, "STR4": 0x0d, "STR_L1": 0x0e,
    "STR_L4": 0x0f, "TUP1": 0x10, "TUP2": 0x11, "TUP3": 0x12, "TUP4": 0x13, "TUP_L1": 0x14, "TUP_L4": 0x15,
    "INT_L1": 0x16, "INT_L4": 0x17, "FLOAT": 0x18, "SLICE": 0x19, "FSET": 0x1a, "COMPLEX": 0x1b,
}
IMM_FIRST, IMM_LAST, IMM_OFFSET = -48, 159, 80         # ints IMM_FIRST..IMM_LAST travel as one byte i + 80

# forms: (tag name, length statement) where the statement is an int (exact length implied), "L1" or "L4"
BYTES_FORMS = [("EMPTY_STR", 0), ("STR1", 1), ("STR2", 2), ("STR3", 3), ("STR4", 4), ("STR_L1", "L1"), ("STR_L4", "L4")]
TUPLE_FORMS = [("EMPTY_TUPLE", 0), ("TUP1", 1), ("TUP2", 2), ("TUP3", 3), ("TUP4", 4), ("TUP_L1", "L1"), ("TUP_L4", "L4")]
INT_FORMS = [("INT_L1", "L1"), ("INT_L4", "L4")]

MSG_REQUEST, MSG_REPLY, MSG_EXCEPTION = 1, 2, 3
LABEL_VALUE, LABEL_TUPLE, LABEL_LOCAL_REF, LABEL_REMOTE_REF = 1, 2, 3, 4
HANDLERS = {
    "PING": 1, "CLOSE": 2, "GETROOT": 3, "GETATTR": 4, "DELATTR": 5, "SETATTR": 6, "CALL": 7, "CALLATTR": 8,
    "REPR": 9, "STR": 10, "CMP": 11, "HASH": 12, "DIR": 13, "PICKLE": 14, "DEL": 15, "INSPECT": 16,
    "BUFFITER": 17, "OLDSLICING": 18, "CTXEXIT": 19, "INSTANCECHECK": 20,
}
EXC_STOP_ITERATION = 1
COMPRESSION_THRESHOLD = 3000
COMPRESSION_LEVEL = 1
STREAM_CHUNK = 64000
HEADER_SIZE = 5
TRAILER = b"\n"

CONSTS = dict(("TAG_" + k, v) for k, v in TAGS.items())
CONSTS.update(("HANDLE_" + k, v) for k, v in HANDLERS.items())
CONSTS.update(MSG_REQUEST=1, MSG_REPLY=2, MSG_EXCEPTION=3, LABEL_VALUE=1, LABEL_TUPLE=2, LABEL_LOCAL_REF=3,
              LABEL_REMOTE_REF=4, EXC_STOP_ITERATION=1, STREAM_CHUNK=64000)


class FormatError(Exception):
    """the bytes are not a sentence of the published format"""


class NotEncodable(Exception):
    """the value is outside the published format's domain"""


class FSet(tuple):
    """a frozenset together with the order its members have on the wire (`decode(.., keep_order=True)`);
    `encode` writes the members in that order"""

    def plain(self):
        return frozenset(plain(x) for x in self)


def plain(v):
    """the Python value without wire-order information"""
    t = type(v)
    if t is FSet:
        return v.plain()
    if t is tuple:
        return tuple(plain(x) for x in v)
    if t is frozenset:
        return frozenset(plain(x) for x in v)
    if t is slice:
        return slice(plain(v.start), plain(v.stop), plain(v.step))
    return v


# ------------------------------------------------------------------------------------------ encoding
def _length_field(statement, n):
    if statement == "L1":
        return bytes([n]) if n < 0x100 else None
    if statement == "L4":
        return n.to_bytes(4, "big") if n < 0x100000000 else None
    return b"" if statement == n else None


def legal_forms(forms, n):
    """headers (tag + length field) of every form that can state length n, in table order"""
    out = []
    for name, statement in forms:
        field = _length_field(statement, n)
        if field is not None:
            out.append(bytes([TAGS[name]]) + field)
    return out


def _shortest(kind, candidates):
    best = 0
    for k in range(1, len(candidates)):
        if len(candidates[k]) < len(candidates[best]):
            best = k
    return best


def encode(value, choose=None):
    """bytes of `value`; `choose(kind, candidates) -> index` picks a form (default: the shortest)"""
    out = bytearray()
    _enc(value, choose or _shortest, out)
    return bytes(out)


def _header(kind, forms, n, choose, out):
    cands = legal_forms(forms, n)
    if not cands:
        raise NotEncodable("%s of length %d does not fit any form" % (kind, n))
    out += cands[choose(kind, cands)]


def _enc(v, choose, out):
    t = type(v)
    if v is None:
        out.append(TAGS["NONE"])
    elif v is NotImplemented:
        out.append(TAGS["NOT_IMPLEMENTED"])
    elif v is Ellipsis:
        out.append(TAGS["ELLIPSIS"])
    elif t is bool:
        out.append(TAGS["TRUE"] if v else TAGS["FALSE"])
    elif t is int:
        # an integer in the window has two families of forms: its immediate byte, or decimal text
        cands = []
        if IMM_FIRST <= v <= IMM_LAST:
            cands.append(bytes([v + IMM_OFFSET]))
        text = str(v).encode("ascii")
        cands += [h + text for h in legal_forms(INT_FORMS, len(text))]
        if not cands:
            raise NotEncodable("integer text too long")
        out += cands[choose("int", cands)]
    elif t is float:
        out.append(TAGS["FLOAT"])
        out += struct.pack(">d", v)
    elif t is complex:
        out.append(TAGS["COMPLEX"])
        out += struct.pack(">d", v.real) + struct.pack(">d", v.imag)
    elif t is bytes:
        _header("bytes", BYTES_FORMS, len(v), choose, out)
        out += v
    elif t is str:
        try:
            raw = v.encode("utf-8", "strict")
        except UnicodeEncodeError:
            raise NotEncodable("text with a surrogate code point has no UTF-8 form")
        out.append(TAGS["UNICODE"])
        _header("bytes", BYTES_FORMS, len(raw), choose, out)
        out += raw
    elif t is tuple:
        _header("tuple", TUPLE_FORMS, len(v), choose, out)
        for item in v:
            _enc(item, choose, out)
    elif t is frozenset or t is FSet:
        out.append(TAGS["FSET"])
        _enc(tuple(v), choose, out)
    elif t is slice:
        out.append(TAGS["SLICE"])
        _enc((v.start, v.stop, v.step), choose, out)
    else:
        raise NotEncodable("type %s is not part of the format" % t.__name__)


def encodable(v):
    t = type(v)
    if t in (tuple, frozenset, FSet):
        return all(encodable(x) for x in v)
    if t is slice:
        return encodable(v.start) and encodable(v.stop) and encodable(v.step)
    if t is str:
        return not any(0xD800 <= ord(c) <= 0xDFFF for c in v)
    return v is None or v is NotImplemented or v is Ellipsis or t in (bool, int, float, complex, bytes)


# ------------------------------------------------------------------------------------------ decoding
_BY_TAG = dict((v, k) for k, v in TAGS.items())
_BYTES_BY_TAG = dict((TAGS[name], st) for name, st in BYTES_FORMS)
_TUPLE_BY_TAG = dict((TAGS[name], st) for name, st in TUPLE_FORMS)
_INT_BY_TAG = dict((TAGS[name], st) for name, st in INT_FORMS)


class _Reader:
    def __init__(self, data, keep_order=False):
        self.data = data
        self.pos = 0
        self.keep_order = keep_order

    def take(self, n):
        if self.pos + n > len(self.data):
            raise FormatError("truncated: wanted %d bytes at offset %d" % (n, self.pos))
        chunk = self.data[self.pos:self.pos + n]
        self.pos += n
        return chunk

    def length(self, statement):
        if statement == "L1":
            return self.take(1)[0]
        if statement == "L4":
            return int.from_bytes(self.take(4), "big")
        return statement


def decode(data, keep_order=False):
    """the value `data` denotes; FormatError unless `data` is exactly one well-formed value.
    keep_order: frozensets come back as `FSet` (members in wire order) so that `encode` reproduces the bytes"""
    r = _Reader(bytes(data), keep_order)
    v = _dec(r, 0)
    if r.pos != len(r.data):
        raise FormatError("%d trailing bytes after the value" % (len(r.data) - r.pos))
    return v


def _dec(r, depth):
    if depth > 500:
        raise FormatError("nesting too deep")
    tag = r.take(1)[0]
    if IMM_FIRST + IMM_OFFSET <= tag <= IMM_LAST + IMM_OFFSET:
        return tag - IMM_OFFSET
    name = _BY_TAG.get(tag)
    if name is None:
        raise FormatError("unknown tag 0x%02x" % tag)
    if name == "NONE":
        return None
    if name == "NOT_IMPLEMENTED":
        return NotImplemented
    if name == "ELLIPSIS":
        return Ellipsis
    if name == "TRUE":
        return True
    if name == "FALSE":
        return False
    if name == "FLOAT":
        return struct.unpack(">d", r.take(8))[0]
    if name == "COMPLEX":
        re = struct.unpack(">d", r.take(8))[0]
        im = struct.unpack(">d", r.take(8))[0]
        return complex(re, im)
    if tag in _BYTES_BY_TAG:
        return r.take(r.length(_BYTES_BY_TAG[tag]))
    if tag in _INT_BY_TAG:
        text = r.take(r.length(_INT_BY_TAG[tag]))
        body = text[1:] if text[:1] == b"-" else text
        if not body or not body.isdigit() or (len(body) > 1 and body[:1] == b"0") or text == b"-0":
            raise FormatError("integer text %r is not canonical decimal" % text[:40])
        return int(text)
    if name == "UNICODE":
        raw = _dec(r, depth + 1)
        if type(raw) is not bytes:
            raise FormatError("TAG_UNICODE must be followed by a byte string")
        try:
            return raw.decode("utf-8", "strict")
        except UnicodeDecodeError:
            raise FormatError("text is not UTF-8")
    if tag in _TUPLE_BY_TAG:
        n = r.length(_TUPLE_BY_TAG[tag])
        return tuple(_dec(r, depth + 1) for _ in range(n))
    if name == "FSET":
        items = _dec(r, depth + 1)
        if type(items) is not tuple:
            raise FormatError("TAG_FSET must be followed by a tuple")
        return FSet(items) if r.keep_order else frozenset(items)
    if name == "SLICE":
        items = _dec(r, depth + 1)
        if type(items) is not tuple or len(items) != 3:
            raise FormatError("TAG_SLICE must be followed by a 3-tuple")
        return slice(*items)
    raise FormatError("tag 0x%02x not handled" % tag)  # pragma: no cover


# ------------------------------------------------------------------------------------------ packets
def frame(data, compress=True, level=COMPRESSION_LEVEL, force=None):
    """the packet for `data`.  force=True/False overrides the published compression rule (a receiver must
    follow the flag whatever the size)."""
    use = (compress and len(data) > COMPRESSION_THRESHOLD) if force is None else force
    payload = zlib.compress(data, level) if use else data
    return len(payload).to_bytes(4, "big") + (b"\x01" if use else b"\x00") + payload + TRAILER


def split_packet(stream):
    """(length field, flag, payload, trailer, rest) of the first packet in `stream`; FormatError if incomplete"""
    if len(stream) < HEADER_SIZE:
        raise FormatError("incomplete packet header")
    n = int.from_bytes(stream[:4], "big")
    flag = stream[4]
    end = HEADER_SIZE + n
    if len(stream) < end + 1:
        raise FormatError("incomplete packet: %d of %d bytes" % (len(stream), end + 1))
    return n, flag, bytes(stream[HEADER_SIZE:end]), bytes(stream[end:end + 1]), bytes(stream[end + 1:])


def unframe(stream):
    """(data, rest) of the first packet; the trailer must be the newline"""
    _n, flag, payload, trailer, rest = split_packet(stream)
    if trailer != TRAILER:
        raise FormatError("packet does not end with a newline: %r" % trailer)
    if flag not in (0, 1):
        raise FormatError("compression flag is %d" % flag)
    return (zlib.decompress(payload) if flag else payload), rest


def packets(stream):
    """all complete packets of a byte stream as (flag, payload, data); leftover bytes -> FormatError"""
    out = []
    rest = bytes(stream)
    while rest:
        _n, flag, payload, _t, _r = split_packet(rest)
        data, rest = unframe(rest)
        out.append((flag, payload, data))
    return out


# ------------------------------------------------------------------------------------------ messages
def box_value(v):
    return (LABEL_VALUE, v)


def box_tuple(items):
    return (LABEL_TUPLE, tuple(items))


def box_local(id_pack):
    """a reference to an object of the RECEIVER of this message"""
    return (LABEL_LOCAL_REF, id_pack)


def box_remote(id_pack):
    """a reference to an object of the SENDER of this message"""
    return (LABEL_REMOTE_REF, id_pack)


def check_boxed(b):
    """None if `b` is a well-formed boxed value, else a description"""
    if type(b) is not tuple or len(b) != 2 or type(b[0]) is not int:
        return "boxed value is not a (label, payload) pair: %r" % (b,)
    label, payload = b
    if label == LABEL_VALUE:
        return None
    if label == LABEL_TUPLE:
        if type(payload) is not tuple:
            return "LABEL_TUPLE payload is not a tuple"
        for item in payload:
            msg = check_boxed(item)
            if msg:
                return msg
        return None
    if label in (LABEL_LOCAL_REF, LABEL_REMOTE_REF):
        if label == LABEL_REMOTE_REF and not (type(payload) is tuple and len(payload) == 3 and type(payload[0]) is str
                                              and type(payload[1]) is int and type(payload[2]) is int):
            return "REMOTE_REF payload is not an id_pack (name, class id, instance id): %r" % (payload,)
        return None
    return "unknown boxing label %r" % (label,)


def unbox_plain(b):
    """the plain value of a boxed tree without references (LABEL_VALUE / LABEL_TUPLE only), refs stay boxed"""
    label, payload = b
    if label == LABEL_VALUE:
        return payload
    if label == LABEL_TUPLE:
        return tuple(unbox_plain(x) for x in payload)
    return b


def parse_message(value):
    """('request', seq, handler, boxed) | ('reply', seq, boxed) | ('exception', seq, dumped); FormatError"""
    if type(value) is not tuple or len(value) != 3:
        raise FormatError("message is not a 3-tuple: %r" % (value,))
    kind, seq, args = value
    if type(kind) is not int or type(seq) is not int:
        raise FormatError("message kind/sequence number are not integers: %r %r" % (kind, seq))
    if kind == MSG_REQUEST:
        if type(args) is not tuple or len(args) != 2 or type(args[0]) is not int:
            raise FormatError("request arguments are not (handler, boxed): %r" % (args,))
        handler, boxed = args
        if handler not in HANDLERS.values():
            raise FormatError("unknown handler number %r" % (handler,))
        msg = check_boxed(boxed)
        if msg:
            raise FormatError(msg)
        return ("request", seq, handler, boxed)
    if kind == MSG_REPLY:
        msg = check_boxed(args)
        if msg:
            raise FormatError(msg)
        return ("reply", seq, args)
    if kind == MSG_EXCEPTION:
        ok = args == EXC_STOP_ITERATION or type(args) is str or (
            type(args) is tuple and len(args) == 4 and type(args[0]) is tuple and len(args[0]) == 2
            and type(args[1]) is tuple and type(args[2]) is tuple and type(args[3]) is str)
        if not ok:
            raise FormatError("dumped exception has the wrong shape: %r" % (args,))
        return ("exception", seq, args)
    raise FormatError("unknown message kind %r" % (kind,))


def request(seq, handler, boxed):
    return (MSG_REQUEST, seq, (handler, boxed))


def reply(seq, boxed):
    return (MSG_REPLY, seq, boxed)


def exception(seq, dumped):
    return (MSG_EXCEPTION, seq, dumped)


def dumped_exception(module, name, args, tb="<traceback denied>"):
    return ((module, name), tuple(args), (("_remote_version", "<version denied>"),), tb)


# ------------------------------------------------------------------------------------------ the peer
class RefPeer:
    """A minimal conforming peer: a fixed object table, requests served: ping, close, getroot, getattr, call,
    callattr, del, inspect, str/repr/hash of its objects.  Everything it sends is built with `encode` (forms
    chosen by `choose`) and `frame`; everything it receives is read with `unframe`/`decode`/`parse_message`.

    The object table:  root (id 1): answer=42, name="reference", blob=bytes(range(7)), pair=(1, ("x", 2.5, None)),
    add(a, b) = a + b, echo(*args) = args, stop() raises StopIteration, fail() raises KeyError("k"),
    fn = the object `twice` (id 2), a callable: twice(x) = (x, x); settable/deletable attributes; root == 42;
    it = an iterator over range(7) (id 3; `__iter__` rewinds it; served in chunks by BUFFITER);
    seq = a sequence 0..9 (id 4; old-style slicing); ctx = a context manager (id 5; `__enter__` via CALLATTR,
    leaving via CTXEXIT, both logged in `ctx_log`); Klass = a class (instance id 0) of which root is an instance
    (INSTANCECHECK).  PICKLE is refused (ValueError) as under the published default configuration.
    `handled` collects the handler numbers served.
    """
    ROOT = ("refpeer.Root", 900001, 1)
    TWICE = ("refpeer.Twice", 900002, 2)
    METHODS = {"add": ("refpeer.Method", 900003, 11), "echo": ("refpeer.Method", 900003, 12),
               "stop": ("refpeer.Method", 900003, 13), "fail": ("refpeer.Method", 900003, 14),
               "__enter__": ("refpeer.Method", 900003, 15), "__iter__": ("refpeer.Method", 900003, 16),
               "kw": ("refpeer.Method", 900003, 17), "custom": ("refpeer.Method", 900003, 18)}
    ITER = ("refpeer.Iter", 900004, 3)
    SEQ = ("refpeer.Seq", 900005, 4)
    CTX = ("refpeer.Ctx", 900006, 5)
    KLASS = ("refpeer.Klass", 900010, 0)
    ITEMS = tuple(range(7))
    SEQ_ITEMS = tuple(range(10))
    DIR = ("add", "answer", "echo", "name")

    def __init__(self, choose=None, compress=True, level=COMPRESSION_LEVEL, force=None, extra_attrs=None):
        self.choose = choose
        self.compress, self.level, self.force = compress, level, force
        self.inbuf = b""
        self.closed = False
        self.seq = 0
        self.log = []                       # ('in'|'out', parsed message, payload bytes)
        self.problems = []                  # anything received that is not a sentence of the published format
        self.pending = {}                   # seq -> parsed reply/exception received for our own requests
        self.refcounts = {self.ROOT: 0, self.TWICE: 0, self.ITER: 0, self.SEQ: 0, self.CTX: 0, self.KLASS: 0}
        self.iter_pos = 0
        self.remote_seen = []               # id_packs of the sender's objects received as arguments
        self.ctx_log = []
        self.handled = set()
        self.refcounts.update((k, 0) for k in self.METHODS.values())
        self.attrs = {"answer": 42, "name": "reference", "blob": bytes(range(7)), "pair": (1, ("x", 2.5, None))}
        if extra_attrs:
            self.attrs.update(extra_attrs)

    # -- sending
    def _packet(self, message):
        payload = encode(message, self.choose)
        self.log.append(("out", message, payload))
        return frame(payload, self.compress, self.level, self.force)

    def compose(self, handler_name, boxed_args):
        """a request packet; returns (seq, packet bytes)"""
        seq = self.seq
        self.seq += 1
        return seq, self._packet(request(seq, HANDLERS[handler_name], boxed_args))

    # -- receiving
    def feed(self, data):
        """consume stream bytes; returns the bytes to send back (replies to the requests received)"""
        self.inbuf += bytes(data)
        out = b""
        while not self.closed:
            try:
                split_packet(self.inbuf)
            except FormatError:
                break                       # incomplete packet: wait for more
            try:
                payload, self.inbuf = unframe(self.inbuf)
                message = parse_message(decode(payload))
            except (FormatError, zlib.error) as ex:
                self.problems.append("received packet is not conforming: %s" % ex)
                self.closed = True
                break
            self.log.append(("in", message, payload))
            if message[0] == "request":
                out += self._serve(message)
            else:
                self.pending[message[1]] = message
        return out

    def _serve(self, message):
        _k, seq, handler, boxed = message
        try:
            args = self._unbox(boxed)
            if type(args) is not tuple:
                raise TypeError("request arguments are not a tuple")
            result = self._dispatch(handler, args)
        except StopIteration:
            return self._packet(exception(seq, EXC_STOP_ITERATION))
        except _Closed:
            return b""
        except CustomError as ex:
            return self._packet(exception(seq, (("refpeer", "CustomError"), tuple(ex.args),
                                                (("code", 7), ("_remote_version", "<version denied>")),
                                                "Traceback (reference peer)\nrefpeer.CustomError: m")))
        except Exception as ex:  # noqa
            return self._packet(exception(seq, dumped_exception("builtins", type(ex).__name__,
                                                                [a if encodable(a) else repr(a) for a in ex.args])))
        return self._packet(reply(seq, self._box(result)))

    def _unbox(self, b):
        label, payload = b
        if label == LABEL_VALUE:
            return payload
        if label == LABEL_TUPLE:
            return tuple(self._unbox(x) for x in payload)
        if label == LABEL_LOCAL_REF:          # an object of ours
            key = tuple(payload) if type(payload) is tuple else payload
            if key not in self.refcounts:
                raise KeyError(key)
            return _Obj(key)
        if label == LABEL_REMOTE_REF:         # an object of the sender: kept as an opaque handle
            if check_boxed(b):
                raise TypeError(check_boxed(b))
            self.remote_seen.append(tuple(payload))
            return _Remote(tuple(payload))
        raise TypeError("unknown boxing label %r" % (label,))

    def _box(self, v):
        if isinstance(v, _Remote):            # handed back to its owner: a reference to an object of the RECEIVER
            return box_local(v.id_pack)
        if isinstance(v, _Obj):
            self.refcounts[v.key] += 1
            return box_remote(v.key)
        if type(v) is tuple and not encodable(v):
            return box_tuple(self._box(x) for x in v)
        return box_value(v)

    def _getattr(self, obj, name):
        if type(name) is bytes:
            name = name.decode("utf-8")
        if type(name) is not str:
            raise TypeError("name must be a string")
        if obj.key == self.ROOT:
            if name in self.attrs:
                return self.attrs[name]
            if name == "fn":
                return _Obj(self.TWICE)
            if name == "it":
                self.iter_pos = 0
                return _Obj(self.ITER)
            if name in ("seq", "ctx", "Klass"):
                return _Obj({"seq": self.SEQ, "ctx": self.CTX, "Klass": self.KLASS}[name])
            if name in ("add", "echo", "stop", "fail", "kw", "custom"):
                return _Obj(self.METHODS[name])
        if obj.key == self.CTX and name == "__enter__":
            return _Obj(self.METHODS[name])
        if obj.key == self.ITER and name == "__iter__":
            return _Obj(self.METHODS[name])
        raise AttributeError(name)

    def _call(self, target, args, kwargs):
        # keyword arguments travel as a tuple of (name, value) pairs
        if type(kwargs) is not tuple or not all(type(p) is tuple and len(p) == 2 and type(p[0]) is str for p in kwargs):
            raise TypeError("keyword arguments are not a tuple of (name, value) pairs: %r" % (kwargs,))
        kw = dict(kwargs)
        if type(args) is not tuple:
            raise TypeError("positional arguments are not a tuple")
        key = getattr(target, "key", None)
        if key == self.METHODS["kw"]:
            def kwf(a, b=0, c=0):
                return (a, b, c)
            return kwf(*args, **kw)
        if kw:
            raise TypeError("unexpected keyword arguments %r" % (sorted(kw),))
        if key == self.METHODS["custom"]:
            raise CustomError("m", 3)
        name = "twice" if key == self.TWICE else dict((v, k) for k, v in self.METHODS.items()).get(key)
        if name == "__enter__":
            self.ctx_log.append("enter")
            return 1
        if name == "__iter__":
            self.iter_pos = 0
            return _Obj(self.ITER)
        if name == "add":
            a, b = args
            return a + b
        if name == "echo":
            return tuple(args)
        if name == "twice":
            (x,) = args
            return (x, x)
        if name == "stop":
            raise StopIteration
        if name == "fail":
            raise KeyError("k")
        raise TypeError("not callable")

    def _dispatch(self, handler, args):
        H = HANDLERS
        self.handled.add(handler)
        if handler == H["SETATTR"]:
            obj, name, value = args
            if obj.key != self.ROOT or type(name) is not str:
                raise AttributeError(name)
            self.attrs[name] = value
            return None
        if handler == H["DELATTR"]:
            obj, name = args
            if obj.key != self.ROOT or name not in self.attrs:
                raise AttributeError(name)
            del self.attrs[name]
            return None
        if handler == H["CMP"]:
            obj, other = args[0], args[1]
            op = args[2] if len(args) > 2 else "__cmp__"
            mine = 42 if obj.key == self.ROOT else obj.key[2]
            if op == "__eq__":
                return mine == other
            if op == "__ne__":
                return mine != other
            raise TypeError("unsupported comparison %r" % (op,))
        if handler == H["DIR"]:
            (obj,) = args
            return self.DIR
        if handler == H["PICKLE"]:
            _obj, _proto = args
            raise ValueError("pickling is disabled")
        if handler == H["BUFFITER"]:
            obj, count = args
            if obj.key != self.ITER or type(count) is not int:
                raise TypeError("not an iterator")
            items = self.ITEMS[self.iter_pos:self.iter_pos + max(count, 0)]
            self.iter_pos += len(items)
            return items
        if handler == H["OLDSLICING"]:
            obj, attempt, fallback, start, stop, extra = args
            if obj.key != self.SEQ or (attempt, fallback) != ("__getitem__", "__getslice__") or extra != ():
                raise TypeError("old-style slicing: unexpected arguments %r" % ((attempt, fallback, extra),))
            return self.SEQ_ITEMS[start:stop]
        if handler == H["CTXEXIT"]:
            obj, exc = args
            if obj.key != self.CTX:
                raise AttributeError("__exit__")
            self.ctx_log.append(("exit", exc))
            return None
        if handler == H["INSTANCECHECK"]:
            obj, other = args
            if obj.key != self.KLASS:
                raise TypeError("isinstance() arg 2 must be a class")
            return tuple(other) == self.ROOT
        if handler == H["PING"]:
            (data,) = args
            return data
        if handler == H["CLOSE"]:
            self.closed = True
            raise _Closed()
        if handler == H["GETROOT"]:
            return _Obj(self.ROOT)
        if handler == H["GETATTR"]:
            obj, name = args
            return self._getattr(obj, name)
        if handler == H["CALL"]:
            obj, cargs = args[0], args[1]
            return self._call(obj, cargs, args[2] if len(args) > 2 else ())
        if handler == H["CALLATTR"]:
            obj, name, cargs = args[0], args[1], args[2]
            return self._call(self._getattr(obj, name), cargs, args[3] if len(args) > 3 else ())
        if handler == H["DEL"]:
            obj = args[0]
            count = args[1] if len(args) > 1 else 1
            self.refcounts[obj.key] -= count
            return None
        if handler == H["INSPECT"]:
            (id_pack,) = args
            key = tuple(id_pack)
            if key == self.ROOT:
                return (("add", "add(a, b)"), ("echo", None), ("stop", None), ("fail", None), ("kw", "kw(a, b=0, c=0)"))
            if key == self.TWICE or key in self.METHODS.values():
                return (("__call__", "call it"),)
            if key == self.ITER:
                return (("__iter__", None), ("__next__", None))
            if key == self.SEQ:
                return (("__getitem__", None), ("__getslice__", None))
            if key == self.CTX:
                return (("__enter__", None),)        # no __exit__: leaving the block goes through CTXEXIT
            if key == self.KLASS:
                return ()
            raise KeyError(key)
        if handler in (H["STR"], H["REPR"]):
            return "<refpeer object %d>" % args[0].key[2]
        if handler == H["HASH"]:
            return args[0].key[2]
        raise ValueError("handler %d is not served by the reference peer" % handler)


class _Closed(Exception):
    pass


class CustomError(Exception):
    """an exception class the other side does not have"""


class _Obj:
    def __init__(self, key):
        self.key = key


class _Remote:
    """a reference to an object of the other side"""
    def __init__(self, id_pack):
        self.id_pack = id_pack

