"""Deterministic in-memory network for two (or more) real rpyc Connections + a virtual clock.

Every endpoint's activity runs on its own OS thread, but a baton lets exactly one of them run at a
time.  A side that blocks in `poll()` hands the baton over: to a side that has data to read, else the
virtual clock jumps to the earliest finite deadline among the blocked sides, else the net reports a
deadlock (every side blocked without deadline and no data in flight).  `rpyc.lib.time` (what
`rpyc.lib.Timeout` reads) is replaced by the virtual clock while a Net is installed.

Typical use (side "A" is the calling thread):

    net = Net()
    with net.installed():
        ca, cb = net.connect_pair(service_a, service_b, config_a, config_b)   # B served by its own thread
        ca.root.foo()
        ...
        net.shutdown()

Manual mode (`Net(manual=True)`): no baton, no threads; `poll()` answers from the inbox at once and the
harness decides when each side serves one message (`conn.serve(0)` / `conn.poll()`).

A single-threaded "poll runs the peer" recursion does not work: the outer serve() holds the receive
lock while in poll(), so a nested serve(0) returns immediately (see DESIGN.md section 6.1).
"""
import contextlib
import threading

import rpyc
import rpyc.lib
from rpyc.core.stream import Stream
from rpyc.lib import Timeout


class Deadlock(Exception):
    """raised in a side that would block forever (all sides blocked, no data, no finite deadline)"""


class VClock:
    """virtual time; `sleep` blocks the calling side until the clock reaches now+dt, so deadlines of
    other sides that fall inside the sleep fire in order"""
    def __init__(self, net=None):
        self.now = 1000.0
        self.net = net

    def time(self):
        return self.now

    def sleep(self, dt):
        if not dt or dt <= 0:
            return
        net = self.net
        if net is None or net.manual or net.running in (None, "*deadlock*"):
            self.now += dt
            return
        net.block(net.running, self.now + dt, want=SLEEPING)


SLEEPING = 1 << 60


class MemStream(Stream):
    """a Stream whose bytes go straight into the peer's inbox"""
    MAX_IO_CHUNK = rpyc.core.stream.SocketStream.MAX_IO_CHUNK

    def __init__(self, net, name):
        self.net = net
        self.name = name
        self.peer = None
        self.inbox = bytearray()
        self._closed = False
        self.fault = None            # callable(op, stream, arg) -> None or raises; op in read/write/poll
        self.calls = {"read": 0, "write": 0, "poll": 0}

    # -- Stream interface
    def close(self):
        if not self._closed:
            self._closed = True
            self.net._wake_for(self.peer)

    @property
    def closed(self):
        return self._closed

    def fileno(self):
        if self._closed:
            raise EOFError("stream has been closed")
        return 1000 + hash(self.name) % 1000

    def _hook(self, op, arg):
        self.calls[op] += 1
        if self.fault is not None:
            self.fault(op, self, arg)

    def write(self, data):
        self._hook("write", data)
        if self._closed or self.peer._closed:
            self.close()
            raise EOFError("stream closed")
        self.peer.inbox += data
        self.net.record(self.name, bytes(data))

    def read(self, count):
        self._hook("read", count)
        while len(self.inbox) < count:
            if self._closed:
                raise EOFError("stream has been closed")
            if self.peer._closed:
                self.close()
                raise EOFError("connection closed by peer")
            if self.net.manual:
                self.close()
                raise EOFError("short read in manual mode")
            self.net.block(self.name, None, want=count)
        data = bytes(self.inbox[:count])
        del self.inbox[:count]
        return data

    def poll(self, timeout):
        self._hook("poll", timeout)
        if self._closed:
            raise EOFError("stream has been closed")
        t = Timeout(timeout)
        if self.inbox or self.peer._closed:
            return True
        if self.net.manual:
            return False
        if t.finite and t.expired():
            return False
        self.net.block(self.name, t.tmax if t.finite else None, want=1)
        if self._closed:
            raise EOFError("stream has been closed")
        return bool(self.inbox) or self.peer._closed


class Net:
    def __init__(self, manual=False):
        self.manual = manual
        self.clock = VClock(self)
        self.cv = threading.Condition()
        self.running = "A"
        self.waiting = {}            # side -> (deadline or None, want)
        self.streams = {}            # side -> MemStream
        self.finished = set()
        self.frames = []             # (sender, bytes) per write
        self.threads = []
        self.deadlocked = False
        self._saved_time = None
        self.trace = []

    # ------------------------------------------------------------------ installation
    @contextlib.contextmanager
    def installed(self):
        saved = rpyc.lib.time
        rpyc.lib.time = self.clock
        try:
            yield self
        finally:
            rpyc.lib.time = saved

    def record(self, sender, data):
        self.frames.append((sender, data))

    # ------------------------------------------------------------------ topology
    def stream_pair(self, a="A", b="B"):
        sa, sb = MemStream(self, a), MemStream(self, b)
        sa.peer, sb.peer = sb, sa
        self.streams[a], self.streams[b] = sa, sb
        return sa, sb

    def connect_pair(self, service_a=None, service_b=None, config_a=None, config_b=None, a="A", b="B",
                     serve_b=True, compress=True):
        """two real Connections over a MemStream pair; side b is served by its own baton-scheduled thread"""
        from rpyc.core.channel import Channel
        from rpyc.core.service import VoidService
        sa, sb = self.stream_pair(a, b)
        service_a = service_a if service_a is not None else VoidService()
        service_b = service_b if service_b is not None else VoidService()
        ca = service_a._connect(Channel(sa, compress), config_a or {})
        cb = service_b._connect(Channel(sb, compress), config_b or {})
        if serve_b and not self.manual:
            self.spawn(b, cb.serve_all)
        return ca, cb

    def spawn(self, side, fn):
        """run fn on its own thread as `side`; it starts when it is first handed the baton"""
        def body():
            with self.cv:
                while self.running != side:
                    self.cv.wait()
            try:
                fn()
            except Deadlock:
                pass
            except Exception as ex:  # noqa
                self.trace.append(("thread-exception", side, repr(ex)))
            finally:
                self.finish(side)
        with self.cv:
            self.waiting[side] = (None, 0)      # parked until someone hands over
        th = threading.Thread(target=body, daemon=True, name="simnet-" + side)
        self.threads.append(th)
        th.start()
        return th

    # ------------------------------------------------------------------ scheduling
    def _has_work(self, side):
        s = self.streams.get(side)
        if s is None:
            return False
        want = self.waiting[side][1]
        if want == SLEEPING:
            return False
        return len(s.inbox) >= max(1, want) or s.peer._closed or s._closed

    def _pick_next(self):
        """called with cv held by the side that is about to block / finish"""
        ready = sorted(s for s in self.waiting if self._has_work(s))
        if ready:
            nxt = ready[0]
        else:
            timed = sorted((d, s) for s, (d, _w) in self.waiting.items() if d is not None)
            if timed:
                d, nxt = timed[0]
                if d > self.clock.now:
                    self.clock.now = d
            else:
                alive = [s for s in self.waiting]
                if not alive:
                    self.running = None
                    self.cv.notify_all()
                    return
                # everybody is blocked forever: report the deadlock to everyone
                self.deadlocked = True
                self.running = "*deadlock*"
                self.cv.notify_all()
                return
        del self.waiting[nxt]
        self.running = nxt
        self.cv.notify_all()

    def block(self, side, deadline, want=1):
        with self.cv:
            self.waiting[side] = (deadline, want)
            self._pick_next()
            while self.running != side:
                if self.deadlocked:
                    self.waiting.pop(side, None)
                    raise Deadlock("all sides blocked without data or deadline")
                self.cv.wait()

    def _wake_for(self, stream):
        pass  # closing makes the peer's poll()/read() succeed at its next scheduling point

    def finish(self, side):
        with self.cv:
            self.finished.add(side)
            self.waiting.pop(side, None)
            if self.running == side:
                self._pick_next()

    def yield_to_others(self, side="A"):
        """let every other side run until it blocks again (used by the driving thread between steps)"""
        with self.cv:
            if not any(self._has_work(s) for s in self.waiting):
                return
            self.waiting[side] = (self.clock.now, 0)   # runnable again immediately after the others
        with self.cv:
            self._pick_next()
            while self.running != side:
                if self.deadlocked:
                    self.waiting.pop(side, None)
                    raise Deadlock("deadlock")
                self.cv.wait()

    def shutdown(self, conns=()):
        """close the given connections from side A and let the other sides run to completion"""
        for c in conns:
            try:
                c.close()
            except Exception:  # noqa
                pass
        for s in self.streams.values():
            s._closed = True
        with self.cv:
            while self.waiting:
                nxt = sorted(self.waiting)[0]
                del self.waiting[nxt]
                self.running = nxt
                self.cv.notify_all()
                while self.running == nxt and nxt not in self.finished:
                    self.cv.wait(0.5)
                    if nxt in self.waiting:      # it blocked again
                        break
            self.running = "A"
        for th in self.threads:
            th.join(2)

    def split_frames(self, sender=None):
        """the recorded byte stream of `sender`, cut into (length, compressed, payload) frames"""
        import struct
        out = []
        bufs = {}
        for who, data in self.frames:
            bufs.setdefault(who, bytearray()).extend(data)
        for who, buf in bufs.items():
            if sender is not None and who != sender:
                continue
            i = 0
            while i + 5 <= len(buf):
                n, comp = struct.unpack("!LB", bytes(buf[i:i + 5]))
                if i + 5 + n + 1 > len(buf):
                    break
                out.append((who, comp, bytes(buf[i + 5:i + 5 + n])))
                i += 5 + n + 1
        return out
