"""Generated facts of layer L8 "SendQ" (rpyc/core/protocol.py `Connection._send`, rpyc/core/brine.py `dump`)
-> lean/RpycModel/Gen/Sendq.lean.  Discovered by gen_consts.py through SECTIONS.

Two *measured* behaviours that the send-queue model (lean/RpycModel/Conc/SendQ/Model.lean) takes for granted;
Props/C12.lean turns each into an obligation (`decide`), so a change breaks a named proof:

  * the model's `append` step is blind to the message kind: with the send lock busy and two data already
    queued, `_send(kind, seq, args)` leaves its datum at the BACK of the queue, for each of MSG_REQUEST,
    MSG_REPLY, MSG_EXCEPTION;
  * the model treats serialisation as a pure function of the message although `_send` serialises outside the
    lock, where another sender (or a finalizer's nested send) can run in the middle of it: for several values
    x, `brine.dump(x)` returns the same bytes when a complete `brine.dump(y)` runs inside it - at every call
    brine makes during the dump, for two different y - as when it runs alone, and the inner dump is right too.

Control flow of `_send` is modelled by hand and tied by the C12 correspondence (trace acceptance).
"""
import sys

from gen_consts import Inexpressible, lean_list


class _BusyLock:
    """a lock somebody else holds"""

    def acquire(self, blocking=True, timeout=-1):
        if blocking:
            raise Inexpressible("_send waits for the send lock (blocking acquire): the model's try-lock does not apply")
        return False

    def release(self):
        raise Inexpressible("_send released a lock it does not hold")

    def locked(self):
        return True


def measure_enqueue_position():
    from rpyc.core import brine, consts
    from rpyc.core.protocol import Connection
    out = []
    for kind in (consts.MSG_REQUEST, consts.MSG_REPLY, consts.MSG_EXCEPTION):
        conn = Connection.__new__(Connection)
        conn._closed = True
        conn._send_queue = [b"first", b"second"]
        conn._sendlock = _BusyLock()
        conn._channel = None
        try:
            conn._send(kind, 7, ())
        except Inexpressible:
            raise
        except Exception as ex:  # noqa
            raise Inexpressible("_send(%r, ...) with the lock busy raised %s" % (kind, type(ex).__name__))
        q = list(conn._send_queue)
        datum = brine.dump((kind, 7, ()))
        if sorted(q) != sorted([b"first", b"second", datum]):
            raise Inexpressible("_send(%r, ...) with the lock busy left the queue as %r" % (kind, q))
        out.append((kind, q == [b"first", b"second", datum]))
    return out


def measure_dump_reentry():
    """for several values x: dump(x) with a complete dump(y) executed inside it - at EVERY function call made by
    brine during the dump (whatever the helpers are called), one injection point per run, for two different y -
    must return the bytes dump(x) returns alone"""
    import os
    from rpyc.core import brine
    brine_file = os.path.abspath(brine.__file__.replace(".pyc", ".py"))
    xs = [(1, 1001, (b"abc", 17, "text")),
          (2, 7, ((b"", 5), (None, True, 3.5), "x" * 300, 10 ** 30)),
          (3, 2 ** 40, (frozenset([1]), slice(1, 2, 3), (), b"\x00" * 70)),
          (1, 0, ())]
    ys = [(2, 2002, (b"", 5)), (1, 9, ("another", (1, 2, (3, 4)), b"zzzz" * 20))]
    points = 0
    for x in xs:
        alone = brine.dump(x)
        for y in ys:
            y_alone = brine.dump(y)
            k = 0
            while True:
                state = dict(calls=0, injected=False, inner=None)

                def tracer(frame, event, arg, state=state, k=k):
                    if event == "call" and os.path.abspath(frame.f_code.co_filename) == brine_file:
                        if state["calls"] == k and not state["injected"]:
                            state["injected"] = True
                            state["inner"] = brine.dump(y)          # tracing is off inside a trace function
                        state["calls"] += 1
                    return None
                old = sys.gettrace()
                sys.settrace(tracer)
                try:
                    interrupted = brine.dump(x)
                finally:
                    sys.settrace(old)
                if not state["injected"]:
                    break
                points += 1
                if interrupted != alone or state["inner"] != y_alone:
                    return False
                k += 1
    if points < 20:
        raise Inexpressible("brine.dump makes too few traceable calls to probe re-entry (%d points)" % points)
    return True


def gen_sendq():
    pos = measure_enqueue_position()
    pure = measure_dump_reentry()
    L = ["namespace Rpyc.Gen.Sendq", "",
         "/-- measured on the live `Connection._send` with the send lock busy and two data already queued: for each",
         "message kind (`MSG_REQUEST`, `MSG_REPLY`, `MSG_EXCEPTION`), is the new datum at the BACK of the queue? -/",
         "def enqueuedAtBack : List (Nat × Bool) := " +
         lean_list(["(%d, %s)" % (k, "true" if b else "false") for k, b in pos]), "",
         "/-- measured on the live `brine.dump`, for several values x and two y, at every call brine makes during the",
         "dump: does `dump x` return the same bytes when a complete `dump y` runs in the middle of it (another sender,",
         "or a finalizer's nested send, during serialisation) as when it runs alone, and is the inner result right? -/",
         "def dumpSurvivesReentry : Bool := " + ("true" if pure else "false"), "",
         "end Rpyc.Gen.Sendq", ""]
    return "\n".join(L)


SECTIONS = [("Sendq.lean", gen_sendq)]
