"""Run-time side of the C07 correspondence: a canary service, a raw hostile peer, and the *recorder* that maps
one real run of `rpyc.core.protocol.Connection` to the event alphabet of lean/RpycModel/Proto/Handlers.lean.

Nothing in /repo is edited: every observation point is a substitution made from here on module namespaces or
class attributes at run time (`protocol.hasattr/getattr/…`, `Connection._handle_*`, `vinegar.__import__`, …);
each wrapper delegates to the original it replaced, so a modified rpyc still runs its own code.

The recorder produces, for one session,
  * `events`  — canonical text of every touch / answer / frame / lifecycle event, in real order,
  * `tape`    — the environment's moves (`D R <pv>`, `D X <exc>`, `K <h> <pv>*`) in the order the model consumes them,
  * `strtab`  — `str(v)` of the non-text names seen in REMOTE_REF packages,
and the canary hit lists the direct oracle reads.  Objects are numbered in order of first appearance (`o<k>`,
the service root is `o0`); addresses inside id packs are replaced by stable aliases.
"""
import itertools as _itertools
import pickle as _pickle
import struct
import sys
import types

import valtext

SINGLE = valtext.SINGLETONS


class Unobservable(BaseException):
    """the real run did something the recorder cannot place in the model's event order (counted, not compared).
    rpyc's own `except:` clauses may swallow it, so it also marks the active recorder."""
    def __init__(self, msg):
        BaseException.__init__(self, msg)
        if REC is not None and REC.unobservable is None:
            REC.unobservable = msg


# ------------------------------------------------------------------------------------------------ recorder
class Recorder:
    def __init__(self, conn, root):
        self.conn = conn
        self.events = []
        self.tape = []
        self.strtab = {}
        self.objs = {}            # id(obj) -> (k, obj)
        self.alias = {}           # address -> alias int
        self.open = []            # stack of open touches (dicts)
        self.open_lv = []         # request nesting level at which each of them was opened
        self.handlers = []        # stack of active handler records
        self.lazies = []          # synthesized touches awaiting their answer
        self.reqs = []            # requests being dispatched (innermost last)
        self.unobservable = None
        self.keep = []            # keep-alive (netrefs, exceptions)
        self.model_reqs = 0       # depth of protocol-issued sync requests (INSPECT)
        self.oid(root)
        self.muted = 0
        self.seq_of = {}

    # -- identities
    def oid(self, x):
        e = self.objs.get(id(x))
        if e is None:
            e = (len(self.objs), x)
            self.objs[id(x)] = e
        return e[0]

    def addr(self, n):
        a = self.alias.get(n)
        if a is None:
            a = 7000000 + 1000 * len(self.alias)
            self.alias[n] = a
        return a

    def vt(self, v, out):
        t = type(v)
        if t in SINGLE:
            out.append(SINGLE[t])
        elif t is bool:
            out.append("T" if v else "F")
        elif t is int:
            if (1 << 40) <= v < (1 << 48) or v in self.alias:
                v = self.addr(v)
            out.append("I%d" % v if abs(v) < 10 ** 4000 else "I" + valtext._bigstr(v))
        elif t is float:
            if float(1 << 40) <= v < float(1 << 48) and v.is_integer():
                v = float(self.addr(int(v)))
            out.append("D" + struct.pack("!d", v).hex())
        elif t is complex:
            out.append("C" + struct.pack("!d", v.real).hex() + ":" + struct.pack("!d", v.imag).hex())
        elif t is bytes:
            out.append("B" + v.hex())
        elif t is str:
            out.append("S" + ",".join(str(ord(c)) for c in v))
        elif t is tuple:
            out.append("(")
            for x in v:
                self.vt(x, out)
            out.append(")")
        elif t is frozenset:
            out.append("{")
            for x in tuple(v):
                self.vt(x, out)
            out.append("}")
        elif t is slice:
            out.append("[")
            self.vt(v.start, out)
            self.vt(v.stop, out)
            self.vt(v.step, out)
            out.append("]")
        else:
            raise Unobservable("value of type %s inside a plain value" % t.__name__)

    def val(self, v):
        out = []
        self.vt(v, out)
        return " ".join(out)

    def pv(self, x):
        from rpyc.core import brine, netref
        if brine.dumpable(x):
            return "V " + self.val(x)
        if type(x) is tuple:
            return "< " + "".join(self.pv(i) + " " for i in x) + ">"
        if isinstance(x, netref.BaseNetref) and object.__getattribute__(x, "____conn__") is self.conn:
            idp = object.__getattribute__(x, "____id_pack__")
            if type(idp) is tuple and len(idp) == 3 and type(idp[0]) is str and brine.dumpable(idp):
                return "P %s %s %s" % (self.val(idp[0]), self.val(idp[1]), self.val(idp[2]))
            raise Unobservable("netref with an irregular id pack")
        return "o%d" % self.oid(x)

    def pvs(self, xs):
        return "[ " + "".join(self.pv(x) + " " for x in xs) + "]"

    def exc(self, ex):
        t = type(ex) if not isinstance(ex, type) else ex
        flags = ("E" if issubclass(t, Exception) else "") + ("K" if t is KeyboardInterrupt else "") \
            + ("S" if t is SystemExit else "") + ("F" if issubclass(t, EOFError) else "")
        return "%s:%s" % (exc_name(t), flags)

    # -- lazy (synthesized) touches: emitted just before the next recorded thing, answered later (LIFO)
    def flush(self):
        if self.lazies and not self.lazies[-1]["emitted"]:
            lz = self.lazies[-1]
            lz["emitted"] = True
            self.events.append("t:%s %s n=S a=[ ]" % (lz["kind"], lz["subj"]))

    def set_lazy(self, kind, subj):
        self.flush()
        lz = dict(kind=kind, subj=subj, emitted=False)
        self.lazies.append(lz)
        return lz

    def resolve_lazy(self, lz, ans_text):
        self.flush()
        if not self.lazies or self.lazies[-1] is not lz:
            raise Unobservable("synthesized touches resolved out of order")
        self.lazies.pop()
        self.tape.append("D " + ans_text)
        self.events.append("a:" + ans_text)

    def drop_lazy(self, lz):
        if self.lazies and self.lazies[-1] is lz and not lz["emitted"]:
            self.lazies.pop()
        else:
            raise Unobservable("a synthesized touch that was already emitted cannot be withdrawn")

    # -- touches
    def touch(self, kind, subj, name="", args=()):
        self.flush()
        self.events.append("t:%s %s n=%s a=%s" % (kind, self.pv(subj), self.val(name), self.pvs(args)))
        self.open.append(kind)
        self.open_lv.append(len(self.reqs))

    def touch_text(self, kind, subj_text, name="", args_text="[ ]"):
        self.flush()
        self.events.append("t:%s %s n=%s a=%s" % (kind, subj_text, self.val(name), args_text))
        self.open.append(kind)
        self.open_lv.append(len(self.reqs))

    def open_here(self):
        """is a touch of the request being dispatched right now still open (= are we inside an environment move)?
        An open touch of an OUTER request does not count: the peer's nested request is served inside it."""
        return bool(self.open_lv) and self.open_lv[-1] >= len(self.reqs)

    def done(self, res):
        self.open.pop()
        self.open_lv.pop()
        t = "R " + self.pv(res)
        self.tape.append("D " + t)
        self.events.append("a:" + t)

    def failed(self, ex):
        self.open.pop()
        self.open_lv.pop()
        self.keep.append(ex)
        t = "X " + self.exc(ex)
        self.tape.append("D " + t)
        self.events.append("a:" + t)

    def event(self, text):
        self.flush()
        self.events.append(text)

    def callback(self, h, args):
        """a callee-issued synchronous request"""
        if not self.open and not self.lazies:
            if _in_check(self) or _access_subject(self)[0]:
                # the attribute policy itself (`_check_attr` / `_access_attr`, outside their hasattr/getattr primitives) is
                # asking the peer: an operation on the NAME is answered by peer-chosen code.  The model never does this.
                self.events.append("policy-callback %d %s" % (h, self.pvs(args)))
                return
            raise Unobservable("callback to the peer outside any observed primitive")
        self.flush()
        self.tape.append("K %d %s" % (h, "".join(self.pv(a) + " " for a in args).strip()))
        self.events.append("cb %d %s" % (h, self.pvs(args)))


REC = None


def _in_check(r):
    return bool(r.check_ctx) and r.check_ctx[-1] == len(r.reqs)


def _access_subject(r):
    """(True, obj) when an `_access_attr` of the request being dispatched is in progress"""
    if r.access_ctx and r.access_ctx[-1][0] == len(r.reqs):
        return True, r.access_ctx[-1][1]
    return False, None


def _top_handler(r):
    """name of the innermost `_handle_*` of the request being dispatched (None outside any)"""
    for h in reversed(r.handlers):
        if h["req"] == len(r.reqs):
            return h["name"]
    return None


def exc_name(t):
    m = getattr(t, "__module__", "builtins")
    n = getattr(t, "__name__", "?")
    if m == "builtins":
        return n
    if isinstance(m, str) and m.startswith("rpyc.core.vinegar/"):
        return n                      # generic stand-in: its __name__ is "mod.cls"
    return "%s.%s" % (m, n)


def caller_name(depth=2):
    return sys._getframe(depth).f_code.co_name


def active(conn=None):
    r = REC
    if r is None or r.muted:
        return None
    if conn is not None and conn is not r.conn:
        return None
    return r


# ------------------------------------------------------------------------------------------------ install
ORIG = {}
INSTALLED = False


def install():
    """substitute the observation points (idempotent)"""
    global INSTALLED
    if INSTALLED:
        return
    INSTALLED = True
    import builtins
    from rpyc.core import protocol, netref, vinegar, async_
    from rpyc.lib import colls
    import rpyc.lib
    Conn = protocol.Connection
    real_getattr, real_hasattr, real_setattr, real_delattr = getattr, hasattr, setattr, delattr
    real_isinstance = isinstance

    # ---- builtins shadowed in protocol's namespace
    def p_hasattr(obj, name):
        r = active()
        if r is None:
            return real_hasattr(obj, name)
        if _in_check(r):
            r.touch("probe", obj, name)                       # `_check_attr` (or a helper of it) asks
        elif name == "____conn__" and _top_handler(r) in ("_handle_instancecheck", "_handle_inspect") and r.pv(obj).startswith("o"):
            r.touch("probeconn", obj)
        else:
            return real_hasattr(obj, name)
        try:
            res = real_hasattr(obj, name)
        except BaseException as ex:
            r.failed(ex)
            raise
        r.done(res)
        return res

    OPS = {"_rpyc_getattr": "get", "_rpyc_setattr": "set", "_rpyc_delattr": "del"}

    class HookSpy:
        """stands for `type(obj)._rpyc_<op>attr` while `_access_attr` holds it"""
        def __init__(self, fn, op):
            self.fn, self.op = fn, op

        def __call__(self, obj, name, *args):
            r = active()
            if r is None:
                return self.fn(obj, name, *args)
            r.touch("hook." + self.op, obj, name, args)
            try:
                res = self.fn(obj, name, *args)
            except BaseException as ex:
                r.failed(ex)
                raise
            r.done(res)
            return maybe_spy(r, res)

    class CallSpy:
        """stands for an attribute that cmp / ctxexit / oldslicing obtained only in order to call it"""
        def __init__(self, fn):
            self.fn = fn

        def __call__(self, *args):
            r = active()
            if r is None:
                return self.fn(*args)
            h = r.handlers[-1] if r.handlers else None
            top = outer_handler(r)
            name = ""
            targs = list(args)
            if top is not None and top["name"] == "_handle_oldslicing" and not top.get("fallback") \
                    and args and type(args[0]) is slice:
                name = "slice"
                targs = [args[0].start, args[0].stop] + list(args[1:])
            r.touch("apply", self.fn, name, targs)
            try:
                res = self.fn(*args)
            except BaseException as ex:
                r.failed(ex)
                raise
            r.done(res)
            return res

    def outer_handler(r):
        for h in r.handlers:
            if h["req"] == len(r.reqs) and h["name"] in ("_handle_cmp", "_handle_ctxexit", "_handle_oldslicing"):
                return h
        return None

    def maybe_spy(r, res):
        return CallSpy(res) if outer_handler(r) is not None else res

    def p_getattr(obj, name, *default):
        r = active()
        if r is not None and not r.open_here() and not _access_subject(r)[0] and not _in_check(r) and name == "_rpyc_getattr" \
                and default == (None,) and _top_handler(r) == "_handle_cmp":
            # `_handle_cmp` asks whether the object's own type defines the hook (then that hook decides)
            h = [x for x in r.handlers if x["req"] == len(r.reqs) and x["name"] == "_handle_cmp"][-1]
            if h["args"] and obj is type(h["args"][0]):
                r.touch("hooklookup", h["args"][0], name)
                try:
                    res = real_getattr(obj, name, *default)
                except BaseException as ex:
                    r.failed(ex)
                    raise
                r.done(res)
                return res
        if r is None or not _access_subject(r)[0] or _in_check(r):
            return real_getattr(obj, name, *default)
        if default:
            if name not in OPS or default[0] is not None:
                return real_getattr(obj, name, *default)
            # `getattr(type(obj), overrider, None)`: the subject is the object `_access_attr` was called with
            subj = _access_subject(r)[1]
            r.touch("hooklookup", subj, name)
            try:
                res = real_getattr(obj, name, *default)
            except BaseException as ex:
                r.failed(ex)
                raise
            r.done(res)
            return HookSpy(res, OPS.get(name, "get")) if res is not None else None
        r.touch("attr.get", obj, name)
        try:
            res = real_getattr(obj, name)
        except BaseException as ex:
            r.failed(ex)
            raise
        r.done(res)
        return maybe_spy(r, res)

    def p_setattr(obj, name, value):
        r = active()
        if r is None or not _access_subject(r)[0]:
            return real_setattr(obj, name, value)
        r.touch("attr.set", obj, name, (value,))
        try:
            res = real_setattr(obj, name, value)
        except BaseException as ex:
            r.failed(ex)
            raise
        r.done(res)
        return res

    def p_delattr(obj, name):
        r = active()
        if r is None or not _access_subject(r)[0]:
            return real_delattr(obj, name)
        r.touch("attr.del", obj, name)
        try:
            res = real_delattr(obj, name)
        except BaseException as ex:
            r.failed(ex)
            raise
        r.done(res)
        return res

    def simple(kind, fn, callers):
        def w(obj, *rest):
            r = active()
            if r is None or _top_handler(r) not in callers:
                return fn(obj, *rest)
            r.touch(kind, obj, "", rest)
            try:
                res = fn(obj, *rest)
            except BaseException as ex:
                r.failed(ex)
                raise
            r.done(res)
            return res
        return w

    def p_dir(obj):
        r = active()
        if r is None or _top_handler(r) != "_handle_dir":
            return dir(obj)
        r.touch("dir", obj)
        try:
            res = tuple(dir(obj))
        except BaseException as ex:
            r.failed(ex)
            raise
        r.done(res)
        return res

    def _handler_subject(r, inst):
        """is `inst` the object `_handle_instancecheck(obj, ...)` / `_handle_inspect(id_pack)` is about?"""
        hs = [h for h in r.handlers if h["req"] == len(r.reqs)]
        if not hs or not hs[-1]["args"]:
            return False
        h = hs[-1]
        if h["name"] == "_handle_instancecheck":
            return inst is h["args"][0]
        if h["name"] == "_handle_inspect":
            try:
                return inst is r.conn._local_objects._dict[h["args"][0]][0]
            except Exception:  # noqa
                return False
        return False

    def p_isinstance(inst, cls):
        r = active()
        if r is not None and cls is netref.BaseNetref and not r.open_here() and not _in_check(r) and _handler_subject(r, inst) \
                and r.pv(inst).startswith("o"):
            # "is this table object itself a proxy?" (however it is spelled: see p_hasattr for `____conn__`).  Only the
            # handler's own subject counts, and only outside any open touch: `_box` asks the same question of everything
            # it boxes - also when a proxy of an EARLIER session is finalised (cyclic GC) in the middle of this one
            r.touch("probeconn", inst)
            try:
                res = real_isinstance(inst, cls)
            except BaseException as ex:
                r.failed(ex)
                raise
            r.done(res)
            return res
        if r is None or _top_handler(r) != "_handle_instancecheck" or cls is netref.BaseNetref \
                or not real_isinstance(inst, netref.BaseNetref):
            return real_isinstance(inst, cls)
        from rpyc.core import brine
        idp = object.__getattribute__(inst, "____id_pack__")
        if not brine.dumpable(idp):
            raise Unobservable("instancecheck against an irregular id pack")
        r.touch("instancecheck", cls, "", (idp,))
        try:
            res = real_isinstance(inst, cls)
        except BaseException as ex:
            r.failed(ex)
            raise
        r.done(res)
        return res

    orig_idpack = protocol.get_id_pack

    def p_get_id_pack(obj):
        r = active()
        if r is None:
            return orig_idpack(obj)
        r.touch("idpack", obj)
        try:
            res = orig_idpack(obj)
        except BaseException as ex:
            r.failed(ex)
            raise
        if type(res) is tuple and len(res) == 3:
            for n in res[1:]:
                if type(n) is int and n >= 4096:
                    r.addr(n)
        r.done(res)
        return res

    orig_methods = protocol.get_methods

    def p_get_methods(attrs, obj):
        global IN_INSPECT
        r = active()
        if r is None or _top_handler(r) != "_handle_inspect":
            return orig_methods(attrs, obj)
        r.touch("inspect", obj)
        IN_INSPECT += 1
        try:
            res = tuple(orig_methods(attrs, obj))
        except BaseException as ex:
            r.failed(ex)
            raise
        finally:
            IN_INSPECT -= 1
        r.done(res)
        return res

    class ItertoolsShim:
        count = staticmethod(_itertools.count)

        def __getattr__(self, n):
            return real_getattr(_itertools, n)

        @staticmethod
        def islice(obj, *rest):
            r = active()
            if r is None or _top_handler(r) != "_handle_buffiter":
                return _itertools.islice(obj, *rest)
            r.touch("islice", obj, "", rest)
            try:
                res = tuple(_itertools.islice(obj, *rest))
            except BaseException as ex:
                r.failed(ex)
                raise
            r.done(res)
            return res

    class PickleShim:
        def __getattr__(self, n):
            return real_getattr(_pickle, n)

        @staticmethod
        def dumps(obj, *rest):
            r = active()
            PICKLE_LOG.append(("protocol.pickle.dumps", type(obj).__name__))
            if r is None:
                return _pickle.dumps(obj, *rest)
            r.touch("pickle", obj, "", rest)
            try:
                res = bytes(_pickle.dumps(obj, *rest))
            except BaseException as ex:
                r.failed(ex)
                raise
            r.done(res)
            return res

    protocol.hasattr = p_hasattr
    protocol.getattr = p_getattr
    protocol.setattr = p_setattr
    protocol.delattr = p_delattr
    protocol.repr = simple("repr", repr, ("_handle_repr",))
    protocol.hash = simple("hash", hash, ("_handle_hash",))
    protocol.dir = p_dir
    protocol.isinstance = p_isinstance
    protocol.get_id_pack = p_get_id_pack
    protocol.get_methods = p_get_methods
    protocol.itertools = ItertoolsShim()
    protocol.pickle = PickleShim()

    # ---- netref: keep every proxy alive for the session (finalisation traffic is C10's subject), class_factory
    orig_netref_init = netref.BaseNetref.__init__

    def n_init(self, conn, id_pack):
        orig_netref_init(self, conn, id_pack)
        r = REC
        if r is not None:
            r.keep.append(self)
    netref.BaseNetref.__init__ = n_init

    orig_factory = netref.class_factory

    def n_class_factory(id_pack, methods):
        r = active()
        if r is None:
            return orig_factory(id_pack, methods)
        st = r.factory_state = dict(raised=None)
        try:
            res = orig_factory(id_pack, methods)
        except BaseException as ex:
            if st["raised"] is not ex:
                r.touch("mkclass", id_pack, "", (methods,))
                r.failed(ex)
            r.factory_state = None
            raise
        r.factory_state = None
        r.touch("mkclass", id_pack, "", (methods,))
        r.done(None)
        return res
    netref.class_factory = n_class_factory

    class NetrefModules:
        """`sys.modules` as `netref.class_factory` sees it: `.get(prefix)` is a logged lookup"""
        def get(self, k, *d):
            r = active()
            res = sys.modules.get(k, *d)
            if r is not None and r.factory_state is not None:
                r.touch("modlookup", k)
                r.done(res)
            return res

        def __getattr__(self, n):
            return real_getattr(sys.modules, n)

        def __getitem__(self, k):
            return sys.modules[k]

        def __contains__(self, k):
            return k in sys.modules

    def sys_shim(modules_view):
        """a REAL module object standing in for `sys` (so `type(sys)` is still the module type in the code under test):
        `.modules` is the logging view, every other name is forwarded (PEP 562)"""
        shim = types.ModuleType("sys")
        shim.modules = modules_view
        shim.__dict__["__getattr__"] = lambda n: real_getattr(sys, n)
        return shim
    netref.sys = sys_shim(NetrefModules())

    def n_getattr(obj, name, *default):
        r = active()
        if r is None or r.factory_state is None or not default or default[0] is not None or type(obj) is not types.ModuleType:
            return real_getattr(obj, name, *default)
        r.touch("modgetattr", obj, "", (name,))
        try:
            res = real_getattr(obj, name, *default)
        except BaseException as ex:
            r.failed(ex)
            if r.factory_state is not None:
                r.factory_state["raised"] = ex
            raise
        r.done(None)
        return res
    netref.getattr = n_getattr

    # ---- vinegar.load: the import gate and the class gate
    orig_import = builtins.__import__

    def v_import(name, *rest):
        IMPORT_LOG.append(name if type(name) is str else repr(name))
        r = active()
        if r is None or r.load_state is None:
            return orig_import(name, *rest)
        r.touch("import", name)
        try:
            res = orig_import(name, *rest)
        except BaseException as ex:
            r.failed(ex)
            if r.load_state is not None:
                r.load_state["raised"] = ex
            raise
        r.done(None)
        return res
    vinegar.__import__ = v_import

    class ModulesView:
        def __contains__(self, k):
            r = active()
            res = k in sys.modules
            if r is not None and r.load_state is not None:
                r.touch("modpresent", k)
                r.done(res)
            return res

        def __getitem__(self, k):
            return sys.modules[k]

        def get(self, k, *d):
            return sys.modules.get(k, *d)

    vinegar.sys = sys_shim(ModulesView())

    def v_getattr(obj, name, *default):
        r = active()
        if r is None or r.load_state is None or not default or default[0] is not None or type(obj) is not types.ModuleType:
            return real_getattr(obj, name, *default)
        st = r.load_state
        if st is not None and st.get("cls_seen"):
            return real_getattr(obj, name, *default)
        if not r.conn._config.get("instantiate_custom_exceptions"):
            r.touch("builtinattr", name)
        else:
            r.touch("modattr", st["modname"] if st else None, "", (name,))
        try:
            res = real_getattr(obj, name, *default)
        except BaseException as ex:
            r.failed(ex)
            if st is not None:
                st["raised"] = ex
            raise
        r.done(res)
        if st is not None:
            st["cls_seen"] = True
            st["cls"] = res
        return res
    vinegar.getattr = v_getattr

    orig_load = vinegar.load

    def v_load(val, *a, **kw):
        r = active()
        if r is None:
            return orig_load(val, *a, **kw)
        shaped = None
        try:
            (modname, clsname), args, attrs, tbtext = val
            shaped = (modname, clsname, args, attrs, tbtext)
        except Exception:  # noqa
            pass
        r.load_state = dict(modname=shaped[0] if shaped else None, cls=None, cls_seen=False)
        from rpyc.core import consts
        trivial = (val == consts.EXC_STOP_ITERATION) or type(val) is str
        try:
            res = orig_load(val, *a, **kw)
        except BaseException as ex:
            if shaped and not trivial and r.load_state.get("raised") is not ex:
                st = r.load_state
                r.touch("buildexc", st["cls"], "", shaped)
                r.failed(ex)
            r.load_state = None
            raise
        if shaped and not trivial:
            st = r.load_state
            r.touch("buildexc", st["cls"], "", shaped)
            r.done(exc_name(type(res).__mro__[1]) if isinstance(res, BaseException) else "?")
        r.load_state = None
        r.keep.append(res)
        return res
    vinegar.load = v_load

    # ---- Connection methods
    def wrap_handler(name, orig):
        def w(self, *args, **kw):
            r = active(self)
            if r is None:
                return orig(self, *args, **kw)
            r.enter_handler(name, args)
            touched = False
            try:
                if name == "_handle_str" and len(args) == 1:
                    r.touch("str", args[0])
                    touched = True
                elif name == "_handle_call" and len(args) in (2, 3):
                    if isinstance(args[0], CallSpy):
                        args = (args[0].fn,) + tuple(args[1:])
                    kwargs_v = args[2] if len(args) == 3 else ()
                    if type(args[1]) is tuple and type(kwargs_v) is tuple:
                        # the call itself (`obj(*args, **dict(kwargs))`) is reached only past the two type checks
                        r.touch("call", args[0], "", (args[1], kwargs_v))
                        touched = True
                res = orig(self, *args, **kw)
            except BaseException as ex:
                if touched:
                    r.failed(ex)
                r.exit_handler(name, ex)
                raise
            if touched:
                r.done(res)
            r.exit_handler(name, None)
            return res
        w.__name__ = name
        w.__wrapped__ = orig
        return w

    for name, fn in list(vars(Conn).items()):
        if name.startswith("_handle_") and isinstance(fn, types.FunctionType):
            ORIG[name] = fn
            real_setattr(Conn, name, wrap_handler(name, fn))

    orig_access = Conn._access_attr

    def c_access_attr(self, obj, *rest, **kw):
        r = active(self)
        if r is None:
            return orig_access(self, obj, *rest, **kw)
        r.access_ctx = r.access_ctx + ((len(r.reqs), obj),)
        try:
            return orig_access(self, obj, *rest, **kw)
        finally:
            r.access_ctx = r.access_ctx[:-1]
    Conn._access_attr = c_access_attr

    orig_check = Conn._check_attr

    def c_check_attr(self, *a, **kw):
        r = active(self)
        if r is None:
            return orig_check(self, *a, **kw)
        r.check_ctx = r.check_ctx + (len(r.reqs),)
        try:
            return orig_check(self, *a, **kw)
        finally:
            r.check_ctx = r.check_ctx[:-1]
    Conn._check_attr = c_check_attr

    orig_unbox = Conn._unbox

    def c_unbox(self, package, *more):
        r = active(self)
        if r is None:
            return orig_unbox(self, package, *more)
        nested = bool(r.unbox_ctx) and r.unbox_ctx[-1] == len(r.reqs)
        top = not nested and bool(r.reqs) and not r.reqs[-1].get("unboxed")
        if top:
            r.reqs[-1]["unboxed"] = True       # the first `_unbox` of a request is the one of its argument package
        r.unbox_ctx = r.unbox_ctx + (len(r.reqs),)
        try:
            res = orig_unbox(self, package, *more)
        finally:
            r.unbox_ctx = r.unbox_ctx[:-1]
        if top and r.reqs:
            from rpyc.core import brine
            if not brine.dumpable(res) and type(res) is not tuple:
                r.reqs[-1]["splat"] = r.set_lazy("splat", r.pv(res))
        return res
    Conn._unbox = c_unbox

    orig_dispatch = Conn._dispatch

    def c_dispatch(self, data):
        r = active(self)
        if r is not None:
            from rpyc.core import brine
            try:
                v = brine.load(data)
                msg, seq, args = v
                if msg != 1:
                    r.note_remote_names(args, 0)
            except Exception:  # noqa
                pass
        return orig_dispatch(self, data)
    Conn._dispatch = c_dispatch

    orig_dispatch_request = Conn._dispatch_request

    def c_dispatch_request(self, seq, raw_args):
        r = active(self)
        if r is None:
            return orig_dispatch_request(self, seq, raw_args)
        req = dict(seq=seq, splat=None, valid=False)
        try:
            h = raw_args[0] if type(raw_args) is tuple and len(raw_args) == 2 else tuple(raw_args)[0]
            req["valid"] = h in self._HANDLERS
        except Exception:  # noqa
            pass
        r.note_remote_names(raw_args[1] if type(raw_args) is tuple and len(raw_args) == 2 else None, 0)
        r.reqs.append(req)
        r.event("request %s" % r.val(seq))
        try:
            return orig_dispatch_request(self, seq, raw_args)
        except BaseException as ex:
            r.splat_failed(ex)
            r.event("aborted %s %s" % (r.val(seq), exc_name(type(ex))))
            raise
        finally:
            r.reqs.pop()
    Conn._dispatch_request = c_dispatch_request

    if real_hasattr(Conn, "_send_exception"):
        orig_send_exception = Conn._send_exception

        def c_send_exception(self, seq, t, v, tb):
            r = active(self)
            if r is not None:
                r.splat_failed(v if v is not None else t)
            return orig_send_exception(self, seq, t, v, tb)
        Conn._send_exception = c_send_exception

    orig_send = Conn._send

    def c_send(self, msg, seq, args):
        r = active(self)
        res = orig_send(self, msg, seq, args)
        if r is not None:
            from rpyc.core import consts
            if msg == consts.MSG_REQUEST:
                r.event("req %d %d %s" % (seq, args[0], r.val(args[1])))
                cb = self._request_callbacks.get(seq)
                if cb is not None:
                    r.keep.append(cb)
                    r.seq_of[id(cb)] = seq      # the waiter of this request (it may be dropped from the table before it expires)
            elif msg == consts.MSG_REPLY:
                r.event("reply %s %s" % (r.val(seq), r.val(args)))
            else:
                cls = "?"
                if type(args) is tuple and args and type(args[0]) is tuple and len(args[0]) == 2:
                    m, n = args[0]
                    cls = n if m == "builtins" or (type(m) is str and m.startswith("rpyc.core.vinegar/")) else "%s.%s" % (m, n)
                elif args == consts.EXC_STOP_ITERATION:
                    cls = "StopIteration"
                r.event("exc %s %s" % (r.val(seq), cls))
        return res
    Conn._send = c_send

    orig_async = Conn._async_request

    def c_async_request(self, handler, args=(), callback=(lambda a, b: None)):
        r = active(self)
        if r is not None:
            g, depth = sys._getframe(1), 0
            while g is not None and depth < 40:
                if g.f_code.co_name in ("_box_exc", "format_exception"):
                    # Python 3.12 computes "did you mean" suggestions while formatting an AttributeError's traceback:
                    # `dir(obj)` of a proxy asks the peer, from inside vinegar.dump (C09's ground, not modelled here)
                    raise Unobservable("callback to the peer while an exception's traceback is being formatted")
                g, depth = g.f_back, depth + 1
            from rpyc.core import consts
            # HANDLE_INSPECT and HANDLE_CLOSE are what the protocol itself asks (class of a new proxy, chained
            # instancecheck, close()); everything else is a callee using a proxy
            if handler not in (consts.HANDLE_INSPECT, consts.HANDLE_CLOSE):
                r.callback(handler, args)
        return orig_async(self, handler, args, callback)
    Conn._async_request = c_async_request

    orig_seqcb = Conn._seq_request_callback

    def c_seq_request_callback(self, msg, seq, is_exc, obj):
        r = active(self)
        if r is not None:
            cb = None
            key = None
            try:
                for k in self._request_callbacks:
                    if k == seq:
                        key, cb = k, self._request_callbacks[k]
            except Exception:  # noqa
                pass
            if cb is None:
                r.event("ignored %s" % r.val(seq))
            elif getattr(cb, "expired", False):
                r.event("dropped %d" % key)
            else:
                r.event("delivered %d" % key)
        return orig_seqcb(self, msg, seq, is_exc, obj)
    Conn._seq_request_callback = c_seq_request_callback

    orig_cleanup = Conn._cleanup

    def c_cleanup(self, _anyway=True):
        r = active(self)
        if r is not None and not (self._closed and not _anyway):
            r.event("cleaned")
        return orig_cleanup(self, _anyway)
    Conn._cleanup = c_cleanup

    orig_wait = async_.AsyncResult.wait

    def a_wait(self):
        try:
            return orig_wait(self)
        except async_.AsyncResultTimeout as ex:
            r = active(self._conn)
            depth, tb = 0, ex.__traceback__
            while tb is not None:
                depth, tb = depth + 1, tb.tb_next
            # raised by wait() itself (this wait's deadline passed), not an exception that came out of a nested serve()
            if r is not None and depth <= 2:
                k = r.seq_of.get(id(self))
                if k is None:
                    for kk, v in list(self._conn._request_callbacks.items()):
                        if v is self:
                            k = kk
                if k is not None:
                    r.event("expired %d" % k)
            raise
    async_.AsyncResult.wait = a_wait

    orig_add = colls.RefCountingColl.add

    def rc_add(self, key, obj):
        r = active()
        if r is not None and self is r.conn._local_objects:
            r.event("lent %s o%d" % (r.val(key), r.oid(obj)))
        return orig_add(self, key, obj)
    colls.RefCountingColl.add = rc_add

    orig_decref = colls.RefCountingColl.decref

    def rc_decref(self, key, count=1):
        r = active()
        if GUARD_DECREF and r is not None and self is r.conn._local_objects and type(count) is not int and key in self._dict:
            # only reachable when `_handle_del` lost its type check: anything but an int is compared and subtracted
            # under the table's non-reentrant lock (a proxy there can block the serving thread for good)
            raise Unobservable("decref with a %s as count" % type(count).__name__)
        return orig_decref(self, key, count)
    colls.RefCountingColl.decref = rc_decref

    # ---- process-wide monitors for the direct oracle
    real_dumps, real_loads = _pickle.dumps, _pickle.loads

    def mon_dumps(*a, **k):
        PICKLE_LOG.append(("pickle.dumps", type(a[0]).__name__ if a else "?"))
        return real_dumps(*a, **k)

    def mon_loads(*a, **k):
        PICKLE_LOG.append(("pickle.loads", ""))
        return real_loads(*a, **k)
    _pickle.dumps, _pickle.loads = mon_dumps, mon_loads
    import rpyc.lib.compat as compat
    if getattr(compat, "pickle", None) is not _pickle:
        try:
            compat.pickle.dumps, compat.pickle.loads = mon_dumps, mon_loads
        except Exception:  # noqa
            pass


NOTHING = object()
GUARD_DECREF = True    # the correspondence never lets a non-int count reach decref; the oracle switches this off
IN_INSPECT = 0      # HANDLE_INSPECT reads every method of a held object's class hierarchy, by design
PICKLE_LOG = []
IMPORT_LOG = []


# methods added to Recorder that need the handler bookkeeping
def _enter_handler(self, name, args):
    req = self.reqs[-1] if self.reqs else None
    if req is not None and req["splat"] is not None:
        # `*args` of a non-plain value succeeded: these are the items
        lz, req["splat"] = req["splat"], None
        self.resolve_lazy(lz, "R " + self.pv(tuple(args)))
    rec = dict(name=name, args=args, req=len(self.reqs))
    self.handlers.append(rec)
    from rpyc.core import brine
    if name == "_handle_cmp" and len(args) in (2, 3):
        self.touch("typeof", args[0])
        self.done(type(args[0]))
    elif name == "_handle_ctxexit" and len(args) == 2:
        self.ctx_begin(rec, args[1])
    elif name == "_handle_getattr":
        outer = self.handlers[-2] if len(self.handlers) > 1 else None
        if outer is not None and outer["req"] == rec["req"]:
            if outer["name"] == "_handle_ctxexit":
                self.ctx_resolve(outer, sys._getframe(2).f_locals)
            elif outer["name"] == "_handle_oldslicing":
                if outer.get("attempted"):
                    outer["fallback"] = True
                outer["attempted"] = True
    elif name == "_handle_oldslicing" and len(args) == 6:
        if not brine.dumpable(args[5]) and type(args[5]) is not tuple:
            raise Unobservable("oldslicing with a non-plain argument list")
    elif name == "_handle_instancecheck" and len(args) == 2:
        if not brine.dumpable(args[1]):
            raise Unobservable("instancecheck with a non-plain id pack")
    elif name == "_handle_inspect" and len(args) == 1:
        if not brine.dumpable(args[0]):
            raise Unobservable("inspect with a non-plain id pack")


def _exit_handler(self, name, ex):
    rec = self.handlers.pop()
    if name == "_handle_ctxexit" and rec.get("ctx") in ("truth", "raise"):
        # the handler ended before `_handle_getattr(obj, "__exit__")` was reached
        if ex is None:
            raise Unobservable("ctxexit returned without reaching __exit__")
        self.keep.append(ex)
        if rec["ctx"] == "truth" and not isinstance(ex, Exception) and not rec.get("bool_raised"):
            self.resolve_lazy(rec["lazy"], "R V T")
            self.events.append("t:raise %s n=S a=[ ]" % rec["exc_text"])
            self.tape.append("D X " + self.exc(ex))
            self.events.append("a:X " + self.exc(ex))
        else:
            self.resolve_lazy(rec["lazy"], "X " + self.exc(ex))
        rec["ctx"] = None


def _ctx_begin(self, rec, exc):
    from rpyc.core import brine
    rec["exc_text"] = self.pv(exc)
    if brine.dumpable(exc) or type(exc) is tuple:
        if bool(exc):
            rec["ctx"] = "raise"
            rec["lazy"] = self.set_lazy("raise", rec["exc_text"])
        else:
            rec["ctx"] = None
    else:
        rec["ctx"] = "truth"
        rec["lazy"] = self.set_lazy("truth", rec["exc_text"])


def _ctx_resolve(self, rec, loc):
    """called on entry of `_handle_getattr(obj, "__exit__")` inside ctxexit: the truth test / raise block are over.
    What `sys.exc_info()` gave is read off the VALUES of the handler's locals (a traceback object and the exception that
    carries it), whatever the locals are called."""
    st = rec.get("ctx")
    if st is None:
        return
    vals = list(loc.values())
    tb = next((v for v in vals if isinstance(v, types.TracebackType)), None)
    if tb is None:
        triple = None
    else:
        val = next((v for v in vals if isinstance(v, BaseException) and v.__traceback__ is tb), None)
        if val is None:
            val = next((v for v in vals if isinstance(v, BaseException)), None)
        triple = (type(val), val, tb)
    self.keep.append(triple)
    if st == "truth":
        if triple is None:
            self.resolve_lazy(rec["lazy"], "R V F")
        else:
            self.resolve_lazy(rec["lazy"], "R V T")
            self.events.append("t:raise %s n=S a=[ ]" % rec["exc_text"])
            t = "R " + self.pv(triple)
            self.tape.append("D " + t)
            self.events.append("a:" + t)
    else:
        if triple is None:
            raise Unobservable("ctxexit: no exception information although the argument is true")
        self.resolve_lazy(rec["lazy"], "R " + self.pv(triple))
    rec["ctx"] = None


def _splat_failed(self, ex):
    req = self.reqs[-1] if self.reqs else None
    if req is not None and req["splat"] is not None:
        lz, req["splat"] = req["splat"], None
        if req["valid"]:
            self.keep.append(ex)
            self.resolve_lazy(lz, "X " + self.exc(ex))
        else:
            self.drop_lazy(lz)


def _note_remote_names(self, package, depth):
    """str() of the non-text names inside REMOTE_REF packages (the model takes str() of plain values as given)"""
    if depth > 40 or package is None:
        return
    try:
        label, value = package
    except Exception:  # noqa
        return
    try:
        if label == 2:
            for item in value:
                self.note_remote_names(item, depth + 1)
        elif label == 4:
            v0 = value[0]
            if type(v0) is not str:
                self.strtab[self.val(v0)] = self.val(str(v0))
    except Unobservable:
        raise
    except Exception:  # noqa
        return


Recorder.enter_handler = _enter_handler
Recorder.exit_handler = _exit_handler
Recorder.ctx_begin = _ctx_begin
Recorder.ctx_resolve = _ctx_resolve
Recorder.splat_failed = _splat_failed
Recorder.note_remote_names = _note_remote_names
Recorder.load_state = None
Recorder.factory_state = None
Recorder.access_ctx = ()      # stack of (request level, obj) of the `_access_attr` calls in progress
Recorder.check_ctx = ()       # request levels of the `_check_attr` calls in progress
Recorder.unbox_ctx = ()       # request levels of the `_unbox` calls in progress
