"""Scripted transports (DESIGN.md section 6.2): a socket, a pipe pair and a poll object whose every
answer is dictated by a script, to put under the REAL `rpyc.core.stream.SocketStream` / `PipeStream`
(and `rpyc.core.channel.Channel` on top of them).

A *script* is a sequence of events, one per transport call; the same text form is understood by the Lean
driver `drv_wire` (lean/Driver/Wire.lean):

    receive side (`sock.recv(n)` / `os.read(fd, n)`)
        c<k>      return the next min(k, n) bytes of the wire (b"" if nothing is left: end of stream)
        t         raise socket.timeout("timed out")
        e<errno>  raise OSError(errno, ...)  (the interpreter picks the subclass: BlockingIOError, ...)
        z         return b""                 (end of stream)
    send side (`sock.send(data)` / `os.write(fd, data)`)
        a<k>      accept the first min(k, len(data)) bytes and return that number
        t         raise socket.timeout("timed out")
        e<errno>  raise OSError(errno, ...)

    poll side (one `Stream.poll` call consumes events up to its answer; script on the transport: `poll_script`)
        r         `p.poll(t)` reports the descriptor (readable / hung up / in error)
        i         `p.poll(t)` returns []  (idle: the timeout elapsed)
        n         `p.poll(t)` raises select.error(EINTR)
        s<errno>  `p.poll(t)` raises select.error(errno)
        f<errno>  `sock.fileno()` raises OSError(errno)            (FakeSocket only)
        g         `p.register(fd, ..)` refuses the descriptor with ValueError (as for fd -1)
    close faults: `FakeSocket(close_fault=True)` makes the first `sock.close()` raise OSError(EIO) (the socket
    object is closed all the same, as CPython's is); `FakePipe(close_fault=1 | 2)` makes `incoming.close()` /
    `outgoing.close()` raise once (the file object is closed all the same, as CPython's are);
    `shutdown_fault=True` makes every `sock.shutdown()` raise.

When a script runs out the call raises `ScriptExhausted` — a BaseException, so that no `except Exception`
/ `except socket.error` of the code under test swallows it: a real transport would block forever there
("starved").  Fault placement: an event is the k-th call of its kind by position in the script; a fault at
byte offset `off` is `c1*off` (or `a1*off`) followed by the fault event, or — for an end of stream — simply
a wire truncated at `off`; see `at_offset`, `dribble`, `random_benign`.

Typical use:

    sock = FakeSocket(wire=b"...", recv_script=Script(["c1*5", "t", "c100"]), send_script=Script(["a3", "e32"]))
    stream = SocketStream(sock)                      # the real class
    pipe = FakePipe(wire=..., recv_script=..., send_script=...)
    with patched_stream_os(pipe):                    # os.read / os.write / poll inside rpyc.core.stream only
        stream = PipeStream(pipe.incoming, pipe.outgoing)
        ...
    # restored on exit, also on exceptions
"""
import contextlib
import errno
import os
import re
import socket


class ScriptExhausted(BaseException):
    """the scripted transport has no event left for this call: a real transport would block forever"""


_EVENT = re.compile(r"^(?:[ceasf]\d+|[tznrig])$")


def _parse_item(item):
    """'c5' -> ('c5', 1); 'c5*3' -> ('c5', 3); ('c5', 3) -> ('c5', 3)"""
    if isinstance(item, tuple):
        ev, n = item
    elif "*" in item:
        ev, n = item.split("*")
        n = int(n)
    else:
        ev, n = item, 1
    if not _EVENT.match(ev):
        raise ValueError("bad script event %r" % (ev,))
    return ev, int(n)


class Script:
    """a run-length encoded event sequence; `next()` consumes one event"""

    def __init__(self, items=()):
        if isinstance(items, Script):
            items = items.items_left()
        elif isinstance(items, str):
            items = [] if items in ("-", "") else items.split(",")
        self.runs = []
        for it in items:
            ev, n = _parse_item(it)
            if n <= 0:
                continue
            if self.runs and self.runs[-1][0] == ev:
                self.runs[-1][1] += n
            else:
                self.runs.append([ev, n])
        self.pos = 0          # index of the current run
        self.used = 0         # events consumed so far
        self.total = sum(n for _ev, n in self.runs)
        self._text = ",".join(ev if n == 1 else "%s*%d" % (ev, n) for ev, n in self.runs) or "-"

    def text(self):
        """the whole script as given (not only what is left), in the driver's syntax"""
        return self._text

    def remaining(self):
        return self.total - self.used

    def items_left(self):
        return [(ev, n) for ev, n in self.runs[self.pos:] if n > 0]

    def peek(self):
        """the next event without consuming it ('' when none is left)"""
        for ev, n in self.runs[self.pos:]:
            if n > 0:
                return ev
        return ""

    def next(self):
        while self.pos < len(self.runs) and self.runs[self.pos][1] == 0:
            self.pos += 1
        if self.pos >= len(self.runs):
            raise ScriptExhausted()
        run = self.runs[self.pos]
        run[1] -= 1
        self.used += 1
        return run[0]


def _raise_for(ev):
    if ev == "t":
        raise socket.timeout("timed out")
    e = int(ev[1:])
    raise OSError(e, os.strerror(e))


class _Transport:
    """the state shared by the fake socket and the fake pipe: wire to deliver, scripts, accepted bytes"""

    def __init__(self, wire=b"", recv_script=(), send_script=(), poll_script=None):
        self.poll_script = None if poll_script is None else (
            poll_script if isinstance(poll_script, Script) else Script(poll_script))
        self.wire = bytes(wire)
        self.rpos = 0
        self.recv_script = recv_script if isinstance(recv_script, Script) else Script(recv_script)
        self.send_script = send_script if isinstance(send_script, Script) else Script(send_script)
        self.sent = bytearray()
        self.recv_log = []      # (requested n, event, bytes returned or None)
        self.send_log = []      # (offered length, event, accepted count or None)
        self.calls = dict(recv=0, send=0, shutdown=0, close=0)

    def wire_left(self):
        return len(self.wire) - self.rpos

    def _recv(self, n):
        self.calls["recv"] += 1
        ev = self.recv_script.next()
        if ev[0] == "c":
            k = min(int(ev[1:]), max(n, 0))
            buf = self.wire[self.rpos:self.rpos + k]
            self.rpos += len(buf)
            self.recv_log.append((n, ev, len(buf)))
            return buf
        self.recv_log.append((n, ev, None))
        if ev == "z":
            return b""
        if ev[0] in "te":
            _raise_for(ev)
        raise ValueError("not a receive event: %r" % (ev,))

    def _send(self, data):
        self.calls["send"] += 1
        ev = self.send_script.next()
        if ev[0] == "a":
            k = min(int(ev[1:]), len(data))
            self.sent += bytes(data[:k])
            self.send_log.append((len(data), ev, k))
            return k
        self.send_log.append((len(data), ev, None))
        if ev[0] in "te":
            _raise_for(ev)
        raise ValueError("not a send event: %r" % (ev,))


class FakeSocket(_Transport):
    """what `SocketStream` needs of a socket; `recv`/`send` follow the scripts"""

    def __init__(self, wire=b"", recv_script=(), send_script=(), fd=10 ** 6 + 1, poll_script=None,
                 close_fault=False, shutdown_fault=False):
        _Transport.__init__(self, wire, recv_script, send_script, poll_script)
        self._fd = fd
        self.closed = False
        self.timeout = None
        self.close_fault = bool(close_fault)
        self.shutdown_fault = bool(shutdown_fault)

    def _check_open(self):
        if self.closed:
            raise OSError(errno.EBADF, os.strerror(errno.EBADF))

    def recv(self, n, flags=0):
        self._check_open()
        return self._recv(n)

    def send(self, data, flags=0):
        self._check_open()
        return self._send(data)

    def sendall(self, data, flags=0):
        self._check_open()
        data = bytes(data)
        while data:
            data = data[self._send(data):]

    def shutdown(self, how):
        self.calls["shutdown"] += 1
        self._check_open()
        if self.shutdown_fault:
            raise OSError(errno.ENOTCONN, os.strerror(errno.ENOTCONN))

    def close(self):
        self.calls["close"] += 1
        self.closed = True
        if self.close_fault:
            self.close_fault = False
            raise OSError(errno.EIO, os.strerror(errno.EIO))

    def fileno(self):
        self._check_open()
        ps = self.poll_script
        if ps is not None and ps.peek()[:1] == "f":
            _raise_for(ps.next())
        return self._fd

    def settimeout(self, t):
        self.timeout = t

    def gettimeout(self):
        return self.timeout

    def setblocking(self, flag):
        self.timeout = None if flag else 0.0

    def setsockopt(self, *args):
        pass

    def getpeername(self):
        return ("scripted-peer", 0)

    def getsockname(self):
        return ("scripted-local", 0)


class FakeFile:
    """one end of a pipe as a Python file object: only `fileno/close/flush/closed`; the data path is
    `os.read` / `os.write` on its descriptor"""

    def __init__(self, fd, close_fault=False):
        self._fd = fd
        self.closed = False
        self.close_calls = 0
        self.close_fault = bool(close_fault)

    def fileno(self):
        if self.closed:
            raise ValueError("I/O operation on closed file")
        return self._fd

    def flush(self):
        pass

    def close(self):
        self.close_calls += 1
        self.closed = True
        if self.close_fault:
            self.close_fault = False
            raise OSError(errno.EIO, os.strerror(errno.EIO))


_NEXT_FD = [2 * 10 ** 6]


class FakePipe(_Transport):
    """a pair of simplex pipes (`incoming`, `outgoing`) for `PipeStream(incoming, outgoing)`; descriptors
    are numbers no real file has; use inside `patched_stream_os(pipe)`"""

    def __init__(self, wire=b"", recv_script=(), send_script=(), poll_script=None, close_fault=None):
        _Transport.__init__(self, wire, recv_script, send_script, poll_script)
        _NEXT_FD[0] += 2
        self.incoming = FakeFile(_NEXT_FD[0], close_fault == 1)
        self.outgoing = FakeFile(_NEXT_FD[0] + 1, close_fault == 2)

    @property
    def closed(self):
        return self.incoming.closed and self.outgoing.closed


class FakePoll:
    """replacement for `rpyc.lib.compat.poll()` inside rpyc.core.stream.  For a registered scripted
    descriptor whose transport has a `poll_script` the script answers (see the module docstring); without
    one the descriptor is reported iff its transport has undelivered wire bytes."""

    def __init__(self, registry, poll_script=None):
        self.registry = registry
        self.fds = []
        self.poll_script = poll_script          # a script for all descriptors (overrides the transports')

    def _script(self, fd):
        if self.poll_script is not None:
            return self.poll_script
        tr = self.registry.get(fd)
        return None if tr is None else tr.poll_script

    def register(self, fd, mode):
        ps = self._script(fd)
        if ps is not None and ps.peek() == "g":
            ps.next()
            raise ValueError("file descriptor cannot be a negative integer (-1)")
        if isinstance(fd, int) and fd < 0:
            raise ValueError("file descriptor cannot be a negative integer (%d)" % fd)
        self.fds.append(fd)

    modify = register

    def unregister(self, fd):
        self.fds = [f for f in self.fds if f != fd]

    def poll(self, timeout=None):
        out = []
        for fd in self.fds:
            ps = self._script(fd)
            if ps is None:
                tr = self.registry.get(fd)
                if tr is not None and tr.wire_left() > 0:
                    out.append((fd, "r"))
                continue
            ev = ps.next()
            if ev == "r":
                out.append((fd, "r"))
            elif ev == "i":
                pass
            elif ev == "n":
                raise OSError(errno.EINTR, os.strerror(errno.EINTR))
            elif ev[0] == "s":
                e = int(ev[1:])
                raise OSError(e, os.strerror(e))
            else:
                raise ValueError("not a poll event here: %r" % (ev,))
        return out


class _OsProxy:
    """`os` as seen by rpyc.core.stream while patched: read/write on scripted descriptors follow the
    scripts, everything else is the real module"""

    def __init__(self, real, readers, writers):
        self._real = real
        self._readers = readers
        self._writers = writers

    def read(self, fd, n):
        tr = self._readers.get(fd)
        if tr is None:
            return self._real.read(fd, n)
        return tr._recv(n)

    def write(self, fd, data):
        tr = self._writers.get(fd)
        if tr is None:
            return self._real.write(fd, data)
        return tr._send(data)

    def __getattr__(self, name):
        return getattr(self._real, name)


@contextlib.contextmanager
def patched_stream_os(*transports, poll_script=None):
    """Replace `os` (so `os.read` / `os.write`) and `poll` in the namespace of rpyc.core.stream ONLY, for
    the descriptors of the given FakePipe / FakeSocket objects; everything is restored on exit."""
    import rpyc.core.stream as st
    readers, writers, registry = {}, {}, {}
    for tr in transports:
        if isinstance(tr, FakePipe):
            readers[tr.incoming._fd] = tr
            writers[tr.outgoing._fd] = tr
            registry[tr.incoming._fd] = tr
        else:
            registry[tr._fd] = tr
    real_os, real_poll = st.os, st.poll
    st.os = _OsProxy(real_os, readers, writers)
    st.poll = lambda: FakePoll(registry, poll_script)
    try:
        yield
    finally:
        st.os = real_os
        st.poll = real_poll


# ------------------------------------------------------------------------------------------- script builders
RESET = "e%d" % errno.ECONNRESET
EPIPE = "e%d" % errno.EPIPE
EAGAIN = "e%d" % errno.EAGAIN
ETIMEDOUT = "e%d" % errno.ETIMEDOUT
EBADF = "e%d" % errno.EBADF
EINTR = "e%d" % errno.EINTR


def dribble(total, piece=1, kind="c", spare=2):
    """enough `piece`-sized events to move `total` bytes whatever sizes the code asks for (every event
    moves at least one byte)"""
    return ["%s%d*%d" % (kind, piece, total + spare)]


def at_offset(off, fault, kind="c", tail=()):
    """exactly `off` bytes pass (one at a time), then `fault` answers the next call, then `tail`"""
    return (["%s1*%d" % (kind, off)] if off else []) + [fault] + list(tail)


def random_benign(rng, total, kind="c", pieces=40, max_piece=70000, noise=(), noise_rate=(1, 4), spare=3,
                  reserves=(1, 1, 7, 977, 64000, 100000)):
    """a failure-free script guaranteed to move `total` bytes: up to `pieces` events of random sizes (tiny,
    boundary-ish and huge mixed) with optional transient events from `noise` in between, then a reserve of
    `total + spare` equal events (each event moves at least one byte, so that always suffices)"""
    out = []
    for _ in range(rng.below(pieces + 1)):
        r = rng.below(8)
        if r == 0:
            k = 1
        elif r == 1:
            k = rng.range(2, 9)
        elif r == 2:
            k = rng.choice([4, 5, 6, 63999, 64000, 64001, 2999, 3000, 3001, 3006, 3007])
        elif r == 3:
            k = rng.range(1, max(1, min(max_piece, total)))
        elif r == 4:
            k = max_piece
        else:
            k = rng.range(1, 2000)
        out.append("%s%d" % (kind, k))
        if noise and rng.chance(*noise_rate):
            out.append(rng.choice(noise))
    reserve = rng.choice(list(reserves))
    if noise and rng.chance(1, 3):
        # transient events inside the reserve too: alternate <noise>, <piece>
        n1 = rng.choice(noise)
        half = min(total + spare, 50)
        for _ in range(half):
            out.append(n1)
            out.append("%s%d" % (kind, reserve))
    out.append("%s%d*%d" % (kind, reserve, total + spare))
    return out
