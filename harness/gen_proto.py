"""Generated constants of layer L6 (protocol): MSG_* and HANDLE_* numbers of rpyc.core.consts, the live
`Connection._request_handlers()` table as id -> method name, and three small AST facts about the anchored
functions -> lean/RpycModel/Gen/Proto.lean.

Only data is read here.  The control flow of `_dispatch_request`, `_dispatch`, `_seq_request_callback`,
`_async_request`, `close`, `_cleanup`, `serve`, `serve_all` is modelled by hand in lean/RpycModel/Proto/*.lean and
tied to the code by the correspondence runs of C08 and C11.
"""
import ast

from gen_consts import Inexpressible, func_ast, lean_list, lean_str

MSGS = ["MSG_REQUEST", "MSG_REPLY", "MSG_EXCEPTION"]


def camel(name):
    parts = name.lower().split("_")
    return parts[0] + "".join(p.capitalize() for p in parts[1:])


def compared_msg_names(fn):
    """names X in `msg == consts.X` tests of `_dispatch`, in source order"""
    out = []
    for n in ast.walk(func_ast(fn)):
        if isinstance(n, ast.Compare) and len(n.ops) == 1 and isinstance(n.ops[0], ast.Eq):
            for side in (n.left, n.comparators[0]):
                if isinstance(side, ast.Attribute) and isinstance(side.value, ast.Name) and side.value.id == "consts":
                    out.append(side.attr)
    return out


def gen_proto():
    from rpyc.core import consts
    from rpyc.core.protocol import Connection
    L = ["namespace Rpyc.Gen.Proto", ""]
    for n in MSGS:
        v = getattr(consts, n, None)
        if type(v) is not int or v < 0:
            raise Inexpressible("consts.%s is not a non-negative int: %r" % (n, v))
        L.append("def %s : Nat := %d" % (camel(n), v))
    extra = sorted(k for k in vars(consts) if k.startswith("MSG_") and k not in MSGS)
    if extra:
        raise Inexpressible("consts defines MSG_* names the protocol model does not know: %s" % extra)
    L.append("")
    handles = sorted((v, k) for k, v in vars(consts).items() if k.startswith("HANDLE_"))
    for v, k in handles:
        if type(v) is not int or v < 0:
            raise Inexpressible("consts.%s is not a non-negative int: %r" % (k, v))
        L.append("def %s : Nat := %d" % (camel(k), v))
    table = Connection._request_handlers()
    if not isinstance(table, dict):
        raise Inexpressible("Connection._request_handlers() is not a dict")
    rows = []
    for hid, fn in sorted(table.items()):
        if type(hid) is not int:
            raise Inexpressible("handler id %r is not an int" % (hid,))
        rows.append("(%d, %s)" % (hid, lean_str(getattr(fn, "__name__", "?"))))
    L += ["", "/-- `Connection._request_handlers()`: handler id -> method name (live object) -/",
          "def handlerTable : List (Nat × String) := " + lean_list(rows, 3),
          "", "/-- every `HANDLE_*` constant of `consts.py` (id, name) -/",
          "def handleConsts : List (Nat × String) := " + lean_list(
              ["(%d, %s)" % (v, lean_str(k)) for v, k in handles], 3)]
    cmp_names = compared_msg_names(Connection._dispatch)
    for n in cmp_names:
        if n not in MSGS:
            raise Inexpressible("_dispatch compares msg with consts.%s, which the model does not know" % n)
    L += ["", "/-- the message types `_dispatch` distinguishes (`msg == consts.X`, AST, source order) -/",
          "def dispatchedMsgs : List Nat := " + lean_list([str(getattr(consts, n)) for n in cmp_names])]
    L += ["", "end Rpyc.Gen.Proto", ""]
    return "\n".join(L)


SECTIONS = [("Proto.lean", gen_proto)]
