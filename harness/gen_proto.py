"""Generated constants of layer L6 (protocol): MSG_* and HANDLE_* numbers of rpyc.core.consts, the live
`Connection._request_handlers()` table as id -> method name, and three small AST facts about the anchored
functions -> lean/RpycModel/Gen/Proto.lean.

Only data is read here.  The control flow of `_dispatch_request`, `_dispatch`, `_seq_request_callback`,
`_async_request`, `close`, `_cleanup`, `serve`, `serve_all` is modelled by hand in lean/RpycModel/Proto/*.lean and
tied to the code by the correspondence runs of C08 and C11.
"""
import ast

from gen_consts import Inexpressible, func_ast, lean_list, lean_str

MSGS = ["MSG_REQUEST", "MSG_REPLY", "MSG_EXCEPTION"]


def camel(name):
    parts = name.lower().split("_")
    return parts[0] + "".join(p.capitalize() for p in parts[1:])


def compared_msg_names(fn):
    """names X in `msg == consts.X` tests of `_dispatch`, in source order"""
    out = []
    for n in ast.walk(func_ast(fn)):
        if isinstance(n, ast.Compare) and len(n.ops) == 1 and isinstance(n.ops[0], ast.Eq):
            for side in (n.left, n.comparators[0]):
                if isinstance(side, ast.Attribute) and isinstance(side.value, ast.Name) and side.value.id == "consts":
                    out.append(side.attr)
    return out


def measure_response_decode_guarded():
    """What does `Connection._dispatch` do with a response whose payload cannot be decoded on this side?  Measured on the
    live class: a MSG_REPLY with a label `_unbox` does not know, and a MSG_EXCEPTION with a payload `vinegar.load` cannot take
    apart, are each dispatched on a connection that has a waiter registered under that number.  True: the waiter is given the decode failure as its exception outcome and nothing leaves
    `_dispatch`; False: the exception leaves `_dispatch` and the waiter stays registered, never completed."""
    from rpyc.core import brine, consts
    from rpyc.core.channel import Channel
    from rpyc.core.service import VoidService
    from rpyc.core.stream import Stream

    class Null(Stream):
        MAX_IO_CHUNK = 64000
        closed = False

        def close(self):
            pass

        def fileno(self):
            raise EOFError()

        def poll(self, timeout):
            return False

        def read(self, count):
            raise EOFError()

        def write(self, data):
            pass
    def probe(msg, payload):
        """True: guarded (delivered as an exception outcome, nothing escapes); False: escapes, the waiter stays registered"""
        got = []
        try:
            conn = VoidService()._connect(Channel(Null(), False), {})
            conn._request_callbacks[7] = lambda is_exc, obj: got.append((is_exc, type(obj).__name__))
            data = brine.dump((msg, 7, payload))
        except Exception as ex:  # noqa
            raise Inexpressible("cannot set up the response-decode probe: %r" % (ex,))
        try:
            conn._dispatch(data)
            escaped = False
        except Exception:  # noqa
            escaped = True
        finally:
            try:
                conn._closed = True          # (no transport behind it: nothing to close)
            except Exception:  # noqa
                pass
        if not escaped and got and got[0][0] is True and 7 not in conn._request_callbacks:
            return True
        if escaped and not got and 7 in conn._request_callbacks:
            return False
        raise Inexpressible("_dispatch of an undecodable response (message type %r) did something the model does not know: "
                            "escaped=%s, delivered=%r" % (msg, escaped, got))
    # both kinds of response: a reply whose label `_unbox` does not know; an exception whose payload `vinegar.load`
    # cannot take apart.  The constant is True only when BOTH are guarded.
    reply = probe(consts.MSG_REPLY, (99, 0))
    exc = probe(consts.MSG_EXCEPTION, 7)
    return reply and exc


def _table_sizes(conn):
    """sizes of the three tables of a connection: (request callbacks, local objects, proxy cache)"""
    out = []
    for name in ("_request_callbacks", "_local_objects", "_proxy_cache"):
        coll = getattr(conn, name)
        inner = getattr(coll, "_dict", coll)
        try:
            out.append(len(inner))
        except Exception as ex:  # noqa
            raise Inexpressible("cannot take the size of Connection.%s (%s): %r" % (name, type(coll).__name__, ex))
    return tuple(out)


def measure_cleanup():
    """Two facts about `Connection._cleanup` / `close()`, measured on the live class:
    idempotent - a second `_cleanup()` on the same connection returns quietly and leaves all three tables empty (True) or
                 raises AttributeError (False);
    survives  - in EACH of these the disconnect hook runs exactly once and ALL THREE tables (request callbacks, local
                objects, proxy cache) end empty and `closed` is True:
                  (1) `_cleanup()` when the stream's close() raises;
                  (2) `_cleanup()` when the stream's close() raises AND the disconnect hook raises;
                  (3) `close()` when the `before_closed` hook raises (close_catchall off) AND the stream's close() raises.
                True when all three hold; False otherwise."""
    from rpyc.core.channel import Channel
    from rpyc.core.service import Service
    from rpyc.core.stream import Stream

    class Null(Stream):
        MAX_IO_CHUNK = 64000

        def __init__(self, fail):
            self.fail = fail
            self.is_closed = False

        @property
        def closed(self):
            return self.is_closed

        def close(self):
            self.is_closed = True
            if self.fail:
                self.fail = False
                raise OSError(5, "close failed")

        def fileno(self):
            raise EOFError()

        def poll(self, timeout):
            return False

        def read(self, count):
            raise EOFError()

        def write(self, data):
            pass
    runs = []
    keep = []

    class Held(object):
        pass

    class HookBoom(Exception):
        pass

    class BeforeBoom(Exception):
        pass

    def make(fail, hook_raises=False, cfg=None):
        class Svc(Service):
            def on_disconnect(self, conn):
                runs.append(1)
                if hook_raises:
                    raise HookBoom()
        conn = Svc()._connect(Channel(Null(fail), False), cfg or {})
        conn._request_callbacks[0] = lambda a, b: None
        held = Held()
        keep.append(held)
        label, _ = conn._box(held)                       # an entry in _local_objects
        conn._proxy_cache[("x", 1, 2)] = held            # an entry in the proxy cache
        conn._remote_root = held                         # `conn.root` (argument of before_closed) must not ask the silent peer
        if 0 in _table_sizes(conn):
            raise Inexpressible("cannot fill the three tables for the _cleanup probe: sizes %r" % (_table_sizes(conn),))
        return conn
    try:
        conn = make(False)
        conn._cleanup()
    except Inexpressible:
        raise
    except Exception as ex:  # noqa
        raise Inexpressible("cannot set up the _cleanup probe: %r" % (ex,))
    if _table_sizes(conn) != (0, 0, 0) or len(runs) != 1:
        raise Inexpressible("a plain _cleanup(): hook runs %d, table sizes %r" % (len(runs), _table_sizes(conn)))
    try:
        conn._cleanup()
        idempotent = _table_sizes(conn) == (0, 0, 0)
    except AttributeError:
        idempotent = False
    except Exception as ex:  # noqa
        raise Inexpressible("a second _cleanup() raised %r" % (ex,))
    if len(runs) != 1:
        raise Inexpressible("two _cleanup() calls ran the disconnect hook %d times" % len(runs))

    def scenario(name, conn, act, accepted):
        del runs[:]
        try:
            act(conn)
            raise Inexpressible("%s: the error was swallowed" % name)
        except accepted:
            pass
        except Inexpressible:
            raise
        except Exception as ex:  # noqa
            raise Inexpressible("%s raised %r" % (name, ex))
        ok = len(runs) == 1 and _table_sizes(conn) == (0, 0, 0) and bool(conn.closed)
        detail = "%s: hook runs %d, table sizes %r, closed %s" % (name, len(runs), _table_sizes(conn), conn.closed)
        conn._closed = True
        return ok, detail
    results = [
        scenario("_cleanup() with a failing stream close", make(True), lambda c: c._cleanup(), (OSError,)),
        scenario("_cleanup() with a failing stream close and a raising hook", make(True, hook_raises=True),
                 lambda c: c._cleanup(), (OSError, HookBoom)),
        scenario("close() with a raising before_closed and a failing stream close",
                 make(True, cfg={"before_closed": lambda root: (_ for _ in ()).throw(BeforeBoom()), "close_catchall": False}),
                 lambda c: c.close(), (OSError, BeforeBoom)),
    ]
    survives = all(ok for ok, _d in results)
    measure_cleanup.detail = [d for _ok, d in results]
    return idempotent, survives


def measure_box_refuses_on_closed_channel():
    """`_box`, by-reference branch, on a connection whose channel is closed: raises EOFError and registers nothing (True) /
    registers the object for a peer that can no longer release it (False)."""
    from rpyc.core import consts
    from rpyc.core.channel import Channel
    from rpyc.core.service import VoidService
    from rpyc.core.stream import Stream

    class Null(Stream):
        MAX_IO_CHUNK = 64000
        is_closed = False

        @property
        def closed(self):
            return self.is_closed

        def close(self):
            self.is_closed = True

        def fileno(self):
            raise EOFError()

        def poll(self, timeout):
            return False

        def read(self, count):
            raise EOFError()

        def write(self, data):
            pass
    try:
        conn = VoidService()._connect(Channel(Null(), False), {})
        conn.close()
    except Exception as ex:  # noqa
        raise Inexpressible("cannot set up the box-after-close probe: %r" % (ex,))
    if _table_sizes(conn) != (0, 0, 0) or not conn.closed:
        raise Inexpressible("close() on a quiet connection left table sizes %r, closed %s" % (_table_sizes(conn), conn.closed))
    try:
        label, _v = conn._box(object())
    except EOFError:
        if _table_sizes(conn)[1] == 0:
            return True
        raise Inexpressible("_box on a closed channel raised EOFError but registered the object")
    except Exception as ex:  # noqa
        raise Inexpressible("_box on a closed channel raised %r" % (ex,))
    if label == consts.LABEL_REMOTE_REF and _table_sizes(conn)[1] == 1:
        return False
    raise Inexpressible("_box on a closed channel returned label %r with %d local objects" % (label, _table_sizes(conn)[1]))


def measure_cleanup_fails_pending():
    """What becomes of a request still waiting for its answer when `_cleanup` runs?  True: its callback is called once with
    (True, EOFError) - the AsyncResult becomes ready, an error, its add_callback functions run - and a callback that raises
    does not stop the clean-up nor the other callbacks; False: the callbacks are dropped unfired (`ready` stays False for
    ever)."""
    from rpyc.core.channel import Channel
    from rpyc.core.service import VoidService
    from rpyc.core.stream import Stream

    class Null(Stream):
        MAX_IO_CHUNK = 64000
        is_closed = False

        @property
        def closed(self):
            return self.is_closed

        def close(self):
            self.is_closed = True

        def fileno(self):
            raise EOFError()

        def poll(self, timeout):
            return False

        def read(self, count):
            raise EOFError()

        def write(self, data):
            pass
    got = []

    def bad(is_exc, obj):
        got.append(("bad", is_exc, type(obj).__name__))
        raise RuntimeError("a callback that fails")
    try:
        conn = VoidService()._connect(Channel(Null(), False), {})
        conn._request_callbacks[5] = bad
        conn._request_callbacks[6] = lambda is_exc, obj: got.append(("good", is_exc, type(obj).__name__))
    except Exception as ex:  # noqa
        raise Inexpressible("cannot set up the pending-at-the-end probe: %r" % (ex,))
    try:
        conn._cleanup()
    except Exception as ex:  # noqa
        raise Inexpressible("_cleanup() with pending requests raised %r" % (ex,))
    if _table_sizes(conn) != (0, 0, 0):
        raise Inexpressible("_cleanup() with pending requests left table sizes %r" % (_table_sizes(conn),))
    if sorted(got) == [("bad", True, "EOFError"), ("good", True, "EOFError")]:
        return True
    if not got:
        return False
    raise Inexpressible("_cleanup() with two pending requests called their callbacks like this: %r" % (got,))


def measure_dispatch_closes_on_eof():
    """When a request made from INSIDE the delivery of a response meets the end of the transport (EOFError), does
    `_dispatch` close the connection before re-raising?  Measured: a result callback that issues a request on a stream
    whose write raises EOFError; a MSG_REPLY for its waiter is dispatched."""
    from rpyc.core import brine, consts
    from rpyc.core.channel import Channel
    from rpyc.core.service import VoidService
    from rpyc.core.stream import Stream

    class Dead(Stream):
        MAX_IO_CHUNK = 64000
        is_closed = False

        @property
        def closed(self):
            return self.is_closed

        def close(self):
            self.is_closed = True

        def fileno(self):
            raise EOFError()

        def poll(self, timeout):
            raise EOFError()

        def read(self, count):
            raise EOFError()

        def write(self, data):
            self.is_closed = True
            raise EOFError("peer gone")
    try:
        conn = VoidService()._connect(Channel(Dead(), False), {})
        conn._request_callbacks[7] = lambda is_exc, obj: conn.async_request(consts.HANDLE_PING, 1)
        data = brine.dump((consts.MSG_REPLY, 7, (consts.LABEL_VALUE, 5)))
    except Exception as ex:  # noqa
        raise Inexpressible("cannot set up the EOF-in-response-delivery probe: %r" % (ex,))
    try:
        conn._dispatch(data)
        raise Inexpressible("_dispatch swallowed the EOFError of a request made while delivering a response")
    except EOFError:
        pass
    except Inexpressible:
        raise
    except Exception as ex:  # noqa
        raise Inexpressible("EOF-in-response-delivery probe raised %r" % (ex,))
    closed = bool(conn.closed)
    conn._closed = True
    return closed


def gen_proto():
    from rpyc.core import consts
    from rpyc.core.protocol import Connection
    L = ["namespace Rpyc.Gen.Proto", ""]
    for n in MSGS:
        v = getattr(consts, n, None)
        if type(v) is not int or v < 0:
            raise Inexpressible("consts.%s is not a non-negative int: %r" % (n, v))
        L.append("def %s : Nat := %d" % (camel(n), v))
    extra = sorted(k for k in vars(consts) if k.startswith("MSG_") and k not in MSGS)
    if extra:
        raise Inexpressible("consts defines MSG_* names the protocol model does not know: %s" % extra)
    L.append("")
    handles = sorted((v, k) for k, v in vars(consts).items() if k.startswith("HANDLE_"))
    for v, k in handles:
        if type(v) is not int or v < 0:
            raise Inexpressible("consts.%s is not a non-negative int: %r" % (k, v))
        L.append("def %s : Nat := %d" % (camel(k), v))
    table = Connection._request_handlers()
    if not isinstance(table, dict):
        raise Inexpressible("Connection._request_handlers() is not a dict")
    rows = []
    for hid, fn in sorted(table.items()):
        if type(hid) is not int:
            raise Inexpressible("handler id %r is not an int" % (hid,))
        rows.append("(%d, %s)" % (hid, lean_str(getattr(fn, "__name__", "?"))))
    L += ["", "/-- `Connection._request_handlers()`: handler id -> method name (live object) -/",
          "def handlerTable : List (Nat × String) := " + lean_list(rows, 3),
          "", "/-- every `HANDLE_*` constant of `consts.py` (id, name) -/",
          "def handleConsts : List (Nat × String) := " + lean_list(
              ["(%d, %s)" % (v, lean_str(k)) for v, k in handles], 3)]
    cmp_names = compared_msg_names(Connection._dispatch)
    for n in cmp_names:
        if n not in MSGS:
            raise Inexpressible("_dispatch compares msg with consts.%s, which the model does not know" % n)
    L += ["", "/-- the message types `_dispatch` distinguishes (`msg == consts.X`, AST, source order) -/",
          "def dispatchedMsgs : List Nat := " + lean_list([str(getattr(consts, n)) for n in cmp_names])]
    L += ["", "/-- measured on the live `Connection._dispatch`: a response whose payload cannot be decoded is delivered to its",
          "waiter as an exception outcome (true) instead of leaving `_dispatch` undelivered (false) -/",
          "def responseDecodeGuarded : Bool := %s" % ("true" if measure_response_decode_guarded() else "false")]
    L += ["", "/-- measured on the live `Connection._dispatch`: a request made from inside the delivery of a RESPONSE that meets",
          "the end of the transport closes the connection before EOFError is re-raised (true) / leaves it open (false) -/",
          "def dispatchClosesOnEof : Bool := %s" % ("true" if measure_dispatch_closes_on_eof() else "false")]
    idem, surv = measure_cleanup()
    L += ["", "/-- measured on the live `Connection._cleanup`: a second run returns quietly (true) / raises AttributeError (false) -/",
          "def cleanupIdempotent : Bool := %s" % ("true" if idem else "false"),
          "", "/-- measured: when the stream's close() raises (alone; with a raising disconnect hook; under close() with a raising",
          "before_closed), the hook still runs exactly once, all three tables end empty and `closed` is true -/",
          "def cleanupSurvivesChannelCloseError : Bool := %s" % ("true" if surv else "false")]
    L += ["", "/-- measured on the live `Connection._box`: boxing by reference on a closed channel raises EOFError and registers",
          "nothing (true) / registers the object (false) -/",
          "def boxRefusesOnClosedChannel : Bool := %s" % ("true" if measure_box_refuses_on_closed_channel() else "false")]
    L += ["", "/-- measured on the live `Connection._cleanup`: every request still waiting for its answer is completed with",
          "EOFError (its result ready, an error, its callbacks run; a failing callback stops nothing) (true) / dropped unfired (false) -/",
          "def cleanupFailsPending : Bool := %s" % ("true" if measure_cleanup_fails_pending() else "false")]
    L += ["", "end Rpyc.Gen.Proto", ""]
    return "\n".join(L)


SECTIONS = [("Proto.lean", gen_proto)]
