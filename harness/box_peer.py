"""The peer application of the C03 correspondence: plain functions that live on side B of a connection and are
called from side A through proxies (`conn.modules.box_peer.<fn>`).  They only look at what arrived with local
operations (`type`, `is`, local netref attributes) and delegate to the session object the harness installed."""

SESSION = None      # harness/props/c03.py sets this for the duration of one conversation


def take(*args):
    """describe what arrived; the arguments die when the call returns"""
    return SESSION.describe(args, "b")


def take_keep(*args):
    """describe what arrived and keep it"""
    SESSION.kept.append(args)
    return SESSION.describe(args, "b")


def echo(*args):
    """describe what arrived (for the harness) and send it straight back"""
    SESSION.last_seen = SESSION.describe(args, "b")
    return args


def make(k):
    """hand out one of B's own objects"""
    return SESSION.objs["b"][k]


def forget():
    del SESSION.kept[:]


def same_as_kept(i, *args):
    """is what arrived now identical (`is`), component by component, to the i-th kept arguments"""
    return SESSION.same(args, SESSION.kept[i])


def mutate(i, path, what):
    """change the object reached through kept[i][path...] THROUGH ITS PROXY"""
    x = SESSION.kept[i]
    for j in path:
        x = x[j]
    return SESSION.mutate(x, what)


def unbox_raw(package):
    """unbox a hand-made package here, on B's own dispatching thread (a request `_unbox` may issue is then served by
    the waiting caller, as for any received message), and describe what came out"""
    v = SESSION.cb._unbox(package)
    return SESSION.describe(v, "b")


def ping():
    return None
