"""Generated constants of layer L9 "Server" (rpyc/utils/server.py, rpyc/core/consts.py)
-> lean/RpycModel/Gen/Server.lean.  Discovered by gen_consts.py through SECTIONS.

Only *data* is read here: the message-type numbers `_dispatch` compares against, the label / handler numbers
the frame classifier of the server model mentions, the defaults of `ThreadPoolServer` (`nbThreads`,
`requestBatchSize`), which server classes exist, and four measured facts about the live server code (see
`poolDropSparesNewcomer`, `poolCloseUnblocksWorkers`, `acceptSurvivesTransientError`, `spawnFailureTurnsClientAway`).  Everything that is control flow (the accept loop, the
try/finally of `_authenticate_and_serve_client`, the pool's poller / worker catch-alls, `close()`) is modelled
by hand in lean/RpycModel/Srv/Server.lean and tied to the code behaviourally by the C16 / C17 correspondence
runs against the real servers, so that harmless rewrites of the code are not flagged.
"""
import inspect

from gen_consts import Inexpressible

CONSTS = ["MSG_REQUEST", "MSG_REPLY", "MSG_EXCEPTION", "LABEL_VALUE", "LABEL_TUPLE", "LABEL_REMOTE_REF", "HANDLE_PING",
          "HANDLE_CLOSE"]
SERVERS = ["ThreadedServer", "ThreadPoolServer", "ForkingServer", "OneShotServer"]


def camel(name):
    parts = name.lower().split("_")
    return parts[0] + "".join(p.capitalize() for p in parts[1:])


def _drop_spares_newcomer(server):
    import rpyc

    class Stand(object):
        def __init__(self):
            self.closed = False

        def close(self):
            self.closed = True

    try:
        srv = server.ThreadPoolServer(rpyc.VoidService, hostname="127.0.0.1", port=0, auto_register=False)
    except OSError as ex:
        raise Inexpressible("cannot instantiate ThreadPoolServer: %s" % ex)
    try:
        newcomer, leaving = Stand(), Stand()

        def poll(*a, **k):
            leaving.closed = True                 # serve() has closed the connection: its descriptor number is free
            srv.fd_to_conn[7] = newcomer          # the accept thread stores a new client under the same number
            raise EOFError("connection closed by peer")
        leaving.poll = poll
        srv.fd_to_conn[7] = leaving
        srv._add_inactive_connection = lambda fd: None
        try:
            srv._serve_requests(7)
        except Exception as ex:  # noqa
            raise Inexpressible("ThreadPoolServer._serve_requests no longer handles EOFError from poll(): %r" % (ex,))
        worker_path = srv.fd_to_conn.get(7) is newcomer and not newcomer.closed
        # the poller's hang-up path (`_handle_poll_result` -> `_drop_connection(fd)`): the descriptor number is free only once
        # the departing connection is closed; a newcomer stored under it from inside that close() must survive
        newcomer2, leaving2 = Stand(), Stand()

        def close2():
            leaving2.closed = True
            srv.fd_to_conn[8] = newcomer2

        leaving2.close = close2
        srv.fd_to_conn[8] = leaving2
        srv._remove_from_inactive_connection = lambda fd: None
        try:
            srv._handle_poll_result([(8, "h")])
        except Exception as ex:  # noqa
            raise Inexpressible("ThreadPoolServer._handle_poll_result cannot be run on a stand-in: %r" % (ex,))
        poller_path = leaving2.closed and srv.fd_to_conn.get(8) is newcomer2 and not newcomer2.closed
        return worker_path and poller_path
    finally:
        srv.listener.close()


def _close_unblocks_workers(server):
    """`ThreadPoolServer.close()` run on a never-started server whose threads and TWO connections are stand-ins that record
    what is done to them: true iff the stream of EVERY connection was ended in a way that wakes a thread blocked reading from
    it - `sock.shutdown(SHUT_RDWR | SHUT_RD)`, or closing the stream / channel / connection (`SocketStream.close` shuts down
    before it closes); a bare `sock.close()` or `shutdown(SHUT_WR)` does not - BEFORE the first worker is joined"""
    import socket
    import rpyc
    events = []

    def make_conn(name):
        class Sock(object):
            def shutdown(self, how):
                if how in (socket.SHUT_RDWR, socket.SHUT_RD):
                    events.append("end:" + name)

            def close(self):
                events.append("sockclose:" + name)      # does not wake a blocked reader

        class Stream(object):
            sock = Sock()

            def close(self):
                events.append("end:" + name)

        class Chan(object):
            stream = Stream()

            def close(self):
                events.append("end:" + name)

        class Conn(object):
            _channel = Chan()
            closed = False

            def close(self):
                events.append("end:" + name)

            def fileno(self):
                return 7 if name == "a" else 9
        return Conn()

    class Thread(object):
        def __init__(self, name):
            self.name = name
            self.joined = False

        def join(self, timeout=None):
            self.joined = True
            events.append(self.name)

        def is_alive(self):
            return not self.joined          # (a loop `while w.is_alive(): w.join(.1)` is as good as a plain join)

    try:
        srv = server.ThreadPoolServer(rpyc.VoidService, hostname="127.0.0.1", port=0, auto_register=False)
    except OSError as ex:
        raise Inexpressible("cannot instantiate ThreadPoolServer: %s" % ex)
    try:
        srv.workers = [Thread("worker")]
        srv.polling_thread = Thread("poller")
        srv.fd_to_conn[7] = make_conn("a")
        srv.fd_to_conn[9] = make_conn("b")
        try:
            srv.close()
        except Exception as ex:  # noqa
            raise Inexpressible("ThreadPoolServer.close() cannot be run on stand-in threads / connections: %r" % (ex,))
        if "worker" not in events:
            raise Inexpressible("ThreadPoolServer.close() no longer joins its workers: %r" % (events,))
        before = events[:events.index("worker")]
        return "end:a" in before and "end:b" in before
    finally:
        try:
            srv.listener.close()
        except Exception:  # noqa
            pass


def _accept_survives_transient_error(server):
    """the live `Server.accept` on a listener stand-in whose accept() fails once - with EMFILE, then again with ECONNABORTED -
    (and ENFILE, ENOBUFS, ENOMEM, EPROTO, ENETDOWN, EHOSTUNREACH, and EMFILE five times in a row) and then lets the loop end (it
    switches `active` off and reports a timeout): true iff accept() comes back normally every time instead of raising EOFError (which `start()` takes for the end of the server)"""
    import errno
    import socket
    import rpyc

    class Listener(object):
        def __init__(self, srv, es):
            self.srv, self.es = srv, list(es)

        def accept(self):
            if self.es:
                raise OSError(self.es.pop(0), "injected")
            self.srv.active = False
            raise socket.timeout("no connection")

    import logging
    quiet = logging.getLogger("rpycverif.gen.silent")
    if not quiet.handlers:
        quiet.addHandler(logging.NullHandler())
    quiet.propagate = False
    out = []
    import time as _time
    real_sleep = _time.sleep
    _time.sleep = lambda t: None                # (the pause after a failed accept is not what is measured; restored below)
    runs = [[e] for e in (errno.EMFILE, errno.ENFILE, errno.ENOBUFS, errno.ENOMEM, errno.ECONNABORTED, errno.EPROTO,
                          errno.ENETDOWN, errno.EHOSTUNREACH)]
    runs.append([errno.EMFILE] * 5)             # the condition lasts: several failures in a row
    try:
        return _accept_runs(server, runs, Listener, quiet)
    finally:
        _time.sleep = real_sleep


def _accept_runs(server, runs, Listener, quiet):
    import rpyc
    out = []
    for e in runs:
        try:
            srv = server.ThreadedServer(rpyc.VoidService, hostname="127.0.0.1", port=0, auto_register=False, logger=quiet)
        except OSError as ex:
            raise Inexpressible("cannot instantiate ThreadedServer: %s" % ex)
        real = srv.listener
        try:
            srv.listener = Listener(srv, e)
            srv.active = True
            try:
                srv.accept()
                out.append(True)
            except EOFError:
                out.append(False)
            except Exception as ex:  # noqa
                raise Inexpressible("Server.accept raised %r on an injected accept() error" % (ex,))
        finally:
            real.close()
    return all(out)


def _spawn_failure_turns_client_away(server):
    """the live `Server.accept` of a real ThreadedServer and a real ForkingServer, on a listener stand-in that hands out one
    stand-in socket, with `rpyc.utils.server.spawn` / `os.fork` made to fail the way they do at the thread / process limit
    (patched for the duration of the call; the real `_accept_method`s run): true iff accept() comes back normally, the
    socket was closed and is no longer in `server.clients`, and the server has not closed itself"""
    import logging
    import os
    import rpyc
    quiet = logging.getLogger("rpycverif.gen.silent")
    if not quiet.handlers:
        quiet.addHandler(logging.NullHandler())
    quiet.propagate = False

    class Sock(object):
        closed = False

        def setblocking(self, flag):
            pass

        def fileno(self):
            return 7

        def close(self):
            self.closed = True

        def shutdown(self, how):
            pass

        def getpeername(self):
            return ("127.0.0.1", 1)

    class Listener(object):
        def __init__(self):
            self.sock = Sock()

        def accept(self):
            return self.sock, ("127.0.0.1", 1)

        def close(self):
            pass

        def shutdown(self, how):
            pass

        def fileno(self):
            return -1

    def no_spawn(*a, **k):
        raise RuntimeError("can't start new thread")

    def no_fork():
        raise OSError(11, "Resource temporarily unavailable")

    out = []
    for cls_name in ("ThreadedServer", "ForkingServer"):
        cls = getattr(server, cls_name)
        try:
            srv = cls(rpyc.VoidService, hostname="127.0.0.1", port=0, auto_register=False, logger=quiet)
        except (OSError, ValueError) as ex:     # (ValueError: signal handlers can only be set in the main thread)
            if cls_name == "ForkingServer":
                continue
            raise Inexpressible("cannot instantiate %s: %s" % (cls_name, ex))
        real = srv.listener
        real_spawn, real_fork = server.spawn, os.fork
        try:
            srv.listener = lst = Listener()
            srv.active = True
            server.spawn, os.fork = no_spawn, no_fork
            try:
                srv.accept()
                out.append(lst.sock.closed and lst.sock not in srv.clients and not getattr(srv, "_closed", False))
            except (RuntimeError, OSError):
                out.append(False)
            except Exception as ex:  # noqa
                raise Inexpressible("Server.accept raised %r when spawn()/fork() failed" % (ex,))
        finally:
            server.spawn, os.fork = real_spawn, real_fork
            srv.listener = real
            try:
                srv.close()                      # (a ForkingServer puts the previous SIGCHLD handler back)
            except Exception:  # noqa
                real.close()
    return bool(out) and all(out)


def _pool_survives_peer_base_exception(server):
    """(a) the live `_serve_clients` (the body of a pool worker) run in this thread on a stand-in connection whose `poll()`
    raises SystemExit the first time (what an exception reply naming it does) and ends the run the second time: true iff the
    worker loop survives and the connection is served again; (b) the live `Server.accept` with an `_accept_method` raising a
    SystemExit that carries `_remote_tb` (what vinegar rebuilds) must come back normally, and one WITHOUT it (a local
    sys.exit) must propagate"""
    import logging
    import rpyc
    quiet = logging.getLogger("rpycverif.gen.silent")
    if not quiet.handlers:
        quiet.addHandler(logging.NullHandler())
    quiet.propagate = False
    try:
        srv = server.ThreadPoolServer(rpyc.VoidService, hostname="127.0.0.1", port=0, auto_register=False, logger=quiet)
    except OSError as ex:
        raise Inexpressible("cannot instantiate ThreadPoolServer: %s" % ex)
    real = srv.listener
    try:
        calls = []

        class Conn(object):
            closed = False

            def poll(self, *a, **k):
                calls.append(1)
                if len(calls) == 1:
                    raise SystemExit("named by the peer")
                srv.active = False
                raise EOFError("gone")

            def close(self):
                pass

            def fileno(self):
                return 7
        srv.fd_to_conn[7] = Conn()
        srv._add_inactive_connection = lambda fd: None
        srv.active = True
        srv._active_connection_queue.put(7)
        real_sleep = server.time.sleep
        server.time.sleep = lambda s: None
        try:
            try:
                srv._serve_clients()
                worker = len(calls) == 2
            except BaseException:  # noqa
                worker = False
        finally:
            server.time.sleep = real_sleep
        # (b)
        class Sock(object):
            def setblocking(self, flag):
                pass

            def fileno(self):
                return 7

            def close(self):
                pass

        class Listener(object):
            def accept(self):
                return Sock(), ("127.0.0.1", 1)
        remote = SystemExit("named by the peer")
        remote._remote_tb = "tb"
        res = []
        for exc in (remote, SystemExit("local")):
            srv.listener = Listener()
            srv.active = True

            def failing(sock, _e=exc):
                raise _e
            srv._accept_method = failing
            try:
                srv.accept()
                res.append("back")
            except SystemExit:
                res.append("raised")
            except Exception as ex:  # noqa
                raise Inexpressible("Server.accept raised %r" % (ex,))
        return worker and res == ["back", "raised"]
    finally:
        real.close()


def gen_server():
    from rpyc.core import consts
    from rpyc.utils import server
    L = ["namespace Rpyc.Gen.Srv", ""]
    for n in CONSTS:
        v = getattr(consts, n, None)
        if type(v) is not int or v < 0:
            raise Inexpressible("consts.%s is not a non-negative int: %r" % (n, v))
        L.append("def %s : Nat := %d" % (camel(n), v))
    extra = sorted(k for k in vars(consts) if k.startswith("MSG_") and k not in CONSTS)
    if extra:
        raise Inexpressible("consts defines MSG_* names the server model does not know: %s" % extra)
    for n in SERVERS:
        cls = getattr(server, n, None)
        if not (inspect.isclass(cls) and issubclass(cls, server.Server)):
            raise Inexpressible("rpyc.utils.server.%s is not a Server subclass" % n)
    L += ["", "/-- the four server kinds of the model exist as subclasses of `Server` -/",
          "def serverKinds : List String := [%s]" % ", ".join('"%s"' % n for n in SERVERS)]
    # defaults of the pool: read from a live, never-started instance (binds port 0 on loopback, closed at once)
    import rpyc
    try:
        srv = server.ThreadPoolServer(rpyc.VoidService, hostname="127.0.0.1", port=0, auto_register=False)
    except OSError as ex:
        raise Inexpressible("cannot instantiate ThreadPoolServer to read its defaults: %s" % ex)
    try:
        nb, batch = getattr(srv, "nbthreads", None), getattr(srv, "request_batch_size", None)
    finally:
        srv.listener.close()
    for name, v in (("nbthreads", nb), ("request_batch_size", batch)):
        if type(v) is not int or v < 1:
            raise Inexpressible("ThreadPoolServer().%s is not a positive int: %r" % (name, v))
    L += ["", "/-- `ThreadPoolServer` defaults: `nbThreads`, `requestBatchSize` -/",
          "def poolDefaultThreads : Nat := %d" % nb,
          "def poolDefaultBatch : Nat := %d" % batch]
    L += ["", "/-- does the pool's end-of-stream path (`_serve_requests` -> `_drop_connection`) leave alone a NEW connection that",
          "was stored under the same descriptor number while the departing one was being closed?  Measured on the live",
          "functions (no sockets): a stand-in connection whose `poll()` stores a newcomer under its own number and then",
          "raises EOFError is served through the real `_serve_requests`; true iff the newcomer is still in `fd_to_conn`",
          "and not closed afterwards -/",
          "def poolDropSparesNewcomer : Bool := %s" % ("true" if _drop_spares_newcomer(server) else "false")]
    L += ["", "/-- does `ThreadPoolServer.close()` end the connections' streams (socket shutdown / connection close) BEFORE it",
          "joins the workers - so that a worker blocked in a read on one of them comes back and can be joined?  Measured on",
          "the live `close()` with stand-in threads and one stand-in connection that record the order of events -/",
          "def poolCloseUnblocksWorkers : Bool := %s" % ("true" if _close_unblocks_workers(server) else "false")]
    L += ["", "/-- does the accept loop survive an error from `accept()` that is neither EINTR / EAGAIN nor the listener being",
          "gone (EMFILE, ECONNABORTED)?  Measured on the live `Server.accept` with a listener stand-in that fails once -/",
          "def acceptSurvivesTransientError : Bool := %s" % ("true" if _accept_survives_transient_error(server) else "false")]
    L += ["", "/-- does `Server.accept` survive an `_accept_method` that cannot start a thread / child for the new client",
          "(RuntimeError from spawn(), OSError from os.fork()), closing that client's socket and forgetting it?  Measured on",
          "the live `Server.accept` with stand-ins -/",
          "def spawnFailureTurnsClientAway : Bool := %s" % ("true" if _spawn_failure_turns_client_away(server) else "false")]
    L += ["", "/-- does the pool survive an exception the PEER names that is a BaseException (SystemExit, ...): the live worker",
          "loop `_serve_clients` keeps running and serves the connection again, `Server.accept` comes back when",
          "`_accept_method` raises one rebuilt by vinegar (`_remote_tb`) - and still lets a local SystemExit through -/",
          "def poolSurvivesPeerBaseException : Bool := %s" % ("true" if _pool_survives_peer_base_exception(server) else "false")]
    L += ["", "end Rpyc.Gen.Srv", ""]
    return "\n".join(L)


SECTIONS = [("Server.lean", gen_server)]
