"""Layer L6 (protocol) helpers shared by props/c08.py and props/c11.py: a frame-level recorder for the
deterministic network (harness/simnet.py).

`Recorder` installs itself as the `fault` hook of both MemStreams of a Net.  On every transport call it
 * decodes what is being written (one whole frame per write: header, payload, flusher) or what is about to be
   read (it peeks at the inbox when the 5-byte header is asked for),
 * appends a raw entry to `events` (global order: one thread runs at a time on the network),
 * then lets an optional `injector(info)` decide to fail the call (C11).

Nothing here looks inside a Connection; everything is read off the transport, the public `closed` flag and
what the harness's own services log.
"""
import struct
import zlib

from rpyc.core import brine, consts
from rpyc.core.channel import Channel

HEADER = Channel.FRAME_HEADER.size
FLUSH = len(Channel.FLUSHER)

MSG_NAME = {consts.MSG_REQUEST: "REQ", consts.MSG_REPLY: "REPLY", consts.MSG_EXCEPTION: "EXC"}
ASYNC_HANDLERS = (consts.HANDLE_DEL, consts.HANDLE_CLOSE)     # issued with asyncreq / _async_request by rpyc itself


def frame_bytes(obj, compress=False):
    """the bytes `Channel.send(brine.dump(obj))` would write (small frames: one write)"""
    data = brine.dump(obj)
    comp = 0
    if compress and len(data) > Channel.COMPRESSION_THRESHOLD:
        data = zlib.compress(data, Channel.COMPRESSION_LEVEL)
        comp = 1
    return Channel.FRAME_HEADER.pack(len(data), comp) + data + Channel.FLUSHER


def decode_frame(buf):
    """(msg, seq, args, total_length) of the first complete frame in buf, or None"""
    if len(buf) < HEADER:
        return None
    n, comp = Channel.FRAME_HEADER.unpack(bytes(buf[:HEADER]))
    if len(buf) < HEADER + n + FLUSH:
        return None
    data = bytes(buf[HEADER:HEADER + n])
    try:
        if comp:
            data = zlib.decompress(data)
    except Exception:  # noqa
        return (-1, -1, None, HEADER + n + FLUSH)
    try:
        msg, seq, args = brine.load(data)
    except Exception:  # noqa
        # rpyc's own decoder refuses the payload (that may be the very defect being looked for): the recorder still
        # needs the message type and the sequence number, which it reads itself from the head of the 3-tuple
        msg, seq = peek_msg_seq(data)
        return (msg, seq, None, HEADER + n + FLUSH)
    return (msg, seq, args, HEADER + n + FLUSH)


def _peek_int(data, i):
    b = data[i:i + 1]
    if b in brine.IMM_INTS_LOADER:
        return brine.IMM_INTS_LOADER[b], i + 1
    if b == brine.TAG_INT_L1:
        k = data[i + 1]
        return int(data[i + 2:i + 2 + k]), i + 2 + k
    raise ValueError("not a small int")


def peek_msg_seq(data):
    """(msg, seq) of a `(msg, seq, args)` payload without decoding `args`; (-1, -1) if it does not look like one"""
    try:
        if data[0:1] != brine.TAG_TUP3:
            return (-1, -1)
        msg, i = _peek_int(data, 1)
        seq, _i = _peek_int(data, i)
        return (msg, seq)
    except Exception:  # noqa
        return (-1, -1)


def frame_length(buf):
    """total length of the first frame announced in buf (needs the header), else None"""
    if len(buf) < HEADER:
        return None
    n, _comp = struct.unpack("!LB", bytes(buf[:HEADER]))
    return HEADER + n + FLUSH


class Recorder:
    def __init__(self, net):
        self.net = net
        self.events = []            # raw entries, dicts with at least {"t": kind, "side": name}
        self.intent = {}            # side -> dict describing the next harness-issued request of that side
        self.injector = None        # callable(info) -> None | raises; info = dict(op, side, k, stream, frame, ...)
        self.calls = []             # every transport call (op, side) in order
        self.wbuf = {}              # side -> bytes of a frame written so far (frames above 64000 bytes take 3 writes)
        self.enabled = True
        for s in net.streams.values():
            s.fault = self._hook

    # ------------------------------------------------------------------ harness-side logging
    def log(self, **kw):
        self.events.append(kw)

    def expect(self, side, **kw):
        """describe the next request the harness issues from `side` (consumed by the write hook)"""
        self.intent[side] = kw

    # ------------------------------------------------------------------ transport hook
    def _hook(self, op, stream, arg):
        if not self.enabled:
            return
        side = stream.name
        k = len(self.calls)
        self.calls.append((op, side))
        info = dict(op=op, side=side, k=k, stream=stream, frame=None, arg=arg)
        own_closed = stream.closed
        peer_closed = stream.peer.closed or getattr(stream, "gone", False)   # (`gone`: see props/c11.py LStream)
        if op == "write":
            # (a TCP-like stream accepts a write after the peer has closed)
            will_fail = (own_closed or getattr(stream, "gone", False) or
                         (stream.peer.closed and not getattr(stream, "accepts_write_after_peer_close", False)))
            buf = self.wbuf.setdefault(side, bytearray())
            buf += arg
            f = decode_frame(buf)
            info["frame"] = f
            if f is not None or will_fail:
                del buf[:]
            if f is not None:
                msg, seq, args, _n = f
                ent = dict(t="write", side=side, msg=msg, seq=seq, own_closed=own_closed,
                           peer_closed=peer_closed, ok=not will_fail, call=k)
                if msg == consts.MSG_REQUEST:
                    handler = args[0] if isinstance(args, tuple) and args else None
                    ent["handler"] = handler
                    if handler in ASYNC_HANDLERS:
                        ent["kind"] = "a"
                        ent["hidden"] = True
                    elif side in self.intent and self.intent[side] is not None:
                        it = self.intent.pop(side)
                        ent.update(it)
                        ent["hidden"] = False
                    else:
                        ent["kind"] = "s"
                        ent["hidden"] = True
                elif msg == consts.MSG_REPLY:
                    ent["ref"] = bool(isinstance(args, tuple) and args and args[0] == consts.LABEL_REMOTE_REF)
                    ent["val"] = args[1] if (isinstance(args, tuple) and len(args) == 2 and args[0] == consts.LABEL_VALUE
                                             and type(args[1]) is int) else None
                self.events.append(ent)
                info["entry"] = ent
        elif op == "read":
            if arg == HEADER:
                f = decode_frame(stream.inbox)
                info["frame"] = f
                short = len(stream.inbox) < HEADER
                ent = dict(t="recv", side=side, own_closed=own_closed, peer_closed=peer_closed, call=k,
                           eof=bool(own_closed or (short and peer_closed)))
                ent["flen"] = frame_length(stream.inbox)
                if f is not None:
                    ent.update(msg=f[0], seq=f[1])
                    a = f[2]
                    if f[0] == consts.MSG_REQUEST and isinstance(a, tuple) and a:
                        ent["handler"] = a[0]
                    elif f[0] == consts.MSG_REPLY:
                        ent["ref"] = bool(isinstance(a, tuple) and a and a[0] == consts.LABEL_REMOTE_REF)
                        ent["val"] = a[1] if (isinstance(a, tuple) and len(a) == 2 and a[0] == consts.LABEL_VALUE
                                              and type(a[1]) is int) else None
                self.events.append(ent)
                info["entry"] = ent
                info["header"] = True
            else:
                info["header"] = False
                ent = dict(t="recvbody", side=side, call=k, own_closed=own_closed,
                           eof=bool(own_closed or (len(stream.inbox) < arg and peer_closed)))
                self.events.append(ent)
                info["entry"] = ent
        elif op == "poll":
            ent = dict(t="poll", side=side, own_closed=own_closed, peer_closed=peer_closed, call=k)
            self.events.append(ent)
            info["entry"] = ent
        if self.injector is not None:
            self.injector(info)

    # ------------------------------------------------------------------ views
    def wire(self):
        """[(sender, msg, seq)] of every frame that was actually written"""
        return [(e["side"], e["msg"], e["seq"]) for e in self.events if e["t"] == "write" and e["ok"]
                and not e.get("faulted")]
