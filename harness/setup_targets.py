#!/venv/bin/python
"""Print the lake targets (theorem modules and driver executables) of the properties claimed in MANIFEST.json."""
import importlib
import json
import os
import sys

HERE = os.path.dirname(os.path.abspath(__file__))
sys.path.insert(0, HERE)
sys.path.insert(0, os.path.join(HERE, "props"))
sys.path.insert(0, os.environ.get("RPYC_REPO", "/repo"))
with open(os.path.join(HERE, "..", "MANIFEST.json")) as f:
    man = json.load(f)
targets = []
for c in man["checks"]:
    mod = importlib.import_module("props." + c["property_id"].lower())
    for t in [mod.LEAN_MODULE] + list(getattr(mod, "DRIVERS", [])):
        if t not in targets:
            targets.append(t)
print(" ".join(targets))
