"""Generated constants of layer L6 `Proto/Handlers` (property C07): lean/RpycModel/Gen/Handlers.lean.

Read from the LIVE objects of /repo's working tree (gen_consts.py has put it first on sys.path):

* `consts.MSG_* / LABEL_* / HANDLE_* / EXC_STOP_ITERATION`;
* `Connection._request_handlers()` as (id, method name), sorted by id, read from the live class;
* the parameter list of every `_handle_*` (`inspect.signature`: names, which have defaults, no *args/**kwargs);
* `DEFAULT_CONFIG`: the seven attribute switches, `exposed_prefix`, `safe_attrs`, `allow_pickle`,
  `import_custom_exceptions`, `instantiate_custom_exceptions`, the two `propagate_*_locally` switches;
* the keys of `netref.builtin_classes_cache` (names whose proxies need no HANDLE_INSPECT round trip);
* which `_rpyc_*attr` hooks `rpyc.Service` defines.

AST facts that are not data (normalised so that a refactoring that performs the same operations yields the same list:
local names are anonymous - `<var>`, `<call>`, `.method` -, helpers of the same class / module are followed
transitively down to a stop list of modelled entry points, a bare re-raise is dropped, an exception constructor
is not a call):

* `handlerTouches`: for every `_handle_*`, the primitive touches its body performs - every call, `raise:Cls`,
  `truth:<var>`, `<splat>` / `<kwsplat>`, `index:...`;
* `classFactoryCalls`: everything `netref.class_factory` calls (a `getattr`, `__import__`, `pydoc.locate`, ... on the
  peer-chosen name would appear here).

Deliberately NOT generated: call lists of `_unbox`, `_dispatch`, `_dispatch_request`, `_check_attr`, `_access_attr`,
`_seq_request_callback`, `vinegar.load`.  What those do is pinned behaviourally instead - the recorder
(handlers_rt.py) hooks the primitives they use (`protocol.getattr/hasattr/...`, `vinegar.__import__/sys/getattr`,
`netref.sys`, `RefCountingColl.add`, `_send`) and the correspondence compares the resulting event sequence with the
model's, so e.g. a fallback to a global registry in `_unbox` or an import in `vinegar.load` shows as an event the model
does not have (an AST list of them alarmed on harmless rewrites and added nothing).

Raises gen_consts.Inexpressible when the source no longer has a shape these definitions can express.
"""
import ast
import inspect
import sys

import gen_consts
from gen_consts import lean_str, lean_list, func_ast

Inexpressible = getattr(sys.modules.get("__main__"), "Inexpressible", None) or gen_consts.Inexpressible

CONST_GROUPS = [
    ("MSG_", ["MSG_REQUEST", "MSG_REPLY", "MSG_EXCEPTION"]),
    ("LABEL_", ["LABEL_VALUE", "LABEL_TUPLE", "LABEL_LOCAL_REF", "LABEL_REMOTE_REF"]),
]
SWITCHES = [
    ("allow_safe_attrs", "cfgAllowSafe"), ("allow_exposed_attrs", "cfgAllowExposed"),
    ("allow_public_attrs", "cfgAllowPublic"), ("allow_all_attrs", "cfgAllowAll"),
    ("allow_getattr", "cfgAllowGet"), ("allow_setattr", "cfgAllowSet"), ("allow_delattr", "cfgAllowDel"),
    ("allow_pickle", "cfgAllowPickle"), ("import_custom_exceptions", "cfgImportCustomExc"),
    ("instantiate_custom_exceptions", "cfgInstantiateCustomExc"),
    ("propagate_KeyboardInterrupt_locally", "cfgPropagateKbdInt"),
    ("propagate_SystemExit_locally", "cfgPropagateSysExit"),
]
HOOKS = ("_rpyc_getattr", "_rpyc_setattr", "_rpyc_delattr")
def camel(name):
    parts = name.lower().split("_")
    return parts[0] + "".join(p.capitalize() for p in parts[1:])


def lean_bool(b):
    return "true" if b else "false"


def cps(s):
    return "[" + ", ".join(str(ord(c)) for c in s) + "]"


def dotted(node):
    """`a.b.c` for Name/Attribute chains, else None"""
    parts = []
    while isinstance(node, ast.Attribute):
        parts.append(node.attr)
        node = node.value
    if isinstance(node, ast.Name):
        parts.append(node.id)
        return ".".join(reversed(parts))
    return None


def local_names(node):
    names = set(a.arg for a in node.args.args + node.args.kwonlyargs + getattr(node.args, "posonlyargs", []))
    if node.args.vararg:
        names.add(node.args.vararg.arg)
    if node.args.kwarg:
        names.add(node.args.kwarg.arg)
    for n in ast.walk(node):
        if isinstance(n, ast.Name) and isinstance(n.ctx, ast.Store):
            names.add(n.id)
        elif isinstance(n, (ast.Import, ast.ImportFrom)):
            for al in n.names:
                names.discard((al.asname or al.name).split(".")[0])   # a function-level import is not a value of the caller
    return names


def _is_exception_class(name):
    import builtins
    v = getattr(builtins, name, None)
    return isinstance(v, type) and issubclass(v, BaseException)


def touches(fn, owner=None, module=None, stop=(), _seen=None):
    """Normalised primitive touches of a function body, robust against refactoring that keeps behaviour:

      * locals and parameters (whatever their names) are `<var>`; a call of one, or of a call result, is `<call>`;
        a method call on one is `.method`; `self` is the first parameter of a method, whatever it is called;
      * calls of methods of the same class (`self.helper(...)`) and of functions of the same module are FOLLOWED
        transitively and not listed, unless named in `stop` (then listed as `self.name` / `name`): extracting or inlining
        a private helper changes nothing;
      * exception constructors are not calls; `raise Cls(...)` is `raise:Cls`; `raise <local>` is `raise:<var>`; a bare
        `raise` (re-raise, e.g. the no-op `try: ... except Exception: raise`) is nothing;
      * `if <local>:` / `while <local>:` / `<local> and ...` truth tests of a bare local are `truth:<var>`;
      * `x[...]` on a `self.<attr>` or module attribute is `index:<dotted>`; `*x` / `**x` in a call are `<splat>` / `<kwsplat>`;
      * statement order, elif-vs-early-return, docstrings, comments do not matter (it is a set).
    """
    _seen = _seen if _seen is not None else set()
    key = getattr(fn, "__qualname__", repr(fn))
    if key in _seen:
        return set()
    _seen.add(key)
    node = func_ast(fn)
    is_method = "." in getattr(fn, "__qualname__", "") and "<locals>" not in fn.__qualname__.split(".")[-2:]
    selfname = node.args.args[0].arg if (is_method and node.args.args) else None
    locs = local_names(node) - {selfname}
    out = set()

    def follow(target):
        out.update(touches(target, owner, module, stop, _seen))

    for stmt in node.body:
        for n in ast.walk(stmt):
            if isinstance(n, ast.Call):
                f = n.func
                d = dotted(f)
                if d is None:
                    out.add("<call>")
                elif d in locs:
                    out.add("<call>")
                else:
                    parts = d.split(".")
                    root = parts[0]
                    if root in locs:
                        out.add("." + parts[-1])
                    elif selfname is not None and root == selfname and len(parts) == 2:
                        target = inspect.getattr_static(owner, parts[1], None) if owner is not None else None
                        target = getattr(target, "__func__", target)
                        if parts[1] not in stop and inspect.isfunction(target):
                            follow(target)
                        else:
                            out.add("self." + parts[1])
                    elif selfname is not None and root == selfname:
                        out.add("self." + ".".join(parts[1:]))
                    elif len(parts) == 1:
                        target = getattr(module, root, None) if module is not None else None
                        if root not in stop and inspect.isfunction(target) and target.__module__ == module.__name__:
                            follow(target)
                        elif not _is_exception_class(root):
                            out.add(root)
                    else:
                        out.add(d)
                for a in n.args:
                    if isinstance(a, ast.Starred):
                        out.add("<splat>")
                for k in n.keywords:
                    if k.arg is None:
                        out.add("<kwsplat>")
            elif isinstance(n, ast.Raise):
                if n.exc is None:
                    continue
                if isinstance(n.exc, ast.Name) and n.exc.id in locs:
                    out.add("raise:<var>")
                else:
                    d = dotted(n.exc.func) if isinstance(n.exc, ast.Call) else dotted(n.exc)
                    out.add("raise:" + (d or "<expr>"))
            elif isinstance(n, (ast.If, ast.IfExp, ast.While)):
                t = n.test
                if isinstance(t, ast.Name) and t.id in locs:
                    out.add("truth:<var>")
            elif isinstance(n, ast.Subscript) and isinstance(n.ctx, ast.Load):
                d = dotted(n.value)
                if d is not None and d.split(".")[0] not in locs:
                    parts = d.split(".")
                    if selfname is not None and parts[0] == selfname:
                        if parts[1:] != ["_config"]:
                            out.add("index:self." + ".".join(parts[1:]))
                    elif len(parts) > 1:
                        out.add("index:" + d)
            elif isinstance(n, ast.Delete):
                for t in n.targets:
                    d = dotted(t)
                    if d and selfname is not None and d.split(".")[0] == selfname:
                        out.add("del:self." + ".".join(d.split(".")[1:]))
    return out


# the functions whose calls are LISTED (they are modelled as such), everything else private is followed
CONN_STOP = ("_access_attr", "_check_attr", "_cleanup", "sync_request", "async_request", "_async_request", "_box", "_unbox",
             "_send", "close", "_netref_factory", "_box_exc", "_unbox_exc", "_dispatch_request", "_seq_request_callback",
             "_send_exception", "_resolve_local_refs", "serve", "poll")
NETREF_STOP = ("_make_method", "NetrefClass", "syncreq", "asyncreq")


def handler_params(fn, mname):
    sig = inspect.signature(fn)
    ps = list(sig.parameters.values())
    if not ps or ps[0].name != "self":
        raise Inexpressible("%s: first parameter is not self" % mname)
    out = []
    for p in ps[1:]:
        if p.kind is not inspect.Parameter.POSITIONAL_OR_KEYWORD:
            raise Inexpressible("%s: parameter %s is %s (only plain positional parameters are modelled)"
                                % (mname, p.name, p.kind))
        out.append((p.name, p.default is not inspect.Parameter.empty))
    seen_default = False
    for _n, d in out:
        if seen_default and not d:
            raise Inexpressible("%s: non-default after default" % mname)
        seen_default = seen_default or d
    return out


def gen_handlers():
    from rpyc.core import consts, protocol, netref, vinegar, service
    L = ["namespace Rpyc.Gen.Handlers", ""]
    # ---- consts
    for prefix, names in CONST_GROUPS:
        live = sorted(k for k in vars(consts) if k.startswith(prefix))
        if live != sorted(names):
            raise Inexpressible("consts.%s* is %s, the model knows %s" % (prefix, live, sorted(names)))
        for n in names:
            v = getattr(consts, n)
            if type(v) is not int or v < 0:
                raise Inexpressible("consts.%s = %r is not a natural number" % (n, v))
            L.append("def %s : Nat := %d" % (camel(n), v))
        L.append("")
    handle_consts = sorted((getattr(consts, k), k) for k in vars(consts) if k.startswith("HANDLE_"))
    for v, k in handle_consts:
        if type(v) is not int or v < 0:
            raise Inexpressible("consts.%s = %r is not a natural number" % (k, v))
        L.append("def %s : Nat := %d" % (camel(k), v))
    L.append("def handleConsts : List (Nat × String) := " + lean_list(
        ("(%d, %s)" % (v, lean_str(k)) for v, k in handle_consts), 3))
    if type(consts.EXC_STOP_ITERATION) is not int:
        raise Inexpressible("consts.EXC_STOP_ITERATION is not an int")
    L += ["def excStopIteration : Nat := %d" % consts.EXC_STOP_ITERATION, ""]
    from rpyc.lib.compat import maxint
    if type(maxint) is not int or maxint < 0:
        raise Inexpressible("compat.maxint is not a natural number")
    L += ["/-- `rpyc.lib.compat.maxint` (what `_handle_oldslicing` substitutes for `stop is None`) -/",
          "def maxint : Nat := %d" % maxint, ""]
    # ---- handler table
    table = protocol.Connection._request_handlers()
    rows = []
    for k, f in table.items():
        if type(k) is not int or k < 0:
            raise Inexpressible("handler key %r is not a natural number" % (k,))
        owner = getattr(protocol.Connection, getattr(f, "__name__", ""), None)
        if owner is None or getattr(owner, "__func__", owner) is not getattr(f, "__func__", f):
            # not a method of Connection (e.g. a builtin such as eval): record it by qualified name
            rows.append((k, "<foreign:%s.%s>" % (getattr(f, "__module__", "?"), getattr(f, "__qualname__", repr(f)))))
        else:
            rows.append((k, f.__name__))
    rows.sort()
    L += ["/-- `Connection._request_handlers()`: handler id ↦ method name (live class) -/",
          "def handlerTable : List (Nat × String) := " + lean_list(("(%d, %s)" % (k, lean_str(n)) for k, n in rows), 3)]
    # ---- parameters (positions only: the wire carries positions, parameter names are not behaviour) and touches
    prows, trows = [], []
    for mname in sorted(n for n in vars(protocol.Connection) if n.startswith("_handle_")):
        fn = vars(protocol.Connection)[mname]
        if not inspect.isfunction(fn):
            raise Inexpressible("%s is not a plain function" % mname)
        ps = handler_params(fn, mname)
        prows.append("(%s, %d, %d)" % (lean_str(mname), len([1 for _n, d in ps if not d]), len(ps)))
        t = touches(fn, protocol.Connection, protocol, CONN_STOP)
        trows.append("(%s, %s)" % (lean_str(mname), lean_list((lean_str(x) for x in sorted(t)), 6)))
    L += ["", "/-- every `_handle_*`: (name, number of required positional parameters after self, number of parameters after self) -/",
          "def handlerArity : List (String × Nat × Nat) := " + lean_list(prows, 3),
          "", "/-- normalised primitive touches of every `_handle_*` (AST, private helpers followed, locals anonymous; see",
          "harness/gen_handlers.py `touches`) -/",
          "def handlerTouches : List (String × List String) := " + lean_list(trows, 1)]
    L += ["", "/-- what `netref.class_factory` does, helpers followed: name resolution is `sys.modules.get` + `getattr` only -",
          "nothing that imports -/",
          "def classFactoryCalls : List String := " + lean_list(
              (lean_str(t) for t in sorted(touches(netref.class_factory, None, netref, NETREF_STOP))), 6)]
    # ---- configuration
    cfg = protocol.DEFAULT_CONFIG
    L += ["", "/-! ### `protocol.DEFAULT_CONFIG` (live dict) -/"]
    for key, name in SWITCHES:
        if type(cfg.get(key)) is not bool:
            raise Inexpressible("DEFAULT_CONFIG[%r] = %r is not a bool" % (key, cfg.get(key)))
        L.append("def %s : Bool := %s" % (name, lean_bool(cfg[key])))
    pre = cfg.get("exposed_prefix")
    safe = cfg.get("safe_attrs")
    if type(pre) is not str or not isinstance(safe, (set, frozenset)) or not all(type(s) is str for s in safe):
        raise Inexpressible("exposed_prefix / safe_attrs have an unexpected type")
    L += ["def cfgExposedPrefix : List Nat := " + cps(pre),
          "def cfgSafe : List (List Nat) := " + lean_list((cps(s) for s in sorted(safe)), 1),
          "def cfgSafeText : List String := " + lean_list((lean_str(s) for s in sorted(safe)), 6)]
    # ---- hooks of rpyc.Service
    for h in HOOKS:
        L.append("def service%s : Bool := %s" % ("".join(p.capitalize() for p in h.strip("_").split("_")),
                                                  lean_bool(getattr(service.Service, h, None) is not None)))
    # ---- builtin netref classes
    keys = sorted(netref.builtin_classes_cache)
    if not all(type(k) is str for k in keys):
        raise Inexpressible("netref.builtin_classes_cache has non-text keys")
    L += ["", "/-- keys of `netref.builtin_classes_cache`: proxies of these class names need no HANDLE_INSPECT -/",
          "def builtinNetrefNames : List (List Nat) := " + lean_list((cps(k) for k in keys), 1),
          "def builtinNetrefNamesText : List String := " + lean_list((lean_str(k) for k in keys), 4)]
    L += ["", "end Rpyc.Gen.Handlers", ""]
    return "\n".join(L)


SECTIONS = [("Handlers.lean", gen_handlers)]
