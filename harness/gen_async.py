"""Generated constants of layer L7 "Async" (rpyc/core/async_.py, rpyc/core/protocol.py DEFAULT_CONFIG)
-> lean/RpycModel/Gen/Async.lean.  Discovered by gen_consts.py through SECTIONS.

Data only (and one *measured* behaviour): the slots of `AsyncResult` (the model's `AR` structure plus the connection must account for every
one of them: a new slot is new state the model does not have) and the default `sync_request_timeout`.
Control flow (`__call__`, `wait`, the properties, `Timeout`) is modelled by hand and tied by the C15
correspondence.
"""
from gen_consts import Inexpressible, lean_list, lean_str


def gen_async():
    from rpyc.core import async_, protocol
    slots = getattr(async_.AsyncResult, "__slots__", None)
    if not isinstance(slots, (list, tuple)) or not all(isinstance(s, str) for s in slots):
        raise Inexpressible("AsyncResult.__slots__ is not a list of names: %r" % (slots,))
    t = protocol.DEFAULT_CONFIG.get("sync_request_timeout", "missing")
    if t is None:
        lean_t = "none"
    elif type(t) in (int, float) and t == int(t):
        lean_t = "some (%d)" % int(t)
    else:
        raise Inexpressible("DEFAULT_CONFIG['sync_request_timeout'] is neither None nor a whole number of seconds: %r" % (t,))
    all_run, propagates = measure_callback_loop(async_)
    atomic = measure_registration_atomic(async_)
    L = ["namespace Rpyc.Gen.Async", "",
         "/-- `AsyncResult.__slots__`, sorted (the order of the slots carries no meaning) -/",
         "def slots : List String := " + lean_list([lean_str(s) for s in sorted(slots)], 8), "",
         "/-- `DEFAULT_CONFIG[\"sync_request_timeout\"]` (seconds; `none` = no timeout) -/",
         "def syncRequestTimeout : Option Int := " + lean_t, "",
         "/-- measured on the live `AsyncResult.__call__` with the callbacks [raises, returns], once for each of",
         "RuntimeError, KeyError and a user-defined Exception subclass: does the second callback still run and is the",
         "list cleared - for every one of them (`true`)?  `false`: for at least one class the loop stops at the raising",
         "callback -/",
         "def callbacksAllRun : Bool := " + ("true" if all_run else "false"), "",
         "/-- measured in the same runs: is a callback's error re-raised out of `__call__` into whoever is serving (`true`)",
         "or kept from it (logged / swallowed, `false`)?  No obligation rests on this: the statement is silent on it -/",
         "def callbackErrorPropagates : Bool := " + ("true" if propagates else "false"), "",
         "/-- measured: `add_callback` is paused between its test of `_is_ready` and its append while a second thread",
         "delivers the reply.  `true`: the registration and the publication exclude each other (the callback runs exactly",
         "once); `false`: the callback is appended to a list that was already taken - it never runs -/",
         "def addCallbackAtomic : Bool := " + ("true" if atomic else "false"), "",
         "end Rpyc.Gen.Async", ""]
    return "\n".join(L)


class ProbeError(Exception):
    """a user-defined exception class"""


def _bounded(fn, what):
    import threading
    box = {}

    def body():
        try:
            box["ok"] = fn()
        except BaseException as ex:  # noqa
            box["raised"] = ex
    th = threading.Thread(target=body, daemon=True)      # (a call that never comes back must not hang every check)
    th.start()
    th.join(10)
    if th.is_alive():
        raise Inexpressible("%s does not return" % what)
    return box


def measure_callback_loop(async_):
    """run the real `__call__` on a bare result with a raising callback followed by a plain one, for several classes"""
    all_run, props = [], []
    for cls in (RuntimeError, KeyError, ProbeError):
        res = async_.AsyncResult(None)
        ran = []

        def failing(r, cls=cls, ran=ran):
            ran.append(1)
            raise cls("measured")

        def plain(r, ran=ran):
            ran.append(2)
        res.add_callback(failing)
        res.add_callback(plain)
        box = _bounded(lambda: res(False, 0), "AsyncResult.__call__ with a raising callback")
        if "raised" in box and not isinstance(box["raised"], cls):
            raise Inexpressible("AsyncResult.__call__ raised %r for a callback raising %s" % (box["raised"], cls.__name__))
        if not res._is_ready or ran[:1] != [1]:
            raise Inexpressible("AsyncResult.__call__ with a raising callback: ready %r, ran %r" % (res._is_ready, ran))
        all_run.append(ran == [1, 2] and len(res._callbacks) == 0)
        props.append("raised" in box)
    if len(set(props)) != 1:
        raise Inexpressible("whether a callback's error leaves __call__ depends on its class: %r" % (props,))
    return all(all_run), props[0]


def measure_registration_atomic(async_):
    """`add_callback` paused between test and append (the callback list is a list subclass whose append first lets a
    second thread deliver the reply); was the callback run exactly once, or lost?"""
    import threading
    res = async_.AsyncResult(None)
    ran = []
    publisher = threading.Thread(target=lambda: res(False, 7), daemon=True)

    class PausingList(list):
        hook = True

        def append(self, item):
            if self.hook:
                self.hook = False
                publisher.start()
                publisher.join(0.3)
            list.append(self, item)
    try:
        res._callbacks = PausingList()
    except AttributeError as ex:
        raise Inexpressible("AsyncResult._callbacks cannot be replaced for the measurement: %r" % (ex,))
    _bounded(lambda: res.add_callback(lambda r: ran.append(1)), "AsyncResult.add_callback")
    publisher.join(5)
    if publisher.is_alive() or not res._is_ready:
        raise Inexpressible("the reply delivered during add_callback was never published")
    if ran == [1] and not res._callbacks:
        return True
    if ran == [] and len(res._callbacks) == 1:
        return False
    raise Inexpressible("add_callback racing with the publication: callback ran %r, %d stored" % (ran, len(res._callbacks)))


SECTIONS = [("Async.lean", gen_async)]
