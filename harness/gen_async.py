"""Generated constants of layer L7 "Async" (rpyc/core/async_.py, rpyc/core/protocol.py DEFAULT_CONFIG)
-> lean/RpycModel/Gen/Async.lean.  Discovered by gen_consts.py through SECTIONS.

Data only: the slots of `AsyncResult` (the model's `AR` structure plus the connection must account for every
one of them: a new slot is new state the model does not have) and the default `sync_request_timeout`.
Control flow (`__call__`, `wait`, the properties, `Timeout`) is modelled by hand and tied by the C15
correspondence.
"""
from gen_consts import Inexpressible, lean_list, lean_str


def gen_async():
    from rpyc.core import async_, protocol
    slots = getattr(async_.AsyncResult, "__slots__", None)
    if not isinstance(slots, (list, tuple)) or not all(isinstance(s, str) for s in slots):
        raise Inexpressible("AsyncResult.__slots__ is not a list of names: %r" % (slots,))
    t = protocol.DEFAULT_CONFIG.get("sync_request_timeout", "missing")
    if t is None:
        lean_t = "none"
    elif type(t) in (int, float) and t == int(t):
        lean_t = "some (%d)" % int(t)
    else:
        raise Inexpressible("DEFAULT_CONFIG['sync_request_timeout'] is neither None nor a whole number of seconds: %r" % (t,))
    L = ["namespace Rpyc.Gen.Async", "",
         "/-- `AsyncResult.__slots__` -/",
         "def slots : List String := " + lean_list([lean_str(s) for s in slots], 8), "",
         "/-- `DEFAULT_CONFIG[\"sync_request_timeout\"]` (seconds; `none` = no timeout) -/",
         "def syncRequestTimeout : Option Int := " + lean_t, "",
         "end Rpyc.Gen.Async", ""]
    return "\n".join(L)


SECTIONS = [("Async.lean", gen_async)]
