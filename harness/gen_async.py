"""Generated constants of layer L7 "Async" (rpyc/core/async_.py, rpyc/core/protocol.py DEFAULT_CONFIG)
-> lean/RpycModel/Gen/Async.lean.  Discovered by gen_consts.py through SECTIONS.

Data only (and one *measured* behaviour): the slots of `AsyncResult` (the model's `AR` structure plus the connection must account for every
one of them: a new slot is new state the model does not have) and the default `sync_request_timeout`.
Control flow (`__call__`, `wait`, the properties, `Timeout`) is modelled by hand and tied by the C15
correspondence.
"""
from gen_consts import Inexpressible, lean_list, lean_str


def gen_async():
    from rpyc.core import async_, protocol
    slots = getattr(async_.AsyncResult, "__slots__", None)
    if not isinstance(slots, (list, tuple)) or not all(isinstance(s, str) for s in slots):
        raise Inexpressible("AsyncResult.__slots__ is not a list of names: %r" % (slots,))
    t = protocol.DEFAULT_CONFIG.get("sync_request_timeout", "missing")
    if t is None:
        lean_t = "none"
    elif type(t) in (int, float) and t == int(t):
        lean_t = "some (%d)" % int(t)
    else:
        raise Inexpressible("DEFAULT_CONFIG['sync_request_timeout'] is neither None nor a whole number of seconds: %r" % (t,))
    all_run = measure_callbacks_all_run(async_)
    L = ["namespace Rpyc.Gen.Async", "",
         "/-- `AsyncResult.__slots__` -/",
         "def slots : List String := " + lean_list([lean_str(s) for s in slots], 8), "",
         "/-- `DEFAULT_CONFIG[\"sync_request_timeout\"]` (seconds; `none` = no timeout) -/",
         "def syncRequestTimeout : Option Int := " + lean_t, "",
         "/-- measured on the live `AsyncResult.__call__` with the callbacks [raises, returns]: does the second callback",
         "still run, is the list cleared, and is the first error re-raised afterwards (`true`) - or does the loop stop at",
         "the raising callback with the list left as it is (`false`)? -/",
         "def callbacksAllRun : Bool := " + ("true" if all_run else "false"), "",
         "end Rpyc.Gen.Async", ""]
    return "\n".join(L)


def measure_callbacks_all_run(async_):
    """run the real `__call__` once on a bare result with a raising callback followed by a plain one"""
    res = async_.AsyncResult(None)
    ran = []

    def failing(r):
        ran.append(1)
        raise RuntimeError("measured")

    def plain(r):
        ran.append(2)
    res.add_callback(failing)
    res.add_callback(plain)
    box = {}

    def body():
        try:
            res(False, 0)
            box["raised"] = False
        except RuntimeError:
            box["raised"] = True
    import threading
    th = threading.Thread(target=body, daemon=True)      # (a __call__ that never comes back must not hang every check)
    th.start()
    th.join(10)
    if th.is_alive():
        raise Inexpressible("AsyncResult.__call__ with a raising callback does not return")
    raised = box.get("raised")
    obs = (ran, len(res._callbacks), raised, bool(res._is_ready))
    if obs == ([1, 2], 0, True, True):
        return True
    if obs == ([1], 2, True, True):
        return False
    raise Inexpressible("AsyncResult.__call__ with a raising callback behaves in a way the model has no branch for: "
                        "ran %r, %d callbacks left, raised %r, ready %r" % obs)


SECTIONS = [("Async.lean", gen_async)]
