"""C07: the canary service, the raw hostile peer, the message generator and the session runner.

A *session* is one real `Connection` (serving `CanarySvc` over an in-memory stream from harness/simnet.py) fed by
a script that writes brine-encoded, framed messages straight into the stream — it is not a `Connection`.
Messages are written in *bursts*; after each burst the connection serves until its inbox is empty, so a request
of the service to the peer (a callback) sees exactly the rest of the burst before it times out (virtual clock).
"""
import struct
import sys

import handlers_rt as rt
import simnet
import valtext

# ------------------------------------------------------------------------------------------------ canaries
DENIED_NAMES = frozenset(["secret", "secret_m", "secret_call", "_priv", "_hidden", "pub", "pub_m", "__dunder_secret__",
                          "state", "poke"])


import typing  # noqa: F401,E402  (the serving process has `typing` imported, like most applications)
ATextAlias = str          # module attributes of an imported module that ARE the plain types
ABytesAlias = bytes
AnIntAlias = int
ATupleAlias = tuple


class _Spy(object):
    """a module-level object of a loaded module that nothing ever sends: every attribute read on it is recorded"""
    def __getattribute__(self, name):
        HITS.module_object_reads.append(name)
        return object.__getattribute__(self, name)


class Hits:
    """what the direct oracle reads (filled by the canaries themselves, independent of the recorder)"""
    def __init__(self):
        self.denied_attr = []     # (tag, name): a policy-denied name was looked up on a canary
        self.denied_call = []     # a policy-denied callable ran
        self.allowed_call = []
        self.keys_calls = []      # `.keys()` ran (dict(kwargs) in _handle_call)
        self.special = []         # __iter__/__getitem__/__lt__/__gt__/__rsub__/__index__ of a canary ran
        self.module_hooks = []    # a module-level __getattr__ (PEP 562) of a canary module ran: (module, name)
        self.module_object_reads = []   # attribute reads on SPY, a module-level object that is never sent
        self.state_writes = []


HITS = Hits()
SPY = _Spy()


class CanaryMeta(type):
    def __getattribute__(cls, name):
        if name in DENIED_NAMES and not rt.IN_INSPECT:
            HITS.denied_attr.append(("type:" + type.__getattribute__(cls, "__name__"), name))
        return type.__getattribute__(cls, name)

    def __instancecheck__(cls, inst):
        return False


class CustomErr(Exception):
    pass


class Thing(metaclass=CanaryMeta):
    exposed_x = 11
    x = 12
    vdata = "alice"
    vcount = 100
    exposed_only = 13
    pub = 14
    _priv = 15
    secret = "s3cr3t"
    __dunder_secret__ = 16

    def __init__(self, tag):
        object.__setattr__(self, "tag", tag)
        object.__setattr__(self, "state", 0)

    def __getattribute__(self, name):
        if name in DENIED_NAMES:
            HITS.denied_attr.append((object.__getattribute__(self, "tag"), name))
        return object.__getattribute__(self, name)

    def __setattr__(self, name, value):
        HITS.state_writes.append((object.__getattribute__(self, "tag"), "set", name))
        object.__setattr__(self, name, value)

    def __delattr__(self, name):
        HITS.state_writes.append((object.__getattribute__(self, "tag"), "del", name))
        object.__delattr__(self, name)

    def exposed_m(self, *a, **k):
        HITS.allowed_call.append((object.__getattribute__(self, "tag"), "exposed_m"))
        return len(a)

    def exposed_self(self):
        return self

    def secret_m(self, *a):
        HITS.denied_call.append((object.__getattribute__(self, "tag"), "secret_m"))
        return "leak"

    def pub_m(self, *a):
        HITS.denied_call.append((object.__getattribute__(self, "tag"), "pub_m"))
        return "leak"

    def poke(self, *a):
        HITS.denied_call.append((object.__getattribute__(self, "tag"), "poke"))
        object.__setattr__(self, "state", object.__getattribute__(self, "state") + 1)

    def keys(self):
        HITS.keys_calls.append(object.__getattribute__(self, "tag"))
        return []

    def __call__(self, *a, **k):
        return ("called", len(a))

    def __repr__(self):
        return "<Thing>"

    def __str__(self):
        return "thing"

    def __hash__(self):
        return 42

    def __iter__(self):
        HITS.special.append((object.__getattribute__(self, "tag"), "__iter__"))
        return iter((1, 2))

    def __gt__(self, other):
        HITS.special.append((object.__getattribute__(self, "tag"), "__gt__"))
        return True

    def __rsub__(self, other):
        HITS.special.append((object.__getattribute__(self, "tag"), "__rsub__"))
        return 0

    def __bool__(self):
        return True

    def __enter__(self):
        return self

    def __exit__(self, *a):
        return False

    def __getitem__(self, k):
        HITS.special.append((object.__getattribute__(self, "tag"), "__getitem__"))
        if type(k) is slice:
            return (k.start, k.stop)
        return k

    def __lt__(self, other):
        HITS.special.append((object.__getattribute__(self, "tag"), "__lt__"))
        return True

    def __eq__(self, other):
        return self is other

    def __index__(self):
        return 2


class Falsy(Thing):
    def __bool__(self):
        return False


class NoIter(Thing):
    __iter__ = None

    def __bool__(self):
        raise ValueError("no truth")

    def __repr__(self):
        raise CustomErr("no repr")

    def __getitem__(self, k):
        raise KeyError(k)


class Hooked(Thing):
    """its class decides by itself (`_rpyc_getattr`): the configuration is not consulted, by design"""
    def _rpyc_getattr(self, name):
        if name in ("x", "exposed_m", "__exit__"):
            return object.__getattribute__(self, name)
        raise AttributeError("hook says no to %r" % (name,))


class Loud(Thing):
    def exposed_m(self, *a, **k):
        raise CustomErr("loud")

    def __call__(self, *a, **k):
        raise KeyboardInterrupt()

    def __str__(self):
        raise SystemExit(3)


VIEW_NAMES = ["x", "exposed_x", "vdata", "vcount"]


def illegitimate_writes(state_writes):
    """state changes the service never allowed: everything except writes through the restricted views to the names their
    own write lists name (`w1_target`: x; `rw_target`: every readable name)"""
    bad = []
    for tag, op, name in state_writes:
        if op == "set" and ((tag == "w1_target" and name == "x") or (tag == "rw_target" and name in VIEW_NAMES)):
            continue
        bad.append((tag, op, name))
    return bad


def make_pool():
    # indices 13 and 14 are fetched only by the SECOND connection's peer (the service keeps them alive)
    return [Thing("t0"), Thing("t1"), Falsy("f2"), NoIter("n3"), Hooked("h4"), Loud("l5"), iter([1, 2, 3, 4, 5, 6]),
            ValueError("held"), KeyboardInterrupt, [1, 2, 3], {"a": 1}, Thing.exposed_m, len,
            Thing("other13"), Falsy("other14")]


def canary_service():
    import rpyc

    class CanarySvc(rpyc.Service):
        exposed_val = 7
        secret = "top"
        _hidden = 1
        pub = 2

        def __init__(self):
            from rpyc.utils.helpers import restricted
            self.pool = make_pool()
            self.state = 0
            self.subscribers = []
            # "what the service exposes" includes views made by helpers.restricted(): read-only (wattrs=()), writable
            # for one name, and the default (writable for every readable name)
            names = list(VIEW_NAMES)
            self.view_targets = [Thing("ro_target"), Thing("w1_target"), Thing("rw_target"), Thing("ro2_target")]
            self.views = [restricted(self.view_targets[0], names, wattrs=()),
                          restricted(self.view_targets[1], names, wattrs=["x"]),
                          restricted(self.view_targets[2], names),
                          restricted(self.view_targets[3], set(names), wattrs=frozenset())]

        def exposed_view(self, k):
            return self.views[k]

        def exposed_subscribe(self, cb):
            self.subscribers.append(cb)
            return len(self.subscribers)

        def exposed_publish(self, x):
            # an ordinary publish/subscribe service: every subscriber (a callback some client registered) is called
            return [cb(x) for cb in self.subscribers]

        def on_disconnect(self, conn):
            r = rt.active(conn)
            if r is not None:
                r.touch("cleanup", self)
                r.done(None)

        def exposed_get(self, k):
            return self.pool[k]

        def exposed_fresh(self):
            return Thing("fresh")

        def exposed_echo(self, x):
            return x

        def exposed_pair(self, k):
            return (self.pool[k], 5)

        def exposed_apply(self, f, *a):
            return f(*a)

        def exposed_big(self):
            return 10 ** 5000

        def exposed_bigpair(self):
            # a by-reference object next to a value that cannot be encoded: registered, then taken back
            return (Thing("fresh"), 10 ** 4400)

        def exposed_raise(self, k):
            raise [ValueError("x"), CustomErr("c", 1), KeyboardInterrupt(), SystemExit(3), StopIteration(1), EOFError("fake"),
                   ValueError(10 ** 5000)][k]

        def secret_call(self, *a):
            HITS.denied_call.append(("root", "secret_call"))
            self.state += 1
            return "leak"

        def poke(self, *a):
            HITS.denied_call.append(("root", "poke"))
            self.state += 1

        def __getattribute__(self, name):
            if name in DENIED_NAMES and name != "state":
                HITS.denied_attr.append(("root", name))
            return object.__getattribute__(self, name)

    return CanarySvc()


HOOK_MODULE = "c07hookmod"
CANARY_MODULES = ["c07canmod_a", "c07canmod_b"]
LURE_MODULES = ["sndhdr", "colorsys", "chunk", "tabnanny"]      # importable standard modules nothing here imports
_FINDER = None


def ensure_canary_modules():
    """importable modules that must never get imported (importing one appends its name to IMPORTED).  They exist only as
    a meta-path finder of this process: no files, nothing to clean up."""
    global _FINDER
    if _FINDER is not None:
        return
    import importlib.abc
    import importlib.machinery

    class CanaryFinder(importlib.abc.MetaPathFinder, importlib.abc.Loader):
        def find_spec(self, fullname, path=None, target=None):
            if fullname in CANARY_MODULES:
                return importlib.machinery.ModuleSpec(fullname, self)
            return None

        def create_module(self, spec):
            return None

        def exec_module(self, module):
            IMPORTED.append(module.__name__)
            exec("class Boom(Exception):\n    pass\n", module.__dict__)

    _FINDER = CanaryFinder()
    sys.meta_path.append(_FINDER)
    # an application module that IS loaded and has a PEP 562 hook (lazy attributes): no peer message may make it run
    import types as _types
    hook = _types.ModuleType(HOOK_MODULE)

    def _module_getattr(name):
        HITS.module_hooks.append((HOOK_MODULE, name))
        __import__("c07canmod_b")
        raise AttributeError(name)

    hook.__getattr__ = _module_getattr
    hook.Existing = type("Existing", (object,), {})
    sys.modules[HOOK_MODULE] = hook


IMPORTED = []


# ------------------------------------------------------------------------------------------------ transport
class PeerStream(simnet.MemStream):
    """server-side stream: an empty inbox means the peer stays silent until the deadline (virtual clock jumps)"""
    def poll(self, timeout):
        self._hook("poll", timeout)
        if self._closed:
            raise EOFError("stream has been closed")
        if self.inbox or self.peer._closed:
            return True
        t = simnet.Timeout(timeout)
        if t.finite:
            if t.tmax > self.net.clock.now:
                self.net.clock.now = t.tmax
            return False
        raise rt.Unobservable("serve() would block forever")


_MEASURED = None


def measured():
    """what the code under test does in two places where the pinned behaviour is a known, reported weakness: the oracle's
    clauses for them are armed only once the code behaves (so the unchanged tree does not alarm, a regression does)"""
    global _MEASURED
    if _MEASURED is None:
        import types
        from rpyc.core import protocol, netref
        log = []

        class Own(object):
            def _rpyc_getattr(self, name):
                raise AttributeError(name)

            def __getitem__(self, k):
                log.append("getitem")
                return "secret"
        c = protocol.Connection.__new__(protocol.Connection)
        c._config = dict(protocol.DEFAULT_CONFIG)
        c._closed = True
        try:
            protocol.Connection._handle_cmp(c, Own(), "k", "__getitem__")
        except Exception:  # noqa
            pass
        cmp_ok = not log
        reads = []

        class Spy2(object):
            def __getattribute__(self, n):
                reads.append(n)
                return object.__getattribute__(self, n)
        m = types.ModuleType("c07measuremod")
        m.obj = Spy2()
        sys.modules["c07measuremod"] = m
        try:
            netref.class_factory(("c07measuremod.obj", 11, 22), ())
        except Exception:  # noqa
            pass
        finally:
            sys.modules.pop("c07measuremod", None)
        _MEASURED = dict(cmp_respects_object_hook=cmp_ok, class_factory_reads_no_module_object=not reads)
    return _MEASURED


def _snapshot_defaults(cfg):
    return dict((k, (set(v) if isinstance(v, (set, frozenset)) else v)) for k, v in cfg.items())


def _restore_defaults(cfg, snap):
    """put DEFAULT_CONFIG back (in place, the safe_attrs SET OBJECT included); returns what had changed"""
    changed = []
    for k, v in snap.items():
        cur = cfg.get(k)
        if isinstance(v, set):
            if set(cur) != v:
                changed.append("%s: +%s -%s" % (k, sorted(set(cur) - v)[:6], sorted(v - set(cur))[:6]))
                cur.clear()
                cur.update(v)
        elif cur != v:
            changed.append("%s: %r -> %r" % (k, v, cur))
            cfg[k] = v
    for k in [k for k in cfg if k not in snap]:
        changed.append("new key %s" % k)
        del cfg[k]
    return changed


SECOND_CONFIGS = [
    None, None,
    dict(safe_attrs=set(["secret", "secret_m", "pub", "pub_m", "poke", "_priv", "_hidden", "secret_call", "__dunder_secret__",
                         "state", "tag"]), allow_public_attrs=True),
    dict(safe_attrs=set(["secret", "poke", "secret_call", "_priv"]), allow_all_attrs=True, allow_setattr=True, allow_delattr=True),
    dict(allow_public_attrs=True, allow_all_attrs=True, allow_setattr=True, allow_pickle=True),
]


def frame(payload):
    return struct.pack("!LB", len(payload), 0) + payload + b"\x00"


class Session:
    def __init__(self, config=None, second=True, second_phase="holding", second_cfg=None, second_first=True):
        import rpyc  # noqa: F401
        from rpyc.core.channel import Channel
        rt.install()
        ensure_canary_modules()
        self.net = simnet.Net(manual=True)
        self.svc = canary_service()
        self.peer = PeerStream(self.net, "A")
        self.srv = PeerStream(self.net, "B")
        self.peer.peer, self.srv.peer = self.srv, self.peer
        self.config = dict(config or {})
        self._saved_time = None
        self.conn = None
        self.rec = None
        self.Channel = Channel
        self.msgs = []            # bursts of model texts
        self.replies = []         # everything the server wrote, decoded
        self.other_ids = []
        self.second = second
        self.second_phase = second_phase
        self.second_cfg = second_cfg        # None = default; else the OTHER connection's own (permissive) configuration
        self.second_first = second_first    # is the other connection opened before or after the one under attack
        self.ended = False
        self.sent = 0

    def __enter__(self):
        import rpyc.lib
        self._saved_time = rpyc.lib.time
        rpyc.lib.time = self.net.clock
        rt.HITS = HITS
        for lst in (HITS.module_object_reads, HITS.denied_attr, HITS.denied_call, HITS.allowed_call, HITS.keys_calls, HITS.special, HITS.state_writes,
                    HITS.module_hooks,
                    rt.PICKLE_LOG, rt.IMPORT_LOG, IMPORTED):
            del lst[:]
        self.modules_before = set(sys.modules)
        def open_second():
            # a second connection of the same process to the same service, whose well-behaved peer fetched by-reference
            # objects through the real `_box` (the root, two objects the service keeps alive, a fresh one) and - depending
            # on `second_phase` - still holds them, has released them, or has closed its connection
            p2, s2 = PeerStream(self.net, "A2"), PeerStream(self.net, "B2")
            p2.peer, s2.peer = s2, p2
            self.conn2 = self.svc._connect(self.Channel(s2, True), dict(self.second_cfg or {}))
            from rpyc.core import brine

            def ask2(msgs):
                for m in msgs:
                    p2.write(frame(brine.dump(m)))
                while s2.inbox:
                    self.conn2.serve(0)
                return self._drain(p2)
            root2 = ask2([(1, 0, (3, (1, ())))])[0][2][1]
            self.other_ids.append(root2)
            reqs = [(1, 10, (8, (2, ((3, root2), (1, "get"), (1, (13,)))))), (1, 11, (8, (2, ((3, root2), (1, "get"), (1, (14,)))))),
                    (1, 12, (8, (2, ((3, root2), (1, "fresh"), (1, ())))))]
            for m in ask2(reqs):
                if m[0] == 2 and type(m[2]) is tuple and m[2][0] == 4:
                    self.other_ids.append(m[2][1])
            if self.second_phase == "released":
                ask2([(1, 20 + k, (15, (2, ((3, idp), (1, 100))))) for k, idp in enumerate(self.other_ids[1:])])
            elif self.second_phase == "closed":
                self.conn2.close()
        from rpyc.core import protocol as _protocol
        self.default_before = _snapshot_defaults(_protocol.DEFAULT_CONFIG)
        if self.second and self.second_first:
            open_second()
        self.conn = self.svc._connect(self.Channel(self.srv, True), self.config)
        if self.second and not self.second_first:
            open_second()
        self.rec = rt.Recorder(self.conn, self.svc)
        rt.REC = self.rec
        return self

    def __exit__(self, *a):
        import rpyc.lib
        from rpyc.core import protocol as _protocol
        rt.REC = None
        # the process-wide defaults must be what they were (sessions are independent; a change is reported)
        self.default_changed = _restore_defaults(_protocol.DEFAULT_CONFIG, self.default_before)
        try:
            self.conn.close()
        except Exception:  # noqa
            pass
        if self.second:
            try:
                self.conn2.close()
            except Exception:  # noqa
                pass
        self.rec.keep.clear()
        rpyc.lib.time = self._saved_time
        self.imported_during = sorted(set(sys.modules) - self.modules_before)
        for m in self.imported_during:
            if m in CANARY_MODULES or m.split(".")[0] in LURE_MODULES or m.startswith("concurrent.futures."):
                del sys.modules[m]
        for lazy in ("ProcessPoolExecutor", "ThreadPoolExecutor"):      # what concurrent.futures' hook caches in its namespace
            vars(concurrent.futures).pop(lazy, None)
        return False

    @staticmethod
    def _drain(stream):
        from rpyc.core import brine
        out = []
        buf = stream.inbox
        while len(buf) >= 5:
            n, comp = struct.unpack("!LB", bytes(buf[:5]))
            data = bytes(buf[5:5 + n])
            if comp:
                import zlib
                data = zlib.decompress(data)
            out.append(brine.load(data))
            del buf[:5 + n + 1]
        return out

    def burst(self, messages):
        """messages: list of ('v', python value) | ('g', raw payload bytes).  Returns the decoded frames the server wrote."""
        from rpyc.core import brine
        texts = []
        for kind, m in messages:
            payload = brine.dump(m) if kind == "v" else m
            if not payload:
                # `serve()`: `if not data: return False` - an empty frame is not even looked at
                self.srv.inbox += frame(payload)
                texts.append("EMPTY")
                continue
            try:
                # the text the model gets is that of the value as the SERVER will decode it (frozenset order)
                texts.append(self.rec.val(brine.load(payload)))
            except rt.Unobservable:
                raise
            except Exception as ex:  # noqa
                texts.append("G" + valtext.err_name(ex))
            self.srv.inbox += frame(payload)
            self.sent += 1
        self.msgs.append(texts)
        if not self.ended:
            self.pump()
        if self.rec.unobservable is not None:
            raise rt.Unobservable(self.rec.unobservable)
        got = self._drain(self.peer)
        self.replies.extend(got)
        return got

    def pump(self):
        conn = self.conn
        while self.srv.inbox and not conn.closed:
            try:
                conn.serve(0)
            except rt.Unobservable:
                raise
            except BaseException as ex:  # what `serve_all` does: any exception ends the connection
                self.rec.event("ended %s" % rt.exc_name(type(ex)))
                try:
                    conn.close()
                except BaseException as ex2:  # noqa
                    self.rec.keep.append(ex2)
                self.ended = True
        if conn.closed:
            self.ended = True

    # -- what is compared
    def table_text(self):
        out = []
        for key, slot in self.conn._local_objects._dict.items():
            out.append("%s =o%d:%d" % (self.rec.val(key), self.rec.oid(slot[0]), slot[1]))
        return " , ".join(out)

    def model_line(self, cfg_text="default", maxcb=6, depth=60):
        nmsg = sum(len(b) for b in self.msgs)
        bursts = " / ".join(" ; ".join(b) for b in self.msgs)
        tape = " ; ".join(self.rec.tape)
        strtab = " ; ".join("%s => %s" % kv for kv in sorted(self.rec.strtab.items()))
        return "handlers run %s 0 %d %d %d | %s | %s | %s" % (cfg_text, maxcb, depth, 2 * nmsg + 8, bursts, tape, strtab)

    def impl_line(self):
        c = self.conn
        closed = c.closed
        return "%s | %s | closed=%s" % (" ; ".join(self.rec.events), self.table_text(), "T" if closed else "F")


def model_core(line):
    """the part of the driver's output that is compared: events | table | closed flag"""
    parts = line.split(" | ")
    if len(parts) != 3:
        return line
    return "%s | %s | %s" % (parts[0], parts[1], parts[2].split(" ")[0])


# ------------------------------------------------------------------------------------------------ generator
import concurrent.futures  # noqa: F401,E402  (loaded in the serving process; its PEP 562 hook imports submodules lazily)
INSPECT_NAMES = ["handlers_world.SPY", "handlers_world.SPY", "handlers_world.HITS", "c07hookmod.Whatever", "c07hookmod.Existing", "c07hookmod.a.b", "c07hookmod.__getattr__", "c07hookmod.Whatever",
                 "concurrent.futures.ProcessPoolExecutor", "concurrent.futures.ThreadPoolExecutor", "urllib.parse.Quoter",
                 "c07canmod_a.Boom", "c07canmod_b.X.Y", "c07canmod_a", "c07canmod_b.Boom", "sndhdr.X", "colorsys.X.Y", "chunk.Chunk",
                 "tabnanny.NannyNag", "os.system", "os.path.join", "json.decoder.JSONDecoder", "handlers_world.Thing", "canary.Foo",
                 "builtins.eval", "sys.modules", "x", "a.b.c.d", ".", "..x", "os.", ".os"]
BUILTIN_NAMES = ["builtins.int", "builtins.list", "builtins.function", "builtins.type", "builtins.dict", "builtins.str",
                 "builtins.bytes", "builtins.tuple"]
ALIAS_NAMES = ["typing.Text", "typing.Text", "builtins.str", "builtins.bytes", "typing.Tuple", "typing.ByteString", "types.FunctionType",
               "handlers_world.ATextAlias", "handlers_world.ABytesAlias", "handlers_world.AnIntAlias", "handlers_world.ATupleAlias"]
FOREIGN_NAMES = ["canary.Foo", "os.system", "builtins.eval", "c07canmod_a.Boom", "x", ""]
ATTR_NAMES = ["x", "exposed_x", "only", "exposed_only", "m", "exposed_m", "self", "pub", "pub_m", "_priv", "secret", "secret_m",
              "poke", "state", "__dunder_secret__", "__class__", "__dict__", "__init__", "__getattribute__", "__call__",
              "__repr__", "__str__", "__iter__", "__exit__", "__enter__", "__lt__", "__eq__", "__getitem__", "__hash__",
              "__len__", "__add__", "__doc__", "__new__", "next", "keys", "get", "val", "echo", "apply", "secret_call",
              "_hidden", "raise", "big", "fresh", "pair", "tag", "nonexistent", "exposed_", "", "upper", "__mro__",
              "__subclasses__", "__globals__", "__code__", "func_globals", "__reduce_ex__", "_rpyc_getattr"]
SIMPLE_VALUES = [None, True, False, 0, 1, 2, -1, 5, 1.0, 2.5, "a", "ab", "", b"", b"ab", (), (1,), (1, 2), (1, 2, 3), "abc",
                 frozenset([1, 2]), frozenset(), slice(1, 2, 3), Ellipsis, NotImplemented, complex(1, 0), 10 ** 30, float("nan"),
                 ("a", 1, 2), ((1, 2),), (("a", "b"),), "\ud800", 3.0, 4.0, 7.0, 1 + 0j,
                 "__import__('c07canmod_a')", "__import__('handlers_world').HITS.denied_call.append(('code', 'ran'))"]
CODE_STRINGS = ["__import__('c07canmod_a')", "__import__('handlers_world').HITS.denied_call.append(('code', 'ran'))",
                "__import__('pickle').dumps(0)"]


class Gen:
    """hostile messages from the model's own message type: every handler id (valid or not), every label, argument
    tuples of any arity and type, ids harvested from this connection, from another one, stale, forged"""
    def __init__(self, rng, session):
        self.r = rng
        self.s = session
        self.held = []       # id packs the server boxed to us on this connection
        self.stale = []
        self.seq = 0
        self.root = None
        self.out_seqs = []   # seqs of the server's own requests

    # -- what came back
    def learn(self, frames):
        for m in frames:
            try:
                msg, seq, args = m
            except Exception:  # noqa
                continue
            if msg == 1:
                self.out_seqs.append(seq)
            if msg == 2:
                self._harvest(args, 0)

    def _harvest(self, pkg, d):
        if d > 6 or type(pkg) is not tuple or len(pkg) != 2:
            return
        if pkg[0] == 4 and pkg[1] not in self.held:
            self.held.append(pkg[1])
        elif pkg[0] == 2 and type(pkg[1]) is tuple:
            for x in pkg[1]:
                self._harvest(x, d + 1)

    # -- pieces
    def next_seq(self):
        r = self.r
        if r.chance(1, 12):
            return r.choice([0, 1, -1, "s", None, (1, 2), 2 ** 70, 1.5, True, b"q"])
        self.seq += 1
        return self.seq + 100

    def value(self):
        return self.r.choice(SIMPLE_VALUES)

    def idpack(self):
        r = self.r
        k = r.below(16)
        if k < 7 and self.held:
            return r.choice(self.held)
        if k < 9 and self.s.other_ids:
            return r.choice(self.s.other_ids)
        if k == 9 and self.stale:
            return r.choice(self.stale)
        if k == 10 and self.held:
            n, c, i = r.choice(self.held)
            return r.choice([(n, c, i + 8), (n, c + 16, i), ("x" + n, c, i), (n, c, 0), (n, i, c), (n, c), (n, c, i, 0),
                             (n.encode(), c, i), [n, c, i] and (n, float(c), float(i)), (n, c, True)])
        if k == 11 and self.held:
            n, c, i = r.choice(self.held)
            return (n, float(c), float(i))
        if k == 12:
            return ("handlers_world.Thing", r.below(5), r.below(5))
        return self.value()

    def ref(self):
        """a package that (mostly) resolves to a held object"""
        r = self.r
        if self.held and r.chance(5, 6):
            return (3, r.choice(self.held))
        return (3, self.idpack())

    def remote(self):
        r = self.r
        k = r.below(10)
        if k < 5:
            name = r.choice(BUILTIN_NAMES)
        elif k < 8:
            name = r.choice(FOREIGN_NAMES)
        else:
            name = r.choice([5, None, b"builtins.int", ("a",), 1.5, True])
        v = r.choice([(name, r.below(4), r.below(3)), (name, r.below(4), 0), (name, r.below(3)), (name,), name,
                      (name, r.below(4), r.below(3), 9), (name, "c", b"i"), (name, 1.0, 0.0)]) if r.chance(1, 3) \
            else (name, r.below(4), r.below(3))
        return (4, v)

    def pkg(self, depth=2):
        r = self.r
        k = r.below(24)
        if k < 8:
            return (1, self.value())
        if k < 12:
            return self.ref()
        if k < 14:
            return (3, self.idpack())
        if k < 17:
            return self.remote()
        if k < 20 and depth > 0:
            return (2, tuple(self.pkg(depth - 1) for _ in range(r.below(4))))
        if k == 20:
            return (r.choice([0, 5, 99, -1, "1", None, 1.0, 2.0, 3.0, 4.0, True, (1,), 1 + 0j, 2.5]), self.value())
        if k == 21:
            return r.choice([5, None, (1,), (1, 2, 3), "ab", b"ab", "a", frozenset([1, "v"]), (), 1.5, "abc", b"\x01\x05"])
        if k == 22:
            return (2, r.choice([5, None, "ab", b"ab", "", b"", frozenset([(1, 1)]), ((1, 1), 7)]))
        if k == 23 and depth > 0:
            # several bad parts in one package: which error wins, and does anything reach the peer before it
            bad_remote = r.choice([(4, ("canary.Foo", r.below(3), 0)), (4, 5), (4, ("a",)), (9, 0), (4, (r.choice(BUILTIN_NAMES), 1, 1)),
                                   5, (1, 2, 3)])
            bad_local = (3, self.idpack()) if r.chance(2, 3) else self.ref()
            parts = [bad_remote, bad_local] if r.chance(1, 2) else [bad_local, bad_remote]
            if r.chance(1, 3):
                parts = [(2, tuple(parts))]
            return (2, tuple(parts + [self.pkg(0)]))
        return (1, self.value())

    def name(self):
        r = self.r
        k = r.below(14)
        n = r.choice(ATTR_NAMES)
        if k < 9:
            return (1, n)
        if k == 9:
            return (1, n.encode())
        if k == 10:
            return (1, r.choice([b"\xff\xfe", 5, None, ("x",), 1.5, True, frozenset()]))
        if k == 11:
            return self.ref()
        if k == 12:
            return self.remote()
        return (1, "exposed_" + n)

    def argtuple(self, items):
        """box an argument tuple the way `_box` would: by value when every member is, else LABEL_TUPLE"""
        if all(type(p) is tuple and len(p) == 2 and type(p[0]) is int and p[0] == 1 for p in items):
            if self.r.chance(3, 4):
                return (1, tuple(p[1] for p in items))
        return (2, tuple(items))

    def small_args(self):
        r = self.r
        k = r.below(8)
        if k < 4:
            return self.argtuple([self.pkg(1) for _ in range(r.below(3))])
        if k == 4:
            return self.ref()
        if k == 5:
            return self.remote()
        return (1, r.choice([(), (1,), (1, 2), "ab", 5, None, b"ab", frozenset([3]), "", b"", frozenset(), 1.5, True]))

    def handler_args(self, h):
        r = self.r
        obj = self.ref if r.chance(3, 4) else self.pkg
        if h == 1:
            items = [self.pkg()]
        elif h in (2, 3):
            items = []
        elif h in (9, 10, 12, 13):
            items = [obj()]
        elif h in (4, 5):
            items = [obj(), self.name()]
        elif h == 6:
            items = [obj(), self.name(), self.pkg()]
        elif h == 7:
            items = [obj(), self.small_args()] + ([self.kwargs()] if r.chance(1, 2) else [])
        elif h == 8:
            items = [obj(), self.name(), self.small_args()] + ([self.kwargs()] if r.chance(1, 3) else [])
        elif h == 11:
            items = [obj(), self.pkg()] + ([self.name()] if r.chance(4, 5) else [])
        elif h == 14:
            items = [obj(), (1, r.choice([0, 2, -1, None, "x"]))]
        elif h == 15:
            cnt = [(1, r.choice([1, 1, 0, 2, -1, 100, True, False, 1.5, 1.0, "1", b"1", None, (1,), frozenset([1]), 1 + 0j])),
                   self.ref(), self.remote(), (2, ((1, 1),)), (1, 1)]
            items = [obj()] + ([r.choice(cnt)] if r.chance(2, 3) else [])
        elif h == 16:
            items = [(1, self.idpack())]
        elif h == 17:
            items = [obj(), (1, r.choice([0, 1, 3, -1, None, "x", 2.0, 10 ** 20]))]
        elif h == 18:
            items = [obj(), self.name(), self.name(), self.pkg(0), (1, r.choice([None, 3, "s"])),
                     (1, r.choice([(), (1,), "ab", 5]))]
        elif h == 19:
            items = [obj(), self.pkg() if r.chance(1, 2) else self.ref()]
        elif h == 20:
            items = [obj(), (1, r.choice([self.idpack(), (r.choice(BUILTIN_NAMES), 1, 2), ("builtins.int",), 5,
                                          (r.choice(FOREIGN_NAMES), r.below(4), 0)]))]
        elif r.chance(1, 2):
            # an id that is not a handler: if something answers to it, let it meet text that would do harm if evaluated
            items = [(1, r.choice(CODE_STRINGS))] + [self.pkg() for _ in range(r.below(2))]
        else:
            items = [self.pkg() for _ in range(r.below(4))]
        k = r.below(14)
        if k == 0 and items:
            items.pop()
        elif k == 1:
            items.append(self.pkg())
        elif k == 2:
            return self.pkg()
        return self.argtuple(items)

    def kwargs(self):
        r = self.r
        k = r.below(8)
        if k < 3:
            return (1, ())
        if k == 3:
            return (1, (("a", 1),))
        if k == 4:
            return self.ref()
        if k == 5:
            return (1, r.choice([5, "ab", ((1, 2),), (1, 2), None, ("ab", "cd"), b"ab", frozenset([("a", 1)]), "", frozenset(), True]))
        if k == 6:
            return self.remote()
        return (2, ((2, ((1, "k"), self.ref())),))

    def request(self):
        r = self.r
        k = r.below(20)
        if k < 16:
            h = r.range(1, 20)
            hv = h
        elif k == 16:
            h = r.range(1, 20)
            hv = r.choice([float(h), h + 0j, True if h == 1 else float(h)])
        else:
            hv = r.choice([0, 21, 99, -1, "7", None, (7,), 2.5, b"\x07", 10 ** 20, frozenset()])
            h = 0
        if r.chance(1, 25):
            raw = r.choice([5, None, (hv,), (hv, (1, ()), 3), "ab", b"ab", frozenset([hv, (1, ())]), ()])
        else:
            raw = (hv, self.handler_args(h))
        return (1, self.next_seq(), raw)

    def exc_payload(self):
        r = self.r
        k = r.below(16)
        mod = r.choice(["builtins", "builtins", "c07canmod_a", "c07canmod_b", "os", "handlers_world", "sys", "a\x00b", 5, None,
                        "pickle", "rpyc.core.vinegar"])
        cls = r.choice(["KeyError", "ValueError", "KeyboardInterrupt", "SystemExit", "eval", "system", "Boom", "CustomErr",
                        "nonexistent", "BaseExceptionGroup", "StopIteration", 5, None, "a\x00b", "exit", "modules", "OSError"])
        args = r.choice([(), (1,), ("a", 2), 5, None, "ab", ((1, 2),)])
        attrs = r.choice([(), (("errno", 2),), (("__class__", 5),), (("_remote_version", 7),), (("_remote_version", "9.1"),),
                          (("args", 5),), ((5, 5),), 5, (("a",),), (("__dict__", 1),), (("__cause__", "x"),), (("x", 1), ("y", 2))])
        tb = r.choice(["tb", "", 5, None])
        if k < 9:
            return ((mod, cls), args, attrs, tb)
        if k == 9:
            return 1
        if k == 10:
            return r.choice(["string exception", True, 1.0, 2, None, b"x"])
        if k == 11:
            return r.choice([((mod, cls), args, attrs), ((mod, cls), args, attrs, tb, 1), ((mod,), args, attrs, tb),
                             (mod, args, attrs, tb), ((mod, cls, 1), args, attrs, tb), (), "abcd", b"abcd"])
        if k == 12:
            return (frozenset([mod if type(mod) is str else "m", cls if type(cls) is str else "c"]), args, attrs, tb) \
                if mod != cls else ((mod, cls), args, attrs, tb)
        if k == 13:
            return ("ab", args, attrs, tb)
        return ((mod, cls), args, attrs, tb)

    def response(self):
        r = self.r
        k = r.below(8)
        if self.out_seqs and k < 4:
            seq = r.choice(self.out_seqs)
        elif k < 6:
            seq = r.choice([0, 1, 2, 3, 4])
        else:
            seq = r.choice([-1, 99, "0", None, 0.0, 1.0, True, (0,), 2 ** 70])
        if r.chance(1, 2):
            body = r.choice([self.pkg(), (1, (("m", "doc"), ("__len__", None))), (1, ()), (1, (("f",),)), (1, 5),
                             (1, (("__call__", "d"), ("__iter__", ""), ("__bool__", ""))), (1, (("_rpyc_getattr", ""),)),
                             (1, (("__slots__", ""),))])
            return (2, seq, body)
        return (3, seq, self.exc_payload())

    def garbage(self):
        r = self.r
        k = r.below(6)
        if k < 3:
            return ("v", r.choice([5, None, "abc", "ab", (1, 2), (1, 2, 3, 4), (), b"\x01\x00\x00", frozenset([1, 2, 3]),
                                   (0, 1, (1, ())), (4, 1, (1, ())), ("1", 1, (1, ())), (None, 0, 0), (1.5, 0, 0), 1.0,
                                   ((1,), 2, 3), (2, 0), (3,)]))
        return ("g", r.choice([b"", b"\xff", b"\x1c", b"\x10\x05", b"\x19\x02\x00", b"\x16\x02ab", b"\x08\x0a\x01\xff",
                               b"\x18\x00\x00\x00\x09", b"\x17\x00\x00\x00\x02-", bytes([0x1a, 0x0b, 2, 0x50, 0x51]) + b"\x07"]))

    def setup_burst(self):
        """getroot, then fetch a few canaries through the exposed interface"""
        r = self.r
        out = [("v", (1, 1, (3, (1, ()))))]
        return out

    def fetch_burst(self):
        r = self.r
        out = []
        root = (3, self.held[0]) if self.held else (3, ("?", 0, 0))
        for _ in range(r.range(1, 4)):
            k = r.below(13)
            self.seq += 1
            meth = r.choice(["get", "get", "get", "pair", "fresh", "get"]) if not r.chance(1, 30) else "bigpair"
            args = () if meth in ("fresh", "bigpair") else (k,)
            out.append(("v", (1, self.seq + 100, (8, (2, (root, (1, meth), (1, args)))))))
        return out

    def callback_burst(self):
        """a request that makes the server call back (HANDLE_INSPECT for a foreign class name, or a service method that
        calls the proxy it is given), with answers to the server's next request numbers in the same burst"""
        r = self.r
        nxt = len(self.out_seqs)
        root = (3, self.held[0]) if self.held else (3, ("?", 0, 0))
        foreign = (4, (r.choice(FOREIGN_NAMES[:4]), r.below(4), r.choice([0, 0, 1])))
        self.seq += 1
        k = r.below(4)
        if k == 0:
            first = (1, self.seq + 100, (1, (2, (foreign,))))
        elif k == 1:
            first = (1, self.seq + 100, (8, (2, (root, (1, "apply"), (2, ((4, (r.choice(BUILTIN_NAMES), 1, 1)), (1, 5)))))))
        elif k == 2:
            first = (1, self.seq + 100, (r.choice([9, 10, 12, 13, 7]), (2, ((4, (r.choice(BUILTIN_NAMES), 1, 1)),))))
        else:
            first = (1, self.seq + 100, (8, (2, (root, (1, "echo"), (2, (foreign,))))))
        out = [("v", first)]
        for j in range(r.range(1, 3)):
            kk = r.below(6)
            seq = nxt + r.below(2) if kk < 5 else r.choice([nxt + 5, -1])
            if kk < 3:
                body = r.choice([(1, (("m", "doc"), ("__len__", None))), (1, ()), (1, (("__call__", "d"), ("__iter__", ""))),
                                 (1, 5), (1, (("f",),)), self.pkg(1), (1, "text"), (1, (("_rpyc_getattr", ""),))])
                out.append(("v", (2, seq, body)))
            elif kk < 5:
                out.append(("v", (3, seq, self.exc_payload())))
            else:
                out.append(("v", self.request()))
        if r.chance(1, 2):
            out.append(("v", self.request()))
        return out

    def inspect_burst(self):
        """a request with an argument boxed as REMOTE_REF of a non-builtin class name - the server asks us (HANDLE_INSPECT) -
        and OUR well-formed answer to that very request in the same burst, so that `netref.class_factory` runs on the name"""
        r = self.r
        nxt = len(self.out_seqs)
        name = r.choice(INSPECT_NAMES)
        ref = (4, (name, r.below(50), r.choice([0, 0, 1])))
        self.seq += 1
        root = (3, self.held[0]) if self.held else (3, ("?", 0, 0))
        first = r.choice([(1, self.seq + 100, (1, (2, (ref,)))),
                          (1, self.seq + 100, (8, (2, (root, (1, "echo"), (2, (ref,)))))),
                          (1, self.seq + 100, (9, (2, (ref,))))])
        methods = r.choice([(), (), (("m", "doc"),), (("__len__", None), ("f", "")), (("__call__", "d"),)])
        out = [("v", first), ("v", (2, nxt, (1, methods)))]
        if r.chance(1, 3):
            out.append(("v", (2, nxt + 1, (1, ()))))
        return out

    def foreign_burst(self):
        """identifiers that were boxed to ANOTHER connection's peer (who still holds them, released them, or is gone)"""
        r = self.r
        out = []
        for _ in range(r.range(1, 3)):
            idp = r.choice(self.s.other_ids)
            self.seq += 1
            h = r.choice([4, 7, 8, 9, 10, 15, 12, 13])
            obj = (3, idp)
            if h == 4:
                args = (2, (obj, (1, r.choice(["exposed_x", "x", "secret", "__repr__"]))))
            elif h == 7:
                args = (2, (obj, (1, ()), (1, ())))
            elif h == 8:
                args = (2, (obj, (1, r.choice(["m", "exposed_m", "poke", "secret_call"])), (1, ()), (1, ())))
            elif h == 15:
                args = (2, (obj, (1, r.choice([1, 100]))))
            else:
                args = (2, (obj,))
            out.append(("v", (1, self.seq + 100, (h, args))))
        return out

    def cmp_hook_burst(self):
        """HANDLE_CMP on a held object whose OWN class decides attribute access (`_rpyc_getattr`), with operator names that are
        on the safe list but that the object's hook refuses: its policy, not the connection's, is the one that counts"""
        r = self.r
        mine = [i for i in self.held if type(i) is tuple and len(i) == 3 and type(i[0]) is str
                and (i[0].endswith(".Hooked") or i[0].endswith(".Restricted"))]
        if not mine:
            self.seq += 1
            root = (3, self.held[0]) if self.held else (3, ("?", 0, 0))
            return [("v", (1, self.seq + 100, (8, (2, (root, (1, "get"), (1, (4,)))))))]     # fetch the Hooked canary
        out = []
        for _ in range(r.range(1, 3)):
            self.seq += 1
            op = r.choice(["__getitem__", "__iter__", "__lt__", "__hash__", "__repr__", "__str__", "__len__", "__eq__", "__call__",
                           "__contains__", "__getattribute__", "__bool__", "__enter__"])
            out.append(("v", (1, self.seq + 100, (11, (2, ((3, r.choice(mine)), (1, r.choice([0, "k", "x"])), (1, op)))))))
        return out

    def proxy_attr_burst(self):
        """GETATTR / CALLATTR whose TARGET is one of the peer's own objects (a REMOTE_REF: a proxy on the serving side) and
        whose name is one that proxies answer from local state; the class names make the proxy's `__class__` resolve to
        objects of the serving process.  All must be refused like any other denied name."""
        r = self.r
        nxt = len(self.out_seqs)
        cname = r.choice(["builtins.object", "builtins.int", "os.environ", "sys.modules", "handlers_world.HITS", "os.path",
                          "rpyc.core.protocol.DEFAULT_CONFIG", "builtins.type", "os.environ"])
        target = (4, (cname, 500 + r.below(50), r.choice([1, 2, 0])))
        name = r.choice(["____conn__", "____id_pack__", "__class__", "__doc__", "____refcount__", "__dict__", "__weakref__",
                         "__slots__", "__call__", "__class__", "____conn__"])
        self.seq += 1
        if r.chance(2, 3):
            first = (1, self.seq + 100, (4, (2, (target, (1, name)))))
        else:
            first = (1, self.seq + 100, (8, (2, (target, (1, name), (1, ()), (1, ())))))
        out = [("v", first)]
        k = nxt
        if not cname.startswith("builtins."):
            out.append(("v", (2, k, (1, ()))))          # our answer to HANDLE_INSPECT
            k += 1
        for _ in range(r.below(3)):
            out.append(("v", (2, k, r.choice([(1, False), (1, None), (1, "x")]))))   # answers to whatever it asks next
            k += 1
        return out

    def nested_exception_burst(self):
        """make the serving side wait for US inside a handler (a service method that calls the proxy it is given, or the
        class round trip of a new proxy) and answer that nested request with an exception naming a builtin class - every
        BaseException subclass, KeyboardInterrupt / SystemExit / GeneratorExit and their kin included"""
        import builtins
        r = self.r
        nxt = len(self.out_seqs)
        names = sorted(n for n, v in vars(builtins).items() if isinstance(v, type) and issubclass(v, BaseException))
        cls = r.choice(names + ["KeyboardInterrupt", "SystemExit", "GeneratorExit", "BaseException"] * 6)
        root = (3, self.held[0]) if self.held else (3, ("?", 0, 0))
        self.seq += 1
        if r.chance(2, 3):
            first = (1, self.seq + 100, (8, (2, (root, (1, "apply"), (2, ((4, ("builtins.function", 600 + r.below(50), 1)), (1, 5)))))))
        else:
            first = (1, self.seq + 100, (1, (2, ((4, ("canary.Foo", 600 + r.below(50), 1)),))))
        payload = (("builtins", cls), r.choice([(), (1,), ("x", 2)]), (), "tb")
        return [("v", first), ("v", (3, nxt, payload)), ("v", (1, self.seq + 1100, (1, (1, ("still served?",)))))]

    def alias_name_burst(self):
        """the attribute NAME (or CMP operator, or old-slicing method name) by reference: a REMOTE_REF whose class name the
        serving process resolves to str / bytes / int / tuple, followed by the answers a peer would give when asked to
        stand in for the name - harmless while the name is being checked, a denied name when it is used"""
        r = self.r
        ids = [i for i in self.held if type(i) is tuple and len(i) == 3]
        if not ids:
            return self.fetch_burst()
        nxt = len(self.out_seqs)
        target = r.choice(ids)
        is_root = target[0].endswith("CanarySvc")
        evil = (4, (r.choice(ALIAS_NAMES), r.below(50) + 100, r.choice([1, 2, 7])))
        self.seq += 1
        h = r.choice([4, 4, 8, 8, 5, 6, 11, 18])
        o = (3, target)
        if h == 4 or h == 5:
            items = [o, evil]
        elif h == 6:
            items = [o, evil, (1, 0)]
        elif h == 8:
            items = [o, evil, (1, ()), (1, ())]
        elif h == 11:
            items = [o, (1, 0), evil]
        else:
            items = [o, evil, evil if r.chance(1, 2) else (1, "__getitem__"), (1, 0), (1, 1), (1, ())]
        out = [("v", (1, self.seq + 100, (h, (2, tuple(items)))))]
        good = "exposed_val" if is_root else "exposed_x"
        denied = r.choice(["secret", "poke", "secret_call", "_hidden"] if is_root else ["secret", "poke", "_priv", "secret_m", "pub_m"])
        methods = (("startswith", ""), ("__radd__", ""), ("decode", ""), ("__add__", ""), ("encode", ""))
        # the server's questions, in the order it would ask them if it took the proxy for a name: the class's methods
        # (HANDLE_INSPECT), `name.startswith` (GETATTR: a function of ours, by reference), calling it, `hash(name)`,
        # `prefix + name` twice (`__radd__`): an exposed name while it is being checked, a denied one when it is used
        script = [(1, methods), (4, ("builtins.function", 7, 7)), (1, False), (1, 987654321 + r.below(1000)), (1, good), (1, denied),
                  (1, denied), (1, ())]
        if r.chance(1, 4):
            script = [(1, methods), (1, r.choice([True, "exposed_x", 5])), (1, r.below(100)), (1, denied), (1, good)]
        k = nxt
        if evil[1][0].startswith("builtins."):
            script = script[1:]                 # a builtin class name: the server does not ask for the methods
        for body in script:
            out.append(("v", (2, k, body)))
            k += 1
        return out

    def views_burst(self):
        """fetch the restricted views the service hands out and try to read, write and delete through them"""
        r = self.r
        if not self.held:
            return self.fetch_burst()
        root = (3, self.held[0])
        out = []
        views = [i for i in self.held if type(i) is tuple and len(i) == 3 and type(i[0]) is str and i[0].endswith("Restricted")]
        if len(views) < 2 or r.chance(1, 4):
            for k in r.shuffle([0, 1, 2, 3])[:r.range(2, 4)]:
                self.seq += 1
                out.append(("v", (1, self.seq + 100, (8, (2, (root, (1, "view"), (1, (k,))))))))
            return out
        for _ in range(r.range(2, 4)):
            v = (3, r.choice(views))
            n = (1, r.choice(VIEW_NAMES + ["secret", "tag", "__dict__"]))
            self.seq += 1
            k = r.below(6)
            if k < 3:
                out.append(("v", (1, self.seq + 100, (6, (2, (v, n, (1, r.choice([0, "overwritten", 10 ** 9]))))))))
            elif k == 3:
                out.append(("v", (1, self.seq + 100, (5, (2, (v, n))))))
            else:
                out.append(("v", (1, self.seq + 100, (4, (2, (v, n))))))
        return out

    def readwrite_burst(self):
        """read an exposed / safe name on a held canary, then write / delete / call the SAME name on the same object or on
        another held object of the same class (setattr and delattr are off by default: the statement wants refusals)"""
        r = self.r
        mine = [i for i in self.held if type(i) is tuple and len(i) == 3 and type(i[0]) is str
                and i[0].startswith("handlers_world.") and not i[0].endswith("CanarySvc")]
        if not mine:
            return self.fetch_burst()
        a = r.choice(mine)
        same = [i for i in mine if i[0] == a[0]]
        name = r.choice(["x", "exposed_x", "only", "exposed_only", "m", "exposed_m", "__repr__", "__str__", "__doc__", "__lt__",
                         "__hash__", "__call__", "self", "exposed_self"])
        out = []

        def req(h, items):
            self.seq += 1
            out.append(("v", (1, self.seq + 100, (h, (2, tuple(items))))))
        req(4, [(3, a), (1, name)])
        for _ in range(r.range(1, 3)):
            b = r.choice(same)
            k = r.below(4)
            if k == 0:
                req(6, [(3, b), (1, name), (1, r.choice([0, "overwritten", None]))])
            elif k == 1:
                req(5, [(3, b), (1, name)])
            elif k == 2:
                req(8, [(3, b), (1, name), (1, ()), (1, ())])
            else:
                req(4, [(3, b), (1, name)])
        return out

    def denied_names_burst(self):
        """the names another connection of this process may have been configured to allow: on THIS (default) connection
        getattr / callattr / cmp with them must be refused"""
        r = self.r
        ids = [i for i in self.held if type(i) is tuple and len(i) == 3]
        if not ids:
            return self.fetch_burst()
        out = []
        for _ in range(r.range(1, 3)):
            o = (3, r.choice(ids))
            n = (1, r.choice(["secret", "secret_m", "pub", "pub_m", "poke", "_priv", "_hidden", "secret_call", "__dunder_secret__"]))
            self.seq += 1
            k = r.below(3)
            if k == 0:
                out.append(("v", (1, self.seq + 100, (4, (2, (o, n))))))
            elif k == 1:
                out.append(("v", (1, self.seq + 100, (8, (2, (o, n, (1, ()), (1, ())))))))
            else:
                out.append(("v", (1, self.seq + 100, (11, (2, (o, (1, 0), n))))))
        return out

    def hostile_burst(self):
        r = self.r
        if self.held and r.chance(1, 14):
            return self.cmp_hook_burst()
        if r.chance(1, 12):
            return self.proxy_attr_burst()
        if r.chance(1, 12):
            return self.nested_exception_burst()
        if self.held and r.chance(1, 8):
            return self.alias_name_burst()
        if self.held and r.chance(1, 9):
            return self.views_burst()
        if self.held and r.chance(1, 7):
            return self.readwrite_burst()
        if self.held and r.chance(1, 9):
            return self.denied_names_burst()
        if r.chance(1, 6):
            return self.inspect_burst()
        if self.s.other_ids and r.chance(1, 8):
            return self.foreign_burst()
        if r.chance(1, 7):
            return self.callback_burst()
        n = r.choice([1, 1, 1, 2, 2, 3, 4])
        out = []
        for _ in range(n):
            k = r.below(24)
            if k < 18 or (k == 21 and not self.held):
                out.append(("v", self.request()))
            elif k < 21:
                out.append(("v", self.response()))
            elif k == 21:
                # release something we hold (it becomes stale)
                idp = r.choice(self.held)
                self.seq += 1
                out.append(("v", (1, self.seq + 100, (15, (2, ((3, idp), (1, r.choice([1, 1, 1, 100, 0, -1, -5]))))))))
                self.stale.append(idp)
            else:
                out.append(self.garbage())
        return out


def run_session(rng, n_bursts, config=None, cfg_text="default"):
    """one generated session; returns (session object after completion, description of what was sent)"""
    desc = []
    phase = rng.choice(["holding", "holding", "released", "closed"])
    second_cfg = rng.choice(SECOND_CONFIGS)
    second_first = rng.chance(1, 2)
    with Session(config=config, second_phase=phase, second_cfg=second_cfg, second_first=second_first) as s:
        g = Gen(rng, s)
        plan = [g.setup_burst] if rng.chance(9, 10) else []
        for b in range(n_bursts):
            if s.ended:
                break
            if plan:
                maker = plan.pop(0)
            elif b < 3 and g.held and rng.chance(3, 4):
                maker = g.fetch_burst
            elif g.held and rng.chance(1, 8):
                maker = g.fetch_burst
            else:
                maker = g.hostile_burst
            msgs = maker()
            desc.append([(k, repr(m)[:300]) for k, m in msgs])
            got = s.burst(msgs)
            g.learn(got)
        s.phase = phase
        s.second_desc = "other connection: %s, opened %s, config %s" % (
            phase, "first" if second_first else "second",
            "default" if not second_cfg else sorted((k, sorted(v) if isinstance(v, set) else v) for k, v in second_cfg.items()))
        s.final_impl = s.impl_line()
        s.final_model_line = s.model_line(cfg_text)
        s.gen = g
        s.hits = dict(denied_attr=list(HITS.denied_attr), denied_call=list(HITS.denied_call), keys=list(HITS.keys_calls),
                      special=list(HITS.special), module_hooks=list(HITS.module_hooks),
                      module_object_reads=list(HITS.module_object_reads),
                      state_writes=list(HITS.state_writes), pickle=list(rt.PICKLE_LOG), imports=list(rt.IMPORT_LOG),
                      imported=list(IMPORTED), new_modules=sorted(m for m in set(sys.modules) - s.modules_before
                                                                 if not m.startswith("encodings")),
                      svc_state=s.svc.state, table=list(s.conn._local_objects._dict.keys()) if not s.conn.closed else [])
    return s, desc
