"""Generated constants of layer L9 "Registry" (rpyc/utils/registry.py) -> lean/RpycModel/Gen/Registry.lean.
Discovered by gen_consts.py through SECTIONS.

Data read from the live module: REGISTRY_PORT, DEFAULT_PRUNING_TIMEOUT, MAX_DGRAM_SIZE, the servers' socket
TIMEOUTs and the clients' REREGISTER_INTERVAL / default reply timeout, the `cmd_*` methods of RegistryServer with
the number of positional parameters each takes after `host` (inspect.signature).

Facts that are not data are OBSERVED by running the live code over stand-ins (never read off its syntax, so
behaviour-preserving rewrites - module constants, helper functions, renames, f-strings - change nothing here):
  * the (magic, command) of every request the six client methods send: recorded on a stand-in for the `socket`
    module in the registry's namespace (restored afterwards) and decoded with the live brine;
  * the magic: the one candidate (what the clients send, plus every short text constant of the module) under which
    the live `_work` loop (scripted `_recv`/`_send`) answers a query;
  * the acknowledgement: what that loop answers a well-formed register and unregister with;
  * whether `TCPRegistryServer._recv` closes the sockets of earlier requests that were never answered.

The control flow of `_work` and of the three commands is modelled by hand in lean/RpycModel/Srv/Registry.lean
and tied to the code by the C18 correspondence.
"""
import ast
import inspect
import socket

from gen_consts import Inexpressible, lean_list, lean_str


def _nat(name, v):
    if type(v) is not int or v < 0:
        raise Inexpressible("%s is not a natural number: %r" % (name, v))
    return v


def _ms(name, v):
    if type(v) not in (int, float) or v < 0 or v != v or v in (float("inf"),):
        raise Inexpressible("%s is not a finite non-negative number of seconds: %r" % (name, v))
    ms = round(v * 1000)
    if ms != v * 1000:
        raise Inexpressible("%s = %r is not a whole number of milliseconds" % (name, v))
    return ms


def _cps(s):
    return lean_list([str(ord(c)) for c in s], 16)


# ---------------------------------------------------------------------------------------------------------------
# Facts that are not data are OBSERVED on the live code rather than read off its syntax, so that renames, helper
# functions, module-level constants, f-strings etc. change nothing here: the clients' requests are what the real
# client methods hand to a recording socket; the magic and the acknowledgement are what the real `_work` loop
# (scripted `_recv` / `_send`) accepts and answers.

class _NullLogger:
    def _n(self, *a, **k):
        pass
    debug = info = warn = warning = error = exception = critical = _n


class _RecordingSocket:
    """what the client methods need of a socket; nothing ever answers"""
    def __init__(self, log):
        self.log = log

    def _ok(self, *a, **k):
        return None
    bind = setsockopt = settimeout = connect = close = shutdown = _ok

    def sendto(self, data, addr):
        self.log.append(bytes(data))
        return len(data)

    def send(self, data):
        self.log.append(bytes(data))
        return len(data)
    sendall = send

    def recvfrom(self, n):
        raise socket.timeout("nobody answers")

    def recv(self, n):
        raise socket.timeout("nobody answers")

    def __enter__(self):
        return self

    def __exit__(self, *a):
        return False


class _SocketModule:
    """stands in for the `socket` module inside rpyc.utils.registry: everything is the real thing except `socket()`"""
    def __init__(self, log):
        self._log = log

    def socket(self, *a, **k):
        return _RecordingSocket(self._log)

    def create_connection(self, *a, **k):
        return _RecordingSocket(self._log)

    def __getattr__(self, name):
        return getattr(socket, name)


PROBE_NAME, PROBE_PORT = "probe", 18999


def client_requests(reg):
    """(class, method, magic, command) of what each real client method sends, decoded with the live brine"""
    from rpyc.core import brine
    out = []
    saved = reg.socket
    try:
        for cls in (reg.UDPRegistryClient, reg.TCPRegistryClient):
            for meth, args in (("discover", (PROBE_NAME,)), ("register", ((PROBE_NAME,), PROBE_PORT)), ("unregister", (PROBE_PORT,))):
                log = []
                reg.socket = _SocketModule(log)
                try:
                    cli = cls(ip="127.0.0.1", port=1, timeout=0.01, logger=_NullLogger())
                    getattr(cli, meth)(*args)
                except Exception as ex:  # noqa
                    raise Inexpressible("%s.%s does not run over a recording socket: %r" % (cls.__name__, meth, ex))
                finally:
                    reg.socket = saved
                if len(log) != 1:
                    raise Inexpressible("%s.%s sent %d messages, expected one request" % (cls.__name__, meth, len(log)))
                try:
                    v = brine.load(log[0])
                except Exception as ex:  # noqa
                    raise Inexpressible("%s.%s sent bytes brine cannot load: %r" % (cls.__name__, meth, ex))
                if not (type(v) is tuple and len(v) == 3 and type(v[0]) is str and type(v[1]) is str and type(v[2]) is tuple):
                    raise Inexpressible("%s.%s sent %r, not (magic text, command text, args tuple)" % (cls.__name__, meth, v))
                out.append((cls.__name__, meth, v[0], v[1], log[0], len(v[2])))
    finally:
        reg.socket = saved
    return out


class _BrineProxy:
    """stands in for `brine` inside rpyc.utils.registry: the real module, except that while `armed` every dump of a
    tuple raises RecursionError (what the interpreter does for a stored port nested near its recursion limit)"""
    def __init__(self, real):
        self._real, self.armed = real, False

    def dump(self, obj):
        if self.armed and type(obj) is tuple:
            raise RecursionError("maximum recursion depth exceeded")
        return self._real.dump(obj)

    def __getattr__(self, name):
        return getattr(self._real, name)


def dump_fault_probe(reg, magic, reqs):
    """(is the reply's `brine.dump` guarded, does `cmd_register` refuse an address it could not send back) - observed on
    the live `_work`: with dumping armed during a register only, is the register refused (a later query does not list
    it); with dumping armed during a query only, does the loop go on and answer the next query"""
    from rpyc.core import brine
    regc = [c for _c, m, _mg, c, _d, _n in reqs if m == "register"][0]
    qc = [c for _c, m, _mg, c, _d, _n in reqs if m == "discover"][0]
    R = brine.dump((magic, regc, ((PROBE_NAME,), PROBE_PORT)))
    Q = brine.dump((magic, qc, (PROBE_NAME,)))
    saved = reg.brine
    proxy = _BrineProxy(brine)
    reg.brine = proxy
    try:
        r1 = serve(reg, [R, Q], survive=False, on_recv=lambda i: setattr(proxy, "armed", i == 0))
        proxy.armed = False
        r2 = serve(reg, [R, Q, Q], survive=False, on_recv=lambda i: setattr(proxy, "armed", i == 1))
    finally:
        reg.brine = saved
    if r1 is None:
        raise Inexpressible("a register whose address cannot be dumped ends the loop")
    if r1[1] == ():
        refuses = True
    elif r1[1] == (("10.9.9.9", PROBE_PORT),):
        refuses = False
    else:
        raise Inexpressible("after a register under a failing dump a query answered %r" % (r1[1],))
    if r2 is None:
        return False, refuses
    if r2[1] is not None or r2[2] != (("10.9.9.9", PROBE_PORT),):
        raise Inexpressible("after a reply that cannot be dumped the registry answered %r / %r" % (r2[1], r2[2]))
    return True, refuses


def serve(reg, datagrams, logger=None, survive=True, on_recv=None):
    """run the live `RegistryServer._work` over the datagrams (scripted `_recv` / `_send`); returns the reply to each
    (None = none); raises Inexpressible if the loop does not survive (unless survive=False: then returns None)"""
    from rpyc.core import brine

    class Probe(reg.RegistryServer):
        def _get_logger(self):
            return _NullLogger()

        def _recv(self):
            if self.i >= len(datagrams):
                if on_recv:
                    on_recv(-1)
                self.active = False
                raise socket.timeout("done")
            if on_recv:
                on_recv(self.i)
            self.i += 1
            return datagrams[self.i - 1], ("10.9.9.9", 40000)

        def _send(self, data, addrinfo):
            self.replies[self.i - 1] = brine.load(data)

    class L:
        def getsockname(self):
            return ("0.0.0.0", 0)

        def close(self):
            pass
    srv = Probe(L(), logger=logger or _NullLogger())
    srv.i, srv.replies, srv.active = 0, {}, True
    try:
        srv._work()
    except Exception as ex:  # noqa
        if not survive:
            return None
        raise Inexpressible("RegistryServer._work does not run over scripted _recv/_send: %r" % (ex,))
    return [srv.replies.get(k) for k in range(len(datagrams))]


def module_texts(reg):
    """short text constants anywhere in the module (only as further candidates for the magic)"""
    out = set()
    try:
        for n in ast.walk(ast.parse(inspect.getsource(reg))):
            if isinstance(n, ast.Constant) and type(n.value) is str and 0 < len(n.value) <= 16 and "%" not in n.value:
                out.add(n.value)
    except Exception:  # noqa
        pass
    return out


def observe_protocol(reg):
    """(magic the server accepts, acknowledgement it answers, client requests)"""
    from rpyc.core import brine
    reqs = client_requests(reg)
    table = dict(command_table(reg))
    queries = [c for _c, m, _mg, c, _d, _n in reqs if m == "discover"]
    qcmd = queries[0] if queries else ("QUERY" if "query" in table else None)
    if qcmd is None:
        raise Inexpressible("no query request to probe the magic with")
    cands = sorted(set(mg for _c, _m, mg, _cmd, _d, _n in reqs) | module_texts(reg))
    # a query for a name nobody registered is answered (with an empty tuple) exactly when the magic is right
    replies = serve(reg, [brine.dump((mg, qcmd, ("no-such-service",))) for mg in cands])
    accepted = [mg for mg, r in zip(cands, replies) if r is not None]
    if len(accepted) != 1:
        raise Inexpressible("the registry answers a query under %d of the candidate magics %r (expected exactly one): %r"
                            % (len(accepted), cands[:12], accepted))
    magic = accepted[0]
    # the acknowledgement: what a well-formed register and unregister are answered with
    regc = [c for _c, m, _mg, c, _d, _n in reqs if m == "register"]
    unrc = [c for _c, m, _mg, c, _d, _n in reqs if m == "unregister"]
    if not regc or not unrc:
        raise Inexpressible("the clients send no register / unregister request")
    acks = serve(reg, [brine.dump((magic, regc[0], ((PROBE_NAME,), PROBE_PORT))), brine.dump((magic, unrc[0], (PROBE_PORT,)))])
    texts = [a for a in acks if type(a) is str]
    if not texts or len(set(texts)) != 1:
        # (a command that fails to acknowledge at all is a matter for the correspondence and the oracle, not for the translator)
        raise Inexpressible("register / unregister are acknowledged with %r / %r, not one text" % (acks[0], acks[1]))
    return magic, texts[0], reqs


HASH_SAMPLES = [("None", None), ("NotImpl", NotImplemented), ("Ellipsis", Ellipsis), ("Bool", True), ("Int", 7), ("Float", 1.5),
                ("Complex", 1j), ("Bytes", b"x"), ("Str", "x"), ("Tuple", ()), ("Fset", frozenset()), ("Slice", slice(1, 2, 3))]


def hashability():
    """is a value of each brine type usable as a dict key on the running interpreter (slice: from 3.12 on)"""
    out = []
    for name, v in HASH_SAMPLES:
        try:
            hash(v)
            out.append((name, True))
        except TypeError:
            out.append((name, False))
    return out


def real_logger_survives(reg, magic):
    """does the live `_work` survive its logging paths - the two warnings (wrong magic, unknown command; `Logger.warn` is
    deprecated and gone from 3.13 on, and both calls sit outside every try) and logger.exception after a command that
    raised - with a real logging.Logger"""
    import logging
    import warnings
    from rpyc.core import brine
    lg = logging.Logger("rpyc-verif-gen-probe")
    lg.addHandler(logging.NullHandler())
    with warnings.catch_warnings():
        warnings.simplefilter("ignore")
        cmds = [n for n, _a in command_table(reg)]
        r = serve(reg, [brine.dump((magic + "?", "QUERY", ("x",))), brine.dump((magic, "no-such-command", ())),
                        brine.dump((magic, 5, ()))]
                  + [brine.dump((magic, n, (5, 5, 5, 5, 5))) for n in cmds]          # logger.exception: the command raises
                  + [brine.dump((magic, n, (5,))) for n in cmds], logger=lg, survive=False)
    return r is not None


def command_table(reg):
    """[(name after 'cmd_', number of positional parameters after self and host)]"""
    out = []
    for attr in sorted(dir(reg.RegistryServer)):
        if not attr.startswith("cmd_"):
            continue
        fn = getattr(reg.RegistryServer, attr)
        if not inspect.isfunction(fn):
            raise Inexpressible("RegistryServer.%s is not a plain method" % attr)
        params = list(inspect.signature(fn).parameters.values())
        if len(params) < 2 or any(p.kind is not p.POSITIONAL_OR_KEYWORD or p.default is not p.empty for p in params):
            raise Inexpressible("RegistryServer.%s%s: only plain positional parameters are modelled"
                                % (attr, inspect.signature(fn)))
        out.append((attr[4:], len(params) - 2))
    for cls in (reg.UDPRegistryServer, reg.TCPRegistryServer):
        for attr in dir(cls):
            if attr.startswith("cmd_") and getattr(cls, attr) is not getattr(reg.RegistryServer, attr, None):
                raise Inexpressible("%s.%s differs from RegistryServer's: per-transport commands are not modelled" % (cls.__name__, attr))
    return out


class _ProbeSock:
    """an accepted TCP connection that delivers `data` at once"""
    def __init__(self, peer, data, on_recv=None):
        self.peer, self.data, self.on_recv = peer, data, on_recv
        self.closed = False
        self.sent = None

    def getpeername(self):
        return self.peer

    def settimeout(self, t):
        pass

    def recv(self, n):
        if self.on_recv:
            self.on_recv()
        return self.data[:n]

    def send(self, data):
        self.sent = data
        return len(data)

    def close(self):
        self.closed = True


def tcp_recv_closes_unreplied(reg, magic, reqs):
    """run the live TCP `_work` (real `_recv` / `_send`) over a stand-in listener: a client whose request gets no reply
    (wrong magic), then a client with a query.  Observed at the moment the SECOND client's request is read: is the first
    client's socket closed by then (wherever the code does it: on entering `_recv`, at the `continue`, ...)"""
    from rpyc.core import brine
    qc = [c for _c, m, _mg, c, _d, _n in reqs if m == "discover"][0]
    seen = {}
    a = _ProbeSock(("probe", 1), brine.dump((magic + "?", qc, ("x",))))
    b = _ProbeSock(("probe", 2), brine.dump((magic, qc, ("x",))), on_recv=lambda: seen.setdefault("a_closed", a.closed))
    srv = object.__new__(reg.TCPRegistryServer)
    queue = [a, b]

    class Listener:
        def getsockname(self):
            return ("0.0.0.0", 0)

        def accept(self):
            if not queue:
                srv.active = False
                raise socket.timeout("done")
            s = queue.pop(0)
            return s, s.peer

        def close(self):
            pass
    try:
        reg.RegistryServer.__init__(srv, Listener(), logger=_NullLogger())
        srv._connected_sockets = {}
        srv.active = True
        srv._work()
    except Exception as ex:  # noqa
        raise Inexpressible("TCPRegistryServer._work does not run over stand-in sockets: %r" % (ex,))
    if "a_closed" not in seen or b.sent is None or not b.closed:
        raise Inexpressible("the TCP registry did not read and answer the second of two stand-in clients")
    return bool(seen["a_closed"])


def gen_registry():
    from rpyc.utils import registry as reg
    L = ["namespace Rpyc.Gen", ""]
    L += ["/-- `REGISTRY_PORT`, `DEFAULT_PRUNING_TIMEOUT` (seconds), `MAX_DGRAM_SIZE` -/",
          "def registryPort : Nat := %d" % _nat("REGISTRY_PORT", reg.REGISTRY_PORT),
          "def defaultPruningTimeoutMs : Nat := %d" % _ms("DEFAULT_PRUNING_TIMEOUT", reg.DEFAULT_PRUNING_TIMEOUT),
          "def maxDgramSize : Nat := %d" % _nat("MAX_DGRAM_SIZE", reg.MAX_DGRAM_SIZE)]
    L += ["", "/-- `UDPRegistryServer.TIMEOUT`, `TCPRegistryServer.TIMEOUT`, `RegistryClient.REREGISTER_INTERVAL` (milliseconds) -/",
          "def udpServerTimeoutMs : Nat := %d" % _ms("UDPRegistryServer.TIMEOUT", reg.UDPRegistryServer.TIMEOUT),
          "def tcpServerTimeoutMs : Nat := %d" % _ms("TCPRegistryServer.TIMEOUT", reg.TCPRegistryServer.TIMEOUT),
          "def reregisterIntervalMs : Nat := %d" % _ms("RegistryClient.REREGISTER_INTERVAL", reg.RegistryClient.REREGISTER_INTERVAL)]
    for cls in (reg.UDPRegistryClient, reg.TCPRegistryClient):
        p = inspect.signature(cls.__init__).parameters.get("timeout")
        if p is None or p.default is p.empty:
            raise Inexpressible("%s.__init__ has no default `timeout`" % cls.__name__)
        L.append("def %sClientTimeoutMs : Nat := %d" % (cls.__name__[:3].lower(), _ms(cls.__name__ + " timeout", p.default)))
    magic, ack, reqs = observe_protocol(reg)
    L += ["", "/-- the one first field under which the live `_work` answers a query (observed), as code points -/",
          "def magic : List Nat := " + _cps(magic), "def magicText : String := " + lean_str(magic)]
    table = command_table(reg)
    L += ["", "/-- the `cmd_*` methods of `RegistryServer` (live class): name after the prefix, and the number of",
          "positional parameters after `self, host` (inspect.signature) -/",
          "def cmdNames : List String := " + lean_list([lean_str(n) for n, _ in table]),
          "def cmdTable : List (List Nat × Nat) := " + lean_list(["(%s, %d)" % (_cps(n), a) for n, a in table], 1)]
    L += ["", "/-- what the live `_work` answers a well-formed register and unregister with (observed), as code points -/",
          "def ackReply : List Nat := " + _cps(ack), "def ackReplyText : String := " + lean_str(ack)]
    L += ["", "/-- (magic, command) of what the six real client methods send (observed on a recording socket) -/",
          "def clientRequests : List (String × String) := " + lean_list(
              sorted(set("(%s, %s)" % (lean_str(m), lean_str(c)) for _, _, m, c, _d, _n in reqs)), 3),
          "/-- ... with the number of arguments each carries -/",
          "def clientRequestArgs : List (String × Nat) := " + lean_list(
              sorted(set("(%s, %d)" % (lean_str(c), n) for _, _, _m, c, _d, n in reqs)), 3)]
    hs = hashability()
    L += ["", "/-- can a value of each brine type be a dict key on the interpreter the checks run under (measured with hash()) -/"]
    for name, ok in hs:
        L.append("def hash%s : Bool := %s" % (name, "true" if ok else "false"))
    L += ["def allBrineValuesHashable : Bool := " + " && ".join("hash%s" % n for n, _ in hs)]
    import sys
    L += ["", "/-- the interpreter the facts above were measured on -/",
          "def interpreterVersion : String := %s" % lean_str("%d.%d.%d" % sys.version_info[:3])]
    L += ["", "/-- does the live `_work` survive its two `logger.warn` paths (wrong magic, unknown command) with a real",
          "logging.Logger (observed) -/",
          "def realLoggerSurvivesWarn : Bool := %s" % ("true" if real_logger_survives(reg, magic) else "false")]
    guarded, refuses = dump_fault_probe(reg, magic, reqs)
    L += ["", "/-- is `brine.dump(reply)` guarded: does the live `_work` go on when it raises (observed with a stand-in for `brine`",
          "in the registry's namespace whose dump raises RecursionError during one query) -/",
          "def replyDumpGuarded : Bool := %s" % ("true" if guarded else "false"),
          "", "/-- does `cmd_register` refuse an address that cannot be dumped, i.e. that no reply could carry (observed the same way,",
          "the dump failing during one register) -/",
          "def registerChecksSendable : Bool := %s" % ("true" if refuses else "false")]
    closes = tcp_recv_closes_unreplied(reg, magic, reqs)
    L += ["", "/-- is the socket of a TCP request that got no reply closed by the time the next client's request is read (observed",
          "by running the live TCP `_work` over a stand-in listener with two clients) -/",
          "def tcpRecvClosesUnreplied : Bool := %s" % ("true" if closes else "false")]
    L += ["", "end Rpyc.Gen", ""]
    return "\n".join(L)


SECTIONS = [("Registry.lean", gen_registry)]
