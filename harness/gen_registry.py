"""Generated constants of layer L9 "Registry" (rpyc/utils/registry.py) -> lean/RpycModel/Gen/Registry.lean.
Discovered by gen_consts.py through SECTIONS.

Data read from the live module: REGISTRY_PORT, DEFAULT_PRUNING_TIMEOUT, MAX_DGRAM_SIZE, the servers' socket
TIMEOUTs and the clients' REREGISTER_INTERVAL / default reply timeout, the `cmd_*` methods of RegistryServer with
the number of positional parameters each takes after `host` (inspect.signature).  Facts that are not data, by
AST: the magic string `_work` compares against and the (magic, command) constants the four client classes send.
One fact is obtained by running the live `TCPRegistryServer._recv` once over two stand-in sockets: whether it
closes the sockets of earlier requests that were never answered (it is the only thing that decides whether
unanswered TCP requests accumulate descriptors; asking the code is robust against how a repair is written).

The control flow of `_work` and of the three commands is modelled by hand in lean/RpycModel/Srv/Registry.lean
and tied to the code by the C18 correspondence.
"""
import ast
import inspect
import textwrap

from gen_consts import Inexpressible, lean_list, lean_str


def _nat(name, v):
    if type(v) is not int or v < 0:
        raise Inexpressible("%s is not a natural number: %r" % (name, v))
    return v


def _ms(name, v):
    if type(v) not in (int, float) or v < 0 or v != v or v in (float("inf"),):
        raise Inexpressible("%s is not a finite non-negative number of seconds: %r" % (name, v))
    ms = round(v * 1000)
    if ms != v * 1000:
        raise Inexpressible("%s = %r is not a whole number of milliseconds" % (name, v))
    return ms


def _cps(s):
    return lean_list([str(ord(c)) for c in s], 16)


def _func_ast(fn):
    return ast.parse(textwrap.dedent(inspect.getsource(fn))).body[0]


def magic_of_work(reg):
    """the string constant `_work` compares the first field of a datagram with"""
    node = _func_ast(reg.RegistryServer._work)
    found = set()
    for n in ast.walk(node):
        if isinstance(n, ast.Compare) and len(n.ops) == 1 and isinstance(n.ops[0], (ast.NotEq, ast.Eq)):
            sides = [n.left, n.comparators[0]]
            names = [s for s in sides if isinstance(s, ast.Name) and s.id == "magic"]
            consts = [s for s in sides if isinstance(s, ast.Constant) and type(s.value) is str]
            if len(names) == 1 and len(consts) == 1:
                found.add(consts[0].value)
    if len(found) != 1:
        raise Inexpressible("RegistryServer._work: expected exactly one comparison of `magic` with a text constant, found %r"
                            % (sorted(found),))
    return found.pop()


def client_requests(reg):
    """(class, method, magic, command) for every `brine.dump((<text>, <text>, ...))` in the client classes"""
    out = []
    for cls in (reg.UDPRegistryClient, reg.TCPRegistryClient):
        for meth in ("discover", "register", "unregister"):
            fn = cls.__dict__.get(meth)
            if fn is None:
                continue
            for n in ast.walk(_func_ast(fn)):
                if (isinstance(n, ast.Call) and isinstance(n.func, ast.Attribute) and n.func.attr == "dump" and n.args
                        and isinstance(n.args[0], ast.Tuple) and len(n.args[0].elts) == 3):
                    m, c = n.args[0].elts[0], n.args[0].elts[1]
                    if not (isinstance(m, ast.Constant) and type(m.value) is str
                            and isinstance(c, ast.Constant) and type(c.value) is str):
                        raise Inexpressible("%s.%s: request magic/command are not text constants" % (cls.__name__, meth))
                    out.append((cls.__name__, meth, m.value, c.value))
    return out


def command_table(reg):
    """[(name after 'cmd_', number of positional parameters after self and host)]"""
    out = []
    for attr in sorted(dir(reg.RegistryServer)):
        if not attr.startswith("cmd_"):
            continue
        fn = getattr(reg.RegistryServer, attr)
        if not inspect.isfunction(fn):
            raise Inexpressible("RegistryServer.%s is not a plain method" % attr)
        params = list(inspect.signature(fn).parameters.values())
        if len(params) < 2 or any(p.kind is not p.POSITIONAL_OR_KEYWORD or p.default is not p.empty for p in params):
            raise Inexpressible("RegistryServer.%s%s: only plain positional parameters are modelled"
                                % (attr, inspect.signature(fn)))
        out.append((attr[4:], len(params) - 2))
    return out


def ack_reply(reg):
    """the text constant `cmd_register` and `cmd_unregister` return (AST); the clients compare against it"""
    vals = set()
    for fn in (reg.RegistryServer.cmd_register, reg.RegistryServer.cmd_unregister):
        rets = [n for n in ast.walk(_func_ast(fn)) if isinstance(n, ast.Return)]
        if not rets:
            raise Inexpressible("%s has no return statement" % fn.__name__)
        for r in rets:
            if not (isinstance(r.value, ast.Constant) and type(r.value.value) is str):
                raise Inexpressible("%s does not return a text constant" % fn.__name__)
            vals.add(r.value.value)
    if len(vals) != 1:
        raise Inexpressible("cmd_register / cmd_unregister return different acknowledgements: %r" % sorted(vals))
    return vals.pop()


class _ProbeSock:
    def __init__(self, data=b""):
        self.closed = False
        self.data = data

    def getpeername(self):
        return ("probe", 2)

    def settimeout(self, t):
        pass

    def recv(self, n):
        return self.data[:n]

    def close(self):
        self.closed = True


class _ProbeListener:
    def __init__(self, sock):
        self.s = sock

    def accept(self):
        return self.s, ("probe", 2)


def tcp_recv_closes_unreplied(reg):
    """run the live TCPRegistryServer._recv with one earlier, unanswered socket still tracked"""
    srv = object.__new__(reg.TCPRegistryServer)
    stale, fresh = _ProbeSock(), _ProbeSock(b"x")
    srv.sock = _ProbeListener(fresh)
    srv._connected_sockets = {("probe", 1): stale}
    try:
        data, addr = srv._recv()
    except Exception as ex:  # noqa
        raise Inexpressible("TCPRegistryServer._recv does not run over stand-in sockets: %r" % (ex,))
    if data != b"x" or addr != ("probe", 2) or srv._connected_sockets.get(("probe", 2)) is not fresh or fresh.closed:
        raise Inexpressible("TCPRegistryServer._recv no longer returns (data, peer) and tracks the accepted socket")
    still = ("probe", 1) in srv._connected_sockets
    if still == stale.closed:
        raise Inexpressible("TCPRegistryServer._recv: the earlier socket is %s but %s" % (
            "still tracked" if still else "no longer tracked", "closed" if stale.closed else "not closed"))
    return stale.closed


def gen_registry():
    from rpyc.utils import registry as reg
    L = ["namespace Rpyc.Gen", ""]
    L += ["/-- `REGISTRY_PORT`, `DEFAULT_PRUNING_TIMEOUT` (seconds), `MAX_DGRAM_SIZE` -/",
          "def registryPort : Nat := %d" % _nat("REGISTRY_PORT", reg.REGISTRY_PORT),
          "def defaultPruningTimeoutMs : Nat := %d" % _ms("DEFAULT_PRUNING_TIMEOUT", reg.DEFAULT_PRUNING_TIMEOUT),
          "def maxDgramSize : Nat := %d" % _nat("MAX_DGRAM_SIZE", reg.MAX_DGRAM_SIZE)]
    L += ["", "/-- `UDPRegistryServer.TIMEOUT`, `TCPRegistryServer.TIMEOUT`, `RegistryClient.REREGISTER_INTERVAL` (milliseconds) -/",
          "def udpServerTimeoutMs : Nat := %d" % _ms("UDPRegistryServer.TIMEOUT", reg.UDPRegistryServer.TIMEOUT),
          "def tcpServerTimeoutMs : Nat := %d" % _ms("TCPRegistryServer.TIMEOUT", reg.TCPRegistryServer.TIMEOUT),
          "def reregisterIntervalMs : Nat := %d" % _ms("RegistryClient.REREGISTER_INTERVAL", reg.RegistryClient.REREGISTER_INTERVAL)]
    for cls in (reg.UDPRegistryClient, reg.TCPRegistryClient):
        p = inspect.signature(cls.__init__).parameters.get("timeout")
        if p is None or p.default is p.empty:
            raise Inexpressible("%s.__init__ has no default `timeout`" % cls.__name__)
        L.append("def %sClientTimeoutMs : Nat := %d" % (cls.__name__[:3].lower(), _ms(cls.__name__ + " timeout", p.default)))
    magic = magic_of_work(reg)
    L += ["", "/-- the text `_work` compares the first field of a datagram with (AST), as code points -/",
          "def magic : List Nat := " + _cps(magic), "def magicText : String := " + lean_str(magic)]
    table = command_table(reg)
    L += ["", "/-- the `cmd_*` methods of `RegistryServer` (live class): name after the prefix, and the number of",
          "positional parameters after `self, host` (inspect.signature) -/",
          "def cmdNames : List String := " + lean_list([lean_str(n) for n, _ in table]),
          "def cmdTable : List (List Nat × Nat) := " + lean_list(["(%s, %d)" % (_cps(n), a) for n, a in table], 1)]
    ack = ack_reply(reg)
    L += ["", "/-- what `cmd_register` and `cmd_unregister` return (AST), as code points -/",
          "def ackReply : List Nat := " + _cps(ack), "def ackReplyText : String := " + lean_str(ack)]
    reqs = client_requests(reg)
    if not reqs:
        raise Inexpressible("no `brine.dump((magic, command, args))` found in the registry clients")
    L += ["", "/-- (magic, command) constants the client classes send (AST of discover/register/unregister) -/",
          "def clientRequests : List (String × String) := " + lean_list(
              sorted(set("(%s, %s)" % (lean_str(m), lean_str(c)) for _, _, m, c in reqs)), 3)]
    closes = tcp_recv_closes_unreplied(reg)
    L += ["", "/-- does `TCPRegistryServer._recv` close the sockets of earlier requests that got no reply (observed by running",
          "the live method over stand-in sockets) -/",
          "def tcpRecvClosesUnreplied : Bool := %s" % ("true" if closes else "false")]
    L += ["", "end Rpyc.Gen", ""]
    return "\n".join(L)


SECTIONS = [("Registry.lean", gen_registry)]
