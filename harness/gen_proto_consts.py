"""Generated protocol constants for C19 -> lean/RpycModel/Gen/Consts.lean (namespace Rpyc.Gen.Consts).
Discovered by gen_consts.py through SECTIONS.  Self-contained (Gen/Wire.lean and Gen/Box.lean of other
layers overlap in content; nothing here depends on them).

Read from the live modules of the tree under check:
  * every public name of rpyc.core.consts with its value (all must be ints), grouped by prefix
    (MSG_, LABEL_, HANDLE_, EXC_, rest) and sorted by value, plus single definitions for the names the
    message-layout model mentions;
  * Connection._request_handlers(): handler number -> method name (a re-routed entry is visible);
  * Channel.COMPRESSION_THRESHOLD / COMPRESSION_LEVEL / FLUSHER, and the *meaning* of
    Channel.FRAME_HEADER.format: byte order, width of the length field, width of the flag field, total size.
    The format string itself is only quoted in a comment: `!LB`, `!IB` and `>LB` are the same layout and
    generate the same definitions.

Also generated (facts that are not constants, so that the hand-written lean/RpycModel/Spec/Code.lean is tied to the
code by proof obligations and not only by the correspondence run):
  * handlerArity: for every entry of Connection._request_handlers(), how many arguments the `_handle_*` method
    requires and how many more it accepts (inspect.signature); parameter NAMES are not compared;
  * callSites: every call of syncreq / asyncreq / sync_request / async_request / _async_request in the rpyc package
    whose handler is a HANDLE_* constant (AST), as (HANDLE name, number of request arguments);
  * Gen/Recorded.lean (section 2): what the LIVE code did at generation time on fixed probes — `Connection._box` on
    seven objects (ordinary objects get their id_pack from the live rpyc.lib.get_id_pack; the two id() numbers in it
    are replaced by fixed ones in what is recorded); `Connection._unbox` on ten boxed values; the request each live call site of netref/protocol/helpers emitted (decoded with the independent
    reference decoder), including keyword arguments; the reply / exception `_dispatch_request` sent for five
    requests (built-in and custom exception, StopIteration, a keyword-argument call); how `_dispatch` classified
    seventeen payloads (bool / float / complex message kinds, wrong arities, ...).  All probes use fixed id_packs,
    sequence numbers from a fresh connection, and no tracebacks/versions, so the file is identical from run to run.

Only data is read here.  The control flow of `_send`, `_box`, `_async_request`, `_dispatch_request`,
`Channel.send` is modelled by hand (lean/RpycModel/Spec/Code.lean) and tied to the code by the C19
correspondence (real frames and real conversations against the reference codec/peer and the Lean spec).
"""
import ast
import glob
import inspect
import os
import re
import struct
import sys

from gen_consts import Inexpressible, lean_list, lean_str

UNSIGNED = "BHILQ"
SIGNED = "bhilq"
NEEDED = ["MSG_REQUEST", "MSG_REPLY", "MSG_EXCEPTION", "LABEL_VALUE", "LABEL_TUPLE", "LABEL_LOCAL_REF",
          "LABEL_REMOTE_REF", "EXC_STOP_ITERATION", "STREAM_CHUNK"]
GROUPS = [("msgs", "MSG_"), ("labels", "LABEL_"), ("handlers", "HANDLE_"), ("excs", "EXC_")]


def camel(name):
    parts = name.lower().split("_")
    return parts[0] + "".join(p.capitalize() for p in parts[1:])


def header_layout(fmt):
    """(big_endian, length width, flag width) of a two-field struct format, or Inexpressible"""
    if isinstance(fmt, bytes):
        fmt = fmt.decode()
    if not isinstance(fmt, str):
        raise Inexpressible("Channel.FRAME_HEADER.format is not text: %r" % (fmt,))
    order, codes = (fmt[0], fmt[1:]) if fmt[:1] in "@=<>!" else ("@", fmt)
    codes = codes.replace(" ", "")
    if len(codes) != 2:
        raise Inexpressible("Channel.FRAME_HEADER.format %r does not have exactly two fields (length, flag)" % (fmt,))
    for c in codes:
        if c in SIGNED:
            raise Inexpressible("Channel.FRAME_HEADER.format %r has a signed field; the frame model has unsigned fields" % (fmt,))
        if c not in UNSIGNED:
            raise Inexpressible("Channel.FRAME_HEADER.format %r has a field that is not an unsigned integer" % (fmt,))
    prefix = "" if order == "@" and fmt[:1] != "@" else order
    lw, fw = struct.calcsize(prefix + codes[0]), struct.calcsize(prefix + codes[1])
    if struct.calcsize(fmt) != lw + fw:
        raise Inexpressible("Channel.FRAME_HEADER.format %r has padding between its fields" % (fmt,))
    big = order in "!>" or (order in "@=" and sys.byteorder == "big")
    return big, lw, fw


def gen_proto():
    from rpyc.core import channel, consts, protocol
    L = ["namespace Rpyc.Gen.Consts", ""]
    names = sorted(k for k in vars(consts) if not k.startswith("_"))
    vals = {}
    for k in names:
        v = getattr(consts, k)
        if type(v) is not int:
            raise Inexpressible("rpyc.core.consts.%s is not an int: %r" % (k, v))
        vals[k] = v
    for k in NEEDED:
        if k not in vals:
            raise Inexpressible("rpyc.core.consts.%s is missing" % k)
        if vals[k] < 0:
            raise Inexpressible("rpyc.core.consts.%s is negative: %r" % (k, vals[k]))
    L.append("/-- the names of rpyc.core.consts the message-layout model mentions -/")
    for k in NEEDED:
        L.append("def %s : Nat := %d" % (camel(k), vals[k]))
    L.append("")
    grouped = set()
    for lean_name, prefix in GROUPS:
        items = sorted((vals[k], k) for k in names if k.startswith(prefix))
        grouped.update(k for _v, k in items)
        if any(v < 0 for v, _k in items):
            raise Inexpressible("a %s* constant is negative" % prefix)
        L.append("/-- every `%s*` name of rpyc.core.consts, by value -/" % prefix)
        L.append("def %s : List (String × Nat) := %s" % (
            lean_name, lean_list(["(%s, %d)" % (lean_str(k), v) for v, k in items], 4)))
    rest = sorted((vals[k], k) for k in names if k not in grouped)
    L.append("/-- every other public name of rpyc.core.consts -/")
    L.append("def others : List (String × Int) := %s" % lean_list(
        ["(%s, %s)" % (lean_str(k), "(%d)" % v if v < 0 else "%d" % v) for v, k in rest], 4))
    # handler table of the connection
    table = protocol.Connection._request_handlers()
    if not isinstance(table, dict) or not all(type(k) is int and k >= 0 and callable(f) for k, f in table.items()):
        raise Inexpressible("Connection._request_handlers() is not a dict of non-negative ints to callables")
    L += ["", "/-- `Connection._request_handlers()`: handler number -> name of the method that serves it -/",
          "def requestHandlers : List (Nat × String) := %s" % lean_list(
              ["(%d, %s)" % (k, lean_str(getattr(f, "__name__", "?"))) for k, f in sorted(table.items())], 4)]
    # signatures of the handlers: (number, required arguments, optional arguments), `self` not counted
    ar = []
    for k, f in sorted(table.items()):
        req = opt = 0
        params = list(inspect.signature(f).parameters.values())[1:]
        for prm in params:
            if prm.kind not in (prm.POSITIONAL_ONLY, prm.POSITIONAL_OR_KEYWORD):
                raise Inexpressible("%s takes *args/**kwargs/keyword-only parameters" % f.__name__)
            if prm.default is prm.empty:
                req += 1
            else:
                opt += 1
        ar.append("(%d, %d, %d)" % (k, req, opt))
    L += ["", "/-- `_handle_*` signatures: (handler number, required arguments, optional arguments) -/",
          "def handlerArity : List (Nat × Nat × Nat) := %s" % lean_list(ar, 6)]
    L += ["", "/-- every call site in the rpyc package that issues a request with a HANDLE_* constant (AST):",
          "(constant, number of request arguments incl. the proxy) -/",
          "def callSites : List (String × Nat) := %s" % lean_list(
              ["(%s, %d)" % (lean_str(h), n) for h, n in call_sites(os.path.dirname(os.path.abspath(protocol.__file__ + "/..")))], 4)]
    # channel
    C = channel.Channel
    thr, lvl, fl = C.COMPRESSION_THRESHOLD, C.COMPRESSION_LEVEL, C.FLUSHER
    if type(thr) is not int or thr < 0:
        raise Inexpressible("Channel.COMPRESSION_THRESHOLD is not a natural number: %r" % (thr,))
    if type(lvl) is not int or not (-1 <= lvl <= 9):
        raise Inexpressible("Channel.COMPRESSION_LEVEL is not a zlib level: %r" % (lvl,))
    if type(fl) is not bytes:
        raise Inexpressible("Channel.FLUSHER is not bytes: %r" % (fl,))
    fmt = C.FRAME_HEADER.format
    big, lw, fw = header_layout(fmt)
    if C.FRAME_HEADER.size != lw + fw:
        raise Inexpressible("Channel.FRAME_HEADER.size %r is not %d+%d" % (C.FRAME_HEADER.size, lw, fw))
    L += ["", "/-- `Channel.COMPRESSION_THRESHOLD`, `Channel.COMPRESSION_LEVEL` -/",
          "def compressionThreshold : Nat := %d" % thr,
          "def compressionLevel : Int := %s" % ("(%d)" % lvl if lvl < 0 else "%d" % lvl),
          "", "/-- layout of `Channel.FRAME_HEADER` (format %s): byte order and field widths -/" % (
              fmt.decode() if isinstance(fmt, bytes) else fmt),
          "def frameBigEndian : Bool := %s" % ("true" if big else "false"),
          "def frameLenWidth : Nat := %d" % lw,
          "def frameFlagWidth : Nat := %d" % fw,
          "def frameHeaderSize : Nat := %d" % C.FRAME_HEADER.size,
          "", "/-- `Channel.FLUSHER` -/",
          "def flusher : List Nat := " + lean_list([str(b) for b in fl], 16),
          "", "/-- is `zlib` importable (`Channel.__init__` forces `compress = False` otherwise) -/",
          "def zlibAvailable : Bool := %s" % ("true" if channel.zlib else "false")]
    L += ["", "end Rpyc.Gen.Consts", ""]
    return "\n".join(L)


def _handler_const(node):
    if isinstance(node, ast.Attribute) and node.attr.startswith("HANDLE_"):
        return node.attr
    if isinstance(node, ast.Name) and node.id.startswith("HANDLE_"):
        return node.id
    return None


# the generic plumbing: functions that take the handler as their parameter `handler` and pass it on
FORWARDERS = ("syncreq", "asyncreq", "sync_request", "async_request", "_async_request")


def _calls_with_function(tree):
    """(call node, name of the innermost enclosing function or None)"""
    out = []

    def walk(node, fn):
        for child in ast.iter_child_nodes(node):
            if isinstance(child, (ast.FunctionDef, ast.AsyncFunctionDef, ast.Lambda)):
                walk(child, getattr(child, "name", "<lambda>"))
            else:
                if isinstance(child, ast.Call):
                    out.append((child, fn))
                walk(child, fn)
    walk(tree, None)
    return out


def call_sites(pkg_dir):
    out = set()
    for path in sorted(glob.glob(os.path.join(pkg_dir, "**", "*.py"), recursive=True)):
        with open(path) as f:
            try:
                tree = ast.parse(f.read())
            except SyntaxError as ex:
                raise Inexpressible("%s does not parse: %s" % (path, ex))
        for n, enclosing in _calls_with_function(tree):
            fn = n.func.id if isinstance(n.func, ast.Name) else n.func.attr if isinstance(n.func, ast.Attribute) else None
            if fn in ("syncreq", "asyncreq") and len(n.args) >= 2:
                h, rest, base = _handler_const(n.args[1]), n.args[2:], 1
            elif fn in ("sync_request", "async_request", "_async_request") and n.args:
                h, rest, base = _handler_const(n.args[0]), n.args[1:], 0
            else:
                continue
            if h is None:
                harg = n.args[1] if fn in ("syncreq", "asyncreq") else n.args[0]
                if enclosing in FORWARDERS and isinstance(harg, ast.Name) and harg.id == "handler":
                    continue                # the plumbing itself passing its `handler` parameter on
                raise Inexpressible("%s:%d: %s() is called with a handler that is not a HANDLE_* constant (%s) outside the "
                                    "known forwarders %s: the call sites behind it cannot be enumerated"
                                    % (os.path.basename(path), n.lineno, fn, ast.dump(harg)[:60], list(FORWARDERS)))
            if any(isinstance(a, ast.Starred) for a in rest):
                raise Inexpressible("%s: call of %s with %s spreads *args" % (os.path.basename(path), fn, h))
            if fn == "_async_request" and rest:
                if not isinstance(rest[0], ast.Tuple):
                    raise Inexpressible("%s: _async_request(%s, <non-literal args>)" % (os.path.basename(path), h))
                rest = rest[0].elts
            out.add((h, base + len(rest)))
    return sorted(out)


# ------------------------------------------------------------------------------------------ recorded behaviour
def lean_val(v):
    import refcodec
    t = type(v)
    if v is None:
        return ".none"
    if v is NotImplemented:
        return ".notImpl"
    if v is Ellipsis:
        return ".ellipsis"
    if t is bool:
        return "(.bool %s)" % ("true" if v else "false")
    if t is int:
        return "(.int %s)" % ("(%d)" % v if v < 0 else "%d" % v)
    if t is float:
        return "(.float 0x%s)" % struct.pack("!d", v).hex()
    if t is complex:
        return "(.complex 0x%s 0x%s)" % (struct.pack("!d", v.real).hex(), struct.pack("!d", v.imag).hex())
    if t is bytes:
        return "(.bytes [%s])" % ", ".join(str(b) for b in v)
    if t is str:
        return "(.str [%s])" % ", ".join(str(ord(c)) for c in v)
    if t is tuple:
        return "(.tuple [%s])" % ", ".join(lean_val(x) for x in v)
    if t in (frozenset, refcodec.FSet):
        return "(.fset [%s])" % ", ".join(lean_val(x) for x in v)
    if t is slice:
        return "(.slice %s %s %s)" % (lean_val(v.start), lean_val(v.stop), lean_val(v.step))
    raise Inexpressible("recorded value of type %s is not a brine value" % t.__name__)


class ProbeError(Exception):
    """a custom (non-builtin) exception with a public attribute"""
    code = 7


P_ID = ("probe.P", 11, 22)
Q_ID = ("probe.Q", 12, 23)
K_ID = ("probe.K", 33, 0)
# ordinary objects get their id_pack from the live rpyc.lib.get_id_pack: (module.class, id(type), id(obj)); the two id()
# numbers differ from run to run and are replaced by these in everything that is recorded
OBJ_ID = ("gen_proto_consts.Obj", 44, 55)
SVC_ID = ("gen_proto_consts.Svc", 66, 77)
IDMAP = {}
P_METHODS = (("meth", None), ("__call__", None), ("__getslice__", None), ("__iter__", None), ("__next__", None),
             ("__len__", None))
QUIET = {"include_local_traceback": False, "include_local_version": False}


class _ProbeStream:
    """in-memory stream; `responder(bytes written) -> bytes to deliver`"""
    MAX_IO_CHUNK = 64000

    def __init__(self, responder=None):
        self.inbox, self.out, self._closed, self.responder = bytearray(), bytearray(), False, responder

    def close(self):
        self._closed = True

    @property
    def closed(self):
        return self._closed

    def fileno(self):
        return 0

    def write(self, data):
        if self._closed:
            raise EOFError("closed")
        self.out += data
        if self.responder:
            self.inbox += self.responder(bytes(data))

    def read(self, count):
        if len(self.inbox) < count:
            raise EOFError("end of stream")
        d = bytes(self.inbox[:count])
        del self.inbox[:count]
        return d

    def poll(self, timeout):
        if not self.inbox:
            raise EOFError("nothing will ever arrive")
        return True


def _norm(v):
    """recorded values must not depend on addresses: ` at 0x7f..` in a repr becomes ` at 0x?`"""
    t = type(v)
    if t is str:
        return re.sub(r" at 0x[0-9a-fA-F]+", " at 0x?", v)
    if t is int and v in IDMAP:
        return IDMAP[v]
    if t is tuple:
        return tuple(_norm(x) for x in v)
    if type(v).__name__ == "FSet":
        return type(v)(_norm(x) for x in v)
    return v


def gen_recorded():
    import refcodec as R
    import rpyc
    from rpyc.core import channel, consts, netref, protocol
    from rpyc.lib import get_id_pack
    from rpyc.utils.helpers import buffiter
    H = R.HANDLERS
    IDMAP.clear()
    L = ["import RpycModel.Base.Py", "namespace Rpyc.Gen.Recorded", "open Rpyc", ""]
    errors = []

    # ---- 1. the live call sites, against an auto-responder built on the reference codec
    def make_responder(root_id):
        state = {"buf": b"", "buffiter": 0, "seen": []}

        def responder(data):
            return _respond(state, root_id, data)
        return responder, state

    def _respond(state, root_id, data):
        state["buf"] += data
        back = b""
        while True:
            try:
                payload, state["buf"] = R.unframe(state["buf"])
            except R.FormatError:
                break
            val = R.decode(payload, keep_order=True)
            state["seen"].append(val)
            if not (type(val) is tuple and len(val) == 3 and val[0] == R.MSG_REQUEST):
                continue
            seq, (h, boxed) = val[1], val[2]
            if h == H["CLOSE"]:
                continue
            if h == H["PING"]:
                res = R.box_value(R.unbox_plain(boxed)[0])
            elif h == H["GETROOT"]:
                res = R.box_remote(root_id)
            elif h == H["INSPECT"]:
                res = R.box_value(P_METHODS if R.unbox_plain(boxed)[0][2] != 0 else ())
            elif h in (H["HASH"],):
                res = R.box_value(0)
            elif h in (H["STR"], H["REPR"]):
                res = R.box_value("p")
            elif h == H["DIR"]:
                res = R.box_value(("a",))
            elif h == H["PICKLE"]:
                res = R.box_value(b"")
            elif h == H["BUFFITER"]:
                state["buffiter"] += 1
                res = R.box_value((1, 2) if state["buffiter"] == 1 else ())
            elif h == H["CALLATTR"] and R.unbox_plain(boxed)[1] == "__iter__":
                res = R.box_remote(P_ID)
            elif h == H["CALLATTR"] and R.unbox_plain(boxed)[1] == "__len__":
                res = R.box_value(0)
            elif h in (H["CMP"], H["INSTANCECHECK"]):
                res = R.box_value(False)
            else:
                res = R.box_value(None)
            back += R.frame(R.encode(R.reply(seq, res)))
        return back

    responder, state = make_responder(P_ID)
    st = _ProbeStream(responder)
    conn = rpyc.VoidService()._connect(channel.Channel(st, True), dict(QUIET))
    sites = []

    def probe(name, fn):
        before = len(state["seen"])
        try:
            fn()
        except Exception as ex:  # noqa
            errors.append("%s: %s" % (name, type(ex).__name__))
        reqs = [v for v in state["seen"][before:] if type(v) is tuple and len(v) == 3 and v[0] == R.MSG_REQUEST]
        sites.append((name, reqs))

    hold = {}
    probe("root", lambda: hold.__setitem__("p", conn.root))
    p = hold.get("p")
    if p is None:
        raise Inexpressible("conn.root did not yield a proxy against the reference responder: %s" % errors)
    probe("ping", lambda: conn.ping("abc"))
    probe("getattr", lambda: p.attr)
    probe("setattr", lambda: setattr(p, "attr", (5, b"v")))
    probe("delattr", lambda: delattr(p, "attr"))
    probe("call", lambda: p(3, b"x"))
    probe("call-kw", lambda: p(3, z=None, y=(7, "k")))
    probe("callattr-special", lambda: len(p))
    probe("callattr-kw", lambda: type(p).meth(p, 1, k=2))
    probe("cmp-eq", lambda: p == 1)
    probe("cmp-lt", lambda: p < "s")
    probe("hash", lambda: hash(p))
    probe("str", lambda: str(p))
    probe("repr", lambda: repr(p))
    probe("dir", lambda: dir(p))
    probe("ctxexit", lambda: type(p).__exit__(p, None, None, None))
    probe("pickle", lambda: p.__reduce_ex__(2))
    probe("oldslicing", lambda: type(p).__getslice__(p, 1, 3))
    probe("buffiter", lambda: list(buffiter(p, 2)))
    probe("class-proxy", lambda: hold.__setitem__("k", conn._unbox((consts.LABEL_REMOTE_REF, K_ID))))
    if "k" in hold:
        probe("instancecheck", lambda: isinstance(p, hold["k"]))
        probe("del-class", lambda: hold.pop("k"))
    obj = type("Obj", (), {})()
    obj_id = get_id_pack(obj)
    if obj_id[0] != OBJ_ID[0]:
        raise Inexpressible("get_id_pack names the probe object %r" % (obj_id[0],))
    IDMAP[obj_id[1]], IDMAP[obj_id[2]] = OBJ_ID[1], OBJ_ID[2]
    probe("call-with-object", lambda: p(obj, (1, obj)))
    probe("async-call-kw", lambda: rpyc.async_(p)(1, b=2))
    probe("timed-call-kw", lambda: rpyc.timed(p, 5)(2, c=(3,)))
    # a proxy that belongs to ANOTHER connection
    responder_b, _state_b = make_responder(Q_ID)
    conn_b = rpyc.VoidService()._connect(channel.Channel(_ProbeStream(responder_b), True), dict(QUIET))
    try:
        foreign = conn_b.root
    except Exception as ex:  # noqa
        raise Inexpressible("second connection's root: %r" % (ex,))
    probe("call-with-foreign-proxy", lambda: p(foreign))
    # ---- 2. `_box`
    boxes = []
    for name, o in (("plain", (1, "a", (2.5, None))), ("tuple", (5, obj)), ("nested", (p, ("k", obj), b"")),
                    ("object", obj), ("proxy", p), ("foreign-proxy", foreign), ("tuple-with-foreign-proxy", (p, foreign))):
        try:
            boxes.append((name, conn._box(o)))
        except Exception as ex:  # noqa
            errors.append("box %s: %s" % (name, type(ex).__name__))
    # ---- 2b. `_unbox` (the object and the proxy above are known to the connection by now)
    unboxed = []
    for name, b in (("value", (consts.LABEL_VALUE, (1, "a"))),
                    ("tuple", (consts.LABEL_TUPLE, ((consts.LABEL_VALUE, 5), (consts.LABEL_VALUE, b"x")))),
                    ("local-ref", (consts.LABEL_LOCAL_REF, obj_id)),
                    ("remote-ref-known", (consts.LABEL_REMOTE_REF, P_ID)),
                    ("nested", (consts.LABEL_TUPLE, ((consts.LABEL_LOCAL_REF, obj_id), (consts.LABEL_TUPLE, ((consts.LABEL_REMOTE_REF, P_ID),))))),
                    ("unknown-local-ref", (consts.LABEL_LOCAL_REF, ("no.Such", 1, 2))),
                    ("label-9", (9, None)), ("label-0", (0, None)), ("label-true", (True, 7)), ("not-a-pair", (1, 2, 3))):
        try:
            got = conn._unbox(b)

            def describe(x):
                if x is obj:
                    return "the-object"
                if x is p:
                    return "the-proxy"
                if type(x) is tuple:
                    return "(" + " ".join(describe(y) for y in x) + ")"
                return "value"
            unboxed.append((name, b, describe(got)))
        except Exception as ex:  # noqa
            unboxed.append((name, b, "err " + type(ex).__name__))
    conn._remote_root = None
    hold.clear()
    foreign = None
    try:
        conn_b.close()
    except Exception:  # noqa
        pass
    probe("del", lambda: None)
    before = len(state["seen"])
    o = None
    del p
    sites[-1] = ("del", [v for v in state["seen"][before:] if type(v) is tuple and v[0] == R.MSG_REQUEST])
    probe("close", conn.close)

    L.append("/-- requests emitted by the live call sites of netref / protocol / helpers (probe name, payload values) -/")
    L.append("def callSiteRequests : List (String × List Val) := [")
    L.append(",\n".join("  (%s, [%s])" % (lean_str(n), ", ".join(lean_val(_norm(v)) for v in vs)) for n, vs in sites))
    L.append("]")
    L.append("")
    L.append("/-- `Connection._box` on: a dumpable value, a tuple holding an object, a tuple holding the connection's own")
    L.append("proxy %s, a nested tuple and a byte string, an object with id_pack %s, the proxy," % (P_ID, OBJ_ID))
    L.append("a proxy of ANOTHER connection %s (it is an object like any other: REMOTE_REF), a tuple of both proxies -/" % (Q_ID,))
    L.append("def boxed : List (String × Val) := [")
    L.append(",\n".join("  (%s, %s)" % (lean_str(n), lean_val(_norm(v))) for n, v in boxes))
    L.append("]")

    L += ["", "/-- `Connection._unbox` on boxed values (name, boxed value, what came out: `value`, `the-object` = the very object",
          "boxed before, `the-proxy` = the existing proxy, a tuple of those, or the exception) -/",
          "def unboxed : List (String × Val × String) := ["]
    L.append(",\n".join("  (%s, %s, %s)" % (lean_str(n), lean_val(_norm(b)), lean_str(o)) for n, b, o in unboxed))
    L.append("]")

    # ---- 3. what `_dispatch_request` sends back
    class Svc(rpyc.Service):
        def exposed_boom(self):
            raise KeyError("k")

        def exposed_custom(self):
            raise ProbeError("m", 3)

        def exposed_stop(self):
            raise StopIteration

        def exposed_kw(self, a, b=0, c=0):
            return (a, b, c)
    st2 = _ProbeStream()
    svc = Svc()
    svc_id = get_id_pack(svc)
    if svc_id[0] != SVC_ID[0]:
        raise Inexpressible("get_id_pack names the probe service %r" % (svc_id[0],))
    IDMAP[svc_id[1]], IDMAP[svc_id[2]] = SVC_ID[1], SVC_ID[2]
    conn2 = svc._connect(channel.Channel(st2, True), dict(QUIET, allow_pickle=True))
    root_ref = R.box_local(svc_id)
    conn2._local_objects.add(svc_id, svc)
    served = []
    reqs = [R.request(100, H["PING"], R.box_value((("x", 1.5),))),
            R.request(101, H["GETROOT"], R.box_value(())),
            R.request(102, H["CALLATTR"], R.box_tuple([root_ref, R.box_value("boom"), R.box_value(()), R.box_value(())])),
            R.request(103, H["CALLATTR"], R.box_tuple([root_ref, R.box_value("custom"), R.box_value(()), R.box_value(())])),
            R.request(104, H["CALLATTR"], R.box_tuple([root_ref, R.box_value("stop"), R.box_value(()), R.box_value(())])),
            R.request(105, H["CALLATTR"], R.box_tuple([root_ref, R.box_value("kw"), R.box_value((1,)),
                                                       R.box_value((("c", 3), ("b", 2)))])),
            R.request(106, H["CALL"], R.box_value((5, (), ()))),
            # replies whose shape the format fixes
            R.request(107, H["REPR"], R.box_value((5,))), R.request(108, H["STR"], R.box_value(("s",))),
            R.request(109, H["HASH"], R.box_value((5,))), R.request(110, H["DIR"], R.box_value((None,))),
            R.request(111, H["INSPECT"], R.box_value((svc_id,))), R.request(112, H["BUFFITER"], R.box_value(((1, 2, 3), 2))),
            R.request(113, H["PICKLE"], R.box_value((5, 2)))]
    for rq in reqs:
        mark = len(st2.out)
        try:
            conn2._dispatch(R.encode(rq, lambda kind, c: len(c) - 1))       # a non-shortest published encoding
            out = R.packets(bytes(st2.out[mark:]))
            served.append((rq, [_norm(R.decode(d, keep_order=True)) for _f, _p, d in out]))
        except Exception as ex:  # noqa
            errors.append("serve seq %d: %s" % (rq[1], type(ex).__name__))
    L += ["", "/-- (request fed to the live `_dispatch`, what it sent back) -/",
          "def served : List (Val × List Val) := ["]
    L.append(",\n".join("  (%s, [%s])" % (lean_val(_norm(rq)), ", ".join(lean_val(v) for v in vs)) for rq, vs in served))
    L.append("]")

    # ---- 3b. the default configuration: traceback and version included.  The traceback text depends on paths and line
    #          numbers, the version on the release: both are normalised (first and last line kept; version -> "<version>")
    from rpyc import version as _version

    def norm_default(v):
        if type(v) is tuple and len(v) == 3 and v[0] == R.MSG_EXCEPTION and type(v[2]) is tuple and len(v[2]) == 4:
            head, args, attrs, tb = v[2]
            if type(tb) is str:
                lines = [ln for ln in tb.strip().split("\n") if ln]
                tb = (lines[0] + "\n...\n" + lines[-1]) if len(lines) > 1 else tb
            if type(attrs) is tuple:
                attrs = tuple((a[0], "<version>") if type(a) is tuple and len(a) == 2 and a[0] == "_remote_version"
                              and a[1] == _version.version_string else a for a in attrs)
            return _norm((v[0], v[1], (head, args, attrs, tb)))
        return _norm(v)
    st4 = _ProbeStream()
    svc4 = Svc()
    svc4_id = get_id_pack(svc4)
    IDMAP[svc4_id[2]] = SVC_ID[2]
    conn4 = svc4._connect(channel.Channel(st4, True), {})
    conn4._local_objects.add(svc4_id, svc4)
    root_ref = R.box_local(svc4_id)
    served_default = []
    for rq in (R.request(200, H["CALLATTR"], R.box_tuple([root_ref, R.box_value("boom"), R.box_value(()), R.box_value(())])),
               R.request(201, H["CALLATTR"], R.box_tuple([root_ref, R.box_value("custom"), R.box_value(()), R.box_value(())]))):
        mark = len(st4.out)
        try:
            conn4._dispatch(R.encode(rq))
            served_default.append((rq, [norm_default(R.decode(d, keep_order=True)) for _f, _p, d in R.packets(bytes(st4.out[mark:]))]))
        except Exception as ex:  # noqa
            errors.append("serve (default configuration) seq %d: %s" % (rq[1], type(ex).__name__))
    L += ["", "/-- the same two failing requests under the DEFAULT configuration (traceback and version included; the traceback",
          "is cut to its first and last line, the version string replaced by `<version>`) -/",
          "def servedDefault : List (Val × List Val) := ["]
    L.append(",\n".join("  (%s, [%s])" % (lean_val(_norm(rq)), ", ".join(lean_val(v) for v in vs)) for rq, vs in served_default))
    L.append("]")
    try:
        conn4.close()
    except Exception:  # noqa
        pass

    # ---- 4. how `_dispatch` classifies payloads
    log = []

    class Rec(protocol.Connection):
        def _dispatch_request(self, seq, raw_args):
            log.append("request")

        def _seq_request_callback(self, msg, seq, is_exc, obj):
            log.append("exception" if is_exc else "reply")
    conn3 = Rec(rpyc.VoidService(), channel.Channel(_ProbeStream(), True), dict(QUIET))
    rq = (H["GETROOT"], R.box_value(()))
    payloads = [(1, 5, rq), (True, 5, rq), (1.0, 5, rq), (complex(1, -0.0), 5, rq), (1, "s", rq), (1, 5, None),
                (2, 6, R.box_value("v")), (2.0, 6, R.box_value("v")), (3, 7, 1), (complex(3, 0), 7, 1),
                (4, 1, None), (0, 1, None), (False, 1, None), ("1", 1, None), (1, 2), (1, 2, 3, 4), None, b"abc",
                (1.5, 5, rq)]
    classified = []
    for pv in payloads:
        del log[:]
        try:
            conn3._dispatch(R.encode(pv))
            outcome = log[0] if len(log) == 1 else "nothing" if not log else "several"
        except Exception as ex:  # noqa
            outcome = "err " + type(ex).__name__
        classified.append((pv, outcome))
    conn3._closed = True
    L += ["", "/-- (payload value given to the live `_dispatch`, what it did: which of `_dispatch_request` /",
          "`_seq_request_callback` it reached, or the exception it raised) -/",
          "def classified : List (Val × String) := ["]
    L.append(",\n".join("  (%s, %s)" % (lean_val(pv), lean_str(o)) for pv, o in classified))
    L.append("]")
    L += ["", "/-- probes that raised where the published behaviour is to succeed -/",
          "def probeErrors : List String := %s" % lean_list([lean_str(e) for e in errors], 4)]
    try:
        conn2.close()
    except Exception:  # noqa
        pass
    L += ["", "end Rpyc.Gen.Recorded", ""]
    return "\n".join(L)


SECTIONS = [("Consts.lean", gen_proto), ("Recorded.lean", gen_recorded)]
