"""Generated protocol constants for C19 -> lean/RpycModel/Gen/Consts.lean (namespace Rpyc.Gen.Consts).
Discovered by gen_consts.py through SECTIONS.  Self-contained (Gen/Wire.lean and Gen/Box.lean of other
layers overlap in content; nothing here depends on them).

Read from the live modules of the tree under check:
  * every public name of rpyc.core.consts with its value (all must be ints), grouped by prefix
    (MSG_, LABEL_, HANDLE_, EXC_, rest) and sorted by value, plus single definitions for the names the
    message-layout model mentions;
  * Connection._request_handlers(): handler number -> method name (a re-routed entry is visible);
  * Channel.COMPRESSION_THRESHOLD / COMPRESSION_LEVEL / FLUSHER, and the *meaning* of
    Channel.FRAME_HEADER.format: byte order, width of the length field, width of the flag field, total size.
    The format string itself is only quoted in a comment: `!LB`, `!IB` and `>LB` are the same layout and
    generate the same definitions.

Only data is read here.  The control flow of `_send`, `_box`, `_async_request`, `_dispatch_request`,
`Channel.send` is modelled by hand (lean/RpycModel/Spec/Code.lean) and tied to the code by the C19
correspondence (real frames and real conversations against the reference codec/peer and the Lean spec).
"""
import struct
import sys

from gen_consts import Inexpressible, lean_list, lean_str

UNSIGNED = "BHILQ"
SIGNED = "bhilq"
NEEDED = ["MSG_REQUEST", "MSG_REPLY", "MSG_EXCEPTION", "LABEL_VALUE", "LABEL_TUPLE", "LABEL_LOCAL_REF",
          "LABEL_REMOTE_REF", "EXC_STOP_ITERATION", "STREAM_CHUNK"]
GROUPS = [("msgs", "MSG_"), ("labels", "LABEL_"), ("handlers", "HANDLE_"), ("excs", "EXC_")]


def camel(name):
    parts = name.lower().split("_")
    return parts[0] + "".join(p.capitalize() for p in parts[1:])


def header_layout(fmt):
    """(big_endian, length width, flag width) of a two-field struct format, or Inexpressible"""
    if isinstance(fmt, bytes):
        fmt = fmt.decode()
    if not isinstance(fmt, str):
        raise Inexpressible("Channel.FRAME_HEADER.format is not text: %r" % (fmt,))
    order, codes = (fmt[0], fmt[1:]) if fmt[:1] in "@=<>!" else ("@", fmt)
    codes = codes.replace(" ", "")
    if len(codes) != 2:
        raise Inexpressible("Channel.FRAME_HEADER.format %r does not have exactly two fields (length, flag)" % (fmt,))
    for c in codes:
        if c in SIGNED:
            raise Inexpressible("Channel.FRAME_HEADER.format %r has a signed field; the frame model has unsigned fields" % (fmt,))
        if c not in UNSIGNED:
            raise Inexpressible("Channel.FRAME_HEADER.format %r has a field that is not an unsigned integer" % (fmt,))
    prefix = "" if order == "@" and fmt[:1] != "@" else order
    lw, fw = struct.calcsize(prefix + codes[0]), struct.calcsize(prefix + codes[1])
    if struct.calcsize(fmt) != lw + fw:
        raise Inexpressible("Channel.FRAME_HEADER.format %r has padding between its fields" % (fmt,))
    big = order in "!>" or (order in "@=" and sys.byteorder == "big")
    return big, lw, fw


def gen_proto():
    from rpyc.core import channel, consts, protocol
    L = ["namespace Rpyc.Gen.Consts", ""]
    names = sorted(k for k in vars(consts) if not k.startswith("_"))
    vals = {}
    for k in names:
        v = getattr(consts, k)
        if type(v) is not int:
            raise Inexpressible("rpyc.core.consts.%s is not an int: %r" % (k, v))
        vals[k] = v
    for k in NEEDED:
        if k not in vals:
            raise Inexpressible("rpyc.core.consts.%s is missing" % k)
        if vals[k] < 0:
            raise Inexpressible("rpyc.core.consts.%s is negative: %r" % (k, vals[k]))
    L.append("/-- the names of rpyc.core.consts the message-layout model mentions -/")
    for k in NEEDED:
        L.append("def %s : Nat := %d" % (camel(k), vals[k]))
    L.append("")
    grouped = set()
    for lean_name, prefix in GROUPS:
        items = sorted((vals[k], k) for k in names if k.startswith(prefix))
        grouped.update(k for _v, k in items)
        if any(v < 0 for v, _k in items):
            raise Inexpressible("a %s* constant is negative" % prefix)
        L.append("/-- every `%s*` name of rpyc.core.consts, by value -/" % prefix)
        L.append("def %s : List (String × Nat) := %s" % (
            lean_name, lean_list(["(%s, %d)" % (lean_str(k), v) for v, k in items], 4)))
    rest = sorted((vals[k], k) for k in names if k not in grouped)
    L.append("/-- every other public name of rpyc.core.consts -/")
    L.append("def others : List (String × Int) := %s" % lean_list(
        ["(%s, %s)" % (lean_str(k), "(%d)" % v if v < 0 else "%d" % v) for v, k in rest], 4))
    # handler table of the connection
    table = protocol.Connection._request_handlers()
    if not isinstance(table, dict) or not all(type(k) is int and k >= 0 and callable(f) for k, f in table.items()):
        raise Inexpressible("Connection._request_handlers() is not a dict of non-negative ints to callables")
    L += ["", "/-- `Connection._request_handlers()`: handler number -> name of the method that serves it -/",
          "def requestHandlers : List (Nat × String) := %s" % lean_list(
              ["(%d, %s)" % (k, lean_str(getattr(f, "__name__", "?"))) for k, f in sorted(table.items())], 4)]
    # channel
    C = channel.Channel
    thr, lvl, fl = C.COMPRESSION_THRESHOLD, C.COMPRESSION_LEVEL, C.FLUSHER
    if type(thr) is not int or thr < 0:
        raise Inexpressible("Channel.COMPRESSION_THRESHOLD is not a natural number: %r" % (thr,))
    if type(lvl) is not int or not (-1 <= lvl <= 9):
        raise Inexpressible("Channel.COMPRESSION_LEVEL is not a zlib level: %r" % (lvl,))
    if type(fl) is not bytes:
        raise Inexpressible("Channel.FLUSHER is not bytes: %r" % (fl,))
    fmt = C.FRAME_HEADER.format
    big, lw, fw = header_layout(fmt)
    if C.FRAME_HEADER.size != lw + fw:
        raise Inexpressible("Channel.FRAME_HEADER.size %r is not %d+%d" % (C.FRAME_HEADER.size, lw, fw))
    L += ["", "/-- `Channel.COMPRESSION_THRESHOLD`, `Channel.COMPRESSION_LEVEL` -/",
          "def compressionThreshold : Nat := %d" % thr,
          "def compressionLevel : Int := %s" % ("(%d)" % lvl if lvl < 0 else "%d" % lvl),
          "", "/-- layout of `Channel.FRAME_HEADER` (format %s): byte order and field widths -/" % (
              fmt.decode() if isinstance(fmt, bytes) else fmt),
          "def frameBigEndian : Bool := %s" % ("true" if big else "false"),
          "def frameLenWidth : Nat := %d" % lw,
          "def frameFlagWidth : Nat := %d" % fw,
          "def frameHeaderSize : Nat := %d" % C.FRAME_HEADER.size,
          "", "/-- `Channel.FLUSHER` -/",
          "def flusher : List Nat := " + lean_list([str(b) for b in fl], 16),
          "", "/-- is `zlib` importable (`Channel.__init__` forces `compress = False` otherwise) -/",
          "def zlibAvailable : Bool := %s" % ("true" if channel.zlib else "false")]
    L += ["", "end Rpyc.Gen.Consts", ""]
    return "\n".join(L)


SECTIONS = [("Consts.lean", gen_proto)]
