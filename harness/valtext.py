"""Python value <-> line-protocol text (see lean/Driver/Text.lean), and the canonical comparison form.

The text keeps exact types; a frozenset is written in the iteration order the implementation uses.
Anything brine does not handle is `O<k>` (k = a small class code, irrelevant to the model).
"""
import struct

SINGLETONS = {type(None): "N", type(NotImplemented): "X", type(Ellipsis): "E"}


_BIG = 10 ** 4000      # computed once: int -> text goes through str() below this bound

def other_code(v):
    t = type(v)
    for k, base in enumerate((list, dict, set, bytearray, int, str, bytes, tuple, frozenset, float, complex)):
        if t is base or issubclass(t, base):
            return k
    return 99


def to_text(v):
    out = []
    _to(v, out)
    return " ".join(out)


def _to(v, out):
    t = type(v)
    if t in SINGLETONS:
        out.append(SINGLETONS[t])
    elif t is bool:
        out.append("T" if v else "F")
    elif t is int:
        out.append("I%d" % v if abs(v) < _BIG else "I" + _bigstr(v))
    elif t is float:
        out.append("D" + struct.pack("!d", v).hex())
    elif t is complex:
        out.append("C" + struct.pack("!d", v.real).hex() + ":" + struct.pack("!d", v.imag).hex())
    elif t is bytes:
        out.append("B" + v.hex())
    elif t is str:
        out.append("S" + ",".join(str(ord(c)) for c in v))
    elif t is tuple:
        out.append("(")
        for x in v:
            _to(x, out)
        out.append(")")
    elif t is frozenset:
        out.append("{")
        for x in tuple(v):
            _to(x, out)
        out.append("}")
    elif t is slice:
        out.append("[")
        _to(v.start, out)
        _to(v.stop, out)
        _to(v.step, out)
        out.append("]")
    else:
        out.append("O%d" % other_code(v))


def _bigstr(v):
    """decimal text of an int beyond the interpreter's str() limit"""
    import sys
    old = sys.get_int_max_str_digits()
    sys.set_int_max_str_digits(0)
    try:
        return str(v)
    finally:
        sys.set_int_max_str_digits(old)


def _bigint(s):
    import sys
    old = sys.get_int_max_str_digits()
    sys.set_int_max_str_digits(0)
    try:
        return int(s)
    finally:
        sys.set_int_max_str_digits(old)


class Other:
    """stand-in when text mentions an O<k>"""
    def __init__(self, k):
        self.k = k


def from_text(text):
    toks = text.split()
    v, rest = _from(toks, 0)
    if rest != len(toks):
        raise ValueError("trailing tokens in %r" % text[:80])
    return v


def _from(toks, i):
    tok = toks[i]
    c = tok[0]
    if tok == "N":
        return None, i + 1
    if tok == "X":
        return NotImplemented, i + 1
    if tok == "E":
        return Ellipsis, i + 1
    if tok == "T":
        return True, i + 1
    if tok == "F":
        return False, i + 1
    if c == "I":
        return _bigint(tok[1:]), i + 1
    if c == "D":
        return struct.unpack("!d", bytes.fromhex(tok[1:]))[0], i + 1
    if c == "C":
        a, b = tok[1:].split(":")
        return complex(struct.unpack("!d", bytes.fromhex(a))[0], struct.unpack("!d", bytes.fromhex(b))[0]), i + 1
    if c == "B":
        return bytes.fromhex(tok[1:]), i + 1
    if c == "S":
        return ("".join(chr(int(x)) for x in tok[1:].split(",")) if len(tok) > 1 else ""), i + 1
    if c == "O":
        return Other(int(tok[1:])), i + 1
    if tok in ("(", "{", "["):
        close = {"(": ")", "{": "}", "[": "]"}[tok]
        items = []
        i += 1
        while toks[i] != close:
            x, i = _from(toks, i)
            items.append(x)
        if tok == "(":
            return tuple(items), i + 1
        if tok == "{":
            return frozenset(items), i + 1
        return slice(*items), i + 1
    raise ValueError("bad token %r" % tok)


def canon(v):
    """type-exact canonical text; frozenset members sorted by their canonical text; floats as bits"""
    t = type(v)
    if t in SINGLETONS:
        return SINGLETONS[t]
    if t is bool:
        return "T" if v else "F"
    if t is int:
        return "I" + (str(v) if abs(v) < _BIG else _bigstr(v))
    if t is float:
        return "D" + struct.pack("!d", v).hex()
    if t is complex:
        return "C" + struct.pack("!d", v.real).hex() + ":" + struct.pack("!d", v.imag).hex()
    if t is bytes:
        return "B" + v.hex()
    if t is str:
        return "S" + ",".join(str(ord(c)) for c in v)
    if t is tuple:
        return "( " + "".join(canon(x) + " " for x in v) + ")"
    if t is frozenset:
        return "{ " + "".join(x + " " for x in sorted(canon(x) for x in v)) + "}"
    if t is slice:
        return "[ %s %s %s ]" % (canon(v.start), canon(v.stop), canon(v.step))
    return "O:" + t.__name__


def err_name(ex):
    t = type(ex)
    if t.__module__ == "struct" or t.__name__ == "error" and "struct" in repr(t):
        return "struct.error"
    if t.__module__ == "zlib":
        return "zlib.error"
    return t.__name__
