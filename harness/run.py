#!/venv/bin/python
"""./check Cxx quick|thorough   |   ./check Cxx --replay <file>"""
import importlib
import json
import os
import sys

HERE = os.path.dirname(os.path.abspath(__file__))
REPO = os.environ.get("RPYC_REPO", "/repo")
sys.path.insert(0, HERE)
sys.path.insert(0, os.path.join(HERE, "props"))
sys.path.insert(0, REPO)
sys.setrecursionlimit(3000)


def _arm_watchdog(pid, tier):
    """A check that does not finish is an infrastructure failure (exit 2), never a silent hang: after the
    limit (quick 15 min, thorough 2 h; VERIF_WATCHDOG_S overrides) dump every thread's stack and exit 2."""
    import faulthandler
    import threading
    limit = float(os.environ.get("VERIF_WATCHDOG_S", "900" if tier == "quick" else "7200"))

    def fire():
        sys.stdout.flush()
        sys.stderr.write("INFRASTRUCTURE: watchdog: ./check %s %s exceeded %.0f s (exit 2, not a violation); thread stacks follow\n" % (pid, tier, limit))
        try:
            faulthandler.dump_traceback(file=sys.stderr, all_threads=True)
        finally:
            sys.stderr.flush()
            os._exit(2)
    t = threading.Timer(limit, fire)
    t.daemon = True
    t.start()


def main(argv):
    if len(argv) < 3:
        print(__doc__)
        return 2
    pid = argv[1].upper()
    try:
        prop = importlib.import_module("props." + pid.lower())
    except Exception:  # an unknown id, or the harness / the tree under test does not import: infrastructure
        import traceback
        traceback.print_exc()
        print("INFRASTRUCTURE: cannot load the check for %s (exit 2, not a violation)" % pid)
        return 2
    if argv[2] == "--replay":
        try:
            path = argv[3]
            with open(path if os.path.isabs(path) else os.path.join(HERE, "..", path)) as f:
                rep = json.load(f)
        except (IndexError, OSError, ValueError) as ex:
            print("INFRASTRUCTURE: cannot read the replay file: %r" % (ex,))
            return 2
        if "case" not in rep:
            print(json.dumps(rep, indent=1))
            return 0
        print(json.dumps(prop.replay(rep["case"]), indent=1, default=str))
        return 0
    tier = argv[2]
    if tier not in ("quick", "thorough"):
        print(__doc__)
        return 2
    os.environ.setdefault("VERIF_TIER", tier)
    try:
        seed = int(os.environ.get("VERIF_SEED", "1") or "1")
    except ValueError:
        print("INFRASTRUCTURE: VERIF_SEED must be an integer")
        return 2
    _arm_watchdog(pid, tier)
    import pipeline
    try:
        return pipeline.run_check(prop, tier, seed)
    except Exception:
        import traceback
        traceback.print_exc()
        print("INFRASTRUCTURE: check crashed (exit 2, not a violation)")
        return 2


if __name__ == "__main__":
    sys.exit(main(sys.argv))
