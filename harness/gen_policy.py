"""Generated constants of layer L4 (Policy): lean/RpycModel/Gen/Policy.lean.

Read from the LIVE objects of /repo's working tree (gen_consts.py has put it first on sys.path):

* `protocol.DEFAULT_CONFIG`: the seven attribute switches, `exposed_prefix`, `safe_attrs` (sorted; as
  strings and as code-point lists, which is what the model computes with), the other Boolean switches
  that `SlaveService.on_connect` touches, and EVERY key with its default rendered as text (for later layers).
* `SlaveService.on_connect`: what it writes into `conn._config`, observed by running it on a recording
  stand-in connection (not parsed), and whether `DEFAULT_CONFIG` is deep-equal before and after.
* which `_rpyc_*attr` hooks `Service` and the class made by `helpers.restricted` define.
* AST facts that are not data: every call site of `Connection._access_attr` with its
  (object expression, overrider, permission key, default accessor); which handlers delegate to
  `_handle_getattr`; the codec `_access_attr` decodes a bytes name with; how `Connection.__init__`
  builds `_config` (copy of the defaults, then update with the caller's dict).

Raises gen_consts.Inexpressible when the source no longer has a shape these definitions can express.
"""
import ast
import copy

import sys

import gen_consts
from gen_consts import lean_str, lean_list, func_ast

# gen_consts.py usually runs as __main__; raise ITS exception class so that it reports "inexpressible"
Inexpressible = getattr(sys.modules.get("__main__"), "Inexpressible", None) or gen_consts.Inexpressible

SWITCHES = [  # the seven attribute-related switches, in DEFAULT_CONFIG's order of the model's Config fields
    ("allow_safe_attrs", "AllowSafeAttrs"),
    ("allow_exposed_attrs", "AllowExposedAttrs"),
    ("allow_public_attrs", "AllowPublicAttrs"),
    ("allow_all_attrs", "AllowAllAttrs"),
    ("allow_getattr", "AllowGetattr"),
    ("allow_setattr", "AllowSetattr"),
    ("allow_delattr", "AllowDelattr"),
]
OTHER_BOOLS = [  # non-attribute switches SlaveService.on_connect also sets (part of "blanket permissions")
    ("allow_pickle", "AllowPickle"),
    ("import_custom_exceptions", "ImportCustomExceptions"),
    ("instantiate_custom_exceptions", "InstantiateCustomExceptions"),
    ("instantiate_oldstyle_exceptions", "InstantiateOldstyleExceptions"),
]
HOOKS = ("_rpyc_getattr", "_rpyc_setattr", "_rpyc_delattr")


def lean_bool(b):
    return "true" if b else "false"


def cps(s):
    return "[" + ", ".join(str(ord(c)) for c in s) + "]"


def render_default(v):
    """stable text of a default value (sets sorted; no addresses)"""
    if isinstance(v, (set, frozenset)):
        return "{" + ", ".join(repr(x) for x in sorted(v, key=repr)) + "}"
    if v is None or isinstance(v, (bool, int, float, str, bytes)):
        return repr(v)
    return "<%s>" % type(v).__name__


def _expr_text(node):
    try:
        return ast.unparse(node)
    except Exception:  # noqa
        return "?"


def access_sites(protocol):
    """[(method, obj-expr, name-expr, overrider, perm, default-accessor)] for every `self._access_attr(...)`
    call in class Connection, and [method] for every method calling `self._handle_getattr(...)`."""
    sites, delegates = [], []
    cls = protocol.Connection
    for mname, fn in sorted(vars(cls).items()):
        if isinstance(fn, (classmethod, staticmethod)):
            fn = fn.__func__
        if not callable(fn) or not hasattr(fn, "__code__"):
            continue
        node = func_ast(fn)
        for n in ast.walk(node):
            if isinstance(n, ast.Call) and isinstance(n.func, ast.Attribute) and isinstance(n.func.value, ast.Name) \
                    and n.func.value.id == "self":
                if n.func.attr == "_access_attr":
                    if n.keywords or len(n.args) != 6:
                        raise Inexpressible("%s: _access_attr called with %d args / keywords" % (mname, len(n.args)))
                    obj, name, _args, over, perm, dflt = n.args
                    if not (isinstance(over, ast.Constant) and isinstance(over.value, str)
                            and isinstance(perm, ast.Constant) and isinstance(perm.value, str)
                            and isinstance(dflt, ast.Name)):
                        raise Inexpressible("%s: _access_attr overrider/param/default are not literals" % mname)
                    sites.append((mname, _expr_text(obj), _expr_text(name), over.value, perm.value, dflt.id))
                elif n.func.attr == "_handle_getattr" and mname != "_handle_getattr":
                    delegates.append(mname)
    return sites, sorted(set(delegates))


def check_attr_reads(protocol):
    """config keys `_check_attr` reads by literal subscript (AST), plus whether it subscripts by `perm`"""
    node = func_ast(protocol.Connection._check_attr)
    keys, by_param = set(), False
    params = [a.arg for a in node.args.args]
    for n in ast.walk(node):
        if isinstance(n, ast.Subscript) and isinstance(n.value, ast.Name) and n.value.id == "config":
            s = n.slice
            if isinstance(s, ast.Constant) and isinstance(s.value, str):
                keys.add(s.value)
            elif isinstance(s, ast.Name) and s.id in params:
                by_param = True
            else:
                raise Inexpressible("_check_attr subscripts config with a computed key")
    return sorted(keys), by_param


def name_codec(protocol):
    """the encoding `_access_attr` passes to str(name, <enc>) for a bytes name (AST)"""
    node = func_ast(protocol.Connection._access_attr)
    found = []
    for n in ast.walk(node):
        if isinstance(n, ast.Call) and isinstance(n.func, ast.Name) and n.func.id == "str" and len(n.args) >= 2:
            enc = n.args[1]
            if not (isinstance(enc, ast.Constant) and isinstance(enc.value, str)):
                raise Inexpressible("_access_attr: non-constant codec")
            errs = n.args[2].value if len(n.args) > 2 and isinstance(n.args[2], ast.Constant) else "strict"
            for k in n.keywords:
                if k.arg == "errors" and isinstance(k.value, ast.Constant):
                    errs = k.value.value
            found.append((enc.value, errs))
        if isinstance(n, ast.Call) and isinstance(n.func, ast.Attribute) and n.func.attr == "decode":
            args = [a.value for a in n.args if isinstance(a, ast.Constant)]
            kws = {k.arg: k.value.value for k in n.keywords if isinstance(k.value, ast.Constant)}
            found.append((args[0] if args else kws.get("encoding", "utf-8"),
                          args[1] if len(args) > 1 else kws.get("errors", "strict")))
    if len(found) != 1:
        raise Inexpressible("_access_attr: expected exactly one decoding of a bytes name, found %d" % len(found))
    enc, errs = found[0]
    if enc.lower().replace("-", "").replace("_", "") != "utf8":
        raise Inexpressible("_access_attr decodes names with %r, not UTF-8" % (enc,))
    if errs != "strict":
        raise Inexpressible("_access_attr decodes names with error handler %r (only strict is modelled)" % (errs,))
    return enc, errs


def init_config_shape(protocol):
    """How Connection.__init__ builds self._config (AST): 'copy-then-update' is the only modelled shape:
    `self._config = DEFAULT_CONFIG.copy()` followed by `self._config.update(config)`."""
    node = func_ast(protocol.Connection.__init__)
    assigned = None
    updated = False
    for n in ast.walk(node):
        if isinstance(n, ast.Assign) and len(n.targets) == 1 and _expr_text(n.targets[0]) == "self._config":
            assigned = _expr_text(n.value)
        if isinstance(n, ast.Call) and _expr_text(n.func) == "self._config.update" and len(n.args) == 1 \
                and _expr_text(n.args[0]) == "config":
            updated = True
    return assigned or "?", updated


class _RecordingConn(object):
    """stand-in for a Connection: on_connect writes into ._config"""
    def __init__(self):
        self._config = {}


def slave_update(protocol, service):
    before = copy.deepcopy(protocol.DEFAULT_CONFIG)
    conn = _RecordingConn()
    svc = service.SlaveService()
    svc.on_connect(conn)
    unchanged = protocol.DEFAULT_CONFIG == before
    extra = sorted(k for k in vars(conn) if k != "_config")
    if extra:
        raise Inexpressible("SlaveService.on_connect sets attributes on the connection: %s" % extra)
    return dict(conn._config), unchanged


def hooks_of(cls):
    return [h for h in HOOKS if getattr(cls, h, None) is not None]


def raises_name(fn):
    try:
        fn()
    except BaseException as ex:  # noqa
        return type(ex).__name__
    return "returns"


def gen_policy():
    from rpyc.core import protocol, service
    from rpyc.utils import helpers
    cfg = protocol.DEFAULT_CONFIG
    if not isinstance(cfg, dict):
        raise Inexpressible("DEFAULT_CONFIG is not a dict")
    L = ["namespace Rpyc.Gen.Policy", ""]
    L.append("/-! ### `protocol.DEFAULT_CONFIG`: the seven attribute switches -/")
    for key, camel in SWITCHES + OTHER_BOOLS:
        if key not in cfg:
            raise Inexpressible("DEFAULT_CONFIG has no key %r" % key)
        if type(cfg[key]) is not bool:
            raise Inexpressible("DEFAULT_CONFIG[%r] = %r is not a bool" % (key, cfg[key]))
        L.append("def cfg%s : Bool := %s" % (camel, lean_bool(cfg[key])))
    pfx = cfg.get("exposed_prefix")
    if type(pfx) is not str:
        raise Inexpressible("DEFAULT_CONFIG['exposed_prefix'] = %r is not a str" % (pfx,))
    safe = cfg.get("safe_attrs")
    if not isinstance(safe, (set, frozenset, list, tuple)) or not all(type(s) is str for s in safe):
        raise Inexpressible("DEFAULT_CONFIG['safe_attrs'] is not a collection of str")
    safe_sorted = sorted(set(safe))
    L += ["", "/-- `exposed_prefix` as text and as code points (the model computes with code points) -/",
          "def cfgExposedPrefix : String := %s" % lean_str(pfx),
          "def cfgExposedPrefixCp : List Nat := %s" % cps(pfx),
          "", "/-- `safe_attrs`, sorted -/",
          "def cfgSafeAttrs : List String := " + lean_list([lean_str(s) for s in safe_sorted], 6),
          "def cfgSafeAttrsCp : List (List Nat) := " + lean_list([cps(s) for s in safe_sorted], 1),
          "def cfgSafeAttrsCount : Nat := %d" % len(safe_sorted)]
    L += ["", "/-- every key of DEFAULT_CONFIG with its default rendered as text (sets sorted) -/",
          "def defaultConfig : List (String × String) := " + lean_list(
              ["(%s, %s)" % (lean_str(k), lean_str(render_default(v))) for k, v in sorted(cfg.items())], 1),
          "def defaultConfigKeys : List String := " + lean_list([lean_str(k) for k in sorted(cfg)], 5)]
    # which keys _check_attr consults
    keys, by_param = check_attr_reads(protocol)
    L += ["", "/-- config keys `_check_attr` reads by literal subscript, and whether it also reads `config[perm]` (AST) -/",
          "def checkAttrReads : List String := " + lean_list([lean_str(k) for k in keys], 5),
          "def checkAttrReadsPerm : Bool := %s" % lean_bool(by_param)]
    # _access_attr call sites
    sites, delegates = access_sites(protocol)
    L += ["", "/-- every `self._access_attr(obj, name, args, overrider, perm, default)` call in class Connection (AST):",
          "(method, object expression, name expression, overrider, perm key, default accessor) -/",
          "def accessSites : List (String × String × String × String × String × String) := " + lean_list(
              ["(%s)" % ", ".join(lean_str(x) for x in s) for s in sites], 1),
          "/-- handlers that obtain an attribute by calling `self._handle_getattr` (AST) -/",
          "def getattrDelegates : List String := " + lean_list([lean_str(d) for d in delegates], 5)]
    enc, errs = name_codec(protocol)
    L += ["", "/-- `_access_attr` decodes a bytes name with this codec / error handler (AST; checked to be UTF-8, strict) -/",
          "def nameCodec : String := %s" % lean_str(enc), "def nameCodecErrors : String := %s" % lean_str(errs)]
    assigned, updated = init_config_shape(protocol)
    L += ["", "/-- `Connection.__init__`: what `self._config` is assigned, and whether `self._config.update(config)` follows (AST) -/",
          "def initConfigAssigned : String := %s" % lean_str(assigned),
          "def initConfigUpdatedWithArg : Bool := %s" % lean_bool(updated)]
    # SlaveService.on_connect
    upd, unchanged = slave_update(protocol, service)
    known = dict(SWITCHES + OTHER_BOOLS)
    for k, v in upd.items():
        if k not in known:
            raise Inexpressible("SlaveService.on_connect sets config key %r, which the model's Config does not carry" % k)
        if type(v) is not bool:
            raise Inexpressible("SlaveService.on_connect sets %r to %r (not a bool)" % (k, v))
    L += ["", "/-! ### `SlaveService.on_connect`: what it writes into that connection's `_config` (observed on a recording",
          "stand-in connection); `none` = key left alone -/"]
    for key, camel in SWITCHES + OTHER_BOOLS:
        L.append("def slaveSet%s : Option Bool := %s" % (
            camel, ("some " + lean_bool(upd[key])) if key in upd else "none"))
    L += ["def slaveUpdate : List (String × Bool) := " + lean_list(
              ["(%s, %s)" % (lean_str(k), lean_bool(v)) for k, v in sorted(upd.items())], 3),
          "/-- DEFAULT_CONFIG compared deep-equal before/after running on_connect -/",
          "def slaveLeavesDefaultsAlone : Bool := %s" % lean_bool(unchanged)]
    # hooks
    class _T(object):
        pass
    view_cls = type(helpers.restricted(_T(), ["a"], ["b"]))
    void = service.VoidService()
    L += ["", "/-! ### type-level attribute hooks -/",
          "def serviceHooks : List String := " + lean_list([lean_str(h) for h in hooks_of(service.Service)]),
          "def slaveServiceHooks : List String := " + lean_list([lean_str(h) for h in hooks_of(service.SlaveService)]),
          "def restrictedHooks : List String := " + lean_list([lean_str(h) for h in hooks_of(view_cls)]),
          "/-- what `Service._rpyc_setattr` / `_rpyc_delattr` do when called (observed) -/",
          "def serviceSetattrOutcome : String := %s" % lean_str(
              raises_name(lambda: service.Service._rpyc_setattr(void, "x", 1)) if "_rpyc_setattr" in hooks_of(service.Service) else "absent"),
          "def serviceDelattrOutcome : String := %s" % lean_str(
              raises_name(lambda: service.Service._rpyc_delattr(void, "x")) if "_rpyc_delattr" in hooks_of(service.Service) else "absent"),
          "def serviceHasGetHook : Bool := %s" % lean_bool("_rpyc_getattr" in hooks_of(service.Service)),
          "def serviceSetHookDenies : Bool := %s" % lean_bool(
              "_rpyc_setattr" in hooks_of(service.Service)
              and raises_name(lambda: service.Service._rpyc_setattr(void, "x", 1)) == "AttributeError"),
          "def serviceDelHookDenies : Bool := %s" % lean_bool(
              "_rpyc_delattr" in hooks_of(service.Service)
              and raises_name(lambda: service.Service._rpyc_delattr(void, "x")) == "AttributeError"),
          "def restrictedHasGetHook : Bool := %s" % lean_bool("_rpyc_getattr" in hooks_of(view_cls)),
          "def restrictedHasSetHook : Bool := %s" % lean_bool("_rpyc_setattr" in hooks_of(view_cls)),
          "def restrictedHasDelHook : Bool := %s" % lean_bool("_rpyc_delattr" in hooks_of(view_cls))]
    L += ["", "end Rpyc.Gen.Policy", ""]
    return "\n".join(L)


SECTIONS = [("Policy.lean", gen_policy)]
