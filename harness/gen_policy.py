"""Generated constants of layer L4 (Policy): lean/RpycModel/Gen/Policy.lean.

Read from the LIVE objects of /repo's working tree (gen_consts.py has put it first on sys.path):

* `protocol.DEFAULT_CONFIG`: the seven attribute switches, `exposed_prefix`, `safe_attrs` (sorted; as
  strings and as code-point lists, which is what the model computes with), the other Boolean switches
  that `SlaveService.on_connect` touches, and EVERY key with its default rendered as text (for later layers).
* classic mode: what a connection established through `SlaveService._connect` ends up with, whatever the caller
  asked for (observed on the established connection, so WHERE the overrides are applied does not matter), and
  whether `DEFAULT_CONFIG` is deep-equal before and after.
* which `_rpyc_*attr` hooks `Service` and the class made by `helpers.restricted` define.
* OBSERVED behaviour (robust against harmless rewrites): which config keys `_check_attr` reads (recording dict);
  that `Connection.__init__` gives every connection its own copy of the defaults overlaid with the caller's dict
  and leaves `DEFAULT_CONFIG` and the caller's dict alone.
* AST facts that are not data: every call site of `Connection._access_attr` with its
  (object is `type(..)`?, overrider, permission key, default accessor); which handlers delegate to `_handle_getattr`.

Raises gen_consts.Inexpressible when the source no longer has a shape these definitions can express.
"""
import ast
import copy

import sys

import gen_consts
from gen_consts import lean_str, lean_list, func_ast

# gen_consts.py usually runs as __main__; raise ITS exception class so that it reports "inexpressible"
Inexpressible = getattr(sys.modules.get("__main__"), "Inexpressible", None) or gen_consts.Inexpressible

SWITCHES = [  # the seven attribute-related switches, in DEFAULT_CONFIG's order of the model's Config fields
    ("allow_safe_attrs", "AllowSafeAttrs"),
    ("allow_exposed_attrs", "AllowExposedAttrs"),
    ("allow_public_attrs", "AllowPublicAttrs"),
    ("allow_all_attrs", "AllowAllAttrs"),
    ("allow_getattr", "AllowGetattr"),
    ("allow_setattr", "AllowSetattr"),
    ("allow_delattr", "AllowDelattr"),
]
OTHER_BOOLS = [  # non-attribute switches SlaveService.on_connect also sets (part of "blanket permissions")
    ("allow_pickle", "AllowPickle"),
    ("import_custom_exceptions", "ImportCustomExceptions"),
    ("instantiate_custom_exceptions", "InstantiateCustomExceptions"),
    ("instantiate_oldstyle_exceptions", "InstantiateOldstyleExceptions"),
]
HOOKS = ("_rpyc_getattr", "_rpyc_setattr", "_rpyc_delattr")


def lean_bool(b):
    return "true" if b else "false"


def cps(s):
    return "[" + ", ".join(str(ord(c)) for c in s) + "]"


def render_default(v):
    """stable text of a default value (sets sorted; no addresses)"""
    if isinstance(v, (set, frozenset)):
        return "{" + ", ".join(repr(x) for x in sorted(v, key=repr)) + "}"
    if v is None or isinstance(v, (bool, int, float, str, bytes)):
        return repr(v)
    return "<%s>" % type(v).__name__


def access_sites(protocol):
    """[(method, object-is-`type(..)`, overrider, perm, default-accessor)] for every `self._access_attr(...)` call in
    class Connection, and [method] for every method calling `self._handle_getattr(...)`.  Variable names are not
    recorded (renaming a local is harmless)."""
    sites, delegates = [], []
    cls = protocol.Connection
    for mname, fn in sorted(vars(cls).items()):
        if isinstance(fn, (classmethod, staticmethod)):
            fn = fn.__func__
        if not callable(fn) or not hasattr(fn, "__code__"):
            continue
        node = func_ast(fn)
        for n in ast.walk(node):
            if isinstance(n, ast.Call) and isinstance(n.func, ast.Attribute) and isinstance(n.func.value, ast.Name) \
                    and n.func.value.id == "self":
                if n.func.attr == "_access_attr":
                    args = list(n.args)
                    kw = dict((k.arg, k.value) for k in n.keywords)
                    names = ["obj", "name", "args", "overrider", "param", "default"]
                    for i, a in enumerate(args):
                        kw[names[i]] = a
                    if sorted(kw) != sorted(names):
                        raise Inexpressible("%s: _access_attr called with unexpected arguments" % mname)
                    over, perm, dflt, obj = kw["overrider"], kw["param"], kw["default"], kw["obj"]
                    if not (isinstance(over, ast.Constant) and isinstance(over.value, str)
                            and isinstance(perm, ast.Constant) and isinstance(perm.value, str)
                            and isinstance(dflt, ast.Name)):
                        raise Inexpressible("%s: _access_attr overrider/param/default are not literals" % mname)
                    is_type = isinstance(obj, ast.Call) and isinstance(obj.func, ast.Name) and obj.func.id == "type"
                    sites.append((mname, is_type, over.value, perm.value, dflt.id))
                elif n.func.attr == "_handle_getattr" and mname != "_handle_getattr":
                    delegates.append(mname)
    return sorted(set(sites)), sorted(set(delegates))


class _RecordingDict(dict):
    """a config dict that records which keys are read"""
    def __init__(self, *a, **k):
        dict.__init__(self, *a, **k)
        self.read = set()

    def __getitem__(self, k):
        self.read.add(k)
        return dict.__getitem__(self, k)

    def get(self, k, d=None):
        self.read.add(k)
        return dict.get(self, k, d)

    def __contains__(self, k):
        self.read.add(k)
        return dict.__contains__(self, k)


class _NullChannel(object):
    def send(self, data):
        pass

    def close(self):
        pass

    def fileno(self):
        return -1


class _Probe(object):
    exposed_foo = 1
    foo = 2


def check_attr_reads(protocol, service):
    """config keys `_check_attr` reads, OBSERVED by running it over all 16 settings of the four name switches x
    sample names x the three permission keys on a connection whose `_config` records reads"""
    conn = protocol.Connection(service.VoidService(), _NullChannel(), {})
    keys = set()
    try:
        for m in range(16):
            cfg = _RecordingDict(conn._config)
            cfg.update(allow_safe_attrs=bool(m & 1), allow_exposed_attrs=bool(m & 2), allow_public_attrs=bool(m & 4),
                       allow_all_attrs=bool(m & 8), allow_getattr=True, allow_setattr=True, allow_delattr=True)
            conn._config = cfg
            for prefix in ("exposed_", "", "x"):
                cfg["exposed_prefix"] = prefix
                for obj in (_Probe(), object()):          # with and without the name / the twin
                    for perm in ("allow_getattr", "allow_setattr", "allow_delattr"):
                        for name in ("foo", "_x", "exposed_foo", "__eq__", "bar", "xfoo"):
                            try:
                                conn._check_attr(obj, name, perm)
                            except AttributeError:
                                pass
            keys |= cfg.read
    finally:
        conn.close()
    return sorted(keys)


def init_behaviour(protocol, service):
    """what `Connection.__init__` does with the defaults and the caller's dict, OBSERVED:
    (own copy not aliasing DEFAULT_CONFIG, equal to defaults when no config is given (connid aside),
     caller's keys overlaid, DEFAULT_CONFIG and the caller's dict left deep-equal)"""
    before = copy.deepcopy(protocol.DEFAULT_CONFIG)
    c1 = protocol.Connection(service.VoidService(), _NullChannel(), {})
    arg = dict(allow_all_attrs=not before["allow_all_attrs"], exposed_prefix="zz_")
    arg_before = dict(arg)
    c2 = protocol.Connection(service.VoidService(), _NullChannel(), arg)
    try:
        own_copy = c1._config is not protocol.DEFAULT_CONFIG and c2._config is not protocol.DEFAULT_CONFIG \
            and c1._config is not c2._config
        d1 = dict(c1._config)
        d1.pop("connid", None)
        b = dict(before)
        b.pop("connid", None)
        equals_defaults = d1 == b
        d2 = dict(c2._config)
        overlaid = all(d2[k] == v for k, v in arg.items()) and all(
            d2[k] == before[k] for k in before if k not in arg and k != "connid")
        untouched = protocol.DEFAULT_CONFIG == before and arg == arg_before
        # the copy is a SNAPSHOT: editing the caller's dict or DEFAULT_CONFIG afterwards must not show through
        snap1 = dict((k, c1._config[k]) for k in before)
        snap2 = dict((k, c2._config[k]) for k in before)
        try:
            arg["allow_all_attrs"] = not arg["allow_all_attrs"]
            arg["exposed_prefix"] = "edited_"
            arg["allow_public_attrs"] = not before["allow_public_attrs"]
            for k in ("allow_public_attrs", "allow_setattr", "allow_delattr", "allow_safe_attrs"):
                protocol.DEFAULT_CONFIG[k] = not before[k]
            protocol.DEFAULT_CONFIG["exposed_prefix"] = "changed_"
            frozen = all(c1._config[k] == snap1[k] for k in before) and all(c2._config[k] == snap2[k] for k in before)
        finally:
            protocol.DEFAULT_CONFIG.clear()
            protocol.DEFAULT_CONFIG.update(before)
    finally:
        c1.close()
        c2.close()
    # which construction the heap model should use (Policy/Model.lean `InitMode`)
    probe_arg = dict(allow_public_attrs=not before["allow_public_attrs"])
    c3 = protocol.Connection(service.VoidService(), _NullChannel(), probe_arg)
    try:
        if c3._config is protocol.DEFAULT_CONFIG:
            mode = 1
        elif c3._config is probe_arg:
            mode = 2
        elif not frozen:
            mode = 3
        else:
            mode = 0
    finally:
        c3.close()
        if protocol.DEFAULT_CONFIG != before:
            protocol.DEFAULT_CONFIG.clear()
            protocol.DEFAULT_CONFIG.update(before)
    return own_copy, equals_defaults, overlaid, untouched, frozen, mode


def shares_safe_set(protocol, service):
    c = protocol.Connection(service.VoidService(), _NullChannel(), {})
    try:
        return c._config["safe_attrs"] is protocol.DEFAULT_CONFIG["safe_attrs"]
    finally:
        c.close()


def servers_own_dict(service):
    """two servers constructed without a protocol_config hold DISTINCT dict objects, an edit of the one's does not show
    in the other's, and a server constructed later is not affected either (observed on real ThreadedServers)"""
    from rpyc.utils.server import ThreadedServer
    made = []
    try:
        a = ThreadedServer(service.VoidService, hostname="127.0.0.1", port=0, auto_register=False)
        made.append(a)
        b = ThreadedServer(service.VoidService, hostname="127.0.0.1", port=0, auto_register=False)
        made.append(b)
        distinct = a.protocol_config is not b.protocol_config
        a.protocol_config["allow_public_attrs"] = True
        a.protocol_config.update(allow_setattr=True)
        leak_b = "allow_public_attrs" in b.protocol_config or "allow_setattr" in b.protocol_config
        c = ThreadedServer(service.VoidService, hostname="127.0.0.1", port=0, auto_register=False)
        made.append(c)
        leak_c = "allow_public_attrs" in c.protocol_config or "allow_setattr" in c.protocol_config
        given = {"allow_public_attrs": False}
        d = ThreadedServer(service.VoidService, hostname="127.0.0.1", port=0, auto_register=False, protocol_config=given)
        made.append(d)
        keeps_given = d.protocol_config is given
        # every per-client path builds a PRIVATE dict from protocol_config: ThreadedServer._serve_client and
        # ThreadPoolServer._authenticate_and_build_connection (a separate copy of that code)
        per_client_private = _per_client_dicts_private(service, given)
    finally:
        for srv in made[:3]:
            srv.protocol_config.pop("allow_public_attrs", None)      # undo the probe edits (matters only if shared)
            srv.protocol_config.pop("allow_setattr", None)
        for srv in made:
            try:
                srv.listener.close()
            except Exception:  # noqa
                pass
    return (distinct and not leak_b and not leak_c), keeps_given, per_client_private


def _per_client_dicts_private(service, given):
    """connections made by ThreadedServer._serve_client and by ThreadPoolServer._authenticate_and_build_connection
    from one protocol_config: each has its own `_config`, equal in the modelled keys to defaults + protocol_config,
    and a later in-place edit of protocol_config does not show in them"""
    import socket
    from rpyc.utils.server import ThreadedServer, ThreadPoolServer
    got, socks, servers, ok = [], [], [], True

    class Capturing(ThreadedServer):
        def _handle_connection(self, conn):
            got.append(conn)
    try:
        cfg = dict(given)
        ts = Capturing(service.VoidService, hostname="127.0.0.1", port=0, auto_register=False, protocol_config=cfg)
        servers.append(ts)
        a, b = socket.socketpair()
        socks += [a, b]
        ts._serve_client(a, None)
        tp = ThreadPoolServer(service.VoidService, hostname="127.0.0.1", port=0, auto_register=False,
                              protocol_config=cfg, nbThreads=1)
        servers.append(tp)
        c, d = socket.socketpair()
        socks += [c, d]
        _sock, conn2 = tp._authenticate_and_build_connection(c)
        got.append(conn2)
        cfg["allow_all_attrs"] = True
        for conn in got:
            if conn._config is cfg or conn._config["allow_all_attrs"] is not False \
                    or conn._config["allow_public_attrs"] is not given["allow_public_attrs"]:
                ok = False
        if got[0]._config is got[1]._config:
            ok = False
    finally:
        for conn in got:
            try:
                conn.close()
            except Exception:  # noqa
                pass
        for srv in servers:
            try:
                srv.close()
            except Exception:  # noqa
                pass
        for sk in socks:
            try:
                sk.close()
            except Exception:  # noqa
                pass
    return ok


def cmp_respects_object_hook(protocol, service):
    asked = []

    class Refuses(object):
        def _rpyc_getattr(self, name):
            asked.append(name)
            raise AttributeError("refused by the object's own hook")

        def __getitem__(self, k):
            return "reached"
    conn = protocol.Connection(service.VoidService(), _NullChannel(), {})
    try:
        try:
            conn._handle_cmp(Refuses(), "k", "__getitem__")
            reached = True
        except AttributeError:
            reached = False
    finally:
        conn.close()
    return (not reached) and asked == ["__getitem__"]


def classic_grows_caller_safe_set(protocol, service):
    mine = set(["only_mine"])
    conn = service.SlaveService._connect(_NullChannel(), {"safe_attrs": mine})
    try:
        return mine != set(["only_mine"])
    finally:
        conn.close()


def classic_aliasing(protocol, service):
    """does a classic-mode connect write into the dict object the caller passed, and does it grow the shared default
    `safe_attrs` set object in place (observed)"""
    before = copy.deepcopy(protocol.DEFAULT_CONFIG)
    arg = dict(allow_public_attrs=True, sync_request_timeout=17)
    arg_before = dict(arg)
    added = []
    try:
        conn = service.SlaveService._connect(_NullChannel(), arg)
        try:
            writes_arg = arg != arg_before
            added = sorted(set(protocol.DEFAULT_CONFIG["safe_attrs"]) - set(before["safe_attrs"]))
        finally:
            conn.close()
    finally:
        s = protocol.DEFAULT_CONFIG.get("safe_attrs")
        if isinstance(s, set):
            for n in added:
                s.discard(n)
        if protocol.DEFAULT_CONFIG != before:
            protocol.DEFAULT_CONFIG.clear()
            protocol.DEFAULT_CONFIG.update(before)
    return writes_arg, added


def slave_update(protocol, service):
    """What a classic-mode connect grants itself, OBSERVED on the established connection (so it does not matter
    whether `SlaveService` applies it inside `on_connect` or `_connect` merges it before the Connection is built):
    `SlaveService._connect(channel, cfg)` is run with every modelled Boolean key given as False and again as True;
    a key that ends up with the same value both times is SET to it by classic mode, a key that follows the caller
    is left alone.  Also: DEFAULT_CONFIG deep-equal before/after, prefix and safe list left as the caller gave them."""
    before = copy.deepcopy(protocol.DEFAULT_CONFIG)
    keys = [k for k, _c in SWITCHES + OTHER_BOOLS]

    def established(svc, value):
        cfg = dict((k, value) for k in keys)
        cfg["exposed_prefix"] = "pfx%s_" % value
        cfg["safe_attrs"] = set(["only_%s" % value])
        conn = svc._connect(_NullChannel(), cfg)
        try:
            return dict((k, conn._config[k]) for k in keys + ["exposed_prefix", "safe_attrs"])
        finally:
            conn.close()
    try:
        r_f, r_t = established(service.SlaveService, False), established(service.SlaveService, True)
        v_f, v_t = established(service.VoidService, False), established(service.VoidService, True)
        unchanged = protocol.DEFAULT_CONFIG == before
    finally:
        if protocol.DEFAULT_CONFIG != before:          # do not let a leaking connect distort the other constants
            protocol.DEFAULT_CONFIG.clear()
            protocol.DEFAULT_CONFIG.update(before)
    upd = {}
    for k in keys:
        if (v_f[k], v_t[k]) != (False, True):
            raise Inexpressible("a plain service's connection does not keep the caller's %r" % k)
        if type(r_f[k]) is not bool or type(r_t[k]) is not bool:
            raise Inexpressible("classic mode leaves %r non-Boolean" % k)
        if r_f[k] == r_t[k]:
            upd[k] = r_f[k]
        elif (r_f[k], r_t[k]) != (False, True):
            raise Inexpressible("classic mode inverts the caller's %r" % k)
    for r, value in ((r_f, False), (r_t, True)):
        if r["exposed_prefix"] != "pfx%s_" % value or r["safe_attrs"] != set(["only_%s" % value]):
            raise Inexpressible("classic mode changes exposed_prefix / safe_attrs (not carried by the model's update)")
    return upd, unchanged


def hooks_of(cls):
    return [h for h in HOOKS if getattr(cls, h, None) is not None]


def raises_name(fn):
    try:
        fn()
    except BaseException as ex:  # noqa
        return type(ex).__name__
    return "returns"


def gen_policy():
    from rpyc.core import protocol, service
    from rpyc.utils import helpers
    cfg = protocol.DEFAULT_CONFIG
    if not isinstance(cfg, dict):
        raise Inexpressible("DEFAULT_CONFIG is not a dict")
    L = ["namespace Rpyc.Gen.Policy", ""]
    L.append("/-! ### `protocol.DEFAULT_CONFIG`: the seven attribute switches -/")
    for key, camel in SWITCHES + OTHER_BOOLS:
        if key not in cfg:
            raise Inexpressible("DEFAULT_CONFIG has no key %r" % key)
        if type(cfg[key]) is not bool:
            raise Inexpressible("DEFAULT_CONFIG[%r] = %r is not a bool" % (key, cfg[key]))
        L.append("def cfg%s : Bool := %s" % (camel, lean_bool(cfg[key])))
    pfx = cfg.get("exposed_prefix")
    if type(pfx) is not str:
        raise Inexpressible("DEFAULT_CONFIG['exposed_prefix'] = %r is not a str" % (pfx,))
    safe = cfg.get("safe_attrs")
    if not isinstance(safe, (set, frozenset, list, tuple)) or not all(type(s) is str for s in safe):
        raise Inexpressible("DEFAULT_CONFIG['safe_attrs'] is not a collection of str")
    safe_sorted = sorted(set(safe))
    L += ["", "/-- `exposed_prefix` as text and as code points (the model computes with code points) -/",
          "def cfgExposedPrefix : String := %s" % lean_str(pfx),
          "def cfgExposedPrefixCp : List Nat := %s" % cps(pfx),
          "", "/-- `safe_attrs`, sorted -/",
          "def cfgSafeAttrs : List String := " + lean_list([lean_str(s) for s in safe_sorted], 6),
          "def cfgSafeAttrsCp : List (List Nat) := " + lean_list([cps(s) for s in safe_sorted], 1),
          "def cfgSafeAttrsCount : Nat := %d" % len(safe_sorted)]
    L += ["", "/-- every key of DEFAULT_CONFIG with its default rendered as text (sets sorted) -/",
          "def defaultConfig : List (String × String) := " + lean_list(
              ["(%s, %s)" % (lean_str(k), lean_str(render_default(v))) for k, v in sorted(cfg.items())], 1),
          "def defaultConfigKeys : List String := " + lean_list([lean_str(k) for k in sorted(cfg)], 5)]
    # which keys _check_attr consults (observed)
    keys = check_attr_reads(protocol, service)
    L += ["", "/-- config keys `_check_attr` reads (observed with a recording dict over all settings of the name switches) -/",
          "def checkAttrReads : List String := " + lean_list([lean_str(k) for k in keys], 5)]
    # _access_attr call sites
    sites, delegates = access_sites(protocol)
    L += ["", "/-- every `self._access_attr(obj, name, args, overrider, perm, default)` call in class Connection (AST):",
          "(method, object is `type(..)`, overrider, perm key, default accessor) -/",
          "def accessSites : List (String × Bool × String × String × String) := " + lean_list(
              ["(%s, %s, %s, %s, %s)" % (lean_str(m), lean_bool(t), lean_str(o), lean_str(pk), lean_str(d))
               for m, t, o, pk, d in sites], 1),
          "/-- handlers that obtain an attribute by calling `self._handle_getattr` (AST) -/",
          "def getattrDelegates : List String := " + lean_list([lean_str(d) for d in delegates], 5)]
    own_copy, equals_defaults, overlaid, untouched, frozen, mode = init_behaviour(protocol, service)
    writes_arg, added = classic_aliasing(protocol, service)
    servers_own, keeps_given, per_client_private = servers_own_dict(service)
    cmp_respects = cmp_respects_object_hook(protocol, service)
    grows_caller_set = classic_grows_caller_safe_set(protocol, service)
    L += ["", "/-- `Connection.__init__`, observed: the connection's `_config` is its own dict (not DEFAULT_CONFIG, not shared),",
          "equals the defaults when no config is given, has the caller's keys overlaid, and neither DEFAULT_CONFIG nor the",
          "caller's dict is modified -/",
          "def initOwnCopy : Bool := %s" % lean_bool(own_copy),
          "def initEqualsDefaults : Bool := %s" % lean_bool(equals_defaults),
          "def initOverlaysArg : Bool := %s" % lean_bool(overlaid),
          "def initLeavesInputsAlone : Bool := %s" % lean_bool(untouched),
          "/-- ... and it is a snapshot: after the caller's dict and DEFAULT_CONFIG were edited (then restored), every key",
          "of both connections' `_config` still reads as it did right after construction -/",
          "def initSnapshotFrozen : Bool := %s" % lean_bool(frozen),
          "/-- which construction the heap model uses: 0 own copy (the default `safe_attrs` set object stays shared), 1 the",
          "DEFAULT_CONFIG object itself, 2 the caller's dict object itself, 3 a mapping that reads through to them -/",
          "def initModeCode : Nat := %d" % mode,
          "/-- a connection's `safe_attrs` IS the default set object when the caller gives none (shallow copy), observed -/",
          "def initSharesDefaultSafeSet : Bool := %s" % lean_bool(shares_safe_set(protocol, service)),
          "/-- classic mode, observed: does the connect write its overrides into the dict object the caller passed; which",
          "names does it add in place to the default `safe_attrs` set object -/",
          "def classicWritesCallerDict : Bool := %s" % lean_bool(writes_arg),
          "/-- servers constructed without a protocol_config hold dict objects of their own (two such servers: distinct",
          "objects, an in-place edit of one's does not show in the other's nor in a server constructed later); a server",
          "constructed WITH a dict keeps that very object (documented sharing) -- observed on real ThreadedServers -/",
          "def serversOwnDict : Bool := %s" % lean_bool(servers_own),
          "def serverKeepsGivenDict : Bool := %s" % lean_bool(keeps_given),
          "/-- both per-client paths (ThreadedServer._serve_client, ThreadPoolServer._authenticate_and_build_connection)",
          "connect with a private dict built from protocol_config: own `_config` per connection, later edits of",
          "protocol_config do not show -- observed -/",
          "def serverPerClientDictPrivate : Bool := %s" % lean_bool(per_client_private),
          "/-- a classic connect given the caller's own `safe_attrs` set leaves that set object as it was (observed) -/",
          "def classicGrowsCallerSafeSet : Bool := %s" % lean_bool(grows_caller_set),
          "/-- `_handle_cmp` lets an object's OWN `_rpyc_getattr` hook decide (observed: a class whose hook refuses every",
          "name is asked, and refuses, for HANDLE_CMP with a safe-listed operator under the default configuration) -/",
          "def cmpRespectsObjectHook : Bool := %s" % lean_bool(cmp_respects),
          "def classicAddsToSafeCp : List (List Nat) := [%s]" % ", ".join(cps(n) for n in added)]
    # SlaveService.on_connect
    upd, unchanged = slave_update(protocol, service)
    known = dict(SWITCHES + OTHER_BOOLS)
    for k, v in upd.items():
        if k not in known:
            raise Inexpressible("SlaveService.on_connect sets config key %r, which the model's Config does not carry" % k)
        if type(v) is not bool:
            raise Inexpressible("SlaveService.on_connect sets %r to %r (not a bool)" % (k, v))
    L += ["", "/-! ### classic mode: what a connection established by `SlaveService._connect` has whatever the caller asked",
          "(observed on the established connection); `none` = key follows the caller -/"]
    for key, camel in SWITCHES + OTHER_BOOLS:
        L.append("def slaveSet%s : Option Bool := %s" % (
            camel, ("some " + lean_bool(upd[key])) if key in upd else "none"))
    L += ["/-- DEFAULT_CONFIG compared deep-equal before/after a classic connect -/",
          "def slaveLeavesDefaultsAlone : Bool := %s" % lean_bool(unchanged)]
    # hooks
    class _T(object):
        pass
    view_cls = type(helpers.restricted(_T(), ["a"], ["b"]))
    void = service.VoidService()
    L += ["", "/-! ### type-level attribute hooks -/",
          "/-- what `Service._rpyc_setattr` / `_rpyc_delattr` do when called (observed) -/",
          "def serviceSetattrOutcome : String := %s" % lean_str(
              raises_name(lambda: service.Service._rpyc_setattr(void, "x", 1)) if "_rpyc_setattr" in hooks_of(service.Service) else "absent"),
          "def serviceDelattrOutcome : String := %s" % lean_str(
              raises_name(lambda: service.Service._rpyc_delattr(void, "x")) if "_rpyc_delattr" in hooks_of(service.Service) else "absent"),
          "def serviceHasGetHook : Bool := %s" % lean_bool("_rpyc_getattr" in hooks_of(service.Service)),
          "def serviceSetHookDenies : Bool := %s" % lean_bool(
              "_rpyc_setattr" in hooks_of(service.Service)
              and raises_name(lambda: service.Service._rpyc_setattr(void, "x", 1)) == "AttributeError"),
          "def serviceDelHookDenies : Bool := %s" % lean_bool(
              "_rpyc_delattr" in hooks_of(service.Service)
              and raises_name(lambda: service.Service._rpyc_delattr(void, "x")) == "AttributeError"),
          "def restrictedHasGetHook : Bool := %s" % lean_bool("_rpyc_getattr" in hooks_of(view_cls)),
          "def restrictedHasSetHook : Bool := %s" % lean_bool("_rpyc_setattr" in hooks_of(view_cls)),
          "def restrictedHasDelHook : Bool := %s" % lean_bool("_rpyc_delattr" in hooks_of(view_cls))]
    L += ["", "end Rpyc.Gen.Policy", ""]
    return "\n".join(L)


SECTIONS = [("Policy.lean", gen_policy)]
