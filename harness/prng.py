"""splitmix64: every random choice of every generator derives from one state, so runs replay exactly."""
MASK = (1 << 64) - 1


class Rng:
    def __init__(self, seed):
        self.s = (seed * 0x9E3779B97F4A7C15 + 0x1234567) & MASK

    def next(self):
        self.s = (self.s + 0x9E3779B97F4A7C15) & MASK
        z = self.s
        z = ((z ^ (z >> 30)) * 0xBF58476D1CE4E5B9) & MASK
        z = ((z ^ (z >> 27)) * 0x94D049BB133111EB) & MASK
        return z ^ (z >> 31)

    def below(self, n):
        return self.next() % n if n > 0 else 0

    def range(self, lo, hi):
        """lo <= x <= hi"""
        return lo + self.below(hi - lo + 1)

    def choice(self, seq):
        return seq[self.below(len(seq))]

    def chance(self, num, den):
        return self.below(den) < num

    def bytes(self, n):
        out = bytearray()
        while len(out) < n:
            out += self.next().to_bytes(8, "big")
        return bytes(out[:n])

    def shuffle(self, lst):
        for i in range(len(lst) - 1, 0, -1):
            j = self.below(i + 1)
            lst[i], lst[j] = lst[j], lst[i]
        return lst

    def fork(self, tag):
        return Rng(self.next() ^ (hash_str(tag) & MASK))


def hash_str(s):
    h = 0xcbf29ce484222325
    for ch in s.encode():
        h = ((h ^ ch) * 0x100000001b3) & MASK
    return h
